#!/usr/bin/env python3
"""usage: tools_seedstore.py <agent out dir> <id> <detected: yes|no|after-strengthening> <note>
copies /tmp/mut-X-out/<id>/ to /verif/seeded/<id>/ and extends meta.json"""
import json, os, shutil, sys
src, sid, det, note = sys.argv[1], sys.argv[2], sys.argv[3], sys.argv[4]
d = os.path.join("/verif/seeded", sid)
os.makedirs(d, exist_ok=True)
for f in os.listdir(os.path.join(src, sid)):
    shutil.copy(os.path.join(src, sid, f), os.path.join(d, f))
m = json.load(open(os.path.join(d, "meta.json")))
m["confirmed_by_coordinator"] = "tools_seedconfirm.sh: demo passes without the patch; with it go build ./... and the pinned tests (+ the demo's package) pass and the demo fails"
m["detected"] = det
m["detected_by"] = note
json.dump(m, open(os.path.join(d, "meta.json"), "w"), indent=1)
print("stored", d)
