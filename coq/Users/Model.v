(* Users/Model.v — C31: the two user stores of internal/server/auth and permissions.go on top of them.
   Executable definitions only.  Strings are UTF-8 byte lists.

   Transliterated Go (tree after fix c4473c50; the pinned setPermission is kept as set_perm_user_old):
     users_file.go   fileService: in-memory map + dirty flag; NewFileService loads the JSON file or, when the
                     map is empty, creates the default user and marks the store dirty; Flush writes only when
                     dirty; Close = Flush.  The JSON file drops an empty permission list (omitempty): it comes
                     back nil ([persist]).
     users_sqldb.go  databaseService: table "credentials" keyed by name (C30's store, primary key = column 0 =
                     Name) + the short-term AuthCache in front of ReadUser; WriteUser = cache delete, ReadUser
                     (which caches a hit), Update or Insert, cache add (caches.Add: bounded, see cadd); DeleteUser = cache delete + Delete;
                     NewDatabaseService inserts the default user when IT is missing; Flush does nothing.
     permissions.go  setPermission / GetPermission / GetPermissions / findPermission through the service.
   A restart (reopen) is Close, a fresh process (empty AuthCache) and New...Service on the same path. *)
From Common Require Import Base.
From Coq Require Import String Ascii.
Open Scope N_scope.

Definition L (s : string) : str := List.map N_of_ascii (list_ascii_of_string s).

(* defs.User: name, permissions (None = nil slice), everything else (id, password hash, passkeys, last token time) *)
Record user := mkuser { uname : str; uperms : option (list str); urest : str }.

Definition amap := list user.     (* keyed by uname, first match wins *)

Fixpoint aget (m : amap) (n : str) : option user :=
  match m with
  | [] => None
  | u :: r => if str_eqb (uname u) n then Some u else aget r n
  end.
(* replace in place, else append (map assignment / UPDATE ... where name = / INSERT) *)
Fixpoint aput (m : amap) (u : user) : amap :=
  match m with
  | [] => [u]
  | x :: r => if str_eqb (uname x) (uname u) then u :: r else x :: aput r u
  end.
Fixpoint adel (m : amap) (n : str) : amap :=
  match m with
  | [] => []
  | x :: r => if str_eqb (uname x) n then adel r n else x :: adel r n
  end.

Definition lower (c : N) : N := if (65 <=? c) && (c <=? 90) then c + 32 else c.
Definition eqfold (a b : str) : bool := str_eqb (List.map lower a) (List.map lower b).

Definition perms_list (u : user) : list str := match uperms u with Some p => p | None => [] end.

(* findPermission: index of the first permission equal (EqualFold) to perm *)
Fixpoint find_perm (ps : list str) (perm : str) : option nat :=
  match ps with
  | [] => None
  | p :: r => if eqfold p perm then Some O else option_map S (find_perm r perm)
  end.
Fixpoint remove_at {A} (i : nat) (l : list A) : list A :=
  match l, i with
  | [], _ => []
  | _ :: r, O => r
  | x :: r, S j => x :: remove_at j r
  end.

Definition logon : str := L "logon".

Definition apply_perm (p0 : list str) (priv : str) (on : bool) : list str :=
  let pn := List.map lower priv in
  match find_perm p0 pn, on with
  | None, true => p0 ++ [pn]
  | Some i, false => remove_at i p0
  | _, _ => p0
  end.

(* the user record setPermission writes back (c4473c50: len(u.Permissions) == 0) *)
Definition set_perm_user (u : user) (priv : str) (on : bool) : user :=
  let p0 := match perms_list u with [] => [logon] | p => p end in
  mkuser (uname u) (Some (apply_perm p0 priv on)) (urest u).
(* pinned: u.Permissions == nil *)
Definition set_perm_user_old (u : user) (priv : str) (on : bool) : user :=
  let p0 := match uperms u with None => [logon] | Some p => p end in
  mkuser (uname u) (Some (apply_perm p0 priv on)) (urest u).

(* ---- operations and answers *)
Inductive op :=
| OWrite (u : user) | ODelete (n : str) | ORead (n : str) | OList | OPerms (n : str)
| OHasPriv (n priv : str) | OSetPerm (n priv : str) (on : bool)
| OFlush | OReopen | OCacheDrop.

(* answers are compared with nil and empty permission lists identified *)
Definition norm (u : user) : user := mkuser (uname u) (Some (perms_list u)) (urest u).
Inductive ans := AOk | AErr | AUser (u : option user) | AUsers (us : list user) | APerms (p : list str) | ABool (b : bool).

Definition default_user (admin : user) := admin.

(* ---- file store *)
Record fstate := mkf { fmem : amap; fdirty : bool; fdisk : option amap }.

(* what a user looks like after a trip through the JSON file *)
Definition persist (u : user) : user :=
  mkuser (uname u) (match uperms u with Some [] => None | p => p end) (urest u).

Section Stores.
  Variable admin : user.      (* the default user created by New...Service *)
  Variable old_perm : bool.   (* true = pinned setPermission *)
  Variable cap : nat.         (* caches.MaxSize of the AuthCache (ego.server.cache.maxsize, default 1000) *)

  Definition spu := if old_perm then set_perm_user_old else set_perm_user.

  Definition fopen (disk : option amap) : fstate :=
    match disk with
    | Some (x :: r) => mkf (x :: r) false disk
    | _ => mkf [admin] true disk
    end.
  Definition fflush (s : fstate) : fstate :=
    if fdirty s then mkf (fmem s) false (Some (List.map persist (fmem s))) else s.
  Definition fwrite (s : fstate) (u : user) : fstate := mkf (aput (fmem s) u) true (fdisk s).

  Definition fstep (s : fstate) (o : op) : fstate * ans :=
    match o with
    | OWrite u => (fwrite s u, AOk)
    | ODelete n =>
        match aget (fmem s) n with
        | Some u => (mkf (adel (fmem s) (uname u)) true (fdisk s), AOk)
        | None => (s, AOk)
        end
    | ORead n => (s, AUser (option_map norm (aget (fmem s) n)))
    | OList => (s, AUsers (List.map norm (fmem s)))
    | OPerms n => (s, APerms (match aget (fmem s) n with Some u => perms_list u | None => [] end))
    | OHasPriv n p =>
        (s, ABool (match aget (fmem s) n with
                   | Some u => match find_perm (perms_list u) (List.map lower p) with Some _ => true | None => false end
                   | None => false end))
    | OSetPerm n p on =>
        match aget (fmem s) n with
        | Some u => (fflush (fwrite s (spu u p on)), AOk)
        | None => (s, AErr)
        end
    | OFlush => (fflush s, AOk)
    | OReopen => (fopen (fdisk (fflush s)), AOk)
    | OCacheDrop => (s, AOk)
    end.

  (* ---- database store *)
  Record dstate := mkd { dtbl : amap; dcache : amap }.

  Definition dopen (tbl : amap) : dstate :=
    match aget tbl (uname admin) with
    | Some _ => mkd tbl []
    | None => mkd (tbl ++ [admin]) []
    end.

  (* caches.Add: an existing entry for the key is removed first; a full cache rejects the item *)
  Definition cadd (c : amap) (u : user) : amap :=
    let c' := adel c (uname u) in
    if Nat.leb cap (List.length c') then c' else c' ++ [u].

  (* ReadUser: cache, else table (a hit is cached) *)
  Definition dread (s : dstate) (n : str) : dstate * option user :=
    match aget (dcache s) n with
    | Some u => (s, Some u)
    | None =>
        match aget (dtbl s) n with
        | Some u => (mkd (dtbl s) (cadd (dcache s) u), Some u)
        | None => (s, None)
        end
    end.
  Definition dwrite (s : dstate) (u : user) : dstate :=
    let s1 := mkd (dtbl s) (adel (dcache s) (uname u)) in
    let '(s2, _) := dread s1 (uname u) in
    (* found -> UPDATE where name =, else INSERT: both are aput on a table keyed by name *)
    mkd (aput (dtbl s2) u) (cadd (dcache s2) u).

  Definition dstep (s : dstate) (o : op) : dstate * ans :=
    match o with
    | OWrite u => (dwrite s u, AOk)
    | ODelete n => (mkd (adel (dtbl s) n) (adel (dcache s) n), AOk)
    | ORead n => let '(s', r) := dread s n in (s', AUser (option_map norm r))
    | OList => (s, AUsers (List.map norm (dtbl s)))
    | OPerms n => let '(s', r) := dread s n in (s', APerms (match r with Some u => perms_list u | None => [] end))
    | OHasPriv n p =>
        let '(s', r) := dread s n in
        (s', ABool (match r with
                    | Some u => match find_perm (perms_list u) (List.map lower p) with Some _ => true | None => false end
                    | None => false end))
    | OSetPerm n p on =>
        let '(s', r) := dread s n in
        match r with
        | Some u => (dwrite s' (spu u p on), AOk)
        | None => (s', AErr)
        end
    | OFlush => (s, AOk)
    | OReopen => (dopen (dtbl s), AOk)
    | OCacheDrop => (mkd (dtbl s) [], AOk)
    end.

  (* ---- the abstract user map *)
  Definition sstep (s : amap) (o : op) : amap * ans :=
    match o with
    | OWrite u => (aput s (norm u), AOk)
    | ODelete n => (adel s n, AOk)
    | ORead n => (s, AUser (aget s n))
    | OList => (s, AUsers s)
    | OPerms n => (s, APerms (match aget s n with Some u => perms_list u | None => [] end))
    | OHasPriv n p =>
        (s, ABool (match aget s n with
                   | Some u => match find_perm (perms_list u) (List.map lower p) with Some _ => true | None => false end
                   | None => false end))
    | OSetPerm n p on =>
        match aget s n with
        | Some u => (aput s (set_perm_user u p on), AOk)
        | None => (s, AErr)
        end
    | OFlush | OReopen | OCacheDrop => (s, AOk)
    end.

  Fixpoint run_from {S} (stp : S -> op -> S * ans) (s : S) (h : list op) : S * list ans :=
    match h with
    | [] => (s, [])
    | o :: r => let '(s', a) := stp s o in let '(s'', l) := run_from stp s' r in (s'', a :: l)
    end.

  Definition file_answers (h : list op) : list ans := snd (run_from fstep (fopen None) h).
  Definition db_answers (h : list op) : list ans := snd (run_from dstep (dopen []) h).
  Definition spec_answers (h : list op) : list ans := snd (run_from sstep [norm admin] h).
End Stores.

(* the default user is never deleted (NewDatabaseService re-creates it on every start when it is missing,
   NewFileService only when the store is empty: see C31_default_user_refuted) *)
Definition keeps_admin (admin : user) (o : op) : bool :=
  match o with
  | ODelete n => negb (str_eqb (uname admin) n)
  | _ => true
  end.
Definition guard (admin : user) (h : list op) : bool := forallb (keeps_admin admin) h.

Definition demo_admin : user := mkuser (L "admin") (Some [L "ego.root"; L "ego.logon"]) (L "<generated>").

(* ---- comparison helpers for the correspondence run *)
Fixpoint strs_eqb (a b : list str) : bool :=
  match a, b with
  | [], [] => true
  | x :: a', y :: b' => str_eqb x y && strs_eqb a' b'
  | _, _ => false
  end.
Definition user_eqb (a b : user) : bool :=
  str_eqb (uname a) (uname b) && strs_eqb (perms_list a) (perms_list b) && str_eqb (urest a) (urest b).
Fixpoint remove_user (u : user) (l : list user) : option (list user) :=
  match l with
  | [] => None
  | x :: r => if user_eqb u x then Some r else option_map (cons x) (remove_user u r)
  end.
Fixpoint users_perm (a b : list user) : bool :=
  match a with
  | [] => match b with [] => true | _ => false end
  | u :: a' => match remove_user u b with Some b' => users_perm a' b' | None => false end
  end.
Definition ans_eqb (a b : ans) : bool :=
  match a, b with
  | AOk, AOk | AErr, AErr => true
  | AUser None, AUser None => true
  | AUser (Some x), AUser (Some y) => user_eqb x y
  | AUsers x, AUsers y => users_perm x y
  | APerms x, APerms y => strs_eqb x y
  | ABool x, ABool y => Bool.eqb x y
  | _, _ => false
  end.
Fixpoint answers_eqb (a b : list ans) : bool :=
  match a, b with
  | [], [] => true
  | x :: a', y :: b' => ans_eqb x y && answers_eqb a' b'
  | _, _ => false
  end.
