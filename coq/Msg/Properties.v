(* Msg/Properties.v — property theorems of C38 only; proofs live in Proofs.v.
   The table, the key list and the language list of THIS tree are regenerated from /repo on every run
   (harness/C38 dumps the compiled messages map and walks the source with go/ast); the generated file
   instantiates C38_all_resolve with them and closes `check_all … = true` by vm_compute. *)
From Msg Require Import Model Proofs.
Open Scope N_scope.

(* lookup with English fallback resolves iff the language has non-empty text for the key, or it has none and English has *)
Theorem C38_fallback :
  forall (t : table) (k l : N),
    resolves t k l = true <->
    (exists e, lookup t k l = Some e /\ nonempty e = true) \/
    (lookup t k l = None /\ exists e, lookup t k en = Some e /\ nonempty e = true).
Proof. exact resolves_iff. Qed.

(* the finite check, once it evaluates to true for a tree's table / referenced keys / shipped languages, gives:
   every referenced key resolves in every shipped language with the English placeholders, except the listed pairs *)
Theorem C38_all_resolve :
  forall (t : table) (keys langs : list N) (exc : list (N * N)),
    check_all t keys langs exc = true ->
    forall k l, In k keys -> In l langs ->
      In (k, l) exc \/ (resolves t k l = true /\ same_placeholders t k l = true).
Proof. exact all_resolve. Qed.

(* negotiation only ever selects a shipped language (or none), for every candidate list (= every header) *)
Theorem C38_negotiate :
  forall (supported : list str) (cands : list cand),
    negotiate supported cands = [] \/ In (negotiate supported cands) supported.
Proof. exact negotiate_supported. Qed.

(* and it selects a supported candidate of maximal quality whenever one exists *)
Theorem C38_negotiate_best :
  forall (supported : list str) (cands : list cand) (lang : str) (q : Z),
    In (lang, q) cands -> is_supported supported lang = true ->
    exists q', In (negotiate supported cands, q') cands /\ (q <= q')%Z.
Proof. exact negotiate_best. Qed.

(* the same over the raw header text, for every header (byte string) and whatever strconv.ParseFloat returns
   for the q parameters: the function never yields anything but "" or a shipped language *)
Theorem C38_negotiate_header :
  forall (parse_q : str -> option Z) (supported : list str) (header : str),
    negotiate_header parse_q supported header = [] \/ In (negotiate_header parse_q supported header) supported.
Proof. exact negotiate_header_supported. Qed.

Example C38_nonvacuous :
  let t : table := [(7, [(0, (12, [3])); (2, (15, [3]))]); (8, [(0, (4, []))])] in
  check_all t [7; 8] [0; 1; 2] [] = true /\ resolves t 7 1 = true /\ translate t 7 1 = TEnglish (12, [3]) /\
  check_all t [7; 9] [0; 1] [] = false /\ failing_pairs t [7; 9] [0; 1] = [(9, 0); (9, 1)].
Proof. vm_compute. repeat split. Qed.
Example C38_negotiate_nonvacuous :   (* fr-CH, fr;q=0.9, en;q=0.8, de  with en/es/fr/ja shipped: de first (q=1) is unsupported, fr wins *)
  negotiate [[101;110]; [101;115]; [102;114]; [106;97]]
            [([100;101], 1000%Z); ([102;114], 900%Z); ([101;110], 800%Z)] = [102;114].
Proof. vm_compute. reflexivity. Qed.
Example C38_negotiate_header_nonvacuous :   (* "de;q=0.9, es_MX;q=0.5 ,FR-ch;q=.25": es_mx is not shipped, fr is *)
  negotiate_header parse_q_dec [[101;110]; [101;115]; [102;114]; [106;97]]
    [100;101;59;113;61;48;46;57;44;32;101;115;95;77;88;59;113;61;48;46;53;32;44;70;82;45;99;104;59;113;61;46;50;53] = [102;114] /\
  parse_header parse_q_dec [100;101;59;113;61;48;46;57;44;32;101;115;95;77;88;59;113;61;48;46;53]
    = [([100;101], 900000%Z); ([101;115;95;109;120], 500000%Z)].
Proof. vm_compute. split; reflexivity. Qed.
