(* Sandbox/Proofs.v — lemmas for C26. *)
From Sandbox Require Import Model.
Open Scope N_scope.

Definition plain (s : seg) : Prop := is_plain s = true.

(* cleaned form: a block of ".." (relative paths only) followed by plain names *)
Definition normal (p : path) : Prop :=
  exists k pl, snd p = repeat dotdot k ++ pl /\ Forall plain pl /\ (fst p = true -> k = 0%nat).

Lemma segs_eqb_eq a b : segs_eqb a b = true <-> a = b.
Proof.
  revert b; induction a as [|x a IH]; destruct b as [|y b]; cbn; split; try easy.
  - intros H. apply andb_true_iff in H as [H1 H2]. apply str_eqb_eq in H1. apply IH in H2. congruence.
  - intros H. inversion H; subst. apply andb_true_iff. split; [apply str_eqb_eq; reflexivity | apply IH; reflexivity].
Qed.

Lemma str_eqb_refl a : str_eqb a a = true.
Proof. apply str_eqb_eq. reflexivity. Qed.

Lemma path_eqb_eq a b : path_eqb a b = true <-> a = b.
Proof.
  destruct a as [aa al], b as [ba bl]. unfold path_eqb. cbn [fst snd]. split.
  - intros H. apply andb_true_iff in H as [H1 H2]. apply eqb_prop in H1. apply segs_eqb_eq in H2. congruence.
  - intros H. inversion H; subst. rewrite eqb_reflx. cbn. apply segs_eqb_eq. reflexivity.
Qed.

Lemma plain_not_dotdot s : plain s -> str_eqb s dotdot = false.
Proof. unfold plain, is_plain. intros H. destruct (str_eqb s dotdot); [|reflexivity].
       rewrite andb_false_r in H. discriminate. Qed.

Lemma dotdot_not_plain : is_plain dotdot = false.
Proof. reflexivity. Qed.

Lemma repeat_snoc {A} (x : A) k : repeat x k ++ [x] = x :: repeat x k.
Proof. induction k; cbn; [reflexivity|]. rewrite IHk. reflexivity. Qed.

Lemma rev_repeat {A} (x : A) k : rev (repeat x k) = repeat x k.
Proof. induction k; cbn; [reflexivity|]. rewrite IHk. apply repeat_snoc. Qed.

(* ---- Clean yields a normal path *)
Definition okstk (abs : bool) (stk : list seg) : Prop :=
  exists k pl, stk = rev pl ++ repeat dotdot k /\ Forall plain pl /\ (abs = true -> k = 0%nat).

Lemma norm_normal abs : forall l stk, okstk abs stk -> normal (abs, norm abs stk l).
Proof.
  induction l as [|s r IH]; intros stk Hs.
  - cbn [norm]. destruct Hs as (k & pl & -> & Hpl & Hk). exists k, pl. cbn [fst snd].
    rewrite rev_app_distr, rev_involutive, rev_repeat. auto.
  - cbn [norm]. destruct (is_nil s || str_eqb s dot) eqn:Hskip; [apply IH, Hs|].
    apply orb_false_iff in Hskip as [Hne Hnd].
    destruct (str_eqb s dotdot) eqn:Hdd.
    + apply str_eqb_eq in Hdd. subst s.
      destruct Hs as (k & pl & -> & Hpl & Hk).
      destruct pl as [|p0 pl0] using rev_ind.
      * cbn [rev app]. destruct k as [|k].
        -- cbn [repeat]. destruct abs.
           ++ apply IH. exists 0%nat, []. cbn. auto.
           ++ apply IH. exists 1%nat, []. cbn. repeat split; [constructor | discriminate].
        -- cbn [repeat]. rewrite str_eqb_refl. apply IH. exists (S (S k)), []. cbn.
           repeat split; [constructor|]. intros Ha. specialize (Hk Ha). discriminate.
      * clear IHpl0. rewrite rev_app_distr. cbn [rev app].
        apply Forall_app in Hpl as [Hpl0 Hp0]. inversion Hp0 as [|? ? Hp0' _]; subst.
        rewrite (plain_not_dotdot _ Hp0'). apply IH. exists k, pl0. auto.
    + apply IH. destruct Hs as (k & pl & -> & Hpl & Hk).
      exists k, (pl ++ [s]). rewrite rev_app_distr. cbn [rev app].
      repeat split; auto. apply Forall_app. split; [assumption|]. constructor; [|constructor].
      unfold plain, is_plain. rewrite Hne, Hnd, Hdd. reflexivity.
Qed.

Lemma clean_normal s : normal (clean_str s).
Proof. unfold clean_str. apply norm_normal. exists 0%nat, []. cbn. auto. Qed.

Lemma okstk_of_normal p : normal p -> okstk (fst p) (rev (snd p)).
Proof.
  intros (k & pl & -> & Hpl & Hk). exists k, pl. rewrite rev_app_distr, rev_repeat. auto.
Qed.

Lemma join_normal b l : normal b -> normal (join_segs b l).
Proof. intros Hb. unfold join_segs. apply norm_normal, okstk_of_normal, Hb. Qed.

(* ---- within means: same kind of path, root's segments are a prefix, the rest are plain names *)
Lemma strip_spec : forall b t b' t', strip b t = (b', t') -> exists pre, b = pre ++ b' /\ t = pre ++ t'.
Proof.
  induction b as [|x b IH]; intros t b' t' H.
  - cbn in H. inversion H; subst. exists []. auto.
  - destruct t as [|y t]; cbn in H.
    + inversion H; subst. exists []. auto.
    + destruct (str_eqb x y) eqn:E.
      * apply str_eqb_eq in E. subst y. apply IH in H as (pre & -> & ->). exists (x :: pre). auto.
      * inversion H; subst. exists []. auto.
Qed.

Lemma suffix_plain : forall pre k pl x t,
  repeat dotdot k ++ pl = pre ++ x :: t -> Forall plain pl -> str_eqb x dotdot = false -> Forall plain (x :: t).
Proof.
  induction pre as [|a pre IH]; intros k pl x t H Hpl Hx.
  - cbn [app] in H. destruct k as [|k].
    + cbn in H. subst pl. assumption.
    + cbn in H. inversion H; subst. rewrite str_eqb_refl in Hx. discriminate.
  - destruct k as [|k].
    + cbn in H. subst pl. inversion Hpl; subst. apply Forall_app in H2 as [_ H2]. assumption.
    + cbn in H. inversion H; subst. eapply IH; eauto.
Qed.

Definition descends (c r : path) : Prop :=
  fst c = fst r /\ exists rest, snd c = snd r ++ rest /\ Forall plain rest.

Lemma within_descends c r : normal c -> within c r = true -> descends c r.
Proof.
  intros Hc H. unfold within in H.
  destruct (path_eqb c r) eqn:E.
  { apply path_eqb_eq in E. subst. split; [reflexivity|]. exists []. rewrite app_nil_r. auto. }
  unfold rel in H.
  destruct (path_eqb r c) eqn:E2.
  { apply path_eqb_eq in E2. subst. split; [reflexivity|]. exists []. rewrite app_nil_r. auto. }
  destruct (Bool.eqb (fst r) (fst c)) eqn:Eabs; cbn [negb] in H; [|discriminate].
  apply eqb_prop in Eabs.
  destruct (strip (snd r) (snd c)) as [b' t'] eqn:Es.
  apply strip_spec in Es as (pre & Hr & Hcs).
  destruct b' as [|x b''].
  - rewrite app_nil_r in Hr. subst pre. split; [auto|]. exists t'. split; [assumption|].
    destruct t' as [|y t'']; [constructor|].
    destruct Hc as (k & pl & Hsc & Hpl & _).
    eapply suffix_plain with (pre := snd r) (k := k) (pl := pl); eauto.
    + rewrite <- Hsc. assumption.
    + destruct (str_eqb y dotdot); [discriminate | reflexivity].
  - destruct (str_eqb x dotdot) eqn:Ex; [discriminate|].
    cbn [length repeat app] in H. cbn in H. discriminate.
Qed.

Lemma within_refl r : within r r = true.
Proof. unfold within. rewrite (proj2 (path_eqb_eq r r) eq_refl). reflexivity. Qed.

(* ---- existing_prefix returns a prefix whose next name is absent *)
Section ResolveFacts.
  Variable lstat : path -> lres.
  Variable evalsym : path -> option path.

  Lemma existing_prefix_spec abs : forall rs ex,
    existing_prefix lstat V2 abs rs = EFound ex ->
    exists rem, rev rs = ex ++ rem /\ lstat (abs, ex) = LYes /\
                match rem with [] => True | x :: _ => lstat (abs, ex ++ [x]) = LNo end.
  Proof.
    induction rs as [|s rs IH]; intros ex H.
    - cbn in H. destruct (lstat (abs, [])) eqn:E; try discriminate. inversion H; subst.
      exists []. auto.
    - cbn [existing_prefix] in H. destruct (lstat (abs, rev (s :: rs))) eqn:E.
      + inversion H; subst. exists []. rewrite app_nil_r. auto.
      + destruct (IH _ H) as (rem & Hrev & Hl & Hnext).
        exists (rem ++ [s]). cbn [rev]. rewrite Hrev, app_assoc. repeat split; auto.
        destruct rem as [|x rem']; cbn [app].
        * rewrite app_nil_r in Hrev. rewrite <- Hrev. cbn [rev] in E. exact E.
        * exact Hnext.
      + cbn [fix2] in H. discriminate.
  Qed.

  Lemma existing_prefix_some abs : lstat (abs, []) = LYes -> forall rs, existing_prefix lstat V2 abs rs <> ENone.
  Proof.
    intros H0. induction rs as [|s rs IH]; cbn [existing_prefix].
    - cbn [rev]. rewrite H0. discriminate.
    - destruct (lstat (abs, rev (s :: rs))); [discriminate | exact IH | cbn; discriminate].
  Qed.
End ResolveFacts.

Lemma strip_prefix : forall ex rem, strip ex (ex ++ rem) = ([], rem).
Proof. induction ex as [|x ex IH]; intros rem; cbn; [destruct rem; reflexivity|]. rewrite str_eqb_refl. apply IH. Qed.

Lemma rel_prefix a ex x rem : rel (a, ex) (a, ex ++ x :: rem) = Some (x :: rem).
Proof.
  unfold rel. destruct (path_eqb (a, ex) (a, ex ++ x :: rem)) eqn:E.
  - apply path_eqb_eq in E. inversion E as [H]. rewrite <- (app_nil_r ex) in H at 1.
    apply app_inv_head in H. discriminate.
  - cbn [fst snd]. rewrite eqb_reflx. cbn [negb]. rewrite strip_prefix. reflexivity.
Qed.

Lemma norm_plain abs : forall l stk, Forall plain l -> norm abs stk l = rev stk ++ l.
Proof.
  induction l as [|s l IH]; intros stk H; cbn [norm].
  - rewrite app_nil_r. reflexivity.
  - inversion H as [|? ? Hs Hl]; subst. unfold plain, is_plain in Hs.
    apply andb_true_iff in Hs as [Hs Hdd]. apply andb_true_iff in Hs as [Hne Hd].
    apply negb_true_iff in Hne, Hd, Hdd. rewrite Hne, Hd, Hdd. cbn [orb].
    rewrite IH by assumption. cbn [rev]. rewrite <- app_assoc. reflexivity.
Qed.

Lemma join_plain b l : Forall plain l -> join_segs b l = (fst b, snd b ++ l).
Proof. intros H. unfold join_segs. rewrite norm_plain by assumption. rewrite rev_involutive. reflexivity. Qed.

Lemma abs_normal_plain p : normal p -> fst p = true -> Forall plain (snd p).
Proof. intros (k & pl & -> & Hpl & Hk) Ha. rewrite (Hk Ha). exact Hpl. Qed.

(* ---- C26 lexical: whatever the spelling, the result is the cleaned root plus plain names *)
Lemma resolve_nofs v cand root : resolve no_lstat no_evalsym v cand root = cand.
Proof. reflexivity. Qed.

Lemma lexical v root p :
  descends (sandbox_join_p no_lstat no_evalsym v root p) (clean_str root).
Proof.
  unfold sandbox_join_p. 
  destruct (within (clean_str p) (clean_str root)) eqn:E1.
  - rewrite resolve_nofs. apply within_descends; [apply clean_normal | exact E1].
  - destruct (within (join_str (clean_str root) p) (clean_str root)) eqn:E2.
    + rewrite resolve_nofs. apply within_descends; [|exact E2].
      apply join_normal, clean_normal.
    + split; [reflexivity|]. exists []. rewrite app_nil_r. auto.
Qed.

(* ---- C26 resolved: with a file system.  The file system is abstract: lstat, evalsym and touch
   (the place the kernel reaches through a path, final links followed; None = the call fails
   before reaching anything) with the laws relating them. *)
Section Resolved.
  Variable lstat : path -> lres.
  Variable evalsym : path -> option path.
  Variable touch : path -> option path.
  Hypothesis root_exists : lstat (true, []) = LYes.
  Hypothesis real_normal : forall p r, evalsym p = Some r -> normal r /\ fst r = true.
  Hypothesis real_fixed : forall p r, evalsym p = Some r -> evalsym r = Some r.
  Hypothesis touch_real : forall p r, evalsym p = Some r -> touch p = Some r.
  Hypothesis touch_absent : forall p r x rest,
    evalsym p = Some r -> plain x -> lstat (fst p, snd p ++ [x]) = LNo ->
    touch (fst r, snd r ++ x :: rest) = None \/ touch (fst r, snd r ++ x :: rest) = Some (fst r, snd r ++ [x]).

  Lemma resolve_touch cand root rroot :
    normal cand -> fst cand = true -> evalsym root = Some rroot ->
    match touch (resolve lstat evalsym V2 cand root) with
    | None => True
    | Some q => descends q rroot
    end.
  Proof.
    intros Hn Habs Hroot. unfold resolve. rewrite Hroot.
    assert (Hrootq : descends rroot rroot).
    { split; [reflexivity|]. exists []. rewrite app_nil_r. auto. }
    destruct (existing_prefix lstat V2 (fst cand) (rev (snd cand))) as [ex| |] eqn:Eex.
    2:{ exfalso. rewrite Habs in Eex. revert Eex. apply existing_prefix_some, root_exists. }
    2:{ rewrite (touch_real _ _ Hroot). exact Hrootq. }
    destruct (existing_prefix_spec lstat (fst cand) _ _ Eex) as (rem & Hrev & Hl & Hnext).
    rewrite rev_involutive in Hrev.
    destruct (evalsym (fst cand, ex)) as [res|] eqn:Eres.
    2:{ cbn [fix1]. rewrite (touch_real _ _ Hroot). exact Hrootq. }
    destruct (within res rroot) eqn:Ew; cbn [negb].
    2:{ rewrite (touch_real _ _ Hroot). exact Hrootq. }
    destruct (real_normal _ _ Eres) as [Hresn Hresabs].
    pose proof (within_descends _ _ Hresn Ew) as (Hfa & rest0 & Hseg & Hrest0).
    destruct cand as [ca cs]. cbn [fst snd] in *. subst cs.
    destruct rem as [|x rem'].
    - rewrite app_nil_r in *.
      unfold rel. rewrite (proj2 (path_eqb_eq (ca, ex) (ca, ex)) eq_refl). cbn [segs_eqb].
      rewrite str_eqb_refl. cbn [andb].
      rewrite (touch_real _ _ (real_fixed _ _ Eres)).
      split; [assumption|]. exists rest0. auto.
    - rewrite rel_prefix.
      assert (Hplain : Forall plain (x :: rem')).
      { pose proof (abs_normal_plain _ Hn Habs) as Hp. cbn [snd] in Hp.
        apply Forall_app in Hp. tauto. }
      assert (Hnd : segs_eqb (x :: rem') [dot] = false).
      { destruct (segs_eqb (x :: rem') [dot]) eqn:E; [|reflexivity].
        apply segs_eqb_eq in E. inversion E; subst. inversion Hplain as [|? ? Hx _]; subst.
        unfold plain in Hx. cbn in Hx. discriminate. }
      rewrite Hnd. rewrite join_plain by assumption.
      assert (Hpx : plain x) by (inversion Hplain; assumption).
      destruct (touch_absent (ca, ex) res x rem' Eres Hpx Hnext) as [Ht|Ht]; rewrite Ht; [exact I|].
      split; [assumption|]. exists (rest0 ++ [x]). rewrite Hseg, app_assoc. split; [reflexivity|].
      apply Forall_app. split; [assumption|]. inversion Hplain; subst. constructor; auto.
  Qed.

  Lemma resolved root p rroot :
    is_abs root = true -> evalsym (clean_str root) = Some rroot ->
    match touch (sandbox_join_p lstat evalsym V2 root p) with
    | None => True
    | Some q => descends q rroot
    end.
  Proof.
    intros Habs Hroot. unfold sandbox_join_p.
    assert (Hr : fst (clean_str root) = true) by exact Habs.
    destruct (within (clean_str p) (clean_str root)) eqn:E1.
    - apply resolve_touch; [apply clean_normal | | exact Hroot].
      pose proof (within_descends _ _ (clean_normal p) E1) as [Hf _]. congruence.
    - destruct (within (join_str (clean_str root) p) (clean_str root)) eqn:E2.
      + apply resolve_touch; [apply join_normal, clean_normal | exact Hr | exact Hroot].
      + rewrite (touch_real _ _ Hroot). split; [reflexivity|]. exists []. rewrite app_nil_r. auto.
  Qed.
End Resolved.

(* ---- the code before the repair: a dangling link inside the sandbox whose target is outside *)
Definition s_ (l : list N) : seg := l.
Definition wit_fs : node :=
  Dir [ ([115;98] (* sb *), Dir [ ([100] (* d *), Link [47;111;117;116;47;110;101;119] (* /out/new *)) ;
                                   ([97], Dir []) ]) ;
        ([111;117;116] (* out *), Dir []) ].
Definition wit_root : str := [47;115;98].           (* /sb *)
Definition wit_p : str := [100].                    (* d *)

Lemma old_refuted :
  let res := sandbox_join_p (lstat_t wit_fs) (evalsym_t wit_fs) V0 wit_root wit_p in
  evalsym_t wit_fs (clean_str wit_root) = Some (true, [[115;98]]) /\
  touch_t wit_fs res = Some (true, [[111;117;116]; [110;101;119]]) /\
  below (true, [[111;117;116]; [110;101;119]]) (true, [[115;98]]) = false.
Proof. vm_compute. auto. Qed.

Lemma fixed_witness :
  let res := sandbox_join_p (lstat_t wit_fs) (evalsym_t wit_fs) V2 wit_root wit_p in
  touch_t wit_fs res = Some (true, [[115;98]]).
Proof. vm_compute. reflexivity. Qed.
