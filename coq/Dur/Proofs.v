(* Dur/Proofs.v — lemmas behind the C37 theorems. *)
From Dur Require Import Model.
From Coq Require Import ZifyBool ZifyN ZifyNat.
Ltac Zify.zify_post_hook ::= Z.div_mod_to_equations.
Open Scope Z_scope.

(* ------------------------------------------------------------------ decimal digits in Z *)
Definition Zf (s : str) (x : Z) : Z := fold_left (fun a c => a * 10 + (Z.of_N c - 48)) s x.

Lemma Zf_cons c s x : Zf (c :: s) x = Zf s (x * 10 + (Z.of_N c - 48)).
Proof. reflexivity. Qed.

Lemma Zf_N : forall s x, all_digits s = true ->
  Zf s (Z.of_N x) = Z.of_N (fold_left (fun a c => (10 * a + (c - 48))%N) s x).
Proof.
  induction s as [|c s IH]; intros x H; [reflexivity|].
  cbn [all_digits forallb] in H. apply andb_true_iff in H as [Hc Hs].
  rewrite Zf_cons. cbn [fold_left]. rewrite <- IH by exact Hs. f_equal.
  unfold is_digit in Hc. lia.
Qed.

Lemma Zf_digits n : 0 <= n -> Zf (digits (Z.to_N n)) 0 = n.
Proof.
  intros Hn. change 0 with (Z.of_N 0). rewrite Zf_N by apply digits_all_digits.
  fold (dec_val (digits (Z.to_N n))). rewrite digits_val. lia.
Qed.

Lemma Zf_mono : forall s x, all_digits s = true -> 0 <= x -> x <= Zf s x.
Proof.
  induction s as [|c s IH]; intros x H Hx; [cbn; lia|].
  cbn [all_digits forallb] in H. apply andb_true_iff in H as [Hc Hs].
  rewrite Zf_cons. unfold is_digit in Hc.
  specialize (IH (x * 10 + (Z.of_N c - 48)) Hs). lia.
Qed.

Lemma digitsZ_nonneg n : 0 <= n -> digitsZ n = digits (Z.to_N n).
Proof. intros H. unfold digitsZ. destruct (Z.ltb_spec n 0); [lia|reflexivity]. Qed.

Lemma digits_head n : exists c t, digits n = c :: t /\ is_digit c = true /\ all_digits t = true.
Proof.
  pose proof (digits_all_digits n) as H. pose proof (digits_nonempty n) as Hne.
  destruct (digits n) as [|c t]; [congruence|].
  cbn [all_digits forallb] in H. apply andb_true_iff in H as [Hc Ht]. eauto.
Qed.

(* ------------------------------------------------------------------ time.ParseDuration on groups *)
Definition B10 : Z := 922337203685477580.
Lemma two63_div10 : two63 / 10 = B10. Proof. reflexivity. Qed.

Lemma gp_digits : forall s d x, all_digits s = true -> 0 <= x -> Zf s x <= B10 ->
  fold_left gp_step s (d, PNum x true) = (d, PNum (Zf s x) true).
Proof.
  induction s as [|c s IH]; intros d x H Hx Hb; [reflexivity|].
  pose proof H as H0.
  cbn [all_digits forallb] in H. apply andb_true_iff in H as [Hc Hs].
  cbn [fold_left]. rewrite Zf_cons in *.
  assert (Hx' : 0 <= x * 10 + (Z.of_N c - 48)) by (unfold is_digit in Hc; lia).
  pose proof (Zf_mono s _ Hs Hx') as Hm.
  assert (Hstep : gp_step (d, PNum x true) c = (d, PNum (x * 10 + (Z.of_N c - 48)) true)).
  { cbn [gp_step]. rewrite Hc, two63_div10.
    destruct (Z.ltb_spec B10 x); [unfold B10 in *; lia|].
    destruct (Z.ltb_spec two63 (x * 10 + (Z.of_N c - 48))); [unfold B10, two63 in *; lia|reflexivity]. }
  rewrite Hstep. apply IH; assumption.
Qed.

Lemma gp_number_start n d : 0 <= n <= B10 ->
  fold_left gp_step (digitsZ n) (d, PNum 0 false) = (d, PNum n true).
Proof.
  intros Hn. rewrite digitsZ_nonneg by lia.
  pose proof (Zf_digits n ltac:(lia)) as Hv.
  destruct (digits_head (Z.to_N n)) as (c & t & E & Hc & Ht). rewrite E in *.
  cbn [fold_left]. rewrite Zf_cons in Hv.
  assert (Hstep : gp_step (d, PNum 0 false) c = (d, PNum (Z.of_N c - 48) true)).
  { cbn [gp_step]. rewrite Hc, two63_div10. cbn [Z.ltb Z.compare B10].
    unfold is_digit in Hc. destruct (Z.ltb_spec two63 (0 * 10 + (Z.of_N c - 48))); [unfold two63 in *; lia|].
    f_equal. }
  rewrite Hstep. rewrite gp_digits; try assumption.
  - rewrite <- Hv. reflexivity.
  - unfold is_digit in Hc. lia.
  - cbn in Hv. rewrite Hv. lia.
Qed.

Lemma gp_number_after d v u d' n : close_term d v u = Some d' -> 0 <= n <= B10 ->
  fold_left gp_step (digitsZ n) (d, PUnit v u) = (d', PNum n true).
Proof.
  intros Hcl Hn. rewrite digitsZ_nonneg by lia.
  pose proof (Zf_digits n ltac:(lia)) as Hv.
  destruct (digits_head (Z.to_N n)) as (c & t & E & Hc & Ht). rewrite E in *.
  cbn [fold_left]. rewrite Zf_cons in Hv.
  assert (Hstep : gp_step (d, PUnit v u) c = (d', PNum (Z.of_N c - 48) true)).
  { cbn [gp_step]. rewrite Hc, Hcl. cbn [orb].
    assert ((c =? c_dot)%N = false) as -> by (unfold is_digit, c_dot in *; lia). reflexivity. }
  rewrite Hstep. rewrite gp_digits; try assumption.
  - cbn in Hv. rewrite Hv. reflexivity.
  - unfold is_digit in Hc. lia.
  - cbn in Hv. rewrite Hv. lia.
Qed.

Definition good_unit (u : str) : Prop := u = [c_h] \/ u = [c_m] \/ u = [c_s] \/ u = [c_m; c_s].
Definition unit_val (u : str) : Z := match unit_of u with Some k => k | None => 0 end.

Lemma gp_unit d n u : good_unit u -> fold_left gp_step u (d, PNum n true) = (d, PUnit n u).
Proof. intros [->|[->|[->| ->]]]; reflexivity. Qed.

Lemma good_unit_val u : good_unit u -> exists k, unit_of u = Some k /\ 1000000 <= k <= ns_h.
Proof. intros [->|[->|[->| ->]]]; eexists; (split; [reflexivity|unfold ns_h, ns_m, ns_s; lia]). Qed.

Lemma close_term_ok d v u : good_unit u -> 0 <= d -> 0 <= v -> d + v * unit_val u <= two63 ->
  close_term d v u = Some (d + v * unit_val u).
Proof.
  intros Hu Hd Hv Hs. destruct (good_unit_val u Hu) as (k & Ek & Hk).
  unfold close_term, unit_val in *. rewrite Ek in *.
  destruct (Z.ltb_spec (two63 / k) v) as [Hlt|_].
  - exfalso. apply Z.lt_nge in Hlt. apply Hlt. apply Z.div_le_lower_bound; nia.
  - rewrite Z.mod_small by (unfold two64, two63 in *; nia).
    destruct (Z.ltb_spec two63 (d + v * k)); [lia|reflexivity].
Qed.

Definition grp := (Z * str)%type.
Definition render (gs : list grp) : str := concat (map (fun g : grp => digitsZ (fst g) ++ snd g) gs).
Definition gsum (gs : list grp) : Z := fold_right (fun (g : grp) a => fst g * unit_val (snd g) + a) 0 gs.
Definition good_grp (g : grp) : Prop := 0 <= fst g /\ good_unit (snd g).

Lemma gsum_app a b : gsum (a ++ b) = gsum a + gsum b.
Proof. unfold gsum. induction a as [|g a IH]; cbn [app fold_right]; [reflexivity|]. rewrite IH. lia. Qed.

Lemma gsum_nonneg gs : Forall good_grp gs -> 0 <= gsum gs.
Proof.
  induction 1 as [|g gs [Hg Hu] _ IH]; cbn; [lia|]. fold (gsum gs).
  destruct (good_unit_val _ Hu) as (k & Ek & Hk). unfold unit_val. rewrite Ek. nia.
Qed.

Lemma render_app a b : render (a ++ b) = render a ++ render b.
Proof. unfold render. rewrite map_app, concat_app. reflexivity. Qed.

Lemma render_one n u : render [(n, u)] = digitsZ n ++ u.
Proof. unfold render. cbn [map concat fst snd]. apply app_nil_r. Qed.

Lemma go_groups : forall gs, gs <> [] -> Forall good_grp gs -> gsum gs <= two63 ->
  exists d v u, fold_left gp_step (render gs) (0, PNum 0 false) = (d, PUnit v u)
                /\ close_term d v u = Some (gsum gs).
Proof.
  induction gs as [|[n u] gs' IH] using rev_ind; intros Hne Hall Hsum; [congruence|].
  apply Forall_app in Hall as [Hall' Hg]. inversion Hg as [|? ? [Hn Hu] _]; subst. cbn [fst snd] in *.
  rewrite gsum_app in Hsum. cbn [gsum fold_right fst snd] in Hsum.
  pose proof (gsum_nonneg gs' Hall') as Hnn.
  destruct (good_unit_val _ Hu) as (k & Ek & Hk).
  assert (Huv : unit_val u = k) by (unfold unit_val; rewrite Ek; reflexivity).
  assert (HnB : 0 <= n <= B10) by (unfold B10, two63 in *; nia).
  rewrite render_app, fold_left_app, render_one, fold_left_app.
  destruct gs' as [|g0 gs0].
  - cbn [render map concat fold_left]. rewrite gp_number_start by assumption. rewrite gp_unit by assumption.
    exists 0, n, u. split; [reflexivity|].
    rewrite close_term_ok; try assumption; try lia. cbn [app gsum fold_right fst snd]. f_equal. lia.
  - destruct IH as (d & v & u0 & Hf & Hc); [discriminate|assumption|lia|].
    rewrite Hf. rewrite (gp_number_after _ _ _ _ _ Hc HnB). rewrite gp_unit by assumption.
    exists (gsum (g0 :: gs0)), n, u. split; [reflexivity|].
    rewrite close_term_ok; try assumption; try lia.
    rewrite gsum_app. cbn [gsum fold_right fst snd]. f_equal. lia.
Qed.

Lemma digitsZ_head_digit n : 0 <= n -> exists c t, digitsZ n = c :: t /\ is_digit c = true.
Proof. intros H. rewrite digitsZ_nonneg by assumption.
       destruct (digits_head (Z.to_N n)) as (c & t & E & Hc & _). eauto. Qed.

Lemma render_shape g gs : good_grp g ->
  exists c t, render (g :: gs) = c :: t /\ is_digit c = true /\ t <> [].
Proof.
  intros [Hn Hu]. destruct g as [n u]. cbn [fst snd] in *.
  destruct (digitsZ_head_digit n Hn) as (c & t & E & Hc).
  unfold render. cbn [map concat fst snd]. rewrite E. cbn [app].
  exists c, ((t ++ u) ++ concat (map (fun g : grp => digitsZ (fst g) ++ snd g) gs)).
  repeat split; try assumption. destruct Hu as [->|[->|[->| ->]]]; destruct t; discriminate.
Qed.

(* go_parse of an optionally signed sequence of groups *)
Lemma go_parse_groups (neg : bool) gs : gs <> [] -> Forall good_grp gs -> gsum gs <= two63 - 1 ->
  go_parse ((if neg then [c_minus] else []) ++ render gs) = Ok (if neg then - gsum gs else gsum gs).
Proof.
  intros Hne Hall Hsum.
  destruct (go_groups gs Hne Hall ltac:(lia)) as (d & v & u & Hf & Hc).
  destruct gs as [|g gs0]; [congruence|]. inversion Hall as [|? ? Hg _]; subst.
  destruct (render_shape g gs0 Hg) as (c & t & E & Hd & Ht).
  assert (Hbody : forall r : res,
     (if str_eqb (render (g :: gs0)) [48%N] then Ok 0 else
      match render (g :: gs0) with [] => Err | _ :: _ => r end) = r).
  { intros r. rewrite E. destruct (str_eqb (c :: t) [48%N]) eqn:Eq.
    - apply str_eqb_eq in Eq. inversion Eq. congruence.
    - reflexivity. }
  unfold go_parse. destruct neg; cbn [app].
  - change (c_minus =? c_minus)%N with true. cbn iota. rewrite Hbody, Hf, Hc. reflexivity.
  - rewrite E at 1.
    assert ((c =? c_minus)%N = false) as -> by (unfold is_digit, c_minus in *; lia).
    assert ((c =? c_plus)%N = false) as -> by (unfold is_digit, c_plus in *; lia).
    cbn iota. rewrite Hbody, Hf, Hc.
    destruct (Z.ltb_spec (two63 - 1) (gsum (g :: gs0))); [lia|reflexivity].
Qed.

(* ------------------------------------------------------------------ egostrings.Atoi on digit strings *)
Lemma decN_mono : forall s x, (x <= fold_left (fun a c => (10 * a + (c - 48))%N) s x)%N.
Proof. induction s as [|c s IH]; intros x; cbn [fold_left]; [lia|]. specialize (IH (10 * x + (c - 48))%N). lia. Qed.

Lemma dec_val_prefix p q : (dec_val p <= dec_val (p ++ q))%N.
Proof. unfold dec_val. rewrite fold_left_app. apply decN_mono. Qed.

Lemma atoi_all_digits p : p <> [] -> all_digits p = true -> Z.of_N (dec_val p) <= two63 - 1 ->
  atoi p = Some (Z.of_N (dec_val p)).
Proof.
  intros Hne Hd Hb. destruct p as [|c r]; [congruence|].
  pose proof Hd as Hd0. cbn [all_digits forallb] in Hd. apply andb_true_iff in Hd as [Hc _].
  unfold atoi.
  assert ((c =? c_minus)%N = false) as -> by (unfold is_digit, c_minus in *; lia).
  assert ((c =? c_plus)%N = false) as -> by (unfold is_digit, c_plus in *; lia).
  rewrite Hd0. destruct (Z.ltb_spec (two63 - 1) (Z.of_N (dec_val (c :: r)))); [lia|reflexivity].
Qed.

Lemma atoi_digitsZ k : 0 <= k <= two63 - 1 -> atoi (digitsZ k) = Some k.
Proof.
  intros Hk. rewrite digitsZ_nonneg by lia.
  rewrite atoi_all_digits; rewrite ?digits_val; try apply digits_nonempty; try apply digits_all_digits; try lia.
  f_equal. lia.
Qed.

(* ------------------------------------------------------------------ parseDurationWithDays on tokens *)
Definition with_chars (st : sc) (x : str) : sc :=
  {| chars := x; mseen := mseen st; days := days st; hrs := hrs st; mins := mins st; secs := secs st;
     msec := msec st; failed := failed st |}.

Lemma digit_not_special c : is_digit c = true ->
  (c =? c_d)%N = false /\ (c =? c_h)%N = false /\ (c =? c_m)%N = false /\ (c =? c_s)%N = false /\ is_space c = false.
Proof. unfold is_digit, is_space, c_d, c_h, c_m, c_s. intros H. repeat split; lia. Qed.

Lemma sc_digits : forall s p st, failed st = false -> mseen st = false -> chars st = p -> p <> [] ->
  all_digits (p ++ s) = true -> Z.of_N (dec_val (p ++ s)) <= two63 - 1 ->
  fold_left sc_step s st = with_chars st (p ++ s).
Proof.
  induction s as [|c s IH]; intros p st Hf Hm Hc Hne Hd Hb.
  - rewrite app_nil_r. destruct st; cbn in *; subst; reflexivity.
  - cbn [fold_left].
    assert (Hdp : all_digits p = true /\ is_digit c = true /\ all_digits s = true).
    { unfold all_digits in *. rewrite forallb_app in Hd. cbn [forallb] in Hd.
      apply andb_true_iff in Hd as [H1 H2]. apply andb_true_iff in H2 as [H2 H3]. auto. }
    destruct Hdp as (Hdp & Hdc & Hds).
    destruct (digit_not_special c Hdc) as (E1 & E2 & E3 & E4 & E5).
    assert (Hat : atoi p = Some (Z.of_N (dec_val p))).
    { apply atoi_all_digits; try assumption. pose proof (dec_val_prefix p (c :: s)). lia. }
    assert (Hstep : sc_step st c = with_chars st (p ++ [c])).
    { unfold sc_step. rewrite Hf, Hc. destruct p as [|p0 pr]; [congruence|]. rewrite Hat, Hm, E1, E2, E3, E4, E5.
      cbn [andb]. unfold with_chars. rewrite Hf, Hm. reflexivity. }
    rewrite Hstep.
    replace (p ++ c :: s) with ((p ++ [c]) ++ s) in * by (rewrite <- app_assoc; reflexivity).
    rewrite (IH (p ++ [c]) (with_chars st (p ++ [c]))).
    + destruct st; reflexivity.
    + exact Hf.
    + exact Hm.
    + reflexivity.
    + destruct p; discriminate.
    + exact Hd.
    + exact Hb.
Qed.

Record asc := { achars : option Z; amseen : bool; adays : Z; ahrs : Z; amins : Z; asecs : Z; amsec : Z; abad : bool }.
Definition asc0 := {| achars := None; amseen := false; adays := 0; ahrs := 0; amins := 0; asecs := 0; amsec := 0; abad := false |}.
Definition conc (a : asc) : sc :=
  {| chars := match achars a with None => [] | Some n => digitsZ n end; mseen := amseen a; days := adays a;
     hrs := ahrs a; mins := amins a; secs := asecs a; msec := amsec a; failed := false |}.

Definition abs_char (a : asc) (ch : N) : asc :=
  let value := oz (achars a) in
  let pending := amseen a && match achars a with None => false | Some _ => true end in
  if (ch =? c_d)%N then
    {| achars := None; amseen := false; adays := if pending then 0 else value; ahrs := ahrs a;
       amins := if pending then value else amins a; asecs := asecs a; amsec := amsec a; abad := abad a |}
  else if (ch =? c_h)%N then
    {| achars := None; amseen := false; adays := adays a; ahrs := if pending then 0 else value;
       amins := if pending then value else amins a; asecs := asecs a; amsec := amsec a; abad := abad a |}
  else if (ch =? c_m)%N then
    {| achars := achars a; amseen := true; adays := adays a; ahrs := ahrs a; amins := amins a;
       asecs := asecs a; amsec := amsec a; abad := abad a |}
  else if (ch =? c_s)%N then
    if amseen a then
      {| achars := None; amseen := false; adays := adays a; ahrs := ahrs a; amins := amins a;
         asecs := asecs a; amsec := value; abad := abad a |}
    else match achars a with
         | None => a
         | Some _ => {| achars := None; amseen := false; adays := adays a; ahrs := ahrs a; amins := amins a;
                        asecs := value; amsec := amsec a; abad := abad a |}
         end
  else (* space *)
    {| achars := if pending then None else achars a; amseen := false; adays := adays a; ahrs := ahrs a;
       amins := if pending then value else amins a; asecs := asecs a; amsec := amsec a; abad := abad a |}.

Definition abs_num (a : asc) (n : Z) : asc :=
  match achars a with
  | None => {| achars := Some n; amseen := false; adays := adays a; ahrs := ahrs a; amins := amins a;
               asecs := asecs a; amsec := amsec a; abad := abad a |}
  | Some k => {| achars := Some n; amseen := false; adays := adays a; ahrs := ahrs a; amins := k;
                 asecs := asecs a; amsec := amsec a; abad := abad a || negb (amseen a) |}
  end.

Definition abs_tok (a : asc) (t : tok) : asc :=
  match t with TNum n => abs_num a n | TChar c => abs_char a c end.

Definition special (c : N) : Prop := c = c_d \/ c = c_h \/ c = c_m \/ c = c_s \/ c = c_sp.
Definition chars_ok (a : asc) : Prop := match achars a with None => True | Some k => 0 <= k <= two63 - 1 end.

Lemma sim_char a c : special c -> chars_ok a -> sc_step (conc a) c = conc (abs_char a c).
Proof.
  intros Hc Hk. unfold sc_step, chars_ok in *. cbn [conc failed chars mseen].
  destruct a as [ch ms dd hh mm ss mms bad]. cbn [achars amseen adays ahrs amins asecs amsec] in *.
  destruct ch as [k|].
  - pose proof (atoi_digitsZ k Hk) as Hat.
    destruct (digitsZ_head_digit k ltac:(lia)) as (c0 & t0 & E & _). rewrite E in *. rewrite Hat.
    destruct Hc as [->|[->|[->|[->| ->]]]]; destruct ms; cbn; unfold conc; cbn; rewrite ?E; reflexivity.
  - destruct Hc as [->|[->|[->|[->| ->]]]]; destruct ms; reflexivity.
Qed.

Lemma sim_num a n : chars_ok a -> 0 <= n <= two63 - 1 -> abad (abs_num a n) = false ->
  fold_left sc_step (digitsZ n) (conc a) = conc (abs_num a n).
Proof.
  intros Hk Hn Hbad. unfold chars_ok in *.
  destruct a as [ch ms dd hh mm ss mms bad]. cbn [achars] in *.
  rewrite digitsZ_nonneg by lia.
  pose proof (digits_all_digits (Z.to_N n)) as Had.
  pose proof (digits_val (Z.to_N n)) as Hval.
  destruct (digits_head (Z.to_N n)) as (c & t & E & Hc & Ht).
  destruct (digit_not_special c Hc) as (E1 & E2 & E3 & E4 & E5).
  rewrite E in *. cbn [fold_left].
  set (st1 := {| chars := [c]; mseen := false; days := dd; hrs := hh;
                 mins := match ch with Some k => k | None => mm end; secs := ss; msec := mms; failed := false |}).
  assert (Hstep : sc_step (conc {| achars := ch; amseen := ms; adays := dd; ahrs := hh; amins := mm;
                                   asecs := ss; amsec := mms; abad := bad |}) c = st1).
  { unfold sc_step, conc. cbn [achars amseen adays ahrs amins asecs amsec failed chars mseen days hrs mins secs msec].
    destruct ch as [k|].
    - assert (ms = true) as ->.
      { unfold abs_num in Hbad. cbn in Hbad. destruct ms, bad; cbn in Hbad; congruence. }
      pose proof (atoi_digitsZ k Hk) as Hat.
      destruct (digitsZ_head_digit k ltac:(lia)) as (c0 & t0 & E0 & _). rewrite E0 in *. rewrite Hat.
      rewrite E1, E2, E3, E4, E5. reflexivity.
    - rewrite E1, E2, E3, E4, E5. destruct ms; reflexivity. }
  rewrite Hstep.
  rewrite (sc_digits t [c] st1); try reflexivity; try discriminate.
  - unfold abs_num, conc, with_chars, st1. cbn [achars amseen adays ahrs amins asecs amsec chars mseen days hrs mins secs msec failed].
    destruct ch; cbn [achars]; rewrite digitsZ_nonneg by lia; rewrite E; reflexivity.
  - exact Had.
  - cbn [app]. rewrite Hval. lia.
Qed.

Definition tok_ok (t : tok) : Prop :=
  match t with TNum n => 0 <= n <= two63 - 1 | TChar c => special c end.

Lemma abs_chars_ok a t : chars_ok a -> tok_ok t -> chars_ok (abs_tok a t).
Proof.
  intros Ha Ht. destruct t as [n|c]; cbn [abs_tok tok_ok] in *.
  - unfold abs_num, chars_ok in *. destruct (achars a); cbn [achars]; exact Ht.
  - unfold abs_char, chars_ok in *. destruct a as [ch ms dd hh mm ss mms bad]. cbn [achars amseen] in *.
    destruct Ht as [->|[->|[->|[->| ->]]]]; destruct ms, ch; cbn; auto.
Qed.

Lemma abad_mono a t : abad a = true -> abad (abs_tok a t) = true.
Proof.
  intros H. destruct t as [n|c]; cbn [abs_tok].
  - unfold abs_num. destruct (achars a); cbn; rewrite H; reflexivity.
  - unfold abs_char. repeat (match goal with |- context [if ?b then _ else _] => destruct b end; cbn; try assumption).
    all: try (destruct (achars a); cbn; assumption).
Qed.

Lemma sim_toks : forall ts a, chars_ok a -> Forall tok_ok ts ->
  abad (fold_left abs_tok ts a) = false ->
  fold_left sc_step (flatten ts) (conc a) = conc (fold_left abs_tok ts a).
Proof.
  induction ts as [|t ts IH]; intros a Ha Hts Hbad; [reflexivity|].
  inversion Hts as [|? ? Ht Hts']; subst.
  unfold flatten. cbn [map concat fold_left]. rewrite fold_left_app. fold (flatten ts).
  cbn [fold_left] in Hbad.
  assert (Hb1 : abad (abs_tok a t) = false).
  { destruct (abad (abs_tok a t)) eqn:Eb; [|reflexivity].
    exfalso. clear - Eb Hbad. revert Eb Hbad. generalize (abs_tok a t). induction ts as [|t' ts' IH']; intros a0 Eb Hbad; cbn in *.
    - congruence.
    - apply (IH' (abs_tok a0 t')); [apply abad_mono; exact Eb|exact Hbad]. }
  assert (Hb0 : abad a = false).
  { destruct (abad a) eqn:Eb; [|reflexivity]. rewrite (abad_mono a t Eb) in Hb1. discriminate. }
  assert (Hstep : fold_left sc_step (tok_str t) (conc a) = conc (abs_tok a t)).
  { destruct t as [n|c]; cbn [tok_str abs_tok tok_ok] in *.
    - apply sim_num; assumption.
    - cbn [fold_left]. apply sim_char; assumption. }
  rewrite Hstep. apply IH; try assumption. apply abs_chars_ok; assumption.
Qed.

Definition abs_finish (a : asc) : option (Z * Z * Z * Z * Z) :=
  if amseen a then
    match achars a with
    | None => Some (adays a, ahrs a, amins a, asecs a, amsec a)
    | Some v => Some (adays a, ahrs a, v, asecs a, amsec a)
    end
  else match achars a with
       | None => Some (adays a, ahrs a, amins a, asecs a, amsec a)
       | Some _ => None
       end.

Lemma sim_finish a : chars_ok a -> sc_finish (conc a) = abs_finish a.
Proof.
  intros Hk. unfold sc_finish, abs_finish, conc, chars_ok in *. cbn [failed mseen chars days hrs mins secs msec].
  destruct (achars a) as [k|].
  - pose proof (atoi_digitsZ k Hk) as Hat.
    destruct (digitsZ_head_digit k ltac:(lia)) as (c0 & t0 & E & _). rewrite E in *. rewrite Hat.
    destruct (amseen a); reflexivity.
  - destruct (amseen a); reflexivity.
Qed.

Lemma chars_ok_fold : forall ts a, chars_ok a -> Forall tok_ok ts -> chars_ok (fold_left abs_tok ts a).
Proof.
  induction ts as [|t ts IH]; intros a Ha Hts; [exact Ha|]. inversion Hts; subst. cbn [fold_left].
  apply IH; [apply abs_chars_ok|]; assumption.
Qed.

Theorem scan_tokens ts : Forall tok_ok ts -> abad (fold_left abs_tok ts asc0) = false ->
  scan (flatten ts) = abs_finish (fold_left abs_tok ts asc0).
Proof.
  intros Hts Hbad. unfold scan. change sc0 with (conc asc0).
  rewrite sim_toks; try assumption; [|exact I].
  apply sim_finish. apply chars_ok_fold; [exact I|assumption].
Qed.

(* ------------------------------------------------------------------ spellings *)
Definition opt (o : option Z) (u : N) : list (Z * N) := match o with Some n => [(n, u)] | None => [] end.
Definition present (od oh om os : option Z) : list (Z * N) := opt od c_d ++ opt oh c_h ++ opt om c_m ++ opt os c_s.
Definition mk (p : (Z * N)%type) : list tok := [TNum (fst p); TChar (snd p)].

Lemma term_toks_opt o u : term_toks o u = map mk (opt o u).
Proof. destruct o; reflexivity. Qed.

Lemma spelling_toks_present (neg spaced : bool) od oh om os :
  spelling_toks neg spaced od oh om os =
  (if neg then [TChar c_minus] else []) ++ join_toks (if spaced then [TChar c_sp] else []) (map mk (present od oh om os)).
Proof. unfold spelling_toks, present. rewrite !term_toks_opt, !map_app. reflexivity. Qed.

Lemma flatten_app a b : flatten (a ++ b) = flatten a ++ flatten b.
Proof. unfold flatten. rewrite map_app, concat_app. reflexivity. Qed.

Definition nospace (c : N) : bool := negb (c =? c_sp)%N.

Lemma digits_forall (P : N -> bool) n : (forall c, is_digit c = true -> P c = true) -> 0 <= n ->
  forallb P (digitsZ n) = true.
Proof.
  intros HP Hn. rewrite digitsZ_nonneg by assumption. pose proof (digits_all_digits (Z.to_N n)) as H.
  unfold all_digits in H. rewrite forallb_forall in *. intros c Hc. apply HP, H, Hc.
Qed.

Lemma filter_all (P : N -> bool) s : forallb P s = true -> filter P s = s.
Proof. induction s as [|c s IH]; cbn; [reflexivity|]. intros H. apply andb_true_iff in H as [-> H]. rewrite IH; auto. Qed.

Lemma join_toks_cons2 s x y r : join_toks s (x :: y :: r) = x ++ s ++ join_toks s (y :: r).
Proof. reflexivity. Qed.

Definition units_ok (l : list (Z * N)) : Prop :=
  Forall (fun p : (Z * N)%type => 0 <= fst p /\ (snd p = c_d \/ snd p = c_h \/ snd p = c_m \/ snd p = c_s)) l.

Lemma filter_join (spaced : bool) l : units_ok l ->
  filter nospace (flatten (join_toks (if spaced then [TChar c_sp] else []) (map mk l)))
  = render (map (fun p : (Z * N)%type => (fst p, [snd p])) l).
Proof.
  induction 1 as [|[n u] l [Hn Hu] Hl IH]; [reflexivity|]. cbn [fst snd] in *.
  assert (Hd : filter nospace (digitsZ n) = digitsZ n).
  { apply filter_all, digits_forall; [|assumption]. intros c Hc. unfold is_digit, nospace, c_sp in *. lia. }
  assert (Hu' : nospace u = true) by (destruct Hu as [->|[->|[->| ->]]]; reflexivity).
  cbn [map]. destruct l as [|p l'].
  - cbn [join_toks map]. unfold mk, flatten, render. cbn [map concat fst snd tok_str].
    rewrite !filter_app, Hd. cbn [filter]. rewrite Hu'. rewrite <- ?app_assoc. reflexivity.
  - cbn [map]. rewrite join_toks_cons2.
    rewrite !flatten_app, !filter_app. cbn [map] in IH. rewrite IH.
    unfold render at 2. cbn [map concat fst snd]. fold (render (map (fun p : (Z * N)%type => (fst p, [snd p])) (p :: l'))).
    unfold mk, flatten at 1. cbn [map concat fst snd tok_str]. rewrite !filter_app, Hd. cbn [filter]. rewrite Hu'.
    destruct spaced; cbn; rewrite <- ?app_assoc; reflexivity.
Qed.

Lemma alphabet_join (spaced : bool) l : units_ok l ->
  forallb in_alphabet (flatten (join_toks (if spaced then [TChar c_sp] else []) (map mk l))) = true.
Proof.
  induction 1 as [|[n u] l [Hn Hu] Hl IH]; [reflexivity|]. cbn [fst snd] in *.
  assert (Hd : forallb in_alphabet (digitsZ n) = true).
  { apply digits_forall; [|assumption]. intros c Hc. unfold in_alphabet. rewrite Hc. reflexivity. }
  assert (Hu' : in_alphabet u = true) by (destruct Hu as [->|[->|[->| ->]]]; reflexivity).
  cbn [map]. destruct l as [|p l'].
  - cbn [join_toks map]. unfold mk, flatten. cbn [map concat fst snd tok_str].
    rewrite !forallb_app, Hd. cbn [forallb]. rewrite Hu'. reflexivity.
  - cbn [map]. rewrite join_toks_cons2.
    rewrite !flatten_app, !forallb_app. cbn [map] in IH. rewrite IH.
    unfold mk, flatten at 1. cbn [map concat fst snd tok_str]. rewrite !forallb_app, Hd. cbn [forallb]. rewrite Hu'.
    destruct spaced; reflexivity.
Qed.

Lemma digits_no_d n : 0 <= n -> existsb (N.eqb c_d) (digitsZ n) = false.
Proof.
  intros Hn. destruct (existsb (N.eqb c_d) (digitsZ n)) eqn:E; [|reflexivity]. exfalso.
  apply existsb_exists in E as (c & Hin & Hc). apply N.eqb_eq in Hc. subst c.
  pose proof (digits_forall is_digit n (fun c H => H) Hn) as H. rewrite forallb_forall in H.
  specialize (H _ Hin). discriminate.
Qed.

Lemma has_d_join (spaced : bool) l : units_ok l ->
  existsb (N.eqb c_d) (flatten (join_toks (if spaced then [TChar c_sp] else []) (map mk l)))
  = existsb (fun p : (Z * N)%type => (c_d =? snd p)%N) l.
Proof.
  induction 1 as [|[n u] l [Hn Hu] Hl IH]; [reflexivity|]. cbn [fst snd] in *.
  pose proof (digits_no_d n Hn) as Hd.
  cbn [map]. destruct l as [|p l'].
  - cbn [join_toks map]. unfold mk, flatten. cbn [map concat fst snd tok_str existsb].
    rewrite !existsb_app, Hd. cbn [existsb orb]. rewrite orb_false_r. reflexivity.
  - cbn [map]. rewrite join_toks_cons2.
    rewrite !flatten_app, !existsb_app. cbn [map] in IH. rewrite IH.
    unfold mk, flatten at 1. cbn [map concat fst snd tok_str]. rewrite !existsb_app, Hd. cbn [existsb fst snd orb].
    destruct spaced; cbn; rewrite ?orb_false_r; reflexivity.
Qed.

(* ------------------------------------------------------------------ trimming *)
Lemma trim_right_app x y : trim_right y <> [] -> trim_right (x ++ y) = x ++ trim_right y.
Proof.
  intros Hy. induction x as [|c x IH]; [reflexivity|].
  cbn [app]. unfold trim_right in *. cbn [fold_right]. rewrite IH.
  destruct (x ++ fold_right _ [] y) eqn:E; [|reflexivity].
  apply app_eq_nil in E as [_ E]. congruence.
Qed.

Lemma flatten_nonempty ts c : In (TChar c) ts -> flatten ts <> [].
Proof.
  induction ts as [|t ts IH]; intros Hin; [contradiction|].
  unfold flatten. cbn [map concat]. destruct Hin as [->|Hin].
  - discriminate.
  - intros E. apply app_eq_nil in E as [_ E]. exact (IH Hin E).
Qed.

Lemma trim_right_flatten : forall ts u, is_space u = false -> last ts (TNum 0) = TChar u ->
  trim_right (flatten ts) = flatten ts /\ flatten ts <> [].
Proof.
  induction ts as [|t ts IH]; intros u Hu Hl.
  - cbn in Hl. discriminate.
  - destruct ts as [|t2 ts'].
    + cbn in Hl. subst t. unfold flatten. cbn. rewrite Hu. split; [reflexivity|discriminate].
    + destruct (IH u Hu) as [E Hne]; [exact Hl|].
      change (flatten (t :: t2 :: ts')) with (tok_str t ++ flatten (t2 :: ts')). split.
      * rewrite trim_right_app; rewrite E; [reflexivity|exact Hne].
      * intros H. apply app_eq_nil in H as [_ H]. exact (Hne H).
Qed.

Lemma trim_left_head s c r : s = c :: r -> is_space c = false -> trim_left s = s.
Proof. intros -> H. cbn. rewrite H. reflexivity. Qed.

Lemma trim_left_digits n r : 0 <= n -> trim_left (digitsZ n ++ r) = digitsZ n ++ r.
Proof.
  intros Hn. destruct (digitsZ_head_digit n Hn) as (c & t & E & Hc). rewrite E. cbn [app].
  eapply trim_left_head; [reflexivity|]. destruct (digit_not_special c Hc) as (_ & _ & _ & _ & H). exact H.
Qed.

Lemma sign_pair_digits n r : 0 <= n ->
  match digitsZ n ++ r with
  | c :: r' => if (c =? c_minus)%N then (true, r') else (false, digitsZ n ++ r)
  | [] => (false, digitsZ n ++ r)
  end = (false, digitsZ n ++ r).
Proof.
  intros Hn. destruct (digitsZ_head_digit n Hn) as (c & t & E & Hc). rewrite E. cbn [app].
  assert ((c =? c_minus)%N = false) as -> by (unfold is_digit, c_minus in *; lia). reflexivity.
Qed.

Lemma wrap64_small z : - two63 <= z < two63 -> wrap64 z = z.
Proof. intros H. unfold wrap64. rewrite Z.mod_small; unfold two63, two64 in *; lia. Qed.

Lemma fmt_render a b c d :
  fmt_hmsms a b c d = [] ++ render [(a, [c_h]); (b, [c_m]); (c, [c_s]); (d, [c_m; c_s])].
Proof. unfold fmt_hmsms, render. cbn [map concat fst snd app]. rewrite <- !app_assoc. cbn [app]. reflexivity. Qed.

Lemma good_h : good_unit [c_h]. Proof. left; reflexivity. Qed.
Lemma good_m : good_unit [c_m]. Proof. right; left; reflexivity. Qed.
Lemma good_s : good_unit [c_s]. Proof. right; right; left; reflexivity. Qed.
Lemma good_ms : good_unit [c_m; c_s]. Proof. right; right; right; reflexivity. Qed.
#[local] Hint Resolve good_h good_m good_s good_ms : core.

Lemma uv_h : unit_val [c_h] = ns_h. Proof. reflexivity. Qed.
Lemma uv_m : unit_val [c_m] = ns_m. Proof. reflexivity. Qed.
Lemma uv_s : unit_val [c_s] = ns_s. Proof. reflexivity. Qed.
Lemma uv_ms : unit_val [c_m; c_s] = 1000000. Proof. reflexivity. Qed.

Lemma special_d : special c_d. Proof. left; reflexivity. Qed.
Lemma special_h : special c_h. Proof. right; left; reflexivity. Qed.
Lemma special_m : special c_m. Proof. right; right; left; reflexivity. Qed.
Lemma special_s : special c_s. Proof. right; right; right; left; reflexivity. Qed.
Lemma special_sp : special c_sp. Proof. right; right; right; right; reflexivity. Qed.
#[local] Hint Resolve special_d special_h special_m special_s special_sp : core.

(* the day path of parse_dur on a concrete token spelling *)
Lemma day_path (neg : bool) (body : list tok) dd hh mm ss u :
  0 <= dd -> 0 <= hh -> 0 <= mm -> 0 <= ss ->
  dd * 24 * ns_h + hh * ns_h + mm * ns_m + ss * ns_s <= two63 - 1 ->
  (exists rest, body = TNum dd :: rest) ->
  is_space u = false -> last body (TNum 0) = TChar u ->
  Forall tok_ok body ->
  abad (fold_left abs_tok body asc0) = false ->
  abs_finish (fold_left abs_tok body asc0) = Some (dd, hh, mm, ss, 0) ->
  (let t := trim (flatten ((if neg then [TChar c_minus] else []) ++ body)) in
   let '(neg0, b) := match t with
                     | c :: r => if (c =? c_minus)%N then (true, r) else (false, t)
                     | [] => (false, t)
                     end in
   match scan b with
   | None => Err
   | Some (dd, hh, mm, ss, ms) =>
       match go_parse (fmt_hmsms (wrap64 (hh + wrap64 (dd * 24))) mm ss ms) with
       | Ok v => Ok (if neg0 then - v else v)
       | r => r
       end
   end) = Ok (if neg then - (dd * 24 * ns_h + hh * ns_h + mm * ns_m + ss * ns_s)
              else dd * 24 * ns_h + hh * ns_h + mm * ns_m + ss * ns_s).
Proof.
  intros Hd Hh Hm Hs Hb [rest Hrest] Hu Hlast Htok Hbad Hfin.
  assert (Hlast' : last ((if neg then [TChar c_minus] else []) ++ body) (TNum 0) = TChar u).
  { destruct neg; [|exact Hlast]. cbn [app]. subst body. exact Hlast. }
  destruct (trim_right_flatten _ u Hu Hlast') as [Etr _].
  assert (Etl : trim_left (flatten ((if neg then [TChar c_minus] else []) ++ body))
                = flatten ((if neg then [TChar c_minus] else []) ++ body)).
  { destruct neg; cbn [app].
    - reflexivity.
    - subst body. change (flatten (TNum dd :: rest)) with (digitsZ dd ++ flatten rest). apply trim_left_digits, Hd. }
  unfold trim. rewrite Etl, Etr. cbv zeta.
  assert (Hscan : scan (flatten body) = Some (dd, hh, mm, ss, 0)).
  { rewrite scan_tokens by assumption. exact Hfin. }
  assert (Hw1 : wrap64 (dd * 24) = dd * 24) by (apply wrap64_small; unfold two63, ns_h, ns_m, ns_s in *; lia).
  assert (Hw2 : wrap64 (hh + dd * 24) = hh + dd * 24) by (apply wrap64_small; unfold two63, ns_h, ns_m, ns_s in *; lia).
  assert (Hgo : go_parse (fmt_hmsms (wrap64 (hh + wrap64 (dd * 24))) mm ss 0)
                = Ok (dd * 24 * ns_h + hh * ns_h + mm * ns_m + ss * ns_s)).
  { rewrite Hw1, Hw2, fmt_render.
    rewrite (go_parse_groups false).
    - f_equal. cbn [gsum fold_right fst snd]. rewrite uv_h, uv_m, uv_s, uv_ms. lia.
    - discriminate.
    - repeat constructor; cbn [fst snd]; auto; lia.
    - cbn [gsum fold_right fst snd]. rewrite uv_h, uv_m, uv_s, uv_ms. lia. }
  destruct neg; cbn [app].
  - change (flatten (TChar c_minus :: body)) with (c_minus :: flatten body).
    cbv beta iota. change (c_minus =? c_minus)%N with true. cbv beta iota. rewrite Hscan, Hgo. reflexivity.
  - subst body. change (flatten (TNum dd :: rest)) with (digitsZ dd ++ flatten rest) in *.
    rewrite sign_pair_digits by assumption.
    rewrite Hscan, Hgo. reflexivity.
Qed.

Lemma present_units od oh om os : onat od -> onat oh -> onat om -> onat os -> units_ok (present od oh om os).
Proof.
  intros Hd Hh Hm Hs. unfold present, units_ok, opt.
  destruct od, oh, om, os; cbn [app onat] in *;
    repeat (apply Forall_cons; [cbn [fst snd]; split; [assumption | auto 6] | ]); apply Forall_nil.
Qed.

Theorem documented_forms : forall (neg spaced : bool) (od oh om os : option Z),
  terms_ok od oh om os ->
  parse_dur (spelling neg spaced od oh om os) = Ok (spelling_value neg od oh om os).
Proof.
  intros neg spaced od oh om os (Hsome & Hd & Hh & Hm & Hs & Hb).
  pose proof (present_units od oh om os Hd Hh Hm Hs) as Hu.
  unfold parse_dur, spelling. rewrite spelling_toks_present.
  assert (Halpha : forallb in_alphabet (flatten ((if neg then [TChar c_minus] else []) ++
            join_toks (if spaced then [TChar c_sp] else []) (map mk (present od oh om os)))) = true).
  { rewrite flatten_app, forallb_app, alphabet_join by assumption. destruct neg; reflexivity. }
  rewrite Halpha. cbn [negb].
  assert (Hhasd : existsb (N.eqb c_d) (flatten ((if neg then [TChar c_minus] else []) ++
            join_toks (if spaced then [TChar c_sp] else []) (map mk (present od oh om os))))
            = match od with Some _ => true | None => false end).
  { rewrite flatten_app, existsb_app, has_d_join by assumption.
    destruct neg, od, oh, om, os; reflexivity. }
  rewrite Hhasd. unfold spelling_value, spelling_abs, terms_ok, onat in *.
  destruct od as [dd|]; cbn [negb oz] in *.
  - (* day path *)
    assert (Hnn : 0 <= oz oh /\ 0 <= oz om /\ 0 <= oz os) by (destruct oh, om, os; cbn [oz]; lia).
    destruct Hnn as (Hh0 & Hm0 & Hs0).
    apply (day_path neg _ dd (oz oh) (oz om) (oz os)
             (last (map snd (present (Some dd) oh om os)) c_d)); try assumption.
    + destruct spaced, oh, om, os; eexists; reflexivity.
    + destruct oh, om, os; reflexivity.
    + destruct spaced, oh, om, os; reflexivity.
    + unfold ns_h, ns_m, ns_s, two63 in *.
      destruct spaced, oh, om, os; unfold mk; cbn [oz join_toks map present opt app fst snd] in *;
        repeat (apply Forall_cons; [cbn [tok_ok]; unfold two63; first [solve [auto] | lia] | ]); apply Forall_nil.
    + destruct spaced, oh, om, os; reflexivity.
    + destruct spaced, oh, om, os; reflexivity.
  - (* native path *)
    change (fun c : N => negb (c =? c_sp)%N) with nospace.
    rewrite flatten_app, filter_app, filter_join by assumption.
    assert (Hsign : filter nospace (flatten (if neg then [TChar c_minus] else [])) = if neg then [c_minus] else [])
      by (destruct neg; reflexivity).
    rewrite Hsign. rewrite go_parse_groups.
    + f_equal. destruct neg, oh, om, os; cbn [present opt app map gsum fold_right fst snd oz];
        rewrite ?uv_h, ?uv_m, ?uv_s; lia.
    + destruct oh, om, os; try discriminate. exfalso. destruct Hsome as [H|[H|[H|H]]]; congruence.
    + destruct oh, om, os; cbn [present opt app map onat] in *;
        repeat (apply Forall_cons; [split; cbn [fst snd]; auto | ]); apply Forall_nil.
    + destruct oh, om, os; cbn [present opt app map gsum fold_right fst snd oz] in *;
        rewrite ?uv_h, ?uv_m, ?uv_s; lia.
Qed.

(* ------------------------------------------------------------------ FormatDuration produces a documented spelling *)
Lemma digitsZ_len n : 0 <= n -> (1 <= length (digitsZ n))%nat.
Proof. intros H. destruct (digitsZ_head_digit n H) as (c & t & E & _). rewrite E. cbn. lia. Qed.

Lemma term_first acc n u : (length acc <= 1)%nat -> term acc n u = acc ++ digitsZ n ++ [u].
Proof. intros H. unfold term. destruct (Z.ltb_spec 1 (Z.of_nat (length acc))); [lia|reflexivity]. Qed.

Lemma term_next acc n u : (2 <= length acc)%nat -> term acc n u = acc ++ [c_sp] ++ digitsZ n ++ [u].
Proof. intros H. unfold term. destruct (Z.ltb_spec 1 (Z.of_nat (length acc))); [reflexivity|lia]. Qed.

Lemma term_len acc n u : 0 <= n -> (2 <= length (term acc n u))%nat.
Proof. intros H. pose proof (digitsZ_len n H). unfold term. rewrite !app_length. cbn [length]. lia. Qed.

Definition f_od (a : Z) : option Z := if 23 <? a / ns_h then Some (a / ns_h / 24) else None.
Definition f_oh (a : Z) : option Z :=
  let hours := a / ns_h in
  let hrem := if 23 <? hours then hours mod 24 else hours in
  if (0 <? hours) && (0 <? hrem) then Some hrem else None.
Definition f_om (a : Z) : option Z := if 1 <=? (a / ns_m) mod 60 then Some ((a / ns_m) mod 60) else None.
Definition f_os (a : Z) : option Z := if 1 <=? (a / ns_s) mod 60 then Some ((a / ns_s) mod 60) else None.

Ltac len_tac := cbn [length app]; repeat (rewrite app_length; cbn [length]); lia.

Lemma format_is_spelling d : ns_s <= Z.abs d ->
  format_ext d = Some (spelling (d <? 0) true (f_od (Z.abs d)) (f_oh (Z.abs d)) (f_om (Z.abs d)) (f_os (Z.abs d))).
Proof.
  intros Hd. unfold format_ext.
  destruct (Z.eqb_spec d 0) as [->|_]; [unfold ns_s in Hd; cbn in Hd; lia|].
  destruct (Z.ltb_spec (Z.abs d) ns_s); [lia|]. f_equal.
  unfold f_od, f_oh, f_om, f_os, spelling, spelling_toks.
  set (a := Z.abs d) in *.
  assert (Ha : 0 <= a) by (unfold ns_s in *; lia).
  assert (H1 : 0 <= a / ns_h / 24) by (unfold ns_h; lia).
  assert (H2 : 0 <= (a / ns_h) mod 24) by (unfold ns_h; lia).
  assert (H3 : 0 <= a / ns_h) by (unfold ns_h; lia).
  assert (H4 : 0 <= (a / ns_m) mod 60) by (unfold ns_m; lia).
  assert (H5 : 0 <= (a / ns_s) mod 60) by (unfold ns_s; lia).
  pose proof (digitsZ_len _ H1). pose proof (digitsZ_len _ H2). pose proof (digitsZ_len _ H3).
  pose proof (digitsZ_len _ H4). pose proof (digitsZ_len _ H5).
  generalize dependent (a / ns_h). generalize dependent ((a / ns_m) mod 60). generalize dependent ((a / ns_s) mod 60).
  intros sec Hs Ls mi Hm Lm hours. intros.
  destruct (d <? 0), (Z.ltb_spec 23 hours), (Z.ltb_spec 0 hours); try lia; cbn [andb];
    try destruct (0 <? hours mod 24); cbn [andb];
    destruct (1 <=? mi), (1 <=? sec);
    repeat (first [rewrite term_next by (apply term_len; assumption) | rewrite term_first by len_tac | rewrite term_next by len_tac]);
    unfold flatten; cbn [term_toks app join_toks map concat tok_str];
    repeat (rewrite <- app_assoc); cbn [app]; repeat (rewrite <- app_assoc); cbn [app]; rewrite ?app_nil_r; reflexivity.
Qed.

Theorem roundtrip : forall d : Z, ns_s <= Z.abs d <= 9223372036 * ns_s ->
  exists s, format_ext d = Some s /\ parse_dur s = Ok (Z.quot d ns_s * ns_s).
Proof.
  intros d Hd. eexists. split; [apply format_is_spelling; lia|].
  set (a := Z.abs d) in *.
  assert (Hq : Z.quot d ns_s * ns_s = if d <? 0 then - (a / ns_s * ns_s) else a / ns_s * ns_s).
  { subst a. destruct (Z.ltb_spec d 0).
    - rewrite <- (Z.opp_involutive d) at 1. rewrite Z.quot_opp_l by (unfold ns_s; lia).
      rewrite Z.quot_div_nonneg by (unfold ns_s; lia). rewrite Z.abs_neq by lia. lia.
    - rewrite Z.quot_div_nonneg by (unfold ns_s; lia). rewrite Z.abs_eq by lia. reflexivity. }
  rewrite Hq. clear Hq.
  assert (Ha : 0 <= a) by lia.
  assert (Hval : spelling_abs (f_od a) (f_oh a) (f_om a) (f_os a) = a / ns_s * ns_s).
  { unfold spelling_abs, f_od, f_oh, f_om, f_os, ns_h, ns_m, ns_s in *.
    destruct (Z.ltb_spec 23 (a / 3600000000000)), (Z.ltb_spec 0 (a / 3600000000000)); cbn [andb oz];
      try destruct (Z.ltb_spec 0 ((a / 3600000000000) mod 24)); cbn [oz];
      destruct (Z.leb_spec 1 ((a / 60000000000) mod 60)), (Z.leb_spec 1 ((a / 1000000000) mod 60)); cbn [oz]; lia. }
  rewrite documented_forms.
  - unfold spelling_value. rewrite Hval. reflexivity.
  - unfold terms_ok. rewrite Hval. repeat split.
    + unfold f_od, f_oh, f_om, f_os, ns_h, ns_m, ns_s in *.
      destruct (Z.ltb_spec 23 (a / 3600000000000)); [left; discriminate|].
      destruct (Z.ltb_spec 0 (a / 3600000000000)); cbn [andb].
      * destruct (Z.ltb_spec 0 (a / 3600000000000)); [right; left; discriminate|lia].
      * destruct (Z.leb_spec 1 ((a / 60000000000) mod 60)); [right; right; left; discriminate|].
        destruct (Z.leb_spec 1 ((a / 1000000000) mod 60)); [right; right; right; discriminate|]. exfalso. lia.
    + unfold f_od, onat, ns_h. destruct (23 <? a / 3600000000000); [lia|exact I].
    + unfold f_oh, onat, ns_h. cbv zeta. destruct (_ && _); [|exact I]. destruct (23 <? a / 3600000000000); lia.
    + unfold f_om, onat, ns_m. destruct (1 <=? _); [lia|exact I].
    + unfold f_os, onat, ns_s. destruct (1 <=? _); [lia|exact I].
    + unfold two63, ns_s in *. lia.
Qed.

Theorem old_refuted :
  exists d s, ns_s <= d /\ format_ext d = Some s /\ parse_dur_old s <> Ok (Z.quot d ns_s * ns_s).
Proof. exists (3900 * ns_s). eexists. split; [unfold ns_s; lia|]. split; [vm_compute; reflexivity|]. vm_compute. discriminate. Qed.
