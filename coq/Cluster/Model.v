(* Cluster/Model.v — message-passing model of cluster cache invalidation:
   /repo/internal/server/cluster/invalidate.go (BroadcastCacheFlush, SendCacheFlush),
   handlers.go (FlushCacheHandler), /repo/internal/caches/purge.go (Purge / PurgeLocal / OnPurge).
   Definitions only. Node ids and cache classes are Z. *)
From Coq Require Export List ZArith Lia Bool.
Export ListNotations.
Open Scope Z_scope.

Record msg := mkMsg { mto : Z; mcache : Z; mhops : Z; mfrom : Z }.   (* POST /services/cluster/flush to mto *)

Record st := mkSt {
  table : list (Z * bool);      (* the shared cluster table: (node id, state = active) *)
  down : list Z;                (* nodes that cannot be reached: a send to them fails *)
  present : list (Z * Z);       (* (node, cache class) : that node currently holds that cache *)
  net : list msg                (* accepted requests not yet handled by their target (delay = stay here) *)
}.

Inductive act :=
| PurgeAt (n c : Z)             (* caches.Purge(c) called on node n *)
| Store (n c : Z)               (* node n populates cache c *)
| Deliver (i : nat)             (* the i-th in-flight request is handled by its target *)
| Drop (i : nat)                (* the i-th in-flight request is lost *)
| SetState (n : Z) (a : bool)   (* the membership row of n becomes active / removed (join, leave, eviction) *)
| SetDown (n : Z) (d : bool)    (* n becomes unreachable / reachable *)
| Forge (m : msg).              (* a request with arbitrary content reaches mto m (older build, relay, replay) *)

Definition max_hops : Z := 4.   (* maxFlushHops *)
Definition origin_hops : Z := 1. (* originHopCount *)

Definition memz (x : Z) (l : list Z) : bool := existsb (Z.eqb x) l.
Definition has (p : list (Z * Z)) (n c : Z) : bool := existsb (fun x => (fst x =? n) && (snd x =? c)) p.
Definition discard (n c : Z) (p : list (Z * Z)) : list (Z * Z) :=
  filter (fun x => negb ((fst x =? n) && (snd x =? c))) p.
Definition remove_nth {A} (i : nat) (l : list A) : list A := firstn i l ++ skipn (S i) l.

(* upsertMember / RemoveMember: the row keeps its place (rows are listed ORDER BY joined_at), a new node is appended *)
Fixpoint set_row (n : Z) (a : bool) (t : list (Z * bool)) : list (Z * bool) :=
  match t with
  | [] => [(n, a)]
  | (k, b) :: r => if k =? n then (n, a) :: r else (k, b) :: set_row n a r
  end.

(* ListActiveMembers: active rows other than the caller *)
Definition peers (s : st) (n : Z) : list Z :=
  map fst (filter (fun r => snd r && negb (fst r =? n)) (table s)).

(* BroadcastCacheFlush: one request per active peer, first hop *)
Definition broadcast (s : st) (n c : Z) : list msg := map (fun p => mkMsg p c origin_hops n) (peers s n).

(* caches.purge(id, notify) on node n: discard locally; notify = fire OnPurge = broadcast.
   Returns the new state and the requests attempted. *)
Definition purge_impl (notify : bool) (s : st) (n c : Z) : st * list msg :=
  let out := if notify then broadcast s n c else [] in
  (mkSt (table s) (down s) (discard n c (present s))
        (net s ++ filter (fun m => negb (memz (mto m) (down s))) out),
   out).

(* FlushCacheHandler on node mto m: over the hop limit -> ignored; else PurgeLocal *)
Definition receive (s : st) (m : msg) : st * list msg :=
  if max_hops <? mhops m then (s, []) else purge_impl false s (mto m) (mcache m).

Definition step (s : st) (a : act) : st * list msg :=
  match a with
  | PurgeAt n c => purge_impl true s n c
  | Store n c => (mkSt (table s) (down s) ((n, c) :: present s) (net s), [])
  | Deliver i =>
      match nth_error (net s) i with
      | Some m => receive (mkSt (table s) (down s) (present s) (remove_nth i (net s))) m
      | None => (s, [])
      end
  | Drop i => (mkSt (table s) (down s) (present s) (remove_nth i (net s)), [])
  | SetState n a =>
      (mkSt (set_row n a (table s)) (down s) (present s) (net s), [])
  | SetDown n d =>
      (mkSt (table s) (if d then n :: down s else filter (fun x => negb (x =? n)) (down s)) (present s) (net s), [])
  | Forge m => receive s m
  end.

Definition exec (s : st) (l : list act) : st := fold_left (fun s a => fst (step s a)) l s.
(* every request attempted during a run, in order *)
Fixpoint sends (s : st) (l : list act) : list msg :=
  match l with
  | [] => []
  | a :: r => snd (step s a) ++ sends (fst (step s a)) r
  end.

(* a cluster of the nodes 1..n, all active and reachable, nothing cached, nothing in flight *)
Definition cluster (ns : list Z) : st := mkSt (map (fun n => (n, true)) ns) [] [] [].

Definition is_purge (a : act) : bool := match a with PurgeAt _ _ => true | _ => false end.
Definition is_forge (a : act) : bool := match a with Forge _ => true | _ => false end.

(* number of requests a run is entitled to: for every purge, the number of active peers at that moment *)
Fixpoint budget (s : st) (l : list act) : nat :=
  match l with
  | [] => O
  | a :: r => (match a with PurgeAt n _ => length (peers s n) | _ => O end + budget (fst (step s a)) r)%nat
  end.

(* ---------- the pre-CLUSTER-1 handler, which called caches.Purge: kept to show what the theorems exclude *)
Definition receive_old (s : st) (m : msg) : st * list msg :=
  if max_hops <? mhops m then (s, []) else purge_impl true s (mto m) (mcache m).

(* ---------- encodings for the correspondence run *)
Definition enc_msgs (l : list msg) : list Z := flat_map (fun m => [mto m; mcache m; mhops m; mfrom m]) l.
Definition bz (b : bool) : Z := if b then 1 else 0.
Definition enc_obs (nodes cachesU : list Z) (s : st) (out : list msg) : list Z :=
  [Z.of_nat (length out); Z.of_nat (length (net s))]
  ++ flat_map (fun n => flat_map (fun c =>
       [Z.of_nat (length (filter (fun m => (mto m =? n) && (mcache m =? c)) out));
        fold_left (fun a m => a + mhops m * 100 + mfrom m) (filter (fun m => (mto m =? n) && (mcache m =? c)) out) 0;
        bz (has (present s) n c)]) cachesU) nodes
  ++ enc_msgs (net s).
Fixpoint zs_eqb (a b : list Z) : bool :=
  match a, b with
  | [], [] => true
  | x :: a', y :: b' => (x =? y) && zs_eqb a' b'
  | _, _ => false
  end.
Fixpoint first_bad (nodes cachesU : list Z) (s : st) (h : list (act * list Z)) (i : nat) : option nat :=
  match h with
  | [] => None
  | (a, want) :: r =>
      let (s', out) := step s a in
      if zs_eqb (enc_obs nodes cachesU s' out) want then first_bad nodes cachesU s' r (S i) else Some i
  end.
