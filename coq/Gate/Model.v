(* Gate/Model.v — executable model of the authentication / permission gate of Router.ServeHTTP
   (internal/router/serve.go), of the route builder calls that set its flags (router.go:
   Authentication, LightWeight, Permissions, CanAuthenticate) and of what Session.Authenticate
   (auth.go) leaves in the session.  Definitions only.  Permissions are numbers. *)
From Common Require Import Base.
Open Scope N_scope.

(* requiredPermissions is nil (None) or a possibly empty list *)
(* valid: the route has payload validations (len(route.validations) > 0) *)
Record flags := mkFlags { must_auth : bool; can_auth : bool; lightweight : bool; perms : option (list N);
                          valid : bool }.

(* Router.New: nothing required *)
Definition new_route : flags := mkFlags false false false None false.

Inductive call :=
| Authentication (b : bool)
| LightWeight (b : bool)
| Permissions (ps : list N)
| CanAuthenticate (b : bool)
| ValidateUsing.

Definition memN (p : N) (l : list N) : bool := existsb (N.eqb p) l.
Definition add_perms (old ps : list N) : list N :=
  fold_left (fun acc p => if memN p acc then acc else acc ++ [p]) ps old.

(* repaired builder (fix 0c2c3c02): LightWeight(true) only sets the lightweight flag *)
Definition apply1 (f : flags) (c : call) : flags :=
  match c with
  | Authentication b => mkFlags b (can_auth f) (lightweight f) (perms f) (valid f)
  | LightWeight b => mkFlags (if b then must_auth f else true) (can_auth f) b (perms f) (valid f)
  | Permissions ps =>
      mkFlags true (can_auth f) (lightweight f)
              (Some (add_perms (match perms f with Some l => l | None => [] end) ps)) (valid f)
  | CanAuthenticate b => mkFlags (must_auth f) b (lightweight f) (perms f) (valid f)
  | ValidateUsing => mkFlags (must_auth f) (can_auth f) (lightweight f) (perms f) true
  end.
Definition build (cs : list call) : flags := fold_left apply1 cs new_route.

(* the builder before the repair: LightWeight(flag) assigned mustAuthenticate = !flag *)
Definition apply1_old (f : flags) (c : call) : flags :=
  match c with
  | Authentication b => mkFlags b (can_auth f) (lightweight f) (perms f) (valid f)
  | LightWeight b => mkFlags (negb b) (can_auth f) b (perms f) (valid f)
  | Permissions ps =>
      mkFlags true (can_auth f) (lightweight f)
              (Some (add_perms (match perms f with Some l => l | None => [] end) ps)) (valid f)
  | CanAuthenticate b => mkFlags (must_auth f) b (lightweight f) (perms f) (valid f)
  | ValidateUsing => mkFlags (must_auth f) (can_auth f) (lightweight f) (perms f) true
  end.
Definition build_old (cs : list call) : flags := fold_left apply1_old cs new_route.

(* what Authenticate leaves in the session: LockedOut, Authenticated, Admin, User <> "", the
   permission list resolved during authentication (token / JWT), and lookup p =
   auth.GetPermission(session.User, p) for the user NAMED in the request (authenticated or not) *)
Record cred := mkCred { locked : bool; authed : bool; admin : bool; has_user : bool;
                        resolved : list N; lookup : N -> bool }.

(* Authenticate sets Admin = isAuthenticated && isRoot *)
Definition wf_cred (c : cred) : Prop := admin c = true -> authed c = true.

(* a lightweight route never calls Authenticate: the session keeps its zero values; lookup0 p =
   GetPermission("", p) *)
Definition zero_cred (lookup0 : N -> bool) : cred := mkCred false false false false [] lookup0.

Definition granted (c : cred) (p : N) : bool :=
  match resolved c with [] => lookup c p | l => memN p l end.

Inductive response := Invoked | Status (n : N).

(* media_ok: the Accept / Content-Type checks pass; post_ok: parameter and paging checks pass, the
   route is not a redirect and has a handler; body: None when the request has no body reader
   (r.Body == nil), Some v when there is one and v says whether it satisfies one of the route's
   validations.  The validation block runs only while status is still 200: it sets 400 and goes back
   to 200 when one validation accepts the body. *)
(* repaired gate: needsAuthentication = mustAuthenticate || requiredPermissions != nil; a lightweight
   route skips the authentication step only when it has nothing to enforce *)
Definition needs_auth (f : flags) : bool :=
  must_auth f || match perms f with Some _ => true | None => false end.

Definition serve (f : flags) (c0 : cred) (lookup0 : N -> bool) (media_ok post_ok : bool)
                 (body : option bool) : response :=
  let na := needs_auth f in
  let skip := lightweight f && negb na in
  let c := if skip then zero_cred lookup0 else c0 in
  if negb skip && locked c0 then Status 429
  else if negb skip && negb (authed c0) && na then Status 403
  else
    let st1 := if media_ok then 200 else 400 in
    let st2 :=
      if st1 =? 200 then
        match perms f with
        | Some ps =>
            if admin c then 200
            else match find (fun p => negb (granted c p)) ps with
                 | Some _ => if negb (has_user c) && can_auth f then 401 else 403
                 | None => 200
                 end
        | None => 200
        end
      else st1 in
    let st3 := if (st2 =? 200) && negb post_ok then 400 else st2 in
    if (st3 =? 200) && na && negb (authed c) && can_auth f then Status 401
    else
      let st4 := if (st3 =? 200) && valid f
                 then match body with Some v => if v then 200 else 400 | None => st3 end
                 else st3 in
      if st4 =? 200 then Invoked else Status st4.

(* the gate before the repair: lightweight routes never authenticated; only mustAuthenticate was looked at *)
Definition serve_old (f : flags) (c0 : cred) (lookup0 : N -> bool) (media_ok post_ok : bool)
                 (body : option bool) : response :=
  let c := if lightweight f then zero_cred lookup0 else c0 in
  if negb (lightweight f) && locked c0 then Status 429
  else if negb (lightweight f) && negb (authed c0) && must_auth f then Status 403
  else
    let st1 := if media_ok then 200 else 400 in
    let st2 :=
      if st1 =? 200 then
        match perms f with
        | Some ps =>
            if admin c then 200
            else match find (fun p => negb (granted c p)) ps with
                 | Some _ => if negb (has_user c) && can_auth f then 401 else 403
                 | None => 200
                 end
        | None => 200
        end
      else st1 in
    let st3 := if (st2 =? 200) && negb post_ok then 400 else st2 in
    if (st3 =? 200) && must_auth f && negb (authed c) && can_auth f then Status 401
    else
      let st4 := if (st3 =? 200) && valid f
                 then match body with Some v => if v then 200 else 400 | None => st3 end
                 else st3 in
      if st4 =? 200 then Invoked else Status st4.

(* flag combinations for which the gate enforces what the declaration says *)
Definition safe_flags (f : flags) : bool :=
  if lightweight f then negb (must_auth f) && (match perms f with None => true | Some _ => false end)
  else match perms f with None => true | Some _ => must_auth f end.

(* the declaration asked for authentication *)
Definition requests_auth (c : call) : bool :=
  match c with Authentication true => true | Permissions _ => true | _ => false end.
(* calls that silently withdraw an earlier requirement *)
Definition withdraws (c : call) : bool :=
  match c with Authentication false => true | LightWeight true => true | _ => false end.

(* ---------------------------------------------------------------- the user store over time *)
(* Permission changes (what PATCH /admin/users/<name> does: WriteUser with a new permission list) and
   requests interleaved.  The gate must decide every request against the permissions the user holds
   NOW: store = association list, latest write first. *)
Definition store := list (N * list N).
Fixpoint perms_of (s : store) (u : N) : list N :=
  match s with [] => [] | (v, ps) :: t => if v =? u then ps else perms_of t u end.

Definition ROOT : N := 4.
Definition LOGON : N := 5.

(* the session Authenticate produces for user u presenting a correct password (token = false:
   ValidatePassword also wants ego.logon or ego.root) or a cached token (token = true: permissions
   resolved with GetPermissions) *)
Definition cred_now (s : store) (u : N) (token : bool) : cred :=
  let ps := perms_of s u in
  let au := if token then true else memN LOGON ps || memN ROOT ps in
  mkCred false au (au && memN ROOT ps) true (if token then ps else []) (fun p => memN p ps).

Inductive sop := SetPerms (u : N) (ps : list N) | Request (f : flags) (u : N) (token : bool).

Fixpoint store_after (s : store) (ops : list sop) : store :=
  match ops with
  | [] => s
  | SetPerms u ps :: t => store_after ((u, ps) :: s) t
  | Request _ _ _ :: t => store_after s t
  end.

Fixpoint run_store (s : store) (ops : list sop) : list response :=
  match ops with
  | [] => []
  | SetPerms u ps :: t => run_store ((u, ps) :: s) t
  | Request f u tk :: t => serve f (cred_now s u tk) (fun _ => false) true true None :: run_store s t
  end.
