// instrument: copies internal/server/oauth/authserver/codes.go with a yield hook inserted between
// the cache lookup and the cache delete of consumeCode and consumeRefreshToken.
//
//	usage: instrument <in codes.go> <out codes.go>
//
// Anchors are syntactic: inside func <name>, a top-level statement that calls caches.Find followed
// (later, at top level) by a statement that calls caches.Delete; the hook call is placed immediately
// before that second statement.  Exit status 3 + "ANCHOR-NOT-FOUND <func>" if the shape is absent.
package main

import (
	"bytes"
	"fmt"
	"go/ast"
	"go/format"
	"go/parser"
	"go/token"
	"os"
)

func calls(n ast.Node, pkg, fn string) bool {
	found := false

	ast.Inspect(n, func(x ast.Node) bool {
		if c, ok := x.(*ast.CallExpr); ok {
			if s, ok := c.Fun.(*ast.SelectorExpr); ok {
				if id, ok := s.X.(*ast.Ident); ok && id.Name == pkg && s.Sel.Name == fn {
					found = true
				}
			}
		}

		return !found
	})

	return found
}

func main() {
	if len(os.Args) != 3 {
		fmt.Fprintln(os.Stderr, "usage: instrument in out")
		os.Exit(2)
	}

	fset := token.NewFileSet()

	f, err := parser.ParseFile(fset, os.Args[1], nil, parser.ParseComments)
	if err != nil {
		fmt.Fprintln(os.Stderr, err)
		os.Exit(2)
	}

	want := map[string]bool{"consumeCode": false, "consumeRefreshToken": false}

	for _, d := range f.Decls {
		fd, ok := d.(*ast.FuncDecl)
		if !ok || fd.Recv != nil || fd.Body == nil {
			continue
		}

		if _, ok := want[fd.Name.Name]; !ok {
			continue
		}

		findAt, delAt := -1, -1

		for i, st := range fd.Body.List {
			if findAt < 0 && calls(st, "caches", "Find") {
				findAt = i

				continue
			}

			if findAt >= 0 && calls(st, "caches", "Delete") {
				delAt = i

				break
			}
		}

		if findAt < 0 || delAt < 0 {
			continue
		}

		hook := &ast.ExprStmt{X: &ast.CallExpr{
			Fun:  ast.NewIdent("VerifYield"),
			Args: []ast.Expr{&ast.BasicLit{Kind: token.STRING, Value: fmt.Sprintf("%q", fd.Name.Name)}},
		}}

		nl := append([]ast.Stmt{}, fd.Body.List[:delAt]...)
		nl = append(nl, hook)
		nl = append(nl, fd.Body.List[delAt:]...)
		fd.Body.List = nl
		want[fd.Name.Name] = true
	}

	missing := false

	for name, ok := range want {
		if !ok {
			fmt.Println("ANCHOR-NOT-FOUND", name)

			missing = true
		}
	}

	if missing {
		os.Exit(3)
	}

	// comments are dropped from the function bodies on purpose: free-floating comments would be
	// misplaced by the printer after statement insertion
	f.Comments = nil

	var buf bytes.Buffer
	if err := format.Node(&buf, fset, f); err != nil {
		fmt.Fprintln(os.Stderr, err)
		os.Exit(2)
	}

	buf.WriteString("\n// VerifYield is set by the verification harness; the default does nothing.\nvar VerifYield = func(string) {}\n")

	if err := os.WriteFile(os.Args[2], buf.Bytes(), 0o644); err != nil {
		fmt.Fprintln(os.Stderr, err)
		os.Exit(2)
	}

	fmt.Println("INSTRUMENTED consumeCode consumeRefreshToken")
}
