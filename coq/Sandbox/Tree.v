(* Sandbox/Tree.v — the tree file system satisfies the laws assumed by Proofs.resolved:
   lemmas about the fuelled kernel walk kres, then the closed theorem for the tree model. *)
From Sandbox Require Import Model Proofs.
Open Scope N_scope.

Definition notlink (n : node) : Prop := match n with Link _ => False | _ => True end.

(* l names, from node n, a chain of existing non-link entries with plain names: a real path *)
Fixpoint realfrom (n : node) (l : list seg) : Prop :=
  match l with
  | [] => True
  | s :: r => plain s /\ exists ents c, n = Dir ents /\ assoc s ents = Some c /\ notlink c /\ realfrom c r
  end.

Lemma get_app : forall a n b, get n (a ++ b) = match get n a with Some m => get m b | None => None end.
Proof.
  induction a as [|s a IH]; intros n b; cbn [app get]; [reflexivity|].
  destruct n as [|ents|]; try reflexivity. destruct (assoc s ents); [apply IH | reflexivity].
Qed.

Lemma realfrom_app : forall a n b,
  realfrom n (a ++ b) <-> realfrom n a /\ exists m, get n a = Some m /\ realfrom m b.
Proof.
  induction a as [|s a IH]; intros n b; cbn [app realfrom get].
  - split; [intros H; split; [exact I | exists n; auto] | intros [_ (m & Hm & H)]; inversion Hm; subst; exact H].
  - split.
    + intros (Hs & ents & c & -> & Ha & Hc & Hr). apply IH in Hr as (Hra & m & Hm & Hb).
      split; [split; [assumption | exists ents, c; auto] | exists m; rewrite Ha; auto].
    + intros ((Hs & ents & c & -> & Ha & Hc & Hr) & m & Hm & Hb). rewrite Ha in Hm.
      split; [assumption|]. exists ents, c. repeat split; auto. apply IH. split; [assumption | exists m; auto].
Qed.

Lemma realfrom_get : forall l n, realfrom n l -> exists m, get n l = Some m.
Proof.
  induction l as [|s l IH]; intros n H; cbn [get]; [exists n; reflexivity|].
  destruct H as (_ & ents & c & -> & Ha & _ & Hr). rewrite Ha. apply IH, Hr.
Qed.

Lemma realfrom_plain : forall l n, realfrom n l -> Forall plain l.
Proof.
  induction l as [|s l IH]; intros n H; [constructor|].
  destruct H as (Hs & ents & c & _ & _ & _ & Hr). constructor; [assumption | eapply IH; eauto].
Qed.

Lemma realfrom_snoc n cur s ents c :
  realfrom n cur -> get n cur = Some (Dir ents) -> assoc s ents = Some c -> notlink c -> plain s ->
  realfrom n (cur ++ [s]).
Proof.
  intros Hr Hg Ha Hc Hs. apply realfrom_app. split; [assumption|].
  exists (Dir ents). split; [assumption|]. cbn [realfrom]. split; [assumption|]. exists ents, c. auto.
Qed.

Lemma removelast_snoc {A} (l : list A) : l <> [] -> exists x, l = removelast l ++ [x].
Proof. intros H. destruct l as [|a l']; [congruence|]. exists (last (a :: l') a). apply app_removelast_last. discriminate. Qed.

Lemma realfrom_removelast n l : realfrom n l -> realfrom n (removelast l).
Proof.
  intros H. destruct l as [|a l']; [exact I|].
  destruct (@removelast_snoc _ (a :: l')) as [x Hx]; [discriminate|].
  rewrite Hx in H. apply realfrom_app in H. tauto.
Qed.

Lemma length_removelast {A} (l : list A) : (length (removelast l) <= length l)%nat.
Proof. induction l as [|a [|b l] IH]; cbn [removelast length] in *; lia. Qed.

Lemma plain_of_tests s : is_nil s || str_eqb s dot = false -> str_eqb s dotdot = false -> plain s.
Proof.
  intros H1 H2. apply orb_false_iff in H1 as [Hn Hd]. unfold plain, is_plain. rewrite Hn, Hd, H2. reflexivity.
Qed.

Lemma plain_tests s : plain s -> is_nil s || str_eqb s dot = false /\ str_eqb s dotdot = false.
Proof.
  unfold plain, is_plain. intros H. apply andb_true_iff in H as [H Hdd]. apply andb_true_iff in H as [Hn Hd].
  apply negb_true_iff in Hn, Hd, Hdd. rewrite Hn, Hd, Hdd. auto.
Qed.

Section Tree.
  Variable fs : node.

  (* ---- the walk ends on a real path, at most as long as the budget *)
  Lemma kres_real : forall n cur todo r,
    realfrom fs cur -> kres n fs true cur todo = KFound r ->
    realfrom fs r /\ (length r + 1 <= length cur + n)%nat.
  Proof.
    induction n as [|n IH]; intros cur todo r Hc H; [discriminate|].
    cbn [kres] in H. destruct todo as [|s rest].
    { inversion H; subst. split; [assumption | lia]. }
    destruct (is_nil s || str_eqb s dot) eqn:Hskip.
    { apply IH in H as [H1 H2]; [split; [assumption | lia] | assumption]. }
    destruct (get fs cur) as [[|ents|tg]|] eqn:Hg; try discriminate.
    destruct (str_eqb s dotdot) eqn:Hdd.
    { apply IH in H as [H1 H2]; [|apply realfrom_removelast, Hc].
      split; [assumption|]. pose proof (length_removelast cur). lia. }
    destruct (assoc s ents) as [c|] eqn:Ha.
    2:{ destruct (is_nil rest); discriminate. }
    destruct c as [|ents'|tgt].
    - apply IH in H as [H1 H2].
      + split; [assumption|]. rewrite app_length in H2. cbn in H2. lia.
      + eapply realfrom_snoc; eauto; [exact I | apply plain_of_tests; assumption].
    - apply IH in H as [H1 H2].
      + split; [assumption|]. rewrite app_length in H2. cbn in H2. lia.
      + eapply realfrom_snoc; eauto; [exact I | apply plain_of_tests; assumption].
    - rewrite orb_true_r in H. apply IH in H as [H1 H2].
      + split; [assumption|]. destruct (is_abs tgt); cbn [length] in H2; lia.
      + destruct (is_abs tgt); [exact I | assumption].
  Qed.

  (* ---- a result that is not "out of budget" does not depend on the budget *)
  Lemma kres_mono : forall n fl cur todo res,
    kres n fs fl cur todo = res -> res <> KOut -> forall k, kres (n + k) fs fl cur todo = res.
  Proof.
    induction n as [|n IH]; intros fl cur todo res H Hres k; [cbn in H; congruence|].
    cbn [Nat.add kres] in *. destruct todo as [|s rest]; [assumption|].
    destruct (is_nil s || str_eqb s dot); [apply IH; assumption|].
    destruct (get fs cur) as [[|ents|tg]|]; try assumption.
    destruct (str_eqb s dotdot); [apply IH; assumption|].
    destruct (assoc s ents) as [[|ents'|tgt]|]; try assumption; try (apply IH; assumption).
    destruct (negb (is_nil rest) || fl); [apply IH; assumption | assumption].
  Qed.

  (* ---- walking a real path costs one step per name *)
  Lemma kres_walk_real : forall l cur m fl t,
    realfrom fs (cur ++ l) -> kres (length l + m) fs fl cur (l ++ t) = kres m fs fl (cur ++ l) t.
  Proof.
    induction l as [|s l IH]; intros cur m fl t Hr.
    - cbn [length Nat.add app]. rewrite app_nil_r. reflexivity.
    - cbn [length Nat.add app kres].
      pose proof Hr as Hr'. apply realfrom_app in Hr' as (Hcur & n0 & Hg & Hs & ents & c & -> & Ha & Hc & Hl).
      destruct (plain_tests _ Hs) as [T1 T2]. rewrite T1, Hg, T2, Ha.
      replace (cur ++ s :: l) with ((cur ++ [s]) ++ l) in * by (rewrite <- app_assoc; reflexivity).
      destruct c as [|ents'|tgt]; [apply IH, Hr | apply IH, Hr | destruct Hc].
  Qed.

  (* ---- a followed prefix can be walked first *)
  Lemma kres_comp : forall n cur a r,
    kres n fs true cur a = KFound r ->
    forall b fl m res, b <> [] -> kres m fs fl r b = res -> res <> KOut ->
    kres (n + m) fs fl cur (a ++ b) = res.
  Proof.
    induction n as [|n IH]; intros cur a r H b fl m res Hb Hm Hres; [discriminate|].
    cbn [kres] in H. destruct a as [|s rest].
    { injection H as <-. cbn [app]. rewrite Nat.add_comm. apply kres_mono; assumption. }
    cbn [Nat.add app kres].
    destruct (is_nil s || str_eqb s dot); [eapply IH; eauto|].
    destruct (get fs cur) as [[|ents|tg]|]; try discriminate.
    destruct (str_eqb s dotdot); [eapply IH; eauto|].
    destruct (assoc s ents) as [[|ents'|tgt]|].
    - eapply IH; eauto.
    - eapply IH; eauto.
    - rewrite orb_true_r in H.
      assert (Hnn : is_nil (rest ++ b) = false) by (destruct rest; [destruct b; [congruence | reflexivity] | reflexivity]).
      rewrite Hnn. cbn [negb orb]. rewrite app_assoc. eapply IH; eauto.
    - destruct (is_nil rest); discriminate.
  Qed.

  (* ---- the five laws *)
  Lemma tree_root_exists : lstat_t fs (true, []) = LYes.
  Proof. reflexivity. Qed.

  Opaque FUEL.

  Lemma evalsym_t_inv p r : evalsym_t fs p = Some r ->
    fst p = true /\ exists real, r = (true, real) /\ kres FUEL fs true [] (snd p) = KFound real.
  Proof.
    unfold evalsym_t. destruct (fst p); [|discriminate].
    destruct (kres FUEL fs true [] (snd p)) eqn:E; try discriminate.
    intros H. inversion H; subst. split; [reflexivity|]. exists real. auto.
  Qed.

  Lemma tree_real_normal p r : evalsym_t fs p = Some r -> normal r /\ fst r = true.
  Proof.
    intros H. apply evalsym_t_inv in H as (_ & real & -> & Hk).
    apply kres_real in Hk as [Hr _]; [|exact I].
    split; [|reflexivity]. exists 0%nat, real. cbn [snd repeat app fst]. repeat split; auto.
    eapply realfrom_plain; eauto.
  Qed.

  Lemma walk_real_found real : realfrom fs real -> (length real + 1 <= FUEL)%nat ->
    kres FUEL fs true [] real = KFound real.
  Proof.
    intros Hr Hl.
    pose proof (kres_walk_real real [] (FUEL - length real)%nat true [] Hr) as W.
    rewrite app_nil_r in W. cbn [app] in W.
    replace (length real + (FUEL - length real))%nat with FUEL in W by lia.
    rewrite W. destruct (FUEL - length real)%nat eqn:E; [lia | reflexivity].
  Qed.

  Lemma tree_real_fixed p r : evalsym_t fs p = Some r -> evalsym_t fs r = Some r.
  Proof.
    intros H. apply evalsym_t_inv in H as (_ & real & -> & Hk).
    apply kres_real in Hk as [Hr Hl]; [|exact I]. cbn [length Nat.add] in Hl.
    unfold evalsym_t. cbn [fst snd]. rewrite walk_real_found by assumption. reflexivity.
  Qed.

  Lemma tree_touch_real p r : evalsym_t fs p = Some r -> touch_t fs p = Some r.
  Proof.
    intros H. apply evalsym_t_inv in H as (Hp & real & -> & Hk).
    unfold touch_t. rewrite Hp, Hk. reflexivity.
  Qed.

  Lemma tree_touch_absent p r x rest :
    evalsym_t fs p = Some r -> plain x -> lstat_t fs (fst p, snd p ++ [x]) = LNo ->
    touch_t fs (fst r, snd r ++ x :: rest) = None \/
    touch_t fs (fst r, snd r ++ x :: rest) = Some (fst r, snd r ++ [x]).
  Proof.
    intros H Hx Hl. apply evalsym_t_inv in H as (Hp & real & -> & Hk).
    pose proof (kres_real FUEL [] (snd p) real I Hk) as [Hr Hlen]. cbn [length Nat.add] in Hlen.
    cbn [fst snd]. unfold touch_t. cbn [fst snd].
    pose proof (kres_walk_real real [] (FUEL - length real)%nat true (x :: rest) Hr) as W.
    cbn [app] in W. replace (length real + (FUEL - length real))%nat with FUEL in W by lia.
    rewrite W. clear W.
    destruct (FUEL - length real)%nat as [|m] eqn:Em; [lia|].
    cbn [kres]. destruct (plain_tests _ Hx) as [T1 T2]. rewrite T1.
    destruct (get fs real) as [[|ents|tg]|] eqn:Hg; auto.
    rewrite T2. destruct (assoc x ents) as [c|] eqn:Ha.
    2:{ destruct rest; cbn [is_nil]; auto. }
    (* x exists below the real directory: then Lstat would have found it *)
    exfalso. unfold lstat_t in Hl. rewrite Hp in Hl. cbn [fst snd] in Hl.
    assert (Hstep : kres 2 fs false real [x] = KFound (real ++ [x])).
    { cbn [kres]. rewrite T1, Hg, T2, Ha. destruct c; reflexivity. }
    pose proof (kres_comp _ _ _ _ Hk [x] false 2%nat _ ltac:(discriminate) Hstep ltac:(discriminate)) as Hc.
    destruct (kres FUEL fs false [] (snd p ++ [x])) eqn:E; try discriminate.
    - pose proof (kres_mono _ _ _ _ _ E ltac:(discriminate) 2%nat) as Hm. congruence.
    - pose proof (kres_mono _ _ _ _ _ E ltac:(discriminate) 2%nat) as Hm. congruence.
  Qed.

  (* ---- the closed theorem for the tree model *)
  Lemma resolved_tree root p rroot :
    is_abs root = true -> evalsym_t fs (clean_str root) = Some rroot ->
    match touch_t fs (sandbox_join_p (lstat_t fs) (evalsym_t fs) V2 root p) with
    | None => True
    | Some q => descends q rroot
    end.
  Proof.
    apply (resolved (lstat_t fs) (evalsym_t fs) (touch_t fs)).
    - exact tree_root_exists.
    - exact tree_real_normal.
    - exact tree_real_fixed.
    - exact tree_touch_real.
    - exact tree_touch_absent.
  Qed.
  Transparent FUEL.
End Tree.

(* ---- the code before fix f5147975 (V1): a chain of links long enough that Lstat gives up ("too many
   levels of symbolic links") while EvalSymlinks still resolves the parent.  In the model both budgets
   are FUEL steps and the chain has 397 links; on Linux Lstat gives up after 40 links and EvalSymlinks
   after 255, so 42 links do (replayed by the check). *)
Definition lname (i : nat) : seg := [108; 1000 + N.of_nat i].
Fixpoint chain_links (n i : nat) : list (seg * node) :=
  match n with
  | O => [(lname i, Link [100])]                                   (* last link -> d *)
  | S n' => (lname i, Link (lname (S i))) :: chain_links n' (S i)
  end.
Definition chain_fs (n : nat) : node :=
  Dir [ ([115;98], Dir (([100], Dir [([120], Dir [([122], Link [47;111;117;116;47;115])])]) :: chain_links n 0)) ;   (* /sb/d/x/z -> /out/s *)
        ([111;117;116], Dir [([115], File)]) ].
Definition chain_p : str := lname 0 ++ [47; 120; 47; 122].          (* l0/x/z *)

Lemma v1_chain_refuted :
  let fs := chain_fs 396 in
  evalsym_t fs (clean_str wit_root) = Some (true, [[115;98]]) /\
  touch_t fs (sandbox_join_p (lstat_t fs) (evalsym_t fs) V1 wit_root chain_p) = Some (true, [[111;117;116]; [115]]) /\
  touch_t fs (sandbox_join_p (lstat_t fs) (evalsym_t fs) V2 wit_root chain_p) = Some (true, [[115;98]]).
Proof. vm_compute. auto. Qed.
