"""C23 OAuth codes and refresh tokens are single-use (internal/server/oauth/authserver/codes.go, token.go)."""
import base64
import hashlib
import json
import os
import vf

GROUP = "OAuth"
PKG = "internal/server/oauth/authserver"
META = {
    "group": "OAuth",
    "technique": "Coq proof over all interleavings (any number of requests, any schedule of the atomic cache actions) of a Gallina model of consumeCode/consumeRefreshToken and the token endpoint + forced-interleaving correspondence with the real code through a go/ast-inserted yield point",
    "text": "Theorems C23_single_use / C23_single_use_any_schedule (for every number of concurrent requests and every interleaving of their cache lookups and deletions, with expiry at any point, at most one consume call succeeds), C23_tokens_at_most_once and C23_refresh_at_most_once (at most one token response at the endpoint), C23_pkce (a token response needs matching client, redirect and, when a challenge was stored, base64url(sha256(verifier)) = challenge; public clients need a challenge) and C23_lone_request_succeeds are proved over the model; C23_refuted_current keeps the double redemption of the code before the repair (schedule F0 F1 D0 D1) as a witness. Every interleaving of 2 and 3 requests (and sampled ones of 4) is forced on the real consumeCode, consumeRefreshToken and TokenHandler and compared with the model; the property is also evaluated on the real outputs. full",
    "note": "Trusted: Coq kernel; SHA-256 is a Section function (instantiated by a table of the real digests in the correspondence); the scheduler interleaves only at the boundaries of caches.Find / caches.Delete: that caches.Delete is one critical section under the write lock is checked on the source on every run (otherwise requests are also parked inside it), caches.Find's atomicity is assumed (C28) and that a code / refresh token string is never stored twice (256-bit random); client authentication before consume is not modelled (such requests never touch the cache: checked on the real code); the instrumenter (harness/C23/instrument), the overlay harness and the Python comparison.",
}

V0 = "dBjftJeZ4CVP-mB92K27uhbUJU1p1r_wW1gFWFOEjXk"
REDIR = {"pub": "https://a.example/cb", "pub2": "https://b.example/cb", "conf": "https://c.example/cb",
         "nogrant": "https://d.example/cb", "ghost": "https://e.example/cb"}


def chal(v):
    return base64.urlsafe_b64encode(hashlib.sha256(v.encode()).digest()).decode().rstrip("=")


def interleavings(n, phases=2):
    """all complete schedules of n threads [R t; D t; ...] (phases actions each, in order): 'R t' runs request t
    to its first yield point, every further 'D t' resumes it to the next yield point / completion."""
    out = []

    def go(pref, nxt):
        if all(x == phases for x in nxt):
            out.append(list(pref))
            return
        for t in range(n):
            if nxt[t] < phases:
                pref.append(("R%d" if nxt[t] == 0 else "D%d") % t)
                nxt[t] += 1
                go(pref, nxt)
                nxt[t] -= 1
                pref.pop()

    go([], [0] * n)
    return out


def random_interleaving(rng, n, pexp=0.0, phases=2):
    nxt = [0] * n
    out = []
    while any(x < phases for x in nxt):
        if pexp and rng.random() < pexp:
            out.append("E")
            continue
        t = rng.choice([i for i in range(n) if nxt[i] < phases])
        out.append(("R%d" if nxt[t] == 0 else "D%d") % t)
        nxt[t] += 1
    return out


def auth_class(rq):
    """what the endpoint does before consume: 'ok' | 401 | 400"""
    c = rq["client"]
    if c not in ("pub", "pub2", "conf", "nogrant"):
        return 401
    if c == "conf" and rq["secret"] != "s3cret":
        return 401
    if c == "nogrant":
        return 400
    return "ok"


PENDINGS = [
    {"client": "pub", "redirect": REDIR["pub"], "challenge": chal(V0), "method": "S256"},
    {"client": "conf", "redirect": REDIR["conf"], "challenge": "", "method": ""},
    {"client": "conf", "redirect": REDIR["conf"], "challenge": chal(V0), "method": "S256"},
    {"client": "pub", "redirect": REDIR["pub"], "challenge": "", "method": ""},
    {"client": "pub", "redirect": REDIR["pub"], "challenge": chal(V0), "method": "plain"},
]


def gen_req(rng, p, valid_bias=0.55):
    """a request for pending p: mostly the rightful one, otherwise one field off."""
    c = p["client"]
    good = {"client": c, "secret": "s3cret" if c == "conf" else "", "redirect": p["redirect"], "verifier": V0 if p["challenge"] else ""}
    if rng.random() < valid_bias:
        return good
    r = dict(good)
    k = rng.choice(["verifier", "noverifier", "redirect", "client", "secret", "ghost", "nogrant", "verifier-case", "extra-verifier"])
    if k == "verifier":
        r["verifier"] = V0[:-1] + ("l" if V0[-1] != "l" else "m")
    elif k == "verifier-case":
        r["verifier"] = V0.swapcase()
    elif k == "noverifier":
        r["verifier"] = ""
    elif k == "extra-verifier":
        r["verifier"] = "x" * rng.randint(1, 50)
    elif k == "redirect":
        r["redirect"] = p["redirect"] + rng.choice(["/", "?x=1", "#f"])
    elif k == "client":
        r["client"] = "pub2" if c != "pub2" else "pub"
        r["secret"] = ""
    elif k == "secret":
        r["client"], r["secret"] = "conf", "wrong"
    elif k == "ghost":
        r["client"] = "ghost"
    elif k == "nogrant":
        r["client"] = "nogrant"
    return r


FN_PENDING = {"client": "conf", "redirect": "", "challenge": "", "method": ""}
FN_REQ = {"client": "conf", "secret": "s3cret", "redirect": "", "verifier": ""}


def expected_status(kind, p, rq):
    """independent statement of who may get tokens once its consume succeeded (property oracle)."""
    if kind.endswith("-fn"):
        return 200
    if rq["client"] != p["client"]:
        return 401
    if kind == "refresh-http":
        return 200
    if rq["redirect"] != p["redirect"]:
        return 400
    public = rq["client"] in ("pub", "pub2")
    if public and not p["challenge"]:
        return 400
    if p["challenge"]:
        if p["method"] != "S256" or chal(rq["verifier"]) != p["challenge"]:
            return 400
    return 200


def build_cases(ck, quick, gaps=0):
    rng = ck.rng
    cases = []

    def add(kind, sched, n, present=True, p=None, reqs=None, tag=""):
        if kind.endswith("-fn"):
            p, reqs = FN_PENDING, [FN_REQ] * n
        cases.append({"id": len(cases), "kind": kind, "sched": sched, "reqs": reqs, "pending": p, "present": present,
                      "rounds": 0, "tag": tag})

    kinds = ["code-fn", "refresh-fn", "code-http", "refresh-http"]
    good0 = [gen_req(rng, PENDINGS[0], 1.0)] * 2
    # regression corpus first: the witness of C23_refuted_current and its relatives
    for k in kinds:
        add(k, ["R0", "R1", "D0", "D1"], 2, p=PENDINGS[0], reqs=good0, tag="corpus")
        add(k, ["R0", "R1", "D1", "D0"], 2, p=PENDINGS[0], reqs=good0, tag="corpus")
        add(k, ["R0", "D0", "R1", "D1"], 2, p=PENDINGS[0], reqs=good0, tag="corpus")
    ph = 2 + gaps
    if gaps:
        # caches.Delete is not one critical section: requests can also be parked inside it
        for k in kinds:
            add(k, ["R0", "R1"] + ["D0", "D1"] * (ph - 1), 2, p=PENDINGS[0], reqs=good0, tag="corpus")
    # every interleaving of 2 and 3 requests (3 only while a request has two atomic actions)
    for n in ((2, 3) if not gaps else (2,)):
        for s in interleavings(n, ph):
            for k in kinds:
                p = rng.choice(PENDINGS)
                bias = rng.choice([1.0, 1.0, 0.6, 0.3])
                add(k, s, n, p=p, reqs=[gen_req(rng, p, bias) for _ in range(n)], tag="exhaustive%d" % n)
    # sampled: more threads, expiry in between, entry absent
    for _ in range(60 if quick else 1500):
        n = rng.choice([2, 3, 4, 4] if quick else [2, 3, 4, 5, 6])
        k = rng.choice(kinds)
        p = rng.choice(PENDINGS)
        add(k, random_interleaving(rng, n, rng.choice([0, 0.15, 0.3]), ph), n, present=rng.random() > 0.1, p=p,
            reqs=[gen_req(rng, p, rng.choice([1.0, 0.6])) for _ in range(n)], tag="sampled")
    # PKCE decisions on their own
    vers = ["", V0, V0[:-1], V0 + "A", V0.lower(), "a", "éü", "x" * 128, " " + V0]
    for _ in range(10 if quick else 200):
        vers.append("".join(rng.choice("abcXYZ019-._~") for _ in range(rng.randint(1, 60))))
    for v in [V0, "a", "x" * 128, "éü"]:
        good = chal(v)
        std = base64.b64encode(hashlib.sha256(v.encode()).digest()).decode()
        for ch, m in [(good, "S256"), (good, "plain"), (good, ""), (good, "s256"), (good + "=", "S256"), (std, "S256"),
                      (good[:-1], "S256"), (good[:-1] + ("A" if good[-1] != "A" else "B"), "S256"), ("", "S256"), ("", "")]:
            cases.append({"id": len(cases), "kind": "pkce", "sched": [], "present": False, "rounds": 0, "tag": "pkce",
                          "pending": {"client": "", "redirect": "", "challenge": ch, "method": m},
                          "reqs": [{"client": "", "secret": "", "redirect": "", "verifier": x} for x in vers]})
    # free-running goroutines (no forced schedule)
    for k in ("stress-code", "stress-refresh"):
        cases.append({"id": len(cases), "kind": k, "sched": [], "present": True, "rounds": 1000000, "racers": 8,
                      "budget_ms": 5000 if quick else 60000, "pending": FN_PENDING, "reqs": [FN_REQ] * 4, "tag": "stress"})
    return cases


def coq_str(s):
    return vf.vstr(s) if s else "[]"


def sched_model(c):
    """model schedule: actions of requests that fail client authentication never reach the cache."""
    out = []
    for s in c["sched"]:
        if s == "E":
            out.append("AExpire")
        else:
            t = int(s[1:])
            if auth_class(c["reqs"][t]) != "ok" and not c["kind"].endswith("-fn"):
                continue
            out.append(("AFind %d" if s[0] == "R" else "ADelete %d") % t)
    return "[" + "; ".join(out) + "]"


def instrument(ck):
    """returns (instrumented copy path or None, log)"""
    src = os.path.join(vf.HARNESS, "C23", "instrument", "main.go")
    h = hashlib.sha1(open(src, "rb").read()).hexdigest()[:10]
    os.makedirs(os.path.join(vf.BUILD, "bin"), exist_ok=True)
    binp = os.path.join(vf.BUILD, "bin", "c23instr-" + h)
    with vf.Lock("c23instr"):
        if not os.path.exists(binp):
            rc, out = vf.sh(["go", "build", "-o", binp, "main.go"], cwd=os.path.dirname(src), env=vf.goenv(), timeout=600)
            if rc != 0:
                return None, "instrumenter does not build:\n" + out
    dst = os.path.join(ck.work, "codes_instrumented.go")
    rc, out = vf.sh([binp, os.path.join(vf.REPO, PKG, "codes.go"), dst], timeout=120)
    if rc != 0:
        dst = None
    # premise of the model: caches.Delete is ONE critical section under the write lock
    ddst = os.path.join(ck.work, "delete_instrumented.go")
    rc2, out2 = vf.sh([binp, "-delete", os.path.join(vf.REPO, "internal/caches/delete.go"), ddst], timeout=120)
    ck.delete_state = ("shape", 0, None, out2.strip())
    if rc2 == 0 and "DELETE-ATOMIC" in out2:
        ck.delete_state = ("atomic", 0, None, out2.strip())
    elif rc2 == 0 and "DELETE-GAPS" in out2:
        ck.delete_state = ("gaps", int(out2.split("DELETE-GAPS")[1].split()[0]), ddst, out2.strip())
    return dst, out


def run(ck):
    quick = ck.tier == "quick"
    ck.cov["rule"] = ("forced schedules: the corpus (witness F0 F1 D0 D1 of C23_refuted_current), EVERY interleaving of 2 and of 3 "
                      "requests, sampled interleavings of 2-4 (thorough: 2-6) requests with expiry events and absent entries, each "
                      "on consumeCode, consumeRefreshToken and TokenHandler (authorization_code and refresh_token grants) with "
                      "per-request client/secret/redirect/verifier variations; PKCE: verifyPKCE on challenge/method/verifier "
                      "variations; plus free-running goroutine rounds. distinct_nontrivial = distinct (kind, schedule, request "
                      "fields) cases in which at least two requests saw the entry present at the same time (both reached the "
                      "yield point before either deleted)")
    ck.assume("the Go scheduler interleaves the requests only between caches.Find and caches.Delete; that caches.Delete is one critical section under "
              "cacheLock.Lock() is CHECKED on the source on every run (instrument -delete); that caches.Find is one is assumed (C28)",
              "a code / refresh token string is stored at most once (32 random bytes)",
              "SHA-256 is an arbitrary function in the theorems (Section variable); the correspondence instantiates it with the real digests",
              "client authentication and grant-type checks before consume are not modelled: such requests never reach the cache (checked on the real code)")
    ck.trusted("harness/C23/instrument (go/ast rewrite inserting VerifYield between caches.Find and caches.Delete), harness/C23/c23_test.go, props/C23.py generators and comparison",
               "correspondence evaluated by vm_compute in a generated cases file")
    coq_ok = ck.coq_stage(GROUP, theorems=["C23_single_use", "C23_single_use_any_schedule", "C23_tokens_at_most_once",
                                           "C23_refresh_at_most_once", "C23_pkce", "C23_lone_request_succeeds",
                                           "C23_refuted_current"])

    inst, ilog = instrument(ck)
    mapping = {PKG + "/zz_verif_c23_test.go": os.path.join(vf.HARNESS, "C23", "c23_test.go")}
    replace = None
    if inst:
        mapping[PKG + "/zz_verif_c23_hook_test.go"] = os.path.join(vf.HARNESS, "C23", "c23_hook_test.go")
        replace = {PKG + "/codes.go": inst}
    dstate, gaps, dpath, dlog = ck.delete_state
    if inst and dstate == "gaps":
        mapping[PKG + "/zz_verif_c23_hook_caches_test.go"] = os.path.join(vf.HARNESS, "C23", "c23_hook_caches_test.go")
        replace["internal/caches/delete.go"] = dpath
    else:
        gaps = 0
    ok, binp = vf.go_test_build(ck.work, PKG, mapping, "c23.test", replace=replace)
    if not ok:
        ck.violation("harness-build", "harness for %s does not build:\n%s" % (PKG, binp[-1500:]), replay={"log": binp[-3000:]},
                     found_input=False)
        return

    cases = build_cases(ck, quick, gaps)
    if ck.replay_file:
        rp = json.load(open(ck.replay_file))["replay"]
        if isinstance(rp, dict) and "case" in rp:
            cases = [dict(rp["case"], id=0)]
    if not inst:
        # the lookup/delete pair is gone: schedules cannot be forced; requests run one after the other
        ck.notes.append("instrumentation anchor not found: " + ilog.strip()[-300:])
    inp = os.path.join(ck.work, "in.json")
    outp = os.path.join(ck.work, "out.json")
    json.dump(cases, open(inp, "w"))
    rc, log = vf.run_bin(binp, "^TestVerifC23$", {"VERIF_IN": inp, "VERIF_OUT": outp}, timeout=900)
    if rc != 0 or not os.path.exists(outp):
        ck.violation("harness-run", "harness failed:\n" + log[-1500:], replay={"log": log[-3000:]}, found_input=False)
        return
    out = json.load(open(outp))
    res = {r["id"]: r for r in out["results"]}

    # ---------------- property oracle on the real outputs
    nontriv = set()
    dist = {}
    oracle_hit = False
    stress_rounds = 0
    for c in cases:
        r = res[c["id"]]
        dist[c["tag"] + ":" + c["kind"]] = dist.get(c["tag"] + ":" + c["kind"], 0) + 1
        pub = dict(c)
        if c["kind"] == "pkce":
            for i, rq in enumerate(c["reqs"]):
                want = 0
                if c["pending"]["challenge"]:
                    want = 1 if c["pending"]["method"] != "S256" else (0 if chal(rq["verifier"]) == c["pending"]["challenge"] else 2)
                if r["pkce"][i] == 0 and want != 0:
                    oracle_hit = True
                    ck.violation("pkce-accepts-wrong-verifier", "verifyPKCE(challenge=%r, method=%r, verifier=%r) accepted although base64url(sha256(verifier)) = %r" % (
                        c["pending"]["challenge"], c["pending"]["method"], rq["verifier"], chal(rq["verifier"])),
                        replay={"case": dict(pub, reqs=[rq])})
                elif r["pkce"][i] != want:
                    oracle_hit = True
                    ck.violation("pkce-decision", "verifyPKCE(challenge=%r, method=%r, verifier=%r) = class %d, want %d" % (
                        c["pending"]["challenge"], c["pending"]["method"], rq["verifier"], r["pkce"][i], want),
                        replay={"case": dict(pub, reqs=[rq])})
                if r["pkce"][i] == 0 and c["pending"]["challenge"]:
                    nontriv.add(("pkce", c["pending"]["challenge"], rq["verifier"]))
            continue
        what = "authorization code" if "code" in c["kind"] else "refresh token"
        if c["kind"].startswith("stress"):
            stress_rounds += r.get("rounds", 0)
            if r["maxsucc"] > 1:
                oracle_hit = True
                ck.violation("double-redemption-" + ("code" if "code" in c["kind"] else "refresh"),
                             "%d of %d free-running concurrent requests redeemed the same %s (round %d of the stress stage)" % (
                                 r["maxsucc"], c["racers"], what, r.get("rounds", 0)), replay={"case": pub})
            if r.get("nowinner"):
                oracle_hit = True
                ck.violation("rightful-request-refused", "in %d stress rounds none of %d concurrent requests could redeem a present %s" % (
                    r["nowinner"], c["racers"], what), replay={"case": pub})
            continue
        n200 = sum(1 for s in r["status"] if s == 200)
        if sum(1 for y in r["yielded"] if y) >= 2:
            nontriv.add((c["kind"], tuple(c["sched"]), json.dumps(c["reqs"], sort_keys=True), json.dumps(c["pending"], sort_keys=True)))
        if r.get("err"):
            ck.violation("harness-case", "harness reported %s on case %s" % (r["err"], json.dumps(pub)[:300]), replay={"case": pub}, found_input=False)
        if n200 > 1:
            oracle_hit = True
            ck.violation("double-redemption-" + ("code" if "code" in c["kind"] else "refresh"),
                         "%d concurrent requests were all answered with tokens for ONE %s (%s, schedule %s; %s)" % (
                             n200, what, c["kind"], " ".join(c["sched"]),
                             "R = lookup, D = delete" if not gaps else "R t = run request t to its first yield point, D t = resume it to the next one; yield points: "
                             "between caches.Find and caches.Delete in consume*, and in the %d gap(s) between the lock regions inside caches.Delete; "
                             "requests still parked at the end are released in order" % gaps), replay={"case": pub})
        for t, st in enumerate(r["status"]):
            rq = c["reqs"][t]
            if st == 200:
                want = expected_status(c["kind"], c["pending"], rq) if auth_class(rq) == "ok" or c["kind"].endswith("-fn") else auth_class(rq)
                if want != 200:
                    oracle_hit = True
                    ck.violation("tokens-to-wrong-request", "request %s got tokens for a code issued as %s (%s)" % (
                        json.dumps(rq), json.dumps(c["pending"]), c["kind"]), replay={"case": pub})
                if not r["newtokens"][t]:
                    ck.violation("empty-token-response", "status 200 without an access token (%s)" % c["kind"], replay={"case": pub})
            if st < 0:
                ck.violation("status-mismatch", "handler result and written status differ (%s, request %d: %d)" % (c["kind"], t, st), replay={"case": pub})
        # a lone rightful request on a present entry must be served (the repair must not make redemption impossible)
        first = c["sched"][0] if c["sched"] else ""
        if not gaps and c["present"] and first.startswith("R") and len(c["sched"]) > 1 and c["sched"][1] == "D" + first[1:]:
            t = int(first[1:])
            rq = c["reqs"][t]
            if (c["kind"].endswith("-fn") or auth_class(rq) == "ok") and expected_status(c["kind"], c["pending"], rq) == 200 and r["status"][t] != 200:
                oracle_hit = True
                ck.violation("rightful-request-refused", "the first, rightful request for a present %s was answered %d (%s)" % (what, r["status"][t], c["kind"]),
                             replay={"case": pub})
        # requests failing client authentication must not touch the entry
        if not c["kind"].endswith("-fn"):
            for t, rq in enumerate(c["reqs"]):
                a = auth_class(rq)
                if a != "ok" and (r["yielded"][t] or r["status"][t] != a):
                    ck.violation("unauthenticated-request-reached-cache" if r["yielded"][t] else "auth-status",
                                 "request %s failing client authentication: reached the cache=%s, status %d (want %s)" % (json.dumps(rq), r["yielded"][t], r["status"][t], a),
                                 replay={"case": pub})

    forced = [c for c in cases if c["kind"] not in ("pkce", "stress-code", "stress-refresh")]
    ck.cov["evaluations"] = sum(len(c["reqs"]) for c in cases if not c["kind"].startswith("stress")) + stress_rounds * 8
    ck.cov["distinct_nontrivial"] = len(nontriv)
    ck.cov["input_distribution"] = dict(dist, instrumented=bool(out.get("instrumented")), caches_delete=dlog[-120:],
                                        stress_rounds_of_8_racers=stress_rounds,
                                        forced_schedules=len(forced),
                                        with_expiry=sum(1 for c in forced if "E" in c["sched"]),
                                        entry_absent=sum(1 for c in forced if not c["present"]),
                                        two_or_more_saw_entry=sum(1 for c in forced if sum(res[c["id"]]["yielded"]) >= 2),
                                        token_responses=sum(1 for c in forced for s in res[c["id"]]["status"] if s == 200))
    for c in forced[:2] + forced[40:42] + [c for c in cases if c["kind"] == "pkce"][:1]:
        r = res[c["id"]]
        ck.sample({"kind": c["kind"], "sched": c["sched"], "pending": c["pending"], "reqs": c["reqs"][:3], "yielded": r.get("yielded"),
                   "status": r.get("status"), "pkce": (r.get("pkce") or [])[:6]})

    if not inst or not out.get("instrumented"):
        if not oracle_hit:
            ck.violation("instrumentation-anchor", "the yield point could not be inserted (no caches.Find followed by caches.Delete in consumeCode/consumeRefreshToken): "
                         "the interleavings of the model's two atomic actions can no longer be forced on the code; sequential runs and %d free-running rounds showed no double redemption.\n%s" % (
                             stress_rounds, ilog[-400:]),
                         replay={"instrumenter": ilog[-1000:]}, found_input=False)
        return

    # ---------------- premise of the theorems: caches.Delete is one critical section (lookup + removal + result)
    if dstate != "atomic":
        if not oracle_hit:
            ck.violation("delete-atomicity", "caches.Delete is no longer one critical section under cacheLock.Lock() (%s): the invariant of C23_single_use "
                         "('at most one Delete observes the entry present') is not tied to the code any more; %d forced schedules with requests parked "
                         "inside Delete and %d free-running rounds showed no double redemption" % (dlog[-200:], len(forced), stress_rounds),
                         replay={"instrumenter": dlog[-1000:]}, found_input=False)
        return

    # ---------------- correspondence: model (vm_compute) vs implementation
    if getattr(ck, "coq_broken", None):
        if not oracle_hit:
            grp, log = ck.coq_broken
            ck.violation("proof-broken", "Coq development coq/%s no longer checks (C23 theorems); every interleaving of 2 and 3 requests was forced on the real code without a double redemption:\n%s" % (grp, log[-1200:]),
                         replay={"broken": "coq/" + grp, "log": log[-3000:]}, found_input=False)
        return
    L = ["From Common Require Import Base.", "From OAuth Require Import Model.", "Open Scope N_scope.",
         "Definition mk (c r v : str) (pub : bool) := mkR c r v pub.",
         "Fixpoint bl_eqb (a b : list bool) : bool := match a, b with [], [] => true | x :: a', y :: b' => Bool.eqb x y && bl_eqb a' b' | _, _ => false end.",
         "Fixpoint nl_eqb (a b : list N) : bool := match a, b with [], [] => true | x :: a', y :: b' => (x =? y) && nl_eqb a' b' | _, _ => false end.",
         "Record tcase := TC { k : N; pres : bool; pd : pending; rqs : list request; sc : list act; tb : list (str * list N); oy : list bool; os : list N; orem : bool }.",
         "Definition model_status (c : tcase) : list N := map resp_code (match k c with 0 => responses (sha_table (tb c)) false (pres c) (pd c) (rqs c) (sc c) | _ => responses_refresh false (pres c) (p_client (pd c)) (rqs c) (sc c) end).",
         "Definition case_ok (c : tcase) : bool := bl_eqb (founds (pres c) (length (rqs c)) (sc c)) (oy c) && nl_eqb (model_status c) (os c) && Bool.eqb (remaining (pres c) (sc c)) (orem c).",
         "Record pcase := PC { pp : pending; pv : str; psha : list N; pb64 : str; pout : N }.",
         "Definition pcase_ok (c : pcase) : bool := (pkce_code (verify_pkce (fun _ => psha c) (pp c) (pv c)) =? pout c) && str_eqb (b64url (psha c)) (pb64 c).",
         "Fixpoint idx {A} (f : A -> bool) (i : nat) (l : list A) : list nat := match l with [] => [] | x :: r => (if f x then [] else [i]) ++ idx f (S i) r end."]
    tcs, tmap = [], []
    for c in forced:
        r = res[c["id"]]
        oy, os_ = list(r["yielded"]), list(r["status"])
        tbl = {}
        for t, rq in enumerate(c["reqs"]):
            if not c["kind"].endswith("-fn") and auth_class(rq) != "ok":
                oy[t], os_[t] = False, 400      # outside the model (checked above): the model sees a request that never ran
            tbl[rq["verifier"]] = hashlib.sha256(rq["verifier"].encode()).digest()
        p = c["pending"]
        reqs = "[" + "; ".join("mk %s %s %s %s" % (coq_str(q["client"]), coq_str(q["redirect"]), coq_str(q["verifier"]),
                                                  "true" if q["client"] in ("pub", "pub2") else "false") for q in c["reqs"]) + "]"
        tb = "[" + "; ".join("(%s, %s)" % (coq_str(v), vf.vN(d)) for v, d in tbl.items()) + "]"
        tcs.append("TC %d %s (mkP %s %s %s %s) %s %s %s [%s] %s %s" % (
            1 if c["kind"].startswith("refresh") else 0, "true" if c["present"] else "false",
            coq_str(p["client"]), coq_str(p["redirect"]), coq_str(p["challenge"]), coq_str(p["method"]), reqs, sched_model(c), tb,
            ";".join("true" if y else "false" for y in oy), vf.vN(abs(s) for s in os_), "true" if r["remaining"] else "false"))
        tmap.append(c)
    pcs, pmap = [], []
    for c in cases:
        if c["kind"] != "pkce":
            continue
        r = res[c["id"]]
        p = c["pending"]
        for i, rq in enumerate(c["reqs"]):
            pcs.append("PC (mkP [] [] %s %s) %s %s %s %d" % (coq_str(p["challenge"]), coq_str(p["method"]), coq_str(rq["verifier"]),
                                                              vf.vN(bytes.fromhex(r["sha"][i])), coq_str(r["b64"][i]), r["pkce"][i]))
            pmap.append((c, rq))
    L.append("Definition tcases : list tcase := [\n" + ";\n".join(tcs) + "].")
    L.append("Definition pcases : list pcase := [\n" + ";\n".join(pcs) + "].")
    okc, ev = vf.coq_eval(GROUP, ck.work, "cases", "\n".join(L), {
        "TB": "idx case_ok 0 tcases", "PB": "idx pcase_ok 0 pcases",
        "NI": "[length (filter (fun c => is_interleaving (length (rqs c)) (sc c)) tcases)]"})
    if not okc:
        ck.violation("correspondence-eval", "model evaluation failed:\n" + str(ev)[-1500:], replay={"log": str(ev)[-3000:]}, found_input=False)
        return
    ck.cov["traces_validated_against_impl"] = len(tcs) + len(pcs) - len(ev["TB"]) - len(ev["PB"])
    ck.cov["input_distribution"]["complete_interleavings_per_model_check"] = ev["NI"][0] if ev["NI"] else 0
    if not oracle_hit:
        for i in ev["TB"][:5]:
            c = tmap[i]
            ck.violation("corr-schedule", "model and implementation disagree on %s schedule %s: real yielded=%s status=%s remaining=%s" % (
                c["kind"], " ".join(c["sched"]), res[c["id"]]["yielded"], res[c["id"]]["status"], res[c["id"]]["remaining"]),
                replay={"case": c}, found_input=False)
        for i in ev["PB"][:5]:
            c, rq = pmap[i]
            ck.violation("corr-pkce", "model and implementation disagree on verifyPKCE / base64url (challenge=%r method=%r verifier=%r)" % (
                c["pending"]["challenge"], c["pending"]["method"], rq["verifier"]), replay={"case": dict(c, reqs=[rq])}, found_input=False)
