//go:build verif

package bytecode

// Overlaid into /repo/internal/language/bytecode by /verif/check C07 (kernel correspondence).
//
// VERIF_IN lines -> VERIF_OUT lines, every call under recover():
//   <op> <sp> <fp> <arg> <throw 0|1> <stack>       stack = comma list of  o (other) | m<label number> | f (call frame) | e (error) | n (nil error)
//   op = P  PopWithoutUnwrapping           -> P panic | under | ok <kind of value> <sp>
//        D  dropToMarkerByteCode, arg = nil | x (a non-marker operand) | m<label>   -> D panic | throw | ok <sp>
//        S  stackCheckByteCode, arg = count -> S panic | ok | err
// The stack slice holds exactly the listed values (len(c.stack) = number listed).

import (
	"bufio"
	"fmt"
	"os"
	"strconv"
	"strings"
	"testing"

	"github.com/tucats/ego/internal/errors"
	"github.com/tucats/ego/internal/language/symbols"
)

func verifC07Val(s string) any {
	switch {
	case s == "o":
		return 42
	case s == "f":
		return &CallFrame{}
	case s == "e":
		return errors.ErrInvalidType
	case s == "n":
		var e *errors.Error
		return e
	case strings.HasPrefix(s, "m"):
		return NewStackMarker("L" + s[1:])
	}

	return nil
}

func verifC07Kind(v any) string {
	switch x := v.(type) {
	case StackMarker:
		return "m" + strings.TrimPrefix(x.label, "L")
	case *CallFrame:
		return "f"
	case *errors.Error:
		if x == nil {
			return "n"
		}

		return "e"
	case int:
		return "o"
	}

	return "?"
}

func TestVerifC07BC(t *testing.T) {
	in, err := os.Open(os.Getenv("VERIF_IN"))
	if err != nil {
		t.Fatal(err)
	}
	defer in.Close()

	out, err := os.Create(os.Getenv("VERIF_OUT"))
	if err != nil {
		t.Fatal(err)
	}
	defer out.Close()

	w := bufio.NewWriter(out)
	defer w.Flush()

	sc := bufio.NewScanner(in)
	sc.Buffer(make([]byte, 1<<20), 1<<20)

	for sc.Scan() {
		f := strings.Fields(sc.Text())
		if len(f) < 5 {
			continue
		}

		sp, _ := strconv.Atoi(f[1])
		fp, _ := strconv.Atoi(f[2])
		arg := f[3]
		throw := f[4] == "1"
		vals := []any{}

		if len(f) > 5 && f[5] != "-" {
			for _, s := range strings.Split(f[5], ",") {
				vals = append(vals, verifC07Val(s))
			}
		}

		res := func() (s string) {
			defer func() {
				if r := recover(); r != nil {
					s = "panic"
				}
			}()

			c := NewContext(symbols.NewSymbolTable("verif"), New("verif"))
			c.stack = vals
			c.stackPointer = sp
			c.framePointer = fp
			c.throwUncheckedErrors = throw

			switch f[0] {
			case "P":
				v, err := c.PopWithoutUnwrapping()
				if err != nil {
					return "under"
				}

				return fmt.Sprintf("ok %s %d", verifC07Kind(v), c.stackPointer)

			case "D":
				var operand any

				switch {
				case arg == "nil":
					operand = nil
				case arg == "x":
					operand = 7
				default:
					operand = NewStackMarker("L" + arg[1:])
				}

				if err := dropToMarkerByteCode(c, operand); err != nil {
					return "throw"
				}

				return fmt.Sprintf("ok %d", c.stackPointer)

			case "S":
				count, _ := strconv.Atoi(arg)
				if err := stackCheckByteCode(c, count); err != nil {
					return "err"
				}

				return "ok"
			}

			return "?"
		}()

		fmt.Fprintf(w, "%s %s\n", f[0], res)
	}
}
