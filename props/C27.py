"""C27 Decryption never accepts a forged ciphertext (internal/util/crypto.go, internal/cli/settings/crypto.go)."""
import json
import os
import vf

GROUP = "Crypto"
META = {
    "group": "Crypto",
    "technique": "Coq proof over a Gallina model of the framing layer around AES-GCM (magic/prefix dispatch, KDF choice, "
                 "salt/nonce/body slicing, early returns, canonical base64) with AEAD/KDF/base64 as universally quantified "
                 "components under explicit laws + vm_compute correspondence of the frame parser with the real Decrypt",
    "text": "Theorems C27_roundtrip (decrypt(encrypt) returns the text, tokens and settings, all passphrases/salts/nonces/"
            "plaintexts), C27_only_honest (relative to any log of honest Seal calls, every accepted byte string is exactly the "
            "frame of a logged sealing under a key derived from the same passphrase) and C27_reject (one-message world: every "
            "single-byte change, truncation to any length, extension, other passphrase, and in fact any other string, is an "
            "error) are proved for all inputs over the model of the repaired code, assuming exact GCM/base64 laws and the "
            "idealisations INT-CTXT and collision-free key derivation; C27_old_refuted keeps the pre-repair witnesses "
            "(\"\\xffEG3abc\" -> (\"\", nil); non-canonical base64 spellings accepted). The frame parser model is compared with "
            "the real util.Decrypt and settings.Decrypt on every run; token STRINGS end to end (Token.v: hex.DecodeString + Decrypt + empty test): "
            "C27_token_roundtrip, C27_token_reject (every string that is not the issued one up to hex letter case - odd length, non-hex "
            "byte, changed/dropped/added digit, other key - is rejected) and C27_decrypt_exact (the premise of C21_altered_rejected as a "
            "theorem); hexdecode is compared with encoding/hex and the call chain of tokens/{unwrap,validate,new}.go is re-read on every run (random bytes, all truncations, byte edits, extensions, "
            "wrong keys, older formats) and the property is evaluated on the real outputs. full for the framing layer; AEAD "
            "and KDF idealised",
    "note": "Trusted: Coq kernel; AES-GCM, Argon2id, PBKDF2, MD5, SHA-256 and encoding/base64 are not modelled (premises "
            "aead_correct, aead_exact, aead_int_ctxt, kdf_ideal, b64_correct); the harness recomputes gcm.Open with Go's "
            "crypto on the slices the model predicts. tokens.Unwrap's hex layer and expiry/blacklist logic belong to C21.",
}

MAGIC3 = b"\xffEG3"
MAGIC2 = b"\xffEGO"
B64 = b"ABCDEFGHIJKLMNOPQRSTUVWXYZabcdefghijklmnopqrstuvwxyz0123456789+/"
PKGS = {"util": "internal/util", "settings": "internal/cli/settings"}


def hx(b):
    return b.hex() if b else "-"


def unhx(s):
    return b"" if s == "-" else bytes.fromhex(s)


def pk(b):
    """bytes -> Coq N literal in the packed form of Model.pack (base 256, leading 1)."""
    return hex(int.from_bytes(b"\x01" + bytes(b), "big"))


def rbytes(rng, n):
    return bytes(rng.randrange(256) for _ in range(n))


class Case:
    __slots__ = ("data", "pw", "expect", "kind", "frame", "real", "ref")

    def __init__(self, data, pw, expect, kind):
        self.data, self.pw, self.expect, self.kind = data, pw, expect, kind   # expect: None=model only, "err", or bytes
        self.frame = self.real = self.ref = None


def edits_util(rng, c, pw, pt, full, nbyte):
    """cases derived from one genuine util ciphertext c (bytes)."""
    out = [Case(c, pw, pt, "genuine"), Case(c, pw + b"x", "err", "wrong-key")]
    if full:
        out.append(Case(c, pw[:-1] if pw else b"k", "err", "wrong-key"))
    # truncations below 20 bytes never reach a key derivation; longer ones cost one Argon2id each
    if full == 2:
        lens = list(range(len(c)))
    elif full == 1:
        lens = sorted(set(list(range(0, 21)) + [31, 32, 33, len(c) - 16, len(c) - 1] + rng.sample(range(21, len(c)), 3)))
    else:
        lens = [0, 4, 19, len(c) - 1]
    out += [Case(c[:n], pw, "err", "truncation") for n in lens]
    if full:
        pos = [0, 1, 2, 3] + rng.sample(range(4, 20), nbyte) + rng.sample(range(20, 32), nbyte) + \
            rng.sample(range(32, len(c)), min(nbyte, len(c) - 32)) + [len(c) - 1]
    else:
        pos = [rng.randrange(0, 4), rng.randrange(4, len(c))]
    for i in pos:
        v = rng.randrange(256)
        if v == c[i]:
            v ^= 1 << rng.randrange(8)
        out.append(Case(c[:i] + bytes([v]) + c[i + 1:], pw, "err", "byte-edit"))
    out.append(Case(MAGIC2 + c[4:], pw, "err", "byte-edit"))          # '3' -> 'O': the PBKDF2 path
    for ext in (b"\x00", b"\n", rbytes(rng, rng.randint(2, 20)))[:3 if full else 1]:
        out.append(Case(c + ext, pw, "err", "extension"))
    return out


def edits_settings(rng, c, pw, pt, full, nbyte):
    """cases derived from one genuine settings ciphertext c (text as bytes: v3:<base64>)."""
    out = [Case(c, pw, pt, "genuine"), Case(c, pw + b"x", "err", "wrong-key")]
    # only truncations to a whole number of base64 quanta decode; of those, >= 16 bytes cost one Argon2id each
    if full == 2:
        lens = list(range(len(c)))
    elif full == 1:
        q = [n for n in range(27, len(c)) if (n - 3) % 4 == 0]
        lens = sorted(set([n for n in range(len(c)) if (n - 3) % 4 != 0] + list(range(0, 27)) + q[:2] + q[-2:] + rng.sample(q, 2)))
    else:
        lens = [0, 3, len(c) - 1, len(c) - 4]
    out += [Case(c[:n], pw, "err", "truncation") for n in lens]
    if not full:
        nbyte = 1
    out += [Case(b"v2:" + c[3:], pw, "err", "byte-edit"), Case(b"v3;" + c[3:], pw, "err", "byte-edit"),
            Case(b"V3:" + c[3:], pw, "err", "byte-edit")]
    body_end = len(c.rstrip(b"="))
    pos = rng.sample(range(3, body_end - 1), min(nbyte, body_end - 4)) + [body_end - 1, body_end - 1, body_end - 1, len(c) - 1]
    for i in pos:
        v = rng.choice(B64)
        if v == c[i]:
            v = B64[(B64.index(bytes([v])) + 1) % 64]
        out.append(Case(c[:i] + bytes([v]) + c[i + 1:], pw, "err", "byte-edit"))
    i = rng.randrange(3, len(c))
    out.append(Case(c[:i] + b"\n" + c[i + 1:], pw, "err", "byte-edit"))
    out.append(Case(c[:i] + b"\n" + c[i:], pw, "err", "insertion"))
    for ext in (b"\n", b"AAAA", b"\r\n", b"=", b"A", b" ")[:6 if full else 2]:
        out.append(Case(c + ext, pw, "err", "extension"))
    return out


def gen_cases(ck, pkg, genuine, legacy, quick):
    """genuine: [(ct, pw, pt)] real Encrypt outputs; legacy: [(kind, ct, pw, pt)] older formats."""
    rng = ck.rng
    cases = []
    mk = edits_util if pkg == "util" else edits_settings
    # fixed corpus first: the witnesses of C27_old_refuted and old defects
    if pkg == "util":
        for d in (b"\xffEG3abc", b"\xffEG3", b"", b"abc", b"\xffEGOabc", MAGIC3 + b"s" * 15, MAGIC3 + b"s" * 16,
                  MAGIC3 + b"s" * 27, MAGIC3 + b"s" * 28, MAGIC2 + b"s" * 27, MAGIC2 + b"s" * 28, b"n" * 11, b"n" * 12,
                  b"n" * 28, MAGIC3[:3], MAGIC3 + b"s"):
            cases.append(Case(d, b"pw", "err", "corpus"))
    else:
        for d in (b"v3:", b"v3:QUJD", b"", b"v2:", b"QUJD", b"v3:\n", b"v3", b"v3:====", b"v2:QUJDREVGR0hJSktM",
                  b"QUJDREVGR0hJSktMTU5P", b"v3:QUJDREVGR0hJSktMTU5PUFFSU1RVVldYWVphYmNk", b"v3:QUJDREVGR0hJSktMTU5PUA==",
                  b"v3:QUJDREVGR0hJSktMTU5PUB==", b"v3:QUJD\nREVG", b"v3:v3:QUJD", b"v2:v3:QUJD"):
            cases.append(Case(d, b"pw", "err", "corpus"))
    for i, (ct, pw, pt) in enumerate(genuine):
        cases += mk(rng, ct, pw, pt, full=((1 if quick else 2) if i == 0 else 0), nbyte=(2 if quick else 12))
    for kind, ct, pw, pt in legacy:
        cases.append(Case(ct, pw, pt, "genuine-old-format"))
        cases.append(Case(ct, pw + b"!", "err", "wrong-key"))
        cheap = kind in ("3", "4", "5")
        n = len(ct)
        for k in (range(n) if cheap else rng.sample(range(n), 6)):
            cases.append(Case(ct[:k], pw, "err", "truncation"))
        for k in rng.sample(range(n), min(n, 25 if cheap else 5)):
            v = (ct[k] ^ (1 << rng.randrange(8))) if pkg == "util" else rng.choice(B64)
            if v != ct[k]:
                cases.append(Case(ct[:k] + bytes([v]) + ct[k + 1:], pw, "err", "byte-edit"))
        cases.append(Case(ct + b"A", pw, "err", "extension"))
    # random streams (model vs implementation; anything accepted here would be a forgery)
    nr = 150 if quick else 1500
    for _ in range(nr):
        n = rng.choice([0, 1, 3, 4, 5, 11, 12, 13, 19, 20, 27, 28, 29, rng.randint(0, 90)])
        if pkg == "util":
            d = rbytes(rng, n)
        else:
            body = bytes(rng.choice(B64) for _ in range(n))
            r = rng.random()
            if r < 0.5:
                body = body[:len(body) - len(body) % 4]
            elif r < 0.7 and len(body) % 4 >= 2:
                body += b"=" * (4 - len(body) % 4)
            if rng.random() < 0.1 and body:
                k = rng.randrange(len(body))
                body = body[:k] + rng.choice([b"\n", b"\r", b" ", b"-", b"_", b"="]) + body[k:]
            d = rng.choice([b"", b"v2:", b"v2:", b"v1:", b"v3"]) + body
        cases.append(Case(d, rbytes(rng, rng.randint(0, 6)), "err", "random"))
    for _ in range(5 if quick else 120):       # salted paths (cost one Argon2id / PBKDF2 each when long enough)
        n = rng.choice([1, 15, 16, 17, 27, 28, 29, rng.randint(28, 80)])
        if pkg == "util":
            d = rng.choice([MAGIC3, MAGIC2]) + rbytes(rng, n)
        else:
            import base64
            d = b"v3:" + base64.b64encode(rbytes(rng, n))
        cases.append(Case(d, rbytes(rng, rng.randint(0, 6)), "err", "random-salted"))
    return cases


def harness(ck, binp, lines, tag):
    import time
    t0 = time.time()
    try:
        return harness_(ck, binp, lines, tag)
    finally:
        ck.cov.setdefault("stage_s", {})[tag] = round(time.time() - t0, 1)


def harness_(ck, binp, lines, tag):
    inp = os.path.join(ck.work, tag + ".in")
    outp = os.path.join(ck.work, tag + ".out")
    with open(inp, "w") as f:
        f.write("\n".join(lines) + "\n")
    rc, log = vf.run_bin(binp, "^TestVerifC27$", {"VERIF_IN": inp, "VERIF_OUT": outp}, timeout=1500)
    if rc != 0 or not os.path.exists(outp):
        return None, log
    res = [l.split() for l in open(outp).read().splitlines() if l.strip()]
    if len(res) != len(lines):
        return None, "harness answered %d of %d lines\n%s" % (len(res), len(lines), log[-1500:])
    return res, log


def model_frames(ck, pkg, cases, b64tab):
    """Evaluate the Coq frame parser (model of the repaired code) on every case -> list of frames."""
    pre = ["From Common Require Import Base.", "From Crypto Require Import Model.", "Open Scope N_scope.",
           "Definition cases : list bytes := map unpack [", ";\n".join(pk(c.data) for c in cases), "]."]
    if pkg == "util":
        pre.append("Definition parse (d : bytes) : frame := util_parse true d.")
    else:
        pre.append("Definition dtab : list (N * option N) := [")
        pre.append(";\n".join("(%s, %s)" % (pk(t), "None" if v is None else "Some %s" % pk(v[0])) for t, v in b64tab.items()))
        pre.append("].\nDefinition etab : list (N * N) := [")
        enc = {}
        for t, v in b64tab.items():
            if v is not None:
                enc[v[0]] = v[1]
        pre.append(";\n".join("(%s, %s)" % (pk(b), pk(e)) for b, e in enc.items()))
        pre.append("""].
Fixpoint look {A} (d : A) (l : list (N * A)) (k : N) : A :=
  match l with [] => d | (k', v) :: r => if N.eqb k' k then v else look d r k end.
Definition rawdec (t : bytes) : option bytes := match look None dtab (pack t) with Some v => Some (unpack v) | None => None end.
Definition b64enc (b : bytes) : bytes := unpack (look 1 etab (pack b)).
Definition parse (t : bytes) : frame := settings_parse rawdec b64enc true true t.""")
    pre.append("Definition codes : list N := flat_map (fun d => frame_code_packed (parse d)) cases.")
    ok, res = vf.coq_eval(GROUP, ck.work, "cases_" + pkg, "\n".join(pre), {"codes": "codes"})
    if os.environ.get("C27_KEEP"):
        import shutil
        shutil.copy(os.path.join(ck.work, "cases_%s.v" % pkg), os.environ["C27_KEEP"])
    if not ok:
        return None, res
    flat = res["codes"]
    frames = []
    for i in range(0, len(flat) - 3, 4):
        k, ls, ln, packed = flat[i:i + 4]
        nb = (packed.bit_length() - 1) // 8
        body = list((packed - (1 << (8 * nb))).to_bytes(nb, "big")) if nb else []
        frames.append([k] if k in (0, 9) else [k, ls, ln] + body)
    if len(frames) != len(cases):
        return None, "model evaluated %d of %d cases" % (len(frames), len(cases))
    return frames, ""


def frame_args(fr):
    if fr[0] in (0, 9):
        return str(fr[0])
    k, ls, ln = fr[0], fr[1], fr[2]
    rest = bytes(fr[3:])
    return "%d %s %s %s" % (k, hx(rest[:ls]), hx(rest[ls:ls + ln]), hx(rest[ls + ln:]))


def run_pkg(ck, pkg, quick, replay_cases=None):
    hfile = os.path.join(vf.HARNESS, "C27", "c27_%s_test.go" % pkg)
    import time
    t0 = time.time()
    ok, binp = vf.go_test_build(ck.work, PKGS[pkg], {PKGS[pkg] + "/zz_verif_c27_test.go": hfile}, "c27_%s.test" % pkg)
    ck.cov.setdefault("stage_s", {})["build_" + pkg] = round(time.time() - t0, 1)
    if not ok:
        ck.violation("harness-build-" + pkg, "harness for %s does not build:\n%s" % (PKGS[pkg], binp[-1500:]),
                     replay={"log": binp[-3000:]}, found_input=False)
        return None
    rng = ck.rng
    if replay_cases is not None:
        cases = replay_cases
    else:
        # ---- run A: real ciphertexts (real Encrypt) and older formats (made with Go's crypto in the harness)
        pts = [b"", b"{\"n\":1}"] if quick else [b"", b"a", b"{\"n\":1}", rbytes(rng, 33), rbytes(rng, 100)]
        pts[1:1] = [rbytes(rng, rng.randint(1, 3))]
        pts = pts[:2] if quick else pts
        gen_in = [(pt, rbytes(rng, rng.randint(1, 12))) for pt in pts]
        kinds = ("2", "3") if pkg == "util" else ("4", "5")
        leg_in = [(k, rbytes(rng, rng.randint(0, 20)), rbytes(rng, rng.randint(1, 8))) for k in kinds]
        lines = ["E %s %s" % (hx(pt), hx(pw)) for pt, pw in gen_in] + ["L %s %s %s" % (k, hx(pt), hx(pw)) for k, pt, pw in leg_in]
        res, log = harness(ck, binp, lines, "a_" + pkg)
        if res is None:
            ck.violation("harness-run-" + pkg, "harness (encrypt) failed:\n" + log[-1500:], replay={"log": log[-3000:]}, found_input=False)
            return None
        genuine = [(unhx(res[i][1]), pw, pt) for i, (pt, pw) in enumerate(gen_in)]
        legacy = [(k, unhx(res[len(gen_in) + i][1]), pw, pt) for i, (k, pt, pw) in enumerate(leg_in)]
        cases = gen_cases(ck, pkg, genuine, legacy, quick)
    # ---- base64 tables for the settings model (Go's decoder is an external component of the model)
    b64tab = {}
    if pkg == "settings":
        texts = []
        for c in cases:
            for t in ((c.data[3:],) if c.data[:3] in (b"v3:", b"v2:") else (c.data,)):
                if t not in b64tab:
                    b64tab[t] = None
                    texts.append(t)
        res, log = harness(ck, binp, ["B %s" % hx(t) for t in texts], "b_" + pkg)
        if res is None:
            ck.violation("harness-run-" + pkg, "harness (base64) failed:\n" + log[-1500:], replay={"log": log[-3000:]}, found_input=False)
            return None
        for t, r in zip(texts, res):
            b64tab[t] = (unhx(r[2]), unhx(r[3])) if r[1] == "ok" else None
    # ---- the model's verdict on the frame
    frames = None
    if not getattr(ck, "coq_broken", None):
        t0 = time.time()
        frames, err = model_frames(ck, pkg, cases, b64tab)
        ck.cov["stage_s"]["model_" + pkg] = round(time.time() - t0, 1)
        if frames is None:
            ck.violation("correspondence-eval", "model evaluation failed (%s):\n%s" % (pkg, err[-1500:]), replay={"log": err[-3000:]},
                         found_input=False)
    # ---- run B: real Decrypt (+ reference gcm.Open on the predicted slices)
    lines = ["D %s %s %s" % (hx(c.data), hx(c.pw), frame_args(frames[i]) if frames else "0") for i, c in enumerate(cases)]
    res, log = harness(ck, binp, lines, "d_" + pkg)
    if res is None:
        ck.violation("harness-run-" + pkg, "harness (decrypt) failed:\n" + log[-1500:], replay={"log": log[-3000:]}, found_input=False)
        return None
    for c, r in zip(cases, res):
        c.real, c.ref = r[1], r[2]
    # ---- property oracle on the implementation itself
    bad = 0
    for c in cases:
        if c.expect is None:
            continue
        want = "err" if c.expect == "err" else "ok:" + hx(c.expect)
        if c.real != want:
            bad += 1
            if want == "err":
                sig, what = "accept-forged-" + pkg, "%s.Decrypt accepted a %s that is not a ciphertext: data=%s pw=%s -> %s (want an error)" % (
                    pkg, c.kind, c.data.hex(), c.pw.hex(), c.real)
            else:
                sig, what = "roundtrip-" + pkg, "%s.Decrypt(%s ciphertext, same key) = %s, want %s" % (pkg, c.kind, c.real, want)
            ck.violation(sig, what, replay={"pkg": pkg, "cases": [{"data": c.data.hex(), "pw": c.pw.hex(), "kind": c.kind,
                                                                   "expect": want}]})
    # ---- correspondence
    nval = 0
    if frames:
        for i, c in enumerate(cases):
            fr = frames[i]
            pred = "err" if fr[0] == 0 else ("ok:-" if fr[0] == 9 else c.ref)
            nval += 1
            if pred != c.real and bad == 0:
                ck.violation("corr-" + pkg, "model and %s.Decrypt disagree on data=%s pw=%s: model frame %s predicts %s, real %s "
                             "(the property oracle found no failing input among %d cases)" % (
                                 pkg, c.data.hex(), c.pw.hex(), frame_args(fr)[:60], pred, c.real, len(cases)),
                             replay={"pkg": pkg, "cases": [{"data": c.data.hex(), "pw": c.pw.hex(), "kind": c.kind, "expect": None}]},
                             found_input=False)
                break
    return cases, nval, frames


def run_hex(ck, quick):
    """the hex layer of tokens.Unwrap/Validate: model hexdecode vs encoding/hex, and the call chain in the token sources."""
    import re
    rng = ck.rng
    hfile = os.path.join(vf.HARNESS, "C27", "c27_util_test.go")
    ok, binp = vf.go_test_build(ck.work, PKGS["util"], {PKGS["util"] + "/zz_verif_c27_test.go": hfile}, "c27_util.test")
    if not ok:
        return 0
    texts = [b"", b"0", b"00", b"ff", b"FF", b"fF", b"0g", b"g0", b"0G", b" 00", b"00 ", b"0x00", b"00\n", b"\xff\xff", b"ff4547330",
             b"FF454733", b"ff45473", b"@@", b"``", b"//", b"::", b"aF09", b"Af90zz", b"\x00\x00"]
    while len(texts) < (150 if quick else 1500):
        t = bytearray(rbytes(rng, rng.randint(0, 40)).hex().encode())
        r = rng.random()
        if r < 0.3:
            t = bytearray(bytes(t).upper())
        elif r < 0.5:
            t = bytearray(c ^ 0x20 if 97 <= c <= 102 and rng.random() < 0.5 else c for c in t)
        if t and rng.random() < 0.3:
            t[rng.randrange(len(t))] = rng.choice(b"gGzZ /:@`\x00\x80\xff-_")
        if t and rng.random() < 0.2:
            del t[rng.randrange(len(t))]
        texts.append(bytes(t))
    res, log = harness(ck, binp, ["H %s" % hx(t) for t in texts], "h_util")
    if res is None:
        ck.violation("harness-run-util", "harness (hex) failed:\n" + log[-1500:], replay={"log": log[-3000:]}, found_input=False)
        return 0
    real = [unhx(r[2]) if r[1] == "ok" else None for r in res]
    # oracle on the real decoder: what decodes re-encodes to the text up to letter case
    for t, b in zip(texts, real):
        if b is not None and b.hex().encode() != t.lower():
            ck.violation("hex-decode", "hex.DecodeString(%r) = %s, which does not re-encode to the text" % (t, b.hex()),
                         replay={"pkg": "hex", "cases": [{"data": t.hex(), "pw": "", "kind": "hex", "expect": None}]})
    if not getattr(ck, "coq_broken", None):
        pre = ["From Common Require Import Base.", "From Crypto Require Import Model Token.", "Open Scope N_scope.",
               "Definition hcases : list (N * option N) := [",
               ";\n".join("(%s, %s)" % (pk(t), "None" if b is None else "Some %s" % pk(b)) for t, b in zip(texts, real)), "].",
               """Definition hbad (i : nat) (c : N * option N) : list nat :=
  let t := unpack (fst c) in
  let agree := match hexdecode t, snd c with
               | Some b, Some r => N.eqb (pack b) r && str_eqb (map lower t) (hexencode b) | None, None => true | _, _ => false end in
  if agree then [] else [i].
Fixpoint idx {A} (f : nat -> A -> list nat) (i : nat) (l : list A) : list nat :=
  match l with [] => [] | x :: r => f i x ++ idx f (S i) r end."""]
        ok, r = vf.coq_eval(GROUP, ck.work, "cases_hex", "\n".join(pre), {"h": "idx hbad 0 hcases"})
        if not ok:
            ck.violation("correspondence-eval", "model evaluation failed (hex):\n%s" % r[-1500:], replay={"log": r[-3000:]}, found_input=False)
        elif r["h"] and not ck.viol:
            i = r["h"][0]
            ck.violation("corr-hex", "model hexdecode and encoding/hex disagree on %r: real %s" % (texts[i], real[i]),
                         replay={"pkg": "hex", "cases": [{"data": texts[i].hex(), "pw": "", "kind": "hex", "expect": None}]}, found_input=False)
    # the call chain the token model transliterates
    tdir = os.path.join(vf.REPO, "internal/language/tokens")
    want = {"unwrap.go": [r"hex\.DecodeString\(tokenString\)", r"util\.Decrypt\(string\(b\), key\)", r"len\(j\) == 0"],
            "validate.go": [r"hex\.DecodeString\(tokenString\)", r"util\.Decrypt\(string\(b\), key\)", r"len\(j\) == 0"],
            "new.go": [r"util\.Encrypt\(string\(b\), getTokenKey\(\)\)", r"hex\.EncodeToString\(\[\]byte\(encryptedString\)\)"]}
    for fn, pats in want.items():
        src = open(os.path.join(tdir, fn)).read()
        pos = 0
        for pat in pats:
            mm = re.search(pat, src[pos:])
            if not mm:
                if not ck.viol:
                    ck.violation("token-chain", "internal/language/tokens/%s no longer has the step /%s/ (in order) that Crypto/Token.v "
                                 "transliterates (hex decode -> util.Decrypt -> empty test); the oracle found no failing input" % (fn, pat),
                                 replay={"file": fn, "pattern": pat}, found_input=False)
                break
            pos += mm.end()
    return len(texts)


def run(ck):
    quick = ck.tier == "quick"
    ck.cov["rule"] = ("per package (util = tokens/files, settings = profile values): real Encrypt outputs and harness-made older "
                      "formats (PBKDF2/MD5, SHA-256/MD5) with: right key, wrong keys, every truncation length, single-byte edits "
                      "in magic/prefix, salt, nonce, body and tag, the magic switch 3->O, insertions and extensions (CR/LF, '=', "
                      "bytes); a fixed corpus of short inputs; random byte strings / base64 texts with and without magic. "
                      "distinct_nontrivial = distinct inputs on which the parser reaches gcm.Open (model frame FOpen)")
    ck.assume("aead_correct / aead_exact: gcm.Open inverts gcm.Seal and only sealings open (exact for AES-GCM)",
              "aead_int_ctxt: idealised ciphertext integrity - only logged honest sealings open (forgery probability 2^-128 and key guessing taken as 0)",
              "kdf_ideal: Argon2id, PBKDF2-SHA256, hex-MD5 and SHA-256 derivations are collision free within and across each other (random-oracle idealisation)",
              "b64_correct: base64.StdEncoding.DecodeString(EncodeToString(b)) = b",
              "keys are always 32 bytes, so aes.NewCipher/cipher.NewGCM do not fail (not modelled)")
    ck.trusted("harness/C27/*.go (in-package overlays; reference gcm.Open with Go's crypto on the slices the model predicts)",
               "props/C27.py generators, oracle and comparison", "correspondence evaluated by vm_compute in generated cases files")
    ck.coq_stage(GROUP, theorems=["C27_roundtrip", "C27_only_honest", "C27_reject", "C27_token_roundtrip", "C27_token_reject",
                                  "C27_decrypt_exact", "C27_old_refuted"])
    replay = None
    if ck.replay_file:
        replay = json.load(open(ck.replay_file))["replay"]
    total, nontriv, nval = 0, set(), 0
    dist = {}
    for pkg in ("util", "settings"):
        rc = None
        if replay is not None:
            if replay.get("pkg") != pkg:
                continue
            rc = []
            for x in replay.get("cases", []):
                e = x.get("expect")
                rc.append(Case(bytes.fromhex(x["data"]), bytes.fromhex(x["pw"]),
                               None if e is None else ("err" if e == "err" else unhx(e[3:])), x.get("kind", "replay")))
        r = run_pkg(ck, pkg, quick, rc)
        if r is None:
            continue
        cases, nv, frames = r
        total += len(cases)
        nval += nv
        for i, c in enumerate(cases):
            dist[pkg + ":" + c.kind] = dist.get(pkg + ":" + c.kind, 0) + 1
            if frames and frames[i][0] not in (0, 9):
                nontriv.add((pkg, c.data, c.pw))
        dist[pkg + ":real-accepts"] = sum(1 for c in cases if c.real != "err")
        for c in [c for c in cases if c.kind in ("genuine", "truncation", "byte-edit")][:3]:
            ck.sample({"pkg": pkg, "kind": c.kind, "data": c.data.hex()[:80], "real": c.real[:40]})
    if replay is None or replay.get("pkg") == "hex":
        nh = run_hex(ck, quick)
        total += nh
        nval += nh
        dist["hex:token-strings"] = nh
    ck.cov["evaluations"] = total
    ck.cov["distinct_nontrivial"] = len(nontriv)
    ck.cov["traces_validated_against_impl"] = nval
    ck.cov["input_distribution"] = dist
    if getattr(ck, "coq_broken", None) and not ck.viol:
        grp, log = ck.coq_broken
        ck.violation("proof-broken", "Coq development %s no longer checks (C27_roundtrip / C27_only_honest / C27_reject); the property "
                     "oracle found no failing input among %d cases on the real code:\n%s" % (grp, total, log[-1200:]),
                     replay={"broken": "coq/" + grp, "log": log[-3000:]}, found_input=False)
