//go:build verif

package main

// Overlaid into /repo/tools/lang by /verif/check C38: compiles the shipped language files with the CURRENT
// message compiler (compileFiles, exactly what `go generate ./internal/i18n` runs) and dumps the resulting table:
//   CMSG <hexkey> <lang> <hextext>
// and lets the real writer (writeMessageDictionary) produce the Go file for that table into VERIF_GEN,
// so the check does not depend on a previously generated internal/i18n/messages.go.

import (
	"bufio"
	"encoding/hex"
	"fmt"
	"os"
	"path/filepath"
	"sort"
	"testing"
)

func TestVerifC38Compile(t *testing.T) {
	path := filepath.Join(os.Getenv("VERIF_SRC"), "internal", "i18n", "languages")

	files, err := os.ReadDir(path)
	if err != nil {
		t.Fatalf("cannot read %s: %v", path, err)
	}

	initDigest()

	messages := map[string]map[string]string{}
	compileFiles(files, path, messages)

	// the file the real writer produces from this table (compared with the tree's internal/i18n/messages.go)
	if gen := os.Getenv("VERIF_GEN"); gen != "" {
		writeMessageDictionary(gen, messages, "")
	}

	out, err := os.Create(os.Getenv("VERIF_OUT"))
	if err != nil {
		t.Fatal(err)
	}
	defer out.Close()

	w := bufio.NewWriter(out)
	defer w.Flush()

	enc := func(s string) string {
		if s == "" {
			return "-"
		}

		return hex.EncodeToString([]byte(s))
	}

	keys := make([]string, 0, len(messages))
	for k := range messages {
		keys = append(keys, k)
	}

	sort.Strings(keys)

	for _, k := range keys {
		langs := make([]string, 0, len(messages[k]))
		for l := range messages[k] {
			langs = append(langs, l)
		}

		sort.Strings(langs)

		for _, l := range langs {
			fmt.Fprintf(w, "CMSG %s %s %s\n", enc(k), l, enc(messages[k][l]))
		}
	}
}
