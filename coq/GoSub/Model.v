(* GoSub/Model.v — a reference semantics of Go for typed integer expressions (one integer kind per
   expression, untyped literals adapting to it, wrap-around, division by zero as a run-time panic) and the
   Ego compiler's emission for them (internal/language/compiler/expression.go: operands left to right, a
   literal as Push of a constant, a variable as Load, the operator opcode last).  The compiled code runs on
   the instruction semantics of Opt/Model.v (exec), which uses Arith's Normalize/Coerce/binop.  Definitions only. *)
From Coq Require Import List ZArith NArith Bool.
From Common Require Import Base.
From Arith Require Import Model.
From Opt Require Import Generic Model.
Import ListNotations.
Open Scope Z_scope.

Inductive bop := BAdd | BSub | BMul | BDiv.
Inductive expr := EConst (z : Z) | EVar (x : str) | EBin (o : bop) (a b : expr).

(* ---- Go ---- *)
Inductive gores := GOk (z : Z) | GPanic | GStuck.
Definition env := list (str * Z).
Fixpoint env_get (e : env) (x : str) : option Z :=
  match e with [] => None | (k, v) :: r => if str_eqb k x then Some v else env_get r x end.

(* value of an expression of integer kind k: operands left to right, fixed-width wrap-around, x/0 panics *)
Fixpoint go_eval (k : ikind) (en : env) (e : expr) : gores :=
  match e with
  | EConst z => GOk z
  | EVar x => match env_get en x with Some v => GOk v | None => GStuck end
  | EBin o a b =>
      match go_eval k en a with
      | GOk va =>
          match go_eval k en b with
          | GOk vb =>
              match o with
              | BAdd => GOk (wrap k (va + vb))
              | BSub => GOk (wrap k (va - vb))
              | BMul => GOk (wrap k (va * vb))
              | BDiv => if vb =? 0 then GPanic else GOk (wrap k (Z.quot va vb))
              end
          | r => r
          end
      | r => r
      end
  end.

(* Go's typing of the expression at kind k, as a computable guard: literals representable in k, variables
   declared (with kind k), names other than the blank identifier; and the cell where Ego is known to differ
   from Go is excluded: an operator applied to two constant operands (Go evaluates constant expressions
   exactly and converts once; Ego computes them at int and the result is a typed int value) *)
Definition is_const (e : expr) : bool := match e with EConst _ => true | _ => false end.
Fixpoint well_typed (k : ikind) (en : env) (e : expr) : bool :=
  match e with
  | EConst z => in_rangeb k z && in_rangeb Int z     (* a literal above MaxInt64 is not an Ego int: excluded *)
  | EVar x => negb (str_eqb x underscore) && match env_get en x with Some _ => true | None => false end
  | EBin _ a b => well_typed k en a && well_typed k en b && negb (is_const a && is_const b)
  end.

(* ---- Ego ---- *)
Definition opc (o : bop) : opcode := match o with BAdd => OAdd | BSub => OSub | BMul => OMul | BDiv => ODiv end.
Fixpoint compile (e : expr) : list instr :=
  match e with
  | EConst z => [(Push, OC (VInt Int z))]
  | EVar x => [(Load, nm x)]
  | EBin o a b => compile a ++ compile b ++ [(opc o, ONil)]
  end.

(* the VM's symbol table holds the Go variables, each with its value of kind k *)
Definition vars_of (k : ikind) (en : env) : list (str * slot) := map (fun p => (fst p, SVal (VInt k (snd p)))) en.
Definition env_ok (k : ikind) (en : env) : bool := forallb (fun p => in_rangeb k (snd p)) en.

(* what the compiled expression leaves on top of the stack *)
Definition top_of (k : ikind) (e : expr) (z : Z) : item :=
  if is_const e then IV (VInt Int z) true else IV (VInt k z) false.

(* observable comparison used by the generated correspondence files: 0 agree, 1 differ *)
Definition vm_result (m : mode) (k : ikind) (en : env) (e : expr) : gores :=
  let s := {| stk := []; vars := vars_of k en; line := 0; out := [] |} in
  match run_block instr st fail (fun i s => match exec fx_now m i s with XCont s' j => Cont st fail s' j | XFail f => Fail st fail f end)
                  (compile e) s with
  | Some (inl s') => match stk s' with [IV (VInt _ z) _] => GOk z | _ => GStuck end
  | Some (inr (RArith EDivZero, _, _)) => GPanic
  | _ => GStuck
  end.
