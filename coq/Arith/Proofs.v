(* Arith/Proofs.v — lemmas for C03 and C04 *)
From Coq Require Import List ZArith Bool Lia.
From Coq Require Import ZifyBool.
From Common Require Import Base.
From Arith Require Import Model Spec.
Import ListNotations.
Open Scope Z_scope.

(* ---------- kinds ---------- *)
Lemma ikind_eqb_eq a b : ikind_eqb a b = true <-> a = b.
Proof. split; [|intros ->; unfold ikind_eqb; apply Z.eqb_refl].
  unfold ikind_eqb. destruct a, b; cbn; intros H; try reflexivity; discriminate. Qed.
Lemma ikind_eqb_refl a : ikind_eqb a a = true.
Proof. apply ikind_eqb_eq; reflexivity. Qed.
Lemma ikind_eqb_neq a b : ikind_eqb a b = false <-> a <> b.
Proof. split.
  - intros H E. apply ikind_eqb_eq in E. congruence.
  - intros H. destruct (ikind_eqb a b) eqn:E; [apply ikind_eqb_eq in E; contradiction|reflexivity]. Qed.
Lemma kind_eqb_KI a b : kind_eqb (KI a) (KI b) = ikind_eqb a b.
Proof. reflexivity. Qed.
Lemma kind_eqb_eq a b : kind_eqb a b = true <-> a = b.
Proof. split; [|intros ->; unfold kind_eqb; apply Z.eqb_refl].
  destruct a as [|x| |], b as [|y| |]; unfold kind_eqb; cbn [rank]; intros H; try reflexivity;
    try (cbn in H; discriminate);
    try (destruct x; cbn in H; discriminate); try (destruct y; cbn in H; discriminate).
  f_equal. apply ikind_eqb_eq. exact H. Qed.

(* ---------- wrap ---------- *)
Lemma in_rangeb_spec k z : in_rangeb k z = true <-> in_range k z.
Proof. unfold in_rangeb, in_range. lia. Qed.
Lemma in_rangeb_false k z : in_rangeb k z = false <-> ~ in_range k z.
Proof. rewrite <- in_rangeb_spec. destruct (in_rangeb k z); split; congruence. Qed.

Lemma wrap_id k z : in_range k z -> wrap k z = z.
Proof.
  unfold in_range, wrap, kmin, kmax. destruct k; cbn [signed half modulus]; intros H.
  all: try (rewrite Z.mod_small by lia; lia).
Qed.
Lemma wrap_in_range k z : in_range k (wrap k z).
Proof.
  unfold in_range, wrap, kmin, kmax. destruct k; cbn [signed half modulus].
  all: match goal with |- context [?a mod ?m] => pose proof (Z.mod_pos_bound a m ltac:(lia)) end; lia.
Qed.
Lemma wrap_fix k z : wrap k z = z <-> in_range k z.
Proof. split; [intros <-; apply wrap_in_range|apply wrap_id]. Qed.
Lemma wrap_wrap k z : wrap k (wrap k z) = wrap k z.
Proof. apply wrap_id, wrap_in_range. Qed.
(* wrap changes the value by a multiple of the modulus *)
Lemma wrap_congr k z : exists j, wrap k z = z + j * modulus k.
Proof.
  unfold wrap. destruct (signed k).
  - exists (- ((z + half k) / modulus k)). pose proof (Z.div_mod (z + half k) (modulus k)).
    assert (modulus k <> 0) by (destruct k; cbn; lia). specialize (H H0). lia.
  - exists (- (z / modulus k)). pose proof (Z.div_mod z (modulus k)).
    assert (modulus k <> 0) by (destruct k; cbn; lia). specialize (H H0). lia.
Qed.

(* every modelled integer lies in the union of the 64-bit ranges *)
Definition in64 (z : Z) : Prop := - 9223372036854775808 <= z < 18446744073709551616.
Lemma in_range_in64 k z : in_range k z -> in64 z.
Proof. unfold in_range, in64, kmin, kmax. destruct k; cbn [signed half modulus]; lia. Qed.

(* ---------- float64 rounding of integers ---------- *)
Lemma f64_small z : Z.abs z < 9007199254740992 -> f64 z = z.
Proof. intros H. unfold f64. destruct (Z.ltb_spec (Z.abs z) 9007199254740992); [reflexivity|lia]. Qed.

Lemma f64_big_abs z : 9007199254740992 <= Z.abs z ->
  exists p, 9007199254740992 <= p /\ f64 z = Z.sgn z * p.
Proof.
  intros H. unfold f64. destruct (Z.ltb_spec (Z.abs z) 9007199254740992); [lia|].
  set (a := Z.abs z) in *. set (sh := Z.log2 a - 52).
  assert (Ha : 0 < a) by lia.
  pose proof (Z.log2_spec a Ha) as [Hlo _].
  assert (Hl : 53 <= Z.log2 a).
  { change 53 with (Z.log2 9007199254740992). apply Z.log2_le_mono. lia. }
  assert (Hsh : 1 <= sh) by (unfold sh; lia).
  assert (Hp : 2 ^ Z.log2 a = 4503599627370496 * 2 ^ sh).
  { replace (Z.log2 a) with (52 + sh) at 1 by (unfold sh; lia). rewrite Z.pow_add_r by lia. reflexivity. }
  assert (Hpos : 0 < 2 ^ sh) by (apply Z.pow_pos_nonneg; lia).
  assert (Hq : 4503599627370496 <= a / 2 ^ sh).
  { apply Z.div_le_lower_bound; lia. }
  assert (H2 : 2 <= 2 ^ sh).
  { change 2 with (2 ^ 1) at 1. apply Z.pow_le_mono_r; lia. }
  set (q' := if (2 ^ (sh - 1) <? a mod 2 ^ sh) || ((a mod 2 ^ sh =? 2 ^ (sh - 1)) && Z.odd (a / 2 ^ sh))
             then a / 2 ^ sh + 1 else a / 2 ^ sh).
  assert (Hq' : 4503599627370496 <= q') by (unfold q'; destruct (_ || _); lia).
  exists (q' * 2 ^ sh). split; [nia|reflexivity].
Qed.

Lemma f64_sgn z : Z.sgn (f64 z) = Z.sgn z.
Proof.
  destruct (Z.lt_ge_cases (Z.abs z) 9007199254740992) as [H|H].
  - rewrite f64_small by exact H. reflexivity.
  - destruct (f64_big_abs z H) as (p & Hp & ->). rewrite Z.sgn_mul.
    rewrite (Z.sgn_pos p) by lia. rewrite Z.mul_1_r. apply Z.sgn_sgn.
Qed.

Lemma f64_big z : 9007199254740992 <= Z.abs z -> 9007199254740992 <= Z.abs (f64 z).
Proof.
  intros H. destruct (f64_big_abs z H) as (p & Hp & ->).
  destruct z; cbn [Z.sgn Z.abs] in *; lia.
Qed.

(* the float64 round trip of CoerceLossless detects exactly the out-of-range conversions *)
Lemma lossless_key t z : in64 z -> (f64 z =? f64 (wrap t z)) = in_rangeb t z.
Proof.
  intros H64. destruct (in_rangeb t z) eqn:E.
  - apply in_rangeb_spec in E. rewrite wrap_id by exact E. apply Z.eqb_refl.
  - apply in_rangeb_false in E. apply Z.eqb_neq. intros Heq.
    pose proof (wrap_in_range t z) as Hw. set (w := wrap t z) in *.
    assert (Hne : z <> w) by (intros Hzw; apply E; rewrite Hzw; exact Hw).
    pose proof (f64_sgn z) as Sz. pose proof (f64_sgn w) as Sw. rewrite Heq in Sz.
    destruct (wrap_congr t z) as [j Hj]. fold w in Hj.
    unfold in_range, kmin, kmax, in64 in *.
    destruct t; cbn [signed half modulus] in *.
    all: try (rewrite (f64_small w) in Heq by lia;
              destruct (Z.lt_ge_cases (Z.abs z) 9007199254740992) as [Hs|Hb];
              [rewrite (f64_small z Hs) in Heq; lia | pose proof (f64_big z Hb); lia]).
    all: assert (Hs : Z.sgn z = Z.sgn w) by congruence;
         destruct z, w; cbn [Z.sgn] in Hs; try discriminate; try lia.
Qed.

Lemma lossless_int k t z : in64 z ->
  coerce_lossless (VInt k z) (KI t) = if in_rangeb t z then Ok (VInt t z) else Err ELossy.
Proof.
  intros H. unfold coerce_lossless. cbn [coerce to_f64]. rewrite lossless_key by exact H.
  destruct (in_rangeb t z) eqn:E; [|reflexivity].
  apply in_rangeb_spec in E. rewrite wrap_id by exact E. reflexivity.
Qed.

(* a lossless coercion that succeeds is the plain coercion *)
Lemma lossless_ok v k c : coerce_lossless v k = Ok c -> coerce v k = Ok c.
Proof.
  unfold coerce_lossless. destruct (coerce v k) as [c'| |]; try discriminate.
  destruct (to_f64 v), (to_f64 c'); try discriminate. destruct (_ =? _); [congruence|discriminate].
Qed.

(* ---------- C03: the diadic opcodes against the documented table ---------- *)
Lemma arith_doc o k k' a b : arith o (VInt k a) (VInt k' b) = doc_arith o k a b.
Proof. destruct o; reflexivity. Qed.

Local Opaque wrap in_rangeb.

Lemma binop_matches_doc m o k1 c1 v1 k2 c2 v2 :
  in_range k1 v1 -> in_range k2 v2 ->
  binop m o (VInt k1 v1, c1) (VInt k2 v2, c2) = doc_binop m o k1 c1 v1 k2 c2 v2.
Proof.
  intros R1 R2. pose proof (in_range_in64 _ _ R1) as B1. pose proof (in_range_in64 _ _ R2) as B2.
  unfold binop, doc_binop, normalize. cbn [kind_of is_numeric]. rewrite !kind_eqb_KI.
  destruct (ikind_eqb k1 k2) eqn:E.
  - cbn [negb]. rewrite andb_false_r. cbn [bind fst snd]. apply arith_doc.
  - unfold wider. cbn [rank].
    destruct c1, c2, m; cbn [is_strict negb orb andb xorb bind fst snd coerce];
      try rewrite (lossless_int _ _ _ B1); try rewrite (lossless_int _ _ _ B2);
      try reflexivity;
      try (destruct (in_rangeb _ _); cbn [bind fst snd]; [apply arith_doc|reflexivity]);
      try (destruct (irank k1 <? irank k2); cbn [bind fst snd]; rewrite arith_doc;
           rewrite ?(wrap_id _ _ R1), ?(wrap_id _ _ R2); reflexivity);
      try (cbn [bind fst snd]; apply arith_doc).
Qed.

(* ---------- C03: statement forms ---------- *)
Lemma store_same m k v z c : store m (VInt k v) (VInt k z, c) = Ok (VInt k z).
Proof. destruct m; cbn [store kind_of]; rewrite ?kind_eqb_KI, ?ikind_eqb_refl; reflexivity. Qed.

Lemma bind_doc_arith_store m o k v a b :
  bind (doc_arith o k a b) (fun r => store m (VInt k v) (r, false)) = doc_arith o k a b.
Proof.
  destruct o; cbn [doc_arith bind]; try (destruct (b =? 0); cbn [bind]); rewrite ?store_same; reflexivity.
Qed.

Lemma bind_doc_binop_store m o k v s :
  bind (doc_binop m o k false v Int true s) (fun r => store m (VInt k v) (r, false))
  = doc_binop m o k false v Int true s.
Proof.
  unfold doc_binop. destruct (ikind_eqb k Int); cbn [andb negb orb].
  - apply bind_doc_arith_store.
  - destruct m; try destruct (in_rangeb k s); cbn [bind]; rewrite ?bind_doc_arith_store; reflexivity.
Qed.

(* the fused instruction is the unfused sequence, for ALL values (integers, bools, strings), steps and modes *)
Lemma incr_sum_is_arith g v1 v2 :
  inc_i8 g = true -> inc_like_store g = true -> incr_sum g v1 v2 = arith Add v1 v2.
Proof.
  intros G1 G3. unfold incr_sum, arith. rewrite G1, G3.
  destruct v1, v2; rewrite ?andb_false_r; reflexivity.
Qed.

Lemma increment_is_add_store g m v step :
  inc_i8 g = true -> inc_strict_const g = true -> inc_like_store g = true ->
  increment g m v step = bind (binop m Add (v, false) step) (fun r => store m v (r, false)).
Proof.
  intros G1 G2 G3. destruct step as [inc ic]. unfold increment, binop. rewrite G2, G3.
  cbn [orb negb andb].
  assert (Hs : forall p : value * value,
             bind (incr_sum g (fst p) (snd p)) (fun s => store m v (s, false))
             = bind (arith Add (fst p) (snd p)) (fun r => store m v (r, false))).
  { intros p. rewrite incr_sum_is_arith by assumption. reflexivity. }
  destruct (is_strict m) eqn:Em; cbn [negb orb andb].
  - destruct ic; cbn [negb andb].
    + destruct (normalize v false inc true true) as [p| |]; cbn [bind]; [apply Hs|reflexivity|reflexivity].
    + destruct (kind_eqb (kind_of v) (kind_of inc)) eqn:E; cbn [negb bind].
      * unfold normalize. rewrite E. cbn [bind]. apply (Hs (v, inc)).
      * reflexivity.
  - destruct (normalize v false inc ic false) as [p| |]; cbn [bind]; [apply Hs|reflexivity|reflexivity].
Qed.

Lemma forms_match_doc m opt f k v :
  in_range k v -> in_range Int (form_step_value f) ->
  exec_form cfg_now m opt f (VInt k v) = doc_form m f k v.
Proof.
  intros Rv Rs. unfold doc_form.
  assert (Hgen : bind (binop m (form_op f) (VInt k v, false) (form_step cfg_now f))
                      (fun r => store m (VInt k v) (r, false))
                 = doc_binop m (form_op f) k false v Int true (form_step_value f)).
  { replace (form_step cfg_now f) with (VInt Int (form_step_value f), true) by (destruct f; reflexivity).
    rewrite binop_matches_doc by assumption. apply bind_doc_binop_store. }
  assert (Hinc : form_op f = Add ->
                 increment cfg_now m (VInt k v) (form_step cfg_now f)
                 = doc_binop m Add k false v Int true (form_step_value f)).
  { intros Ef. rewrite increment_is_add_store by reflexivity. rewrite <- Ef. exact Hgen. }
  unfold exec_form. destruct (form_op f) eqn:Ef, opt; try exact Hgen.
  apply Hinc. reflexivity.
Qed.

Lemma incr_forms_agree m o1 o2 k v s :
  in_range k v -> in_range Int s ->
  exec_form cfg_now m o1 (AddAssign s) (VInt k v) = exec_form cfg_now m o2 (AssignAdd s) (VInt k v) /\
  exec_form cfg_now m o1 (SubAssign s) (VInt k v) = exec_form cfg_now m o2 (AssignSub s) (VInt k v) /\
  exec_form cfg_now m o1 PostInc (VInt k v) = exec_form cfg_now m o2 (AddAssign 1) (VInt k v) /\
  exec_form cfg_now m o1 PostDec (VInt k v) = exec_form cfg_now m o2 (SubAssign 1) (VInt k v).
Proof.
  intros Rv Rs. assert (R1 : in_range Int 1) by (unfold in_range; cbn; lia).
  rewrite !forms_match_doc by assumption. repeat split; reflexivity.
Qed.

(* the variable keeps its kind, and the new value is in range *)
Lemma doc_arith_kind o k a b r : doc_arith o k a b = Ok r -> exists z, r = VInt k z /\ in_range k z.
Proof.
  destruct o; cbn [doc_arith]; try (destruct (b =? 0); [discriminate|]);
    intros H; injection H as <-; eexists; (split; [reflexivity|apply wrap_in_range]).
Qed.
Lemma form_keeps_kind m opt f k v r :
  in_range k v -> in_range Int (form_step_value f) ->
  exec_form cfg_now m opt f (VInt k v) = Ok r -> exists z, r = VInt k z /\ in_range k z.
Proof.
  intros Rv Rs. rewrite forms_match_doc by assumption. unfold doc_form, doc_binop.
  destruct (ikind_eqb k Int) eqn:E; cbn [andb negb orb].
  - apply doc_arith_kind.
  - destruct m; try destruct (in_rangeb k _); try discriminate; apply doc_arith_kind.
Qed.

(* ---------- C03: negation ---------- *)
Lemma negate_total k c v : negate (VInt k v, c) = Ok (VInt k (wrap k (- v)), c).
Proof. unfold negate, negate_gen. rewrite andb_false_r. reflexivity. Qed.

(* ---------- C03: the code before the repairs ---------- *)
Local Transparent wrap in_rangeb.
Lemma old_negate_int8 : negate_old (VInt I8 5, false) = Err EInvalidType.
Proof. reflexivity. Qed.
Lemma old_postinc_int32_dynamic :
  exec_form cfg_old Dynamic false PostInc (VInt I32 5) = Ok (VInt Int 6) /\
  exec_form cfg_old Dynamic false (AddAssign 1) (VInt I32 5) = Ok (VInt I32 6).
Proof. split; vm_compute; reflexivity. Qed.
Lemma old_postinc_int32_strict :
  exec_form cfg_old Strict false PostInc (VInt I32 5) = Err ETypeMismatch /\
  exec_form cfg_old Strict false (AddAssign 1) (VInt I32 5) = Ok (VInt I32 6).
Proof. split; vm_compute; reflexivity. Qed.
Lemma old_increment_int8 :
  exec_form cfg_old Relaxed true (AssignAdd 1) (VInt I8 5) = Err EInvalidType /\
  exec_form cfg_old Relaxed false (AssignAdd 1) (VInt I8 5) = Ok (VInt I8 6).
Proof. split; vm_compute; reflexivity. Qed.
Lemma old_increment_strict_const :
  exec_form cfg_old Strict true (AssignAdd 1) (VInt I32 5) = Err ETypeMismatch /\
  exec_form cfg_old Strict false (AssignAdd 1) (VInt I32 5) = Ok (VInt I32 6).
Proof. split; vm_compute; reflexivity. Qed.
Lemma old_argument_int16 :
  argument_old Strict (KI I16) (VInt Int 4, true) = Err EArgType /\
  retval_old Strict (KI I16) (VInt Int 70000, true) = Ok (VInt I16 4464).
Proof. split; vm_compute; reflexivity. Qed.
Local Opaque wrap in_rangeb.

(* ---------- C04: whatever strict mode accepts, relaxed mode computes identically ---------- *)
Definition wf (v : value) : Prop :=
  match v with VInt k z => in_range k z | VFlt z => f64 z = z | _ => True end.

Lemma coerce_same v : wf v -> coerce v (kind_of v) = Ok v.
Proof. destruct v as [k z|b|s|z]; cbn [wf kind_of coerce]; intros H.
  - rewrite wrap_id by exact H. reflexivity.
  - reflexivity.
  - reflexivity.
  - reflexivity.
Qed.

Lemma bind_ok {A B} (r : res A) (f : A -> res B) b : bind r f = Ok b -> exists a, r = Ok a /\ f a = Ok b.
Proof. destruct r; cbn [bind]; try discriminate. eauto. Qed.

Lemma normalize_strict_relaxed v1 c1 v2 c2 p :
  normalize v1 c1 v2 c2 true = Ok p -> normalize v1 c1 v2 c2 false = Ok p.
Proof.
  unfold normalize. destruct (kind_eqb (kind_of v1) (kind_of v2)); [auto|].
  destruct (xorb c1 c2 && is_numeric v1 && is_numeric v2); [|auto].
  destruct c1; intros H; apply bind_ok in H; destruct H as (a & H1 & H2);
    apply lossless_ok in H1; rewrite H1; exact H2.
Qed.

Lemma binop_strict_relaxed o x y r : binop Strict o x y = Ok r -> binop Relaxed o x y = Ok r.
Proof.
  destruct x as [v1 c1], y as [v2 c2]. unfold binop. cbn [is_strict andb].
  destruct (negb (c1 || c2) && negb (kind_eqb (kind_of v1) (kind_of v2))); [discriminate|].
  intros H. apply bind_ok in H. destruct H as (p & H1 & H2).
  apply normalize_strict_relaxed in H1. rewrite H1. exact H2.
Qed.

Lemma store_strict_relaxed ex x r : store Strict ex x = Ok r -> store Relaxed ex x = Ok r.
Proof.
  destruct x as [v c]. cbn [store]. destruct (kind_eqb (kind_of v) (kind_of ex)); [auto|].
  destruct (negb c); [discriminate|]. destruct (is_numeric v && is_numeric ex); [|discriminate].
  apply lossless_ok.
Qed.

Lemma argument_strict_relaxed t x r : argument Strict t x = Ok r -> argument Relaxed t x = Ok r.
Proof.
  destruct x as [v c]. unfold argument, argument_gen. cbn [is_strict].
  destruct (kind_eqb (kind_of v) t); [auto|].
  destruct (c && is_numeric v && kind_numeric t); [|discriminate]. apply lossless_ok.
Qed.

Lemma retval_strict_relaxed t x r : wf (fst x) -> retval Strict t x = Ok r -> retval Relaxed t x = Ok r.
Proof.
  destruct x as [v c]. cbn [fst]. intros W. unfold retval, retval_gen. cbn [is_strict].
  destruct (negb c).
  - destruct (kind_eqb (kind_of v) t) eqn:E; [|discriminate].
    apply kind_eqb_eq in E. subst t. intros H. rewrite coerce_same by exact W. exact H.
  - destruct (is_numeric v && kind_numeric t); [apply lossless_ok|auto].
Qed.

Lemma increment_strict_relaxed g v step r :
  increment g Strict v step = Ok r -> increment g Relaxed v step = Ok r.
Proof.
  destruct step as [inc ic]. unfold increment. cbn [is_strict negb orb].
  intros H. apply bind_ok in H. destruct H as (p & H1 & H2).
  apply bind_ok in H2. destruct H2 as (s & H2 & H3).
  assert (H3' : (if inc_like_store g then store Relaxed v (s, false) else Ok s) = Ok r).
  { destruct (inc_like_store g); [apply store_strict_relaxed|]; exact H3. }
  destruct (inc_strict_const g && ic).
  - apply normalize_strict_relaxed in H1. rewrite H1. cbn [bind]. rewrite H2. exact H3'.
  - destruct (kind_eqb (kind_of v) (kind_of inc)) eqn:E; [|discriminate].
    unfold normalize. rewrite E. injection H1 as <-. cbn [bind]. rewrite H2. exact H3'.
Qed.

Lemma exec_form_strict_relaxed g opt f xv r :
  exec_form g Strict opt f xv = Ok r -> exec_form g Relaxed opt f xv = Ok r.
Proof.
  unfold exec_form.
  assert (Hgen : forall o, bind (binop Strict o (xv, false) (form_step g f)) (fun r0 => store Strict xv (r0, false)) = Ok r ->
                 bind (binop Relaxed o (xv, false) (form_step g f)) (fun r0 => store Relaxed xv (r0, false)) = Ok r).
  { intros o H. apply bind_ok in H. destruct H as (a & H1 & H2).
    apply binop_strict_relaxed in H1. rewrite H1. cbn [bind]. apply store_strict_relaxed. exact H2. }
  destruct (form_op f), opt; try apply Hgen. apply increment_strict_relaxed.
Qed.

(* strict mode really removes programs (so the implication is not an equivalence) *)
Local Transparent wrap in_rangeb.
Lemma strict_removes :
  binop Strict Add (VInt I32 1, false) (VInt I64 1, false) = Err ETypeMismatch /\
  binop Relaxed Add (VInt I32 1, false) (VInt I64 1, false) = Ok (VInt I64 2) /\
  store Strict (VInt I8 0) (VInt Int 300, true) = Err ELossy /\
  store Relaxed (VInt I8 0) (VInt Int 300, true) = Ok (VInt I8 44).
Proof. repeat split; vm_compute; reflexivity. Qed.
(* dynamic mode is NOT covered by the property: the same accepted assignment changes the variable's type *)
Lemma dynamic_differs :
  store Strict (VInt I8 0) (VInt Int 5, true) = Ok (VInt I8 5) /\
  store Dynamic (VInt I8 0) (VInt Int 5, true) = Ok (VInt Int 5).
Proof. split; vm_compute; reflexivity. Qed.
Local Opaque wrap in_rangeb.

(* ---------- float literal with an integral value meeting an integer operand ---------- *)
Lemma kind_eqb_KI_KF64 k : kind_eqb (KI k) KF64 = false.
Proof. destruct k; reflexivity. Qed.
Lemma kind_eqb_KF64_KI k : kind_eqb KF64 (KI k) = false.
Proof. destruct k; reflexivity. Qed.

(* in every mode the literal adapts to the integer operand: the result, if any, has the integer's kind *)
Lemma float_literal_adapts m o k v z r :
  (binop m o (VInt k v, false) (VFlt z, true) = Ok r \/ binop m o (VFlt z, true) (VInt k v, false) = Ok r) ->
  exists y, r = VInt k y /\ in_range k y.
Proof.
  unfold binop, normalize. cbn [kind_of is_numeric orb negb andb xorb].
  rewrite kind_eqb_KI_KF64, kind_eqb_KF64_KI, !andb_false_r. cbn [andb].
  assert (Hc : forall (co : value -> kind -> res value) c,
             (co = coerce \/ co = coerce_lossless) -> co (VFlt z) (KI k) = Ok c -> c = VInt k z).
  { intros co c [-> | ->]; unfold coerce_lossless; cbn [coerce to_f64].
    - destruct (in_rangeb k z); [|discriminate]. intros H; injection H as <-; reflexivity.
    - destruct (in_rangeb k z); [|discriminate]. cbn [to_f64]. destruct (z =? f64 z); [|discriminate].
      intros H; injection H as <-; reflexivity. }
  set (co := if is_strict m then coerce_lossless else coerce).
  assert (Hco : co = coerce \/ co = coerce_lossless) by (unfold co; destruct (is_strict m); auto).
  intros [H | H]; apply bind_ok in H; destruct H as (p & H1 & H2);
    apply bind_ok in H1; destruct H1 as (c & H1 & H3); injection H3 as <-;
    apply (Hc co c Hco) in H1; subst c; cbn [fst snd] in H2; rewrite arith_doc in H2;
    apply doc_arith_kind in H2; exact H2.
Qed.
