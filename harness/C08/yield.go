//go:build verif

package bytecode

// Overlaid into /repo/internal/language/bytecode by /verif/check C08 together with an instrumented copy
// of run.go whose dispatch loop calls verifYield() before every instruction: a seeded, counter-based
// scheduling perturbation (runtime.Gosched at chosen instruction counts).

import (
	"os"
	"runtime"
	"strconv"
	"sync/atomic"
)

var (
	verifYieldCounter atomic.Uint64
	verifYieldSeed    uint64
	verifYieldEvery   uint64
)

func init() {
	verifYieldSeed, _ = strconv.ParseUint(os.Getenv("VERIF_YIELD_SEED"), 10, 64)
	verifYieldEvery, _ = strconv.ParseUint(os.Getenv("VERIF_YIELD_EVERY"), 10, 64)
}

// VerifSetYield changes the perturbation parameters between programs run in one process.
func VerifSetYield(seed, every uint64) {
	verifYieldSeed, verifYieldEvery = seed, every
	verifYieldCounter.Store(0)
}

func verifYield() {
	if verifYieldEvery == 0 {
		return
	}

	n := verifYieldCounter.Add(1)
	x := (n + verifYieldSeed) * 0x9E3779B97F4A7C15
	x ^= x >> 29

	if x%verifYieldEvery == 0 {
		runtime.Gosched()
	}
}
