(* NoPanicReq/Sites.v — panic-capable sites of the modelled request parsers with their syntactic
   guards, identifiers erased (harness/C07/sitedump); regenerated and checked for inclusion every run. *)
From Coq Require Import String List Bool.
Import ListNotations.
Open Scope string_scope.

Definition modelled_sites : list string := [
  "auth.go|Authenticate|slice|_[len(_):]|!(_ == """") && _(_(_), _)";
  "auth.go|ValidateClusterToken|slice|_[len(_):]|!(_ == """") && !(len(_) <= len(_))";
  "describe.go|getPostgresColumnMetadata|index|_[0]|!(len(_) >= 2)";
  "describe.go|getPostgresColumnMetadata|index|_[0]|len(_) >= 2";
  "describe.go|getPostgresColumnMetadata|index|_[_]|!(_ != nil) && _ && for _()";
  "describe.go|getPostgresColumnMetadata|index|_[_]|!(_ != nil) && for _()";
  "describe.go|getPostgresColumnMetadata|index|_[len(_)-1]|len(_) >= 2";
  "describe.go|getSqliteColumnMetadata|index|_[_]|!(_ != nil) && !_ && for _()";
  "describe.go|getSqliteColumnMetadata|index|_[_]|!(_ != nil) && for _() && range _";
  "describe.go|getSqliteColumnMetadata|index|_[len(_)-1]|";
  "handler.go|ListDSNHandler|index|_[_]|!(_ != nil) && range _";
  "handler.go|ListDSNHandler|make|make(T, 0, len(_))|!(_ != nil)";
  "handler.go|ListDSNHandler|make|make(T, len(_))|!(_ != nil)";
  "handler.go|ListDSNHandler|slice|_[:_]|!(_ != nil) && _ > 0 && _ < len(_)";
  "handler.go|ListDSNHandler|slice|_[_:]|!(_ != nil)";
  "list.go|ListUsersHandler|index|_[_]|";
  "list.go|ListUsersHandler|make|make(T, 0, len(_))|";
  "list.go|ListUsersHandler|slice|_[:_]|_ > 0 && _ < len(_)";
  "list.go|ListUsersHandler|slice|_[_:]|";
  "parsing.go|TableNameParts|index|_[_]|range _";
  "security.go|GrantPermissions|assert|_[0].(T)|!(!_()) && !(!_(_, _, _)) && !(_ != nil)";
  "security.go|GrantPermissions|index|_[""dsn""]|!(!_())";
  "security.go|GrantPermissions|index|_[""table""]|!(!_())";
  "security.go|GrantPermissions|index|_[""user""]|!(!_()) && !(!_(_, _, _))";
  "security.go|GrantPermissions|index|_[0]|!(!_()) && !(!_(_)) && !(!_(_, _, _)) && !(_ != nil) && !(_ == """") && !(_[0] == '-') && range _";
  "security.go|GrantPermissions|index|_[0]|!(!_()) && !(!_(_)) && !(!_(_, _, _)) && !(_ != nil) && !(_ == """") && range _";
  "security.go|GrantPermissions|index|_[0]|!(!_()) && !(!_(_, _, _)) && !(_ != nil)";
  "security.go|GrantPermissions|index|_[0]|!(!_()) && !(!_(_, _, _)) && len(_) == 1";
  "security.go|GrantPermissions|slice|_[1:]|!(!_()) && !(!_(_)) && !(!_(_, _, _)) && !(_ != nil) && !(_ == """") && !(_[0] == '-') && _[0] == '+' && range _";
  "security.go|GrantPermissions|slice|_[1:]|!(!_()) && !(!_(_)) && !(!_(_, _, _)) && !(_ != nil) && !(_ == """") && _[0] == '-' && range _";
  "security.go|validPermissions|index|_[0]|!(_ == """") && range _";
  "security.go|validPermissions|slice|_[1:]|!(_ == """") && range _";
  "serve.go|parmMap|index|_[_]|range _";
  "serve.go|partsMap|index|_[0]|";
  "serve.go|partsMap|index|_[_]|!(_ < len(_)) && !(_(_, ""{{"") && _(_, ""...}}"")) && _(_, ""{{"") && _(_, ""}}"") && range _";
  "serve.go|partsMap|index|_[_]|!(_ < len(_)) && _(_, ""{{"") && _(_, ""...}}"") && range _";
  "serve.go|partsMap|index|_[_]|!(_ >= len(_)) && !(_(_, ""{{"") && _(_, ""...}}"")) && !(_(_, ""{{"") && _(_, ""}}"")) && range _";
  "serve.go|partsMap|index|_[_]|!(_(_, ""{{"") && _(_, ""...}}"")) && !(_(_, ""{{"") && _(_, ""}}"")) && _ >= len(_) && range _";
  "serve.go|partsMap|index|_[_]|!(_(_, ""{{"") && _(_, ""...}}"")) && _ < len(_) && _(_, ""{{"") && _(_, ""}}"") && range _";
  "serve.go|partsMap|index|_[_]|_ < len(_) && _(_, ""{{"") && _(_, ""...}}"") && range _";
  "serve.go|partsMap|slice|_[_:]|_ < len(_) && _(_, ""{{"") && _(_, ""...}}"") && range _";
  "serve.go|requestWantsBrowserHTML|index|_(_, "";"", 2)[0]|range _(_, "","") && range _[""Accept""]";
  "serve.go|requestWantsBrowserHTML|index|_[""Accept""]|";
  "serve.go|validatePaging|index|_[""limit""]|!(!_ && !_) && !(_ == nil || _ == nil) && _";
  "serve.go|validatePaging|index|_[""limit""]|!(_ == nil || _ == nil)";
  "serve.go|validatePaging|index|_[""start""]|!(!_ && !_) && !(_ == nil || _ == nil) && _";
  "serve.go|validatePaging|index|_[""start""]|!(_ == nil || _ == nil)";
  "serve.go|validatePaging|index|_[0]|!(!_ && !_) && !(_ == nil || _ == nil) && _ && len(_) > 0";
  "tokens.go|TokenListHandler|slice|_[:_]|!(_ != nil) && _ > 0 && _ < len(_)";
  "tokens.go|TokenListHandler|slice|_[_:]|!(_ != nil)";
  "update.go|UpdateUserHandler|index|_[""name""]|";
  "update.go|UpdateUserHandler|index|_[0]|!(_ != _) && !(_ != nil) && !(_(_) == """") && !(_[0] == '+') && len(_) > 0 && range _";
  "update.go|UpdateUserHandler|index|_[0]|!(_ != _) && !(_ != nil) && !(_(_) == """") && len(_) > 0 && range _";
  "update.go|UpdateUserHandler|index|_[_]|!(_ != _) && !(_ != nil) && !(_(_, ""ego."") && !_ && !_(_)) && _ && len(_) > 0 && range _";
  "update.go|UpdateUserHandler|index|_[_]|!(_ != _) && !(_ != nil) && len(_) > 0 && range _";
  "update.go|UpdateUserHandler|slice|_[1:]|!(_ != _) && !(_ != nil) && !(_(_) == """") && _[0] == '+' || _[0] == '-' && len(_) > 0 && range _"
].

Definition sites_included (found known : list string) : bool :=
  forallb (fun s => existsb (String.eqb s) known) found.
