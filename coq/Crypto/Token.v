(* Crypto/Token.v — C27 for token STRINGS: the hex layer of internal/language/tokens
   (new.go: hex.EncodeToString([]byte(util.Encrypt(json, key))); unwrap.go / validate.go:
    hex.DecodeString(tokenString), util.Decrypt(string(b), key), len(j) == 0 is an error). *)
From Common Require Import Base.
From Coq Require Import Lia.
From Crypto Require Import Model Proofs.
Open Scope N_scope.

(* ---------------------------------------------------------------- model *)
(* encoding/hex: fromHexChar *)
Definition hexval (c : N) : option N :=
  if (48 <=? c) && (c <=? 57) then Some (c - 48)
  else if (97 <=? c) && (c <=? 102) then Some (c - 87)
  else if (65 <=? c) && (c <=? 70) then Some (c - 55)
  else None.

(* hex.DecodeString: an odd length or a byte that is no hex digit is an error *)
Fixpoint hexdecode (s : str) : option bytes :=
  match s with
  | [] => Some []
  | [_] => None
  | a :: b :: r =>
    match hexval a, hexval b, hexdecode r with
    | Some x, Some y, Some t => Some (16 * x + y :: t)
    | _, _, _ => None
    end
  end.

Definition hexdigit (d : N) : N := if d <? 10 then 48 + d else 87 + d.     (* "0123456789abcdef" *)
Definition hexencode (b : bytes) : str := flat_map (fun x => [hexdigit (x / 16); hexdigit (x mod 16)]) b.
Definition lower (c : N) : N := if (65 <=? c) && (c <=? 90) then c + 32 else c.

Section TokenLayer.
  Variable argon pbkdf : bytes -> bytes -> bytes.
  Variable md5k shak : bytes -> bytes.
  Variable seal : bytes -> bytes -> bytes -> bytes.
  Variable open : bytes -> bytes -> bytes -> option bytes.

  (* the first three steps of tokens.Unwrap / tokens.Validate: the decrypted JSON text or an error *)
  Definition token_decrypt (fs : bool) (pw : bytes) (s : str) : result :=
    match hexdecode s with
    | None => Error
    | Some b => match util_decrypt argon pbkdf md5k shak open fs pw b with
                | Ok [] => Error
                | r => r
                end
    end.

  (* tokens.New after json.Marshal *)
  Definition token_encrypt (pw salt nonce pt : bytes) : str :=
    hexencode (util_encrypt argon pbkdf md5k shak seal pw salt nonce pt).
End TokenLayer.

Definition byte_ok (b : bytes) : Prop := Forall (fun x => x < 256) b.

(* ---------------------------------------------------------------- hex lemmas *)
Lemma hexval_sound c x : hexval c = Some x -> x < 16 /\ lower c = hexdigit x.
Proof.
  unfold hexval.
  destruct ((48 <=? c) && (c <=? 57)) eqn:E1.
  - intros H; injection H as <-. apply andb_true_iff in E1 as [A B]. apply N.leb_le in A, B.
    split; [lia|]. unfold lower, hexdigit.
    replace ((65 <=? c) && (c <=? 90)) with false by (symmetry; apply andb_false_iff; left; apply N.leb_gt; lia).
    replace (c - 48 <? 10) with true by (symmetry; apply N.ltb_lt; lia). lia.
  - destruct ((97 <=? c) && (c <=? 102)) eqn:E2.
    + intros H; injection H as <-. apply andb_true_iff in E2 as [A B]. apply N.leb_le in A, B.
      split; [lia|]. unfold lower, hexdigit.
      replace ((65 <=? c) && (c <=? 90)) with false by (symmetry; apply andb_false_iff; right; apply N.leb_gt; lia).
      replace (c - 87 <? 10) with false by (symmetry; apply N.ltb_ge; lia). lia.
    + destruct ((65 <=? c) && (c <=? 70)) eqn:E3; [|discriminate].
      intros H; injection H as <-. apply andb_true_iff in E3 as [A B]. apply N.leb_le in A, B.
      split; [lia|]. unfold lower, hexdigit.
      replace ((65 <=? c) && (c <=? 90)) with true by (symmetry; apply andb_true_iff; split; apply N.leb_le; lia).
      replace (c - 55 <? 10) with false by (symmetry; apply N.ltb_ge; lia). lia.
Qed.

Lemma hexval_digit d : d < 16 -> hexval (hexdigit d) = Some d.
Proof.
  intros Hd. unfold hexval, hexdigit. destruct (N.ltb_spec d 10).
  - destruct (N.leb_spec 48 (48 + d)); [|lia]. destruct (N.leb_spec (48 + d) 57); [|lia]. cbn [andb]. f_equal. lia.
  - destruct (N.leb_spec 48 (87 + d)); [|lia]. destruct (N.leb_spec (87 + d) 57); [lia|]. cbn [andb].
    destruct (N.leb_spec 97 (87 + d)); [|lia]. destruct (N.leb_spec (87 + d) 102); [|lia]. cbn [andb]. f_equal. lia.
Qed.

Lemma hexdecode_pair a b r :
  hexdecode (a :: b :: r) = match hexval a, hexval b, hexdecode r with
                            | Some x, Some y, Some t => Some (16 * x + y :: t) | _, _, _ => None end.
Proof. reflexivity. Qed.

Lemma hexencode_cons v t : hexencode (v :: t) = hexdigit (v / 16) :: hexdigit (v mod 16) :: hexencode t.
Proof. reflexivity. Qed.

Lemma hexdecode_encode b : byte_ok b -> hexdecode (hexencode b) = Some b.
Proof.
  induction 1 as [|x b Hx Hb IH]; [reflexivity|].
  rewrite hexencode_cons, hexdecode_pair.
  assert (H1 : x / 16 < 16) by (apply N.div_lt_upper_bound; lia).
  assert (H2 : x mod 16 < 16) by (apply N.mod_lt; lia).
  rewrite (hexval_digit _ H1), (hexval_digit _ H2), IH. f_equal. f_equal.
  pose proof (N.div_mod x 16). lia.
Qed.

(* strong induction on pairs *)
Lemma hexdecode_sound : forall n s b, (length s <= n)%nat -> hexdecode s = Some b ->
  map lower s = hexencode b /\ byte_ok b.
Proof.
  induction n as [|n IH]; intros s b Hl H.
  - destruct s; [|cbn in Hl; lia]. injection H as <-. split; [reflexivity|constructor].
  - destruct s as [|a [|c r]].
    + injection H as <-. split; [reflexivity|constructor].
    + discriminate.
    + rewrite hexdecode_pair in H.
      destruct (hexval a) as [x|] eqn:Ea; [|discriminate].
      destruct (hexval c) as [y|] eqn:Ec; [|discriminate].
      destruct (hexdecode r) as [t|] eqn:Er; [|discriminate]. injection H as <-.
      apply hexval_sound in Ea as [Hx Hla]. apply hexval_sound in Ec as [Hy Hlc].
      assert (Hr : (length r <= n)%nat) by (cbn in Hl; lia).
      destruct (IH r t Hr Er) as [Hm Hok]. split.
      * cbn [map]. rewrite hexencode_cons, Hla, Hlc, Hm.
        change (match x with 0 => 0 | N.pos q => N.pos q~0~0~0~0 end) with (16 * x).
        replace ((16 * x + y) / 16) with x by (apply N.div_unique with y; lia).
        replace ((16 * x + y) mod 16) with y by (apply N.mod_unique with x; lia).
        reflexivity.
      * constructor; [|exact Hok].
        change (match x with 0 => 0 | N.pos q => N.pos q~0~0~0~0 end) with (16 * x). lia.
Qed.

(* ---------------------------------------------------------------- token strings *)
Section TokenProofs.
  Variable argon pbkdf : bytes -> bytes -> bytes.
  Variable md5k shak : bytes -> bytes.
  Variable seal : bytes -> bytes -> bytes -> bytes.
  Variable open : bytes -> bytes -> bytes -> option bytes.
  Notation token_decrypt := (token_decrypt argon pbkdf md5k shak open).
  Notation token_encrypt := (token_encrypt argon pbkdf md5k shak seal).
  Notation util_decrypt := (util_decrypt argon pbkdf md5k shak open).
  Notation util_encrypt := (util_encrypt argon pbkdf md5k shak seal).

  Lemma token_roundtrip fs pw salt nonce pt :
    aead_correct seal open -> length salt = salt_len -> length nonce = nonce_len -> pt <> [] ->
    byte_ok (util_encrypt pw salt nonce pt) ->
    token_decrypt fs pw (token_encrypt pw salt nonce pt) = Ok pt.
  Proof.
    intros Hc Hs Hn Hpt Hb. unfold Crypto.Token.token_decrypt, Crypto.Token.token_encrypt.
    rewrite hexdecode_encode by exact Hb.
    rewrite (util_roundtrip argon pbkdf md5k shak seal open fs pw salt nonce pt Hc Hs Hn).
    destruct pt; [contradiction|reflexivity].
  Qed.

  Lemma token_accept_only pw0 salt0 nonce0 pt0 pw s :
    aead_exact seal open ->
    aead_int_ctxt open (one_sealed argon pbkdf md5k shak pw0 salt0 nonce0 pt0) ->
    kdf_ideal argon pbkdf md5k shak ->
    token_decrypt true pw s <> Error ->
    pw = pw0 /\ hexdecode s = Some (util_encrypt pw0 salt0 nonce0 pt0) /\
    map lower s = token_encrypt pw0 salt0 nonce0 pt0 /\ token_decrypt true pw s = Ok pt0 /\ pt0 <> [].
  Proof.
    intros Hex Hint Hkdf H. unfold Crypto.Token.token_decrypt in *.
    destruct (hexdecode s) as [b|] eqn:Eh; [|contradiction].
    destruct (util_decrypt true pw b) as [p|] eqn:Ed; [|contradiction].
    assert (Hne : util_decrypt true pw b <> Error) by (rewrite Ed; discriminate).
    destruct (util_accept_only argon pbkdf md5k shak seal open pw0 salt0 nonce0 pt0 Hex Hint Hkdf pw b Hne) as [-> ->].
    destruct (hexdecode_sound (length s) s _ (le_n _) Eh) as [Hm _].
    (* the plaintext is pt0 *)
    assert (Hp : p = pt0).
    { unfold Model.util_decrypt in Ed. apply (run_frame_ok argon pbkdf md5k shak open) in Ed as [[Hf _]|(k & sl & n & bd & _ & Ho)].
      - exfalso. exact (util_parse_fixed_not_empty _ Hf).
      - apply Hint in Ho as (_ & _ & ->). reflexivity. }
    subst p. destruct pt0 as [|c pt0]; [contradiction|].
    repeat split; try reflexivity; try assumption. discriminate.
  Qed.

  Lemma token_reject pw0 salt0 nonce0 pt0 pw s :
    aead_exact seal open ->
    aead_int_ctxt open (one_sealed argon pbkdf md5k shak pw0 salt0 nonce0 pt0) ->
    kdf_ideal argon pbkdf md5k shak ->
    (pw = pw0 -> map lower s <> token_encrypt pw0 salt0 nonce0 pt0) ->
    token_decrypt true pw s = Error.
  Proof.
    intros Hex Hint Hkdf H. destruct (token_decrypt true pw s) as [p|] eqn:E; [|reflexivity].
    exfalso. assert (Hne : token_decrypt true pw s <> Error) by (rewrite E; discriminate).
    destruct (token_accept_only pw0 salt0 nonce0 pt0 pw s Hex Hint Hkdf Hne) as (Hp & _ & Hm & _). exact (H Hp Hm).
  Qed.
End TokenProofs.
