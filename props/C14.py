"""C14 Table REST requests cannot inject SQL (internal/server/tables/parsing, egostrings.SQLIdentifier)."""
import json
import os
import re
import sqlite3
import vf

GROUP = "SqlGen"
THEOREMS = ["C14_ident_confined", "C14_string_confined", "C14_filter_confined", "C14_confinement",
            "C14_insert_confined", "C14_update_confined", "C14_old_refuted",
            "C14_filter_meaning_partial", "C14_filter_rows_partial", "C14_filter_meaning_refuted", "C14_gen_where_confined"]
META = {
    "group": GROUP,
    "technique": "Coq proof of lexical confinement of the generated SQL text over a Gallina model of the generators and of SQLite's tokenizer + vm_compute correspondence with the real generators + execution of the real text on SQLite under an authorizer",
    "text": "Theorems C14_ident_confined / C14_string_confined (a quoted name or value is exactly one SQLite token whatever its bytes), C14_filter_confined (every filter token list, any spellings and classes, yields text that lexes to the template: one token per name/value), C14_confinement (SELECT/DELETE statement: columns, table, filters, sort, paging), C14_insert_confined and C14_update_confined are proved for all inputs without NUL bytes over the model of the repaired generators; C14_old_refuted keeps the three injections of the code before the fixes. The model is compared byte for byte with the real generators on every run, the real text is lexed against the template and executed on SQLite under an authorizer. partial: the meaning of a filter (which rows satisfy it) and the handlers around the generators are only observed, not proved",
    "note": "Trusted: Coq kernel; the hand-written model of SQLite's tokenizer (exponent / hex numbers are illegal tokens in it); strings.TrimSpace/ToLower/ToUpper modelled on ASCII (plus U+0131, U+017F); valid UTF-8 input; statement text reaches SQLite whole; the overlay harness and the Python comparison.",
}

ADV = ['x" OR 1=1 --', 'a"b', "a'b", "'", '"', '""', "''", 'a;b', '--', '/*', '*/', 'a.b', '"a"."b"', 'café',
       'count(*) from secrets --', '(select password from users limit 1)', 'name desc', 'a b', ' a ', '[x]', '`x`',
       'a\\', 'x"; DROP TABLE secrets; --', "x' OR '1'='1", '1=1', 'a,b', '~', 'a--b', 'a/*b*/c', 'NULL', 'select',
       '$1', '?', 'a-b', 'a\tb', 'a\nb', '".', '."', 'a"."b', 'haſ', 'ı', 'x ', 'count(', 'count()', 'COUNT(*)',
       'count(*) as n', 'Count(id) AS Total', 'count(*) as', 'count(*) as a b', 'count(a b)', 'count(*)x', ' count(*) ']
NAMES = ["id", "name", "city", "age", "t1", "_row_id_", "Name", "x1", "a_b"]
OPS2 = ["EQ", "LT", "LE", "GT", "GE", "eq", "lt", "Ge"]
OPSL = ["AND", "OR", "and", "or"]
OPSC = ["CONTAINS", "HAS", "HASANY", "CONTAINSALL", "HASALL", "contains", "hasall"]
MALPHA = "()(),,\"\"'' .-+;*/=<>ab1 0nil\\`[]$?_%"


def estr(s):
    """an Ego string literal for s (double quoted, backslash escapes)"""
    return json.dumps(s)


def gen_value(rng):
    r = rng.random()
    if r < 0.25:
        return str(rng.choice([0, 1, 7, 55, 18, 65, 1000, 123456789]))
    if r < 0.32:
        return rng.choice(["-1", "- 7", "+3", "1.5", "-2.25", "0.5", "+ 1.0"])
    if r < 0.40:
        return rng.choice(["true", "false", ".nil", "nil", "NULL", "1e5", "0x1F", ".5", "5.", "1_000", "07"])
    if r < 0.70:
        return estr(rng.choice(["Tom", "Mary", "abc", "", "a b", "O'Neil", "x'", "'x", "'", "''", "a;b", "café",
                                " OR 1=1 --", "a\"b", "\"q\"", "100%", "a\\", "/*", "--", "x') OR ('1'='1"] + ADV))
    if r < 0.80:
        return "'" + rng.choice(["abc", "a b", "def", "x", "", "a\"b", "a;b"]) + "'"
    if r < 0.90:
        return "`" + rng.choice(["raw", "a'b", "a\"b", "x y"]) + "`"
    return rng.choice(NAMES)


def gen_term(rng, depth):
    r = rng.random()
    if depth <= 0 or r < 0.15:
        return rng.choice(NAMES) if rng.random() < 0.6 else gen_value(rng)
    if r < 0.60:
        a = rng.choice(NAMES) if rng.random() < 0.85 else gen_value(rng)
        return "%s(%s,%s)" % (rng.choice(OPS2), a, gen_value(rng))
    if r < 0.75:
        n = rng.randint(2, 4)
        return "%s(%s)" % (rng.choice(OPSL), ",".join(gen_term(rng, depth - 1) for _ in range(n)))
    if r < 0.85:
        return "%s(%s)" % (rng.choice(["NOT", "not"]), gen_term(rng, depth - 1))
    n = rng.randint(0, 3)
    return "%s(%s)" % (rng.choice(OPSC), ",".join([rng.choice(NAMES)] + [gen_value(rng) for _ in range(n)]))


def gen_filter(rng):
    r = rng.random()
    if r < 0.70:
        f = gen_term(rng, 2)
        if rng.random() < 0.15:
            f += "," + gen_term(rng, 1)
        return f
    if r < 0.85:                      # damaged well-formed filter
        f = list(gen_term(rng, 2))
        for _ in range(rng.randint(1, 3)):
            k = rng.randrange(len(f) + 1)
            if rng.random() < 0.5 and f:
                del f[min(k, len(f) - 1)]
            else:
                f.insert(k, rng.choice(MALPHA))
        return "".join(f)
    if r < 0.93:
        return "".join(rng.choice(MALPHA) for _ in range(rng.randint(0, 12)))
    return rng.choice(["", " ", "EQ(name,", "EQ(name", "EQ", "EQ()", "EQ(,)", "EQ(a,b,c)", "AND(a)", "-(3)", "EQ(-a,3)",
                       "EQ(name, --)", "EQ(name, *)", "EQ(a, EQ(b, 1 2))", "EQ(a,.nil,5)", "AND(a,.nil)", "NOT(EQ(name,\"a;b\"))",
                       "EQ(name, x nil)", "haſ(a,\"b\")", "EQ(name, select)", "EQ(make, type)", "EQ(int, string)",
                       "EQ(name, 'a''b')", "EQ(name, 3) garbage", "EQ(name,\"x\") // c", "EQ(name, /* c */ 4)"])


def gen_name(rng):
    r = rng.random()
    if r < 0.55:
        return rng.choice(NAMES)
    if r < 0.90:
        return rng.choice(ADV)
    return "".join(rng.choice(MALPHA + "xyz") for _ in range(rng.randint(1, 10)))


def gen_columns(rng):
    r = rng.random()
    if r < 0.1:
        return ""
    n = rng.randint(1, 4)
    parts = []
    for _ in range(n):
        q = rng.random()
        if q < 0.5:
            parts.append(rng.choice(NAMES))
        elif q < 0.65:
            parts.append(rng.choice(["count(*)", "count(*) as count", "COUNT(id)", "count(name) as n", " count(*)", "count( * )",
                                     "count(*) from secrets --", "count(*) AS \"x\"", "count(1)", "count(*),", "count(*))",
                                     "count(*) as count from secrets"]))
        elif q < 0.75:
            parts.append(rng.choice(["", " ", "  name "]))
        else:
            parts.append(gen_name(rng))
    return ",".join(parts)


def gen_sort(rng):
    n = rng.choice([0, 0, 1, 1, 1, 2])
    out = []
    for _ in range(n):
        q = rng.random()
        if q < 0.45:
            out.append(rng.choice(NAMES))
        elif q < 0.6:
            out.append("~" + rng.choice(NAMES))
        elif q < 0.7:
            out.append(rng.choice(NAMES) + "," + rng.choice(["~", ""]) + rng.choice(NAMES))
        elif q < 0.78:
            out.append(rng.choice(["", " ", "~", "a,,b", " a , b "]))
        else:
            out.append(gen_name(rng))
    return out


def gen_int(rng):
    r = rng.random()
    if r < 0.4:
        return None
    if r < 0.8:
        return str(rng.choice([0, 1, 2, 10, 50, 1000, 99999, rng.randint(0, 10 ** 9)]))
    if r < 0.9:
        return str(-rng.randint(1, 1000))
    return rng.choice(["abc", "", "1.5", "ten", "1;2", "5 OR 1", "1--"])


def atoi(s):
    if s is None:
        return None
    t = s.strip(" \t\n\r\x0b\x0c")
    return int(t) if re.fullmatch(r"[+-]?[0-9]+", t) else None


CORPUS = [   # the _refuted witnesses and earlier defects first
    {"k": "sel", "sel": True, "table": "t1", "user": "u", "columns": "id", "filters": [], "sort": ["(select password from users limit 1)"]},
    {"k": "sel", "sel": True, "table": "t1", "user": "u", "columns": "count(*) from secrets --,id", "filters": []},
    {"k": "sel", "sel": True, "table": "t1", "user": "u", "columns": "", "filters": ['EQ(name,"x\'")', 'EQ(city," OR 1=1 --")']},
    {"k": "sel", "sel": True, "table": "t1", "user": "u", "columns": "", "filters": ['EQ(name,"a\'b")']},
    {"k": "sel", "sel": False, "table": "t1", "user": "u", "columns": "", "filters": ['EQ(name,"a\'b")']},
    {"k": "sel", "sel": False, "table": "t1", "user": "u", "columns": "", "filters": ['NOT(EQ(name,"a;b"))']},
    {"k": "sel", "sel": True, "table": "t1", "user": "u", "columns": "", "filters": ['EQ(name, --)', 'EQ(id,1)']},
    {"k": "sel", "sel": True, "table": "t1", "user": "u", "columns": "", "filters": ['OR(EQ(id,1), EQ(id, 1 2))']},
    {"k": "sel", "sel": True, "table": "t1", "user": "u", "columns": "", "filters": ['EQ(name, *)']},
    {"k": "sel", "sel": True, "table": 't1" UNION SELECT password FROM "secrets', "user": "u", "columns": "", "filters": []},
    {"k": "sel", "sel": True, "pg": True, "table": "t1", "user": 'u"."secrets" --', "columns": "", "filters": []},
    {"k": "ins", "table": "t1", "user": "u", "keys": ['name") SELECT password FROM secrets --', "id"]},
    {"k": "upd", "table": "t1", "user": "u", "keys": ['name"=(SELECT password FROM secrets) --'], "filters": ['EQ(id,1)'], "rowid": True},
]


def hx(s):
    return s.encode("utf8").hex()


def wire(c):
    d = {"k": c["k"], "pg": c.get("pg", False), "user": hx(c.get("user", "")), "table": hx(c.get("table", "")),
         "columns": hx(c.get("columns", "")), "filters": [hx(f) for f in c.get("filters", [])],
         "sort": [hx(s) for s in c.get("sort", [])], "sel": c.get("sel", False),
         "keys": [hx(k) for k in c.get("keys", [])], "rowid": c.get("rowid", False), "s": hx(c.get("s", ""))}
    if c.get("limit") is not None:
        d["limit"] = hx(c["limit"])
    if c.get("start") is not None:
        d["start"] = hx(c["start"])
    return d


def gen_cases(rng, n):
    out = [dict(c) for c in CORPUS]
    for c in out:
        if "keys" in c:
            c["keys"] = sorted(c["keys"], key=lambda s: s.encode("utf8"))
    for a in ADV:          # every adversarial string once in every position
        out.append({"k": "sort", "sort": [a]})
        out.append({"k": "col", "columns": a})
        out.append({"k": "fn", "table": a, "user": a, "pg": len(a) % 2 == 0})
        out.append({"k": "where", "filters": ["EQ(name,%s)" % estr(a), "CONTAINS(city,%s)" % estr(a)]})
    n += len(out)
    while len(out) < n:
        r = rng.random()
        table = "t1" if rng.random() < 0.6 else gen_name(rng)
        user = "u" if rng.random() < 0.7 else gen_name(rng)
        pg = rng.random() < 0.25
        nf = rng.choice([0, 1, 1, 1, 2, 3])
        filters = [gen_filter(rng) for _ in range(nf)]
        if r < 0.45:
            out.append({"k": "sel", "sel": rng.random() < 0.75, "pg": pg, "table": table, "user": user,
                        "columns": gen_columns(rng), "filters": filters, "sort": gen_sort(rng),
                        "limit": gen_int(rng), "start": gen_int(rng)})
        elif r < 0.60:
            out.append({"k": "where", "filters": filters or [gen_filter(rng)]})
        elif r < 0.68:
            out.append({"k": "col", "columns": gen_columns(rng)})
        elif r < 0.74:
            out.append({"k": "sort", "sort": gen_sort(rng)})
        elif r < 0.78:
            out.append({"k": "page", "limit": gen_int(rng), "start": gen_int(rng)})
        elif r < 0.83:
            out.append({"k": "fn", "pg": pg, "table": table, "user": user})
        elif r < 0.88:
            out.append({"k": "esc", "s": rng.choice(ADV + ["'abc'", '"abc"', "'a'b'", "abc", "'", "a'", "'a", "a\"", ""])})
        else:
            keys = sorted({gen_name(rng) for _ in range(rng.randint(0, 4))} - {"_row_id_"}, key=lambda s: s.encode("utf8"))
            if r < 0.94:
                out.append({"k": "ins", "pg": pg, "table": table, "user": user, "keys": keys})
            else:
                t = table if "/" not in table and table != "" else "t1"
                out.append({"k": "upd", "pg": pg, "table": t, "user": user, "keys": keys, "filters": filters,
                            "rowid": rng.random() < 0.5})
    return out


def cbool(b):
    return "true" if b else "false"


def ctoks(toks):
    return "[" + ";".join("[" + ";".join("mk %d (%s)" % (t["c"], vf.vN(bytes.fromhex(t["s"]))) for t in f) + "]" for f in toks) + "]"


def coptz(v):
    return "None" if v is None else "(Some (%d)%%Z)" % v


def model_expr(c, toks):
    """Coq term of type res out for the case (repaired model)."""
    k = c["k"]
    B = lambda key: "(" + vf.vstr(c.get(key, "")) + ")"       # noqa: E731
    L = lambda key: "[" + ";".join(vf.vstr(x) for x in c.get(key, [])) + "]"   # noqa: E731
    if k == "sel":
        return "form_select true %s (mkreq %s %s %s %s %s %s %s %s)" % (
            cbool(c["sel"]), cbool(c.get("pg", False)), B("user"), B("table"), B("columns"), ctoks(toks), L("sort"),
            coptz(atoi(c.get("limit"))), coptz(atoi(c.get("start"))))
    if k == "where":
        return "where_clause true %s" % ctoks(toks)
    if k == "col":
        return "Ok (column_list true %s)" % B("columns")
    if k == "sort":
        return "Ok (sort_list true %s)" % L("sort")
    if k == "page":
        return "Ok (paging %s %s)" % (coptz(atoi(c.get("limit"))), coptz(atoi(c.get("start"))))
    if k == "fn":
        return "Ok (full_name %s %s %s)" % (cbool(c.get("pg", False)), B("user"), B("table"))
    if k == "esc":
        return "match sql_escape %s with Some e => Ok (e, sql_lex e) | None => Err end" % B("s")
    if k == "ins":
        return "Ok (form_insert %s %s %s %s)" % (cbool(c.get("pg", False)), B("user"), B("table"), L("keys"))
    if k == "upd":
        return "form_update true %s %s %s %s %s %s" % (cbool(c.get("pg", False)), B("user"), B("table"), L("keys"),
                                                     cbool(c.get("rowid", False)), ctoks(toks))
    raise ValueError(k)


SCHEMA = """
create table t1(id integer, name text, city text, age integer, Name2 text, x1 text, a_b text, _row_id_ text);
insert into t1 values (1,'Tom','Paris',55,'n','x','ab','r1'),(2,'Mary','Rome',18,'n','x','ab','r2'),(3,'x''','Oslo',65,'n','x','ab','r3');
create table secrets(password text); insert into secrets values ('hunter2');
create table users(name text, password text); insert into users values ('root','toor');
"""


def sqlite_oracle(text, table):
    """Run the real statement on SQLite; returns a description of a foreign access, or None."""
    db = sqlite3.connect(":memory:")
    db.executescript(SCHEMA)
    touched = []

    def auth(action, a1, a2, dbname, src):
        if action in (sqlite3.SQLITE_READ, sqlite3.SQLITE_UPDATE, sqlite3.SQLITE_DELETE, sqlite3.SQLITE_INSERT,
                      sqlite3.SQLITE_DROP_TABLE, sqlite3.SQLITE_CREATE_TABLE, sqlite3.SQLITE_ALTER_TABLE):
            if a1 is not None and a1 != table:
                touched.append((action, a1, a2))
        elif action in (sqlite3.SQLITE_ATTACH, sqlite3.SQLITE_PRAGMA, sqlite3.SQLITE_DETACH):
            touched.append((action, a1, a2))
        return sqlite3.SQLITE_OK
    db.set_authorizer(auth)
    try:
        sql = text.replace("POSITION(", "xposition(")
        db.execute(sql)
    except sqlite3.Warning as e:            # "You can only execute one statement at a time."
        return "more than one statement: %s" % e
    except sqlite3.ProgrammingError as e:
        if "one statement" in str(e):
            return "more than one statement: %s" % e
    except (sqlite3.Error, ValueError):
        pass
    finally:
        db.set_authorizer(None)
    if touched:
        return "statement touches %s" % sorted({t[1] for t in touched})
    db.close()
    return None


def run(ck):
    quick = ck.tier == "quick"
    ck.cov["rule"] = ("requests: SELECT/DELETE statements (columns, table, user, provider, 0-3 filters, sort values, limit/start), "
                      "WHERE clauses, column lists, sort lists, paging, FullName, SQLEscape, INSERT and UPDATE statements; names drawn "
                      "from plain names and an adversarial pool (quotes, comments, semicolons, subqueries, count( specs, non-ASCII); "
                      "filters from the documented grammar (depth <= 2), damaged well-formed filters and a random stream over '%s'. "
                      "distinct_nontrivial = distinct cases where the real generator returned a statement whose text contains at least "
                      "one user supplied name or value that needed quoting (a quote, space, comment marker, semicolon or non-name byte)" % MALPHA)
    ck.assume("SQLite tokenizer as modelled in coq/SqlGen/Model.v (quotes with doubling, brackets, comments, words, numbers without exponent/hex, operators, variables); NUL ends the input",
              "strings.TrimSpace / ToLower / ToUpper act as their ASCII versions on the bytes that matter (plus U+0131, U+017F for ToUpper); inputs are valid UTF-8",
              "the Ego tokenizer's output is an arbitrary token list (class, spelling) in the theorems; in the run it is the real tokenizer's output",
              "the statement text reaches SQLite unchanged and whole")
    ck.trusted("harness/C14/c14_test.go (in-package overlay), props/C14.py generators, comparison and SQLite authorizer oracle",
               "correspondence and lexing oracle evaluated by vm_compute in a generated cases file")
    ck.coq_stage(GROUP, theorems=THEOREMS)

    pkg = "internal/server/tables/parsing"
    ok, binp = vf.go_test_build(ck.work, pkg, {pkg + "/zz_verif_c14_test.go": os.path.join(vf.HARNESS, "C14", "c14_test.go")}, "c14.test")
    if not ok:
        ck.violation("harness-build", "harness for %s does not build:\n%s" % (pkg, binp[-1500:]), replay={"log": binp[-3000:]}, found_input=False)
        return
    cases = gen_cases(ck.rng, 250 if quick else 2000)
    if ck.replay_file:
        cases = json.load(open(ck.replay_file))["replay"].get("cases", [])
    inp, outp = os.path.join(ck.work, "in.jsonl"), os.path.join(ck.work, "out.jsonl")
    with open(inp, "w") as f:
        for c in cases:
            f.write(json.dumps(wire(c)) + "\n")
    rc, log = vf.run_bin(binp, "^TestVerifC14$", {"VERIF_IN": inp, "VERIF_OUT": outp})
    if rc != 0:
        ck.violation("harness-run", "harness failed (a panic in a generator is a defect of its own):\n" + log[-1500:],
                     replay={"log": log[-3000:]}, found_input=False)
        return
    obs = [json.loads(l) for l in open(outp)]
    if len(obs) != len(cases):
        ck.violation("harness-run", "harness answered %d of %d cases" % (len(obs), len(cases)), replay={}, found_input=False)
        return

    # ---- independent oracle: execute the real text on SQLite with other tables present
    nontriv, executed, kinds = set(), 0, {}
    needs_quote = re.compile(r"[^A-Za-z0-9_]")
    for c, o in zip(cases, obs):
        kinds[c["k"]] = kinds.get(c["k"], 0) + 1
        if o["err"]:
            continue
        text = bytes.fromhex(o["text"]).decode("utf8", "replace")
        user_strings = [c.get("table", ""), c.get("columns", "")] + c.get("sort", []) + c.get("keys", []) + c.get("filters", [])
        if c["k"] in ("sel", "where", "col", "sort", "ins", "upd", "fn") and any(needs_quote.search(s) for s in user_strings if s):
            nontriv.add(json.dumps(c, sort_keys=True))
        if c["k"] == "sel" and not c.get("pg") and c.get("table") == "t1":
            executed += 1
            bad = sqlite_oracle(text, "t1")
            if bad:
                ck.violation("sqlite-foreign-access", "the statement generated for table t1 %s: %s" % (bad, text[:300]),
                             replay={"cases": [c], "text": text})
    ck.cov["evaluations"] = len(cases)
    ck.cov["distinct_nontrivial"] = len(nontriv)
    ck.cov["input_distribution"] = {"by_kind": kinds, "generator_errors": sum(1 for o in obs if o["err"]),
                                    "executed_on_sqlite": executed, "corpus_cases": len(CORPUS)}
    for c, o in list(zip(cases, obs))[:4] + list(zip(cases, obs))[len(CORPUS):len(CORPUS) + 3]:
        ck.sample({"case": c, "real_text": bytes.fromhex(o["text"]).decode("utf8", "replace"), "error": o["err"]})

    # ---- correspondence (model text = real text) and lexing oracle (real text lexes to the request's template)
    if getattr(ck, "coq_broken", None):
        grp, log = ck.coq_broken
        if not ck.viol:
            ck.violation("proof-broken", "Coq development %s no longer checks:\n%s" % (grp, log[-1200:]),
                         replay={"broken": "coq/" + grp, "log": log[-3000:]}, found_input=False)
        return
    res = {"corr": [], "lex": [], "fuel": []}
    CH = 400
    for lo in range(0, len(cases), CH):
        lines = ["From Common Require Import Base.", "From SqlGen Require Import Model.", "Close Scope string_scope.", "Open Scope N_scope."]
        idx = range(lo, min(lo + CH, len(cases)))
        for i in idx:
            lines.append("Definition m%d : res out := %s." % (i, model_expr(cases[i], obs[i].get("toks") or [])))
            lines.append("Definition o%d : str := %s." % (i, vf.vN(bytes.fromhex(obs[i]["text"]))))
        corr = " ++ ".join("chk %d m%d %s o%d" % (i, i, cbool(obs[i]["err"]), i) for i in idx) or "[]"
        lexo = " ++ ".join("lexchk %d m%d %s o%d" % (i, i, cbool(obs[i]["err"]), i) for i in idx) or "[]"
        fuel = " ++ ".join("match m%d with Fuel => [%d%%nat] | _ => [] end" % (i, i) for i in idx) or "[]"
        okk, part = vf.coq_eval(GROUP, ck.work, "cases%d" % lo, "\n".join(lines),
                                {"corr": "(%s : list nat)" % corr, "lex": "(%s : list nat)" % lexo, "fuel": "(%s : list nat)" % fuel})
        if not okk:
            ck.violation("correspondence-eval", "model evaluation failed:\n" + str(part)[-1500:], replay={"log": str(part)[-3000:]}, found_input=False)
            return
        for k in res:
            res[k] += part[k]
    if os.environ.get("C14_DEV"):
        for i in sorted(set(res["lex"]) | set(res["corr"])):
            print("DEV", i, "lex" if i in res["lex"] else "", "corr" if i in res["corr"] else "", json.dumps(cases[i]), "=>", obs[i]["err"], bytes.fromhex(obs[i]["text"]))
    ck.cov["traces_validated_against_impl"] = len(cases) - len(res["corr"])
    lexbad = set(res["lex"])
    for i in res["lex"]:
        text = bytes.fromhex(obs[i]["text"]).decode("utf8", "replace")
        ck.violation("lex-" + cases[i]["k"], "the real generator's text does not lex to one token per supplied name/value: %s  <-  %s" % (
            text[:300], json.dumps(cases[i])[:300]), replay={"cases": [cases[i]], "text": text})
    found = bool(ck.viol)
    for i in res["corr"]:
        if i in lexbad:
            continue
        text = bytes.fromhex(obs[i]["text"]).decode("utf8", "replace")
        ck.violation("corr-" + cases[i]["k"], "model and real generator disagree (real: %s%s) on %s" % (
            "error " if obs[i]["err"] else "", text[:200], json.dumps(cases[i])[:300]),
            replay={"cases": [cases[i]], "text": text}, found_input=found)
    for i in res["fuel"]:
        ck.violation("model-fuel", "model ran out of fuel on %s" % json.dumps(cases[i])[:300], replay={"cases": [cases[i]]}, found_input=False)
