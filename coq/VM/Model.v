(* VM/Model.v — MiniEgo VM: executable model of the part of tucats/ego's bytecode interpreter that decides
   try/catch, defer, panic/recover and return (internal/language/bytecode: run.go RunFromAddress, catch.go
   handleCatch, try.go, defer.go, panic.go, return.go, callframe.go, callBytecodeFunction.go, stack.go,
   symbols.go, flow.go atLineByteCode).  Definitions only, no proofs.

   Conventions: the value stack is a list with the TOP at the head (Go: c.stack[:c.stackPointer], top at
   the end); c_fp is the Go framePointer (= stack length right after the call frame was pushed).  The try
   stack has the INNERMOST entry at the head (Go appends at the end).  The defer stack is kept in Go's
   order: registration order, run from the end (rev).  Names and marker labels are interned numbers. *)
From Coq Require Import ZArith NArith List Bool.
Import ListNotations.
Open Scope nat_scope.

Definition L_try : N := 1%N.      (* the label of the "try" stack marker *)

Inductive value :=
| VInt (z : Z) | VBool (b : bool) | VNil | VStr (s : N)
| VFunc (u : nat) (cap : option nat).     (* bytecode unit, captured scope (function literals) *)

Inductive err := EStop | EDivZero | EPanicActive | EPanicUnhandled | ESignalDebugger | EOther.

Record dfr := { d_target : value; d_args : list value; d_syms : option nat }.
Inductive code_ref := CUnit (u : nat) | CDefer (d : dfr).

Record frame := { f_code : code_ref; f_pc : nat; f_fp : nat; f_syms : nat; f_defers : list dfr;
                  f_trydepth : nat }.
Inductive item := ItV (v : value) | ItM (l : N) | ItF (f : frame).

Inductive binop := BAdd | BSub | BMul | BDiv | BEq | BNe | BLt | BLe | BGt | BGe.
Inductive retkind := RNone | RBool | RInt (n : nat).

Inductive instr :=
| IAtLine (n : Z) | IPushV (v : value) | IPushMark (l : N) | IPushFun (u : nat)
| IStoreGlobal (n : N) | IImport | ISymbolCreate (n : N) | IStore (n : N) | IStoreAlways (n : N) | ILoad (n : N)
| IDup | IEntryPoint | IEntryPointExit | IPushScope | IPopScope (k : nat) | INop
| IDeferStart (b : bool) | IDefer (argc : nat) | ITry (addr : nat) | ITryPop | IDropToMarker (l : option N)
| IBranch (a : nat) | IBranchFalse (a : nat) | IBranchTrue (a : nat) | ICall (argc : nat) | IBin (o : binop)
| IRunDefers | IReturn (k : retkind) | IUserPanic | IRecover | IPrint (n : nat) | INewline.

Record unit_ := { u_lit : bool; u_nret : nat; u_code : list instr }.
Definition program := list unit_.

Record scope := { s_parent : option nat; s_vars : list (N * value) }.

(* state shared by a context and the child contexts that run its deferred calls *)
Record glob := { g_scopes : list scope;          (* symbol tables, id = index *)
                 g_out : list value;             (* printed values, newest first *)
                 g_anc : list (option value) }.  (* panic state of the contexts reachable through the
                                                    panicContext chain, nearest first *)

Record ctx := { c_code : code_ref; c_pc : nat; c_stack : list item; c_fp : nat; c_syms : nat;
                c_trys : list nat;               (* tryInfo.addr, 0 = spent; innermost first *)
                c_defers : list dfr; c_running : bool; c_panic : option value;
                c_result : option value; c_dsyms : option nat; c_debug : bool }.

Definition set_pc c pc := {| c_code := c_code c; c_pc := pc; c_stack := c_stack c; c_fp := c_fp c; c_syms := c_syms c;
  c_trys := c_trys c; c_defers := c_defers c; c_running := c_running c; c_panic := c_panic c;
  c_result := c_result c; c_dsyms := c_dsyms c; c_debug := c_debug c |}.
Definition set_stack c st := {| c_code := c_code c; c_pc := c_pc c; c_stack := st; c_fp := c_fp c; c_syms := c_syms c;
  c_trys := c_trys c; c_defers := c_defers c; c_running := c_running c; c_panic := c_panic c;
  c_result := c_result c; c_dsyms := c_dsyms c; c_debug := c_debug c |}.
Definition set_syms c s := {| c_code := c_code c; c_pc := c_pc c; c_stack := c_stack c; c_fp := c_fp c; c_syms := s;
  c_trys := c_trys c; c_defers := c_defers c; c_running := c_running c; c_panic := c_panic c;
  c_result := c_result c; c_dsyms := c_dsyms c; c_debug := c_debug c |}.
Definition set_trys c t := {| c_code := c_code c; c_pc := c_pc c; c_stack := c_stack c; c_fp := c_fp c; c_syms := c_syms c;
  c_trys := t; c_defers := c_defers c; c_running := c_running c; c_panic := c_panic c;
  c_result := c_result c; c_dsyms := c_dsyms c; c_debug := c_debug c |}.
Definition set_defers c d := {| c_code := c_code c; c_pc := c_pc c; c_stack := c_stack c; c_fp := c_fp c; c_syms := c_syms c;
  c_trys := c_trys c; c_defers := d; c_running := c_running c; c_panic := c_panic c;
  c_result := c_result c; c_dsyms := c_dsyms c; c_debug := c_debug c |}.
Definition set_running c r := {| c_code := c_code c; c_pc := c_pc c; c_stack := c_stack c; c_fp := c_fp c; c_syms := c_syms c;
  c_trys := c_trys c; c_defers := c_defers c; c_running := r; c_panic := c_panic c;
  c_result := c_result c; c_dsyms := c_dsyms c; c_debug := c_debug c |}.
Definition set_panic c p := {| c_code := c_code c; c_pc := c_pc c; c_stack := c_stack c; c_fp := c_fp c; c_syms := c_syms c;
  c_trys := c_trys c; c_defers := c_defers c; c_running := c_running c; c_panic := p;
  c_result := c_result c; c_dsyms := c_dsyms c; c_debug := c_debug c |}.
Definition set_result c r := {| c_code := c_code c; c_pc := c_pc c; c_stack := c_stack c; c_fp := c_fp c; c_syms := c_syms c;
  c_trys := c_trys c; c_defers := c_defers c; c_running := c_running c; c_panic := c_panic c;
  c_result := r; c_dsyms := c_dsyms c; c_debug := c_debug c |}.
Definition set_dsyms c d := {| c_code := c_code c; c_pc := c_pc c; c_stack := c_stack c; c_fp := c_fp c; c_syms := c_syms c;
  c_trys := c_trys c; c_defers := c_defers c; c_running := c_running c; c_panic := c_panic c;
  c_result := c_result c; c_dsyms := d; c_debug := c_debug c |}.

Definition set_scopes g s := {| g_scopes := s; g_out := g_out g; g_anc := g_anc g |}.
Definition set_out g o := {| g_scopes := g_scopes g; g_out := o; g_anc := g_anc g |}.
Definition set_anc g a := {| g_scopes := g_scopes g; g_out := g_out g; g_anc := a |}.

(* ---------------------------------------------------------------- symbol tables (simplified: chain lookup) *)
Fixpoint vars_get (n : N) (vs : list (N * value)) : option value :=
  match vs with [] => None | (k, v) :: r => if N.eqb k n then Some v else vars_get n r end.
Fixpoint vars_set (n : N) (v : value) (vs : list (N * value)) : list (N * value) :=
  match vs with [] => [(n, v)] | (k, w) :: r => if N.eqb k n then (k, v) :: r else (k, w) :: vars_set n v r end.

Fixpoint find_scope (fuel : nat) (sc : list scope) (id : nat) (n : N) : option nat :=
  match fuel with
  | O => None
  | S f => match nth_error sc id with
           | None => None
           | Some s => match vars_get n (s_vars s) with
                       | Some _ => Some id
                       | None => match s_parent s with None => None | Some p => find_scope f sc p n end
                       end
           end
  end.

Fixpoint upd_scope (sc : list scope) (id : nat) (f : scope -> scope) : list scope :=
  match sc, id with
  | [], _ => []
  | s :: r, O => f s :: r
  | s :: r, S k => s :: upd_scope r k f
  end.

Definition sym_get (g : glob) (cur : nat) (n : N) : option value :=
  match find_scope (S (length (g_scopes g))) (g_scopes g) cur n with
  | None => None
  | Some id => match nth_error (g_scopes g) id with Some s => vars_get n (s_vars s) | None => None end
  end.
Definition sym_set_in (g : glob) (id : nat) (n : N) (v : value) : glob :=
  set_scopes g (upd_scope (g_scopes g) id (fun s => {| s_parent := s_parent s; s_vars := vars_set n v (s_vars s) |})).
Definition sym_store (g : glob) (cur : nat) (n : N) (v : value) : option glob :=
  match find_scope (S (length (g_scopes g))) (g_scopes g) cur n with
  | None => None | Some id => Some (sym_set_in g id n v) end.
Definition sym_create (g : glob) (cur : nat) (n : N) : option glob :=
  match nth_error (g_scopes g) cur with
  | None => None
  | Some s => match vars_get n (s_vars s) with Some _ => None | None => Some (sym_set_in g cur n VNil) end
  end.
Definition new_scope (g : glob) (parent : nat) : glob * nat :=
  (set_scopes g (g_scopes g ++ [{| s_parent := Some parent; s_vars := [] |}]), length (g_scopes g)).
Definition scope_parent (g : glob) (id : nat) : option nat :=
  match nth_error (g_scopes g) id with Some s => s_parent s | None => None end.

(* ---------------------------------------------------------------- code *)
Definition defer_code (d : dfr) : list instr :=
  IPushV (d_target d) :: map IPushV (rev (d_args d)) ++ [ICall (length (d_args d))].
Definition code_of (p : program) (r : code_ref) : list instr :=
  match r with
  | CUnit u => match nth_error p u with Some un => u_code un | None => [] end
  | CDefer d => defer_code d
  end.
Definition unit_lit (p : program) (u : nat) : bool :=
  match nth_error p u with Some un => u_lit un | None => false end.

Definition R : Type := (glob * ctx * option err)%type.

(* keep the n bottom-most elements: Go "c.stackPointer = n" *)
Definition trunc {A} (n : nat) (l : list A) : list A := skipn (length l - n) l.

(* callframe.go callFramePushWithTable *)
Definition frame_push (c : ctx) (table : nat) (code : code_ref) : ctx :=
  let fr := {| f_code := c_code c; f_pc := c_pc c; f_fp := c_fp c; f_syms := c_syms c;
               f_defers := c_defers c; f_trydepth := length (c_trys c) |} in
  {| c_code := code; c_pc := 0; c_stack := ItF fr :: c_stack c; c_fp := S (length (c_stack c)); c_syms := table;
     c_trys := c_trys c; c_defers := []; c_running := c_running c; c_panic := c_panic c;
     c_result := None; c_dsyms := c_dsyms c; c_debug := c_debug c |}.

(* callframe.go callFramePop *)
Definition frame_pop (c : ctx) : ctx * option err :=
  let top := firstn (length (c_stack c) - c_fp c) (c_stack c) in     (* stack[fp:sp] *)
  match trunc (c_fp c) (c_stack c) with
  | ItF fr :: rest =>
      let trys := if Nat.ltb (f_trydepth fr) (length (c_trys c)) then trunc (f_trydepth fr) (c_trys c) else c_trys c in
      let base := {| c_code := f_code fr; c_pc := f_pc fr; c_stack := rest; c_fp := f_fp fr; c_syms := f_syms fr;
                     c_trys := trys; c_defers := f_defers fr; c_running := c_running c; c_panic := c_panic c;
                     c_result := c_result c; c_dsyms := c_dsyms c; c_debug := c_debug c |} in
      match top with
      | _ :: _ => (set_stack base (top ++ rest), None)
      | [] => match c_result c with
              | Some v => (set_result (set_stack base (ItV v :: rest)) None, None)
              | None => (base, None)
              end
      end
  | _ :: rest => (set_stack c rest, Some EOther)      (* ErrInvalidCallFrame *)
  | [] => (set_stack c [], Some EOther)               (* stack underflow *)
  end.

(* catch.go handleCatch: index (from the innermost) of the first live entry; every entry catches everything
   (selective catch lists are outside the modelled subset) *)
Fixpoint find_live (trys : list nat) : option nat :=
  match trys with
  | [] => None
  | a :: r => if Nat.eqb a 0 then option_map S (find_live r) else Some 0
  end.

(* the unwinding loop of handleCatch: pop until the try marker, popping call frames formally *)
Fixpoint unwind_to_try (fuel : nat) (c : ctx) : ctx * option err :=
  match fuel with
  | O => (c, Some EOther)
  | S f =>
      match c_stack c with
      | [] => (c, Some EOther)                                 (* stack underflow *)
      | ItF _ :: _ =>                                          (* push it back, callFramePop *)
          match frame_pop (set_stack c (c_stack c)) with
          | (c', None) => unwind_to_try f c'
          | (c', Some e) => (c', Some e)
          end
      | ItM l :: r => if N.eqb l L_try then (set_stack c r, None) else unwind_to_try f (set_stack c r)
      | ItV _ :: r => unwind_to_try f (set_stack c r)
      end
  end.

Definition catchable (e : err) : bool :=
  match e with EStop => false | EPanicActive => false | ESignalDebugger => false | _ => true end.

(* pass_signal = true: the code after fix 6274accc (the debugger's line signal is passed through like the
   panic-in-progress signal); false: the code before it *)
Definition handle_catch_gen (pass_signal : bool) (c : ctx) (e : option err) : ctx * option err :=
  match e with
  | None => (c, None)
  | Some EStop => (c, None)
  | Some EPanicActive => (c, Some EPanicActive)
  | Some e =>
      if andb pass_signal (match e with ESignalDebugger => true | _ => false end) then (c, Some e) else
      if negb (c_running c) then (c, Some e) else
      match find_live (c_trys c) with
      | None => (c, Some e)
      | Some k =>
          let addr := nth k (c_trys c) 0 in
          (* callFramePop may be given a frame whose fp lies in the part already popped: the Go code resets
             the stack pointer to the frame pointer, which this model's frame_pop does with trunc *)
          match unwind_to_try (S (length (c_stack c))) c with
          | (c', Some e') => (c', Some e')
          | (c', None) =>
              (* c.tryStack = c.tryStack[:tryIndex+1]; c.tryStack[tryIndex].addr = 0.  The frames popped on the
                 way may already have truncated the try stack (callFramePop); Go re-slices the old backing
                 array up to tryIndex+1, resurrecting the entries: modelled on the ORIGINAL try stack *)
              (set_pc (set_trys c' (0 :: skipn (S k) (c_trys c))) addr, None)
          end
      end
  end.
Definition handle_catch := handle_catch_gen true.
Definition handle_catch_old := handle_catch_gen false.

(* ---------------------------------------------------------------- instructions *)
Definition pop (c : ctx) : option (item * ctx) :=
  match c_stack c with [] => None | x :: r => Some (x, set_stack c r) end.
Definition push (c : ctx) (x : item) : ctx := set_stack c (x :: c_stack c).

Definition is_marker (x : item) : bool := match x with ItV _ => false | _ => true end.  (* stack.go isStackMarker *)

Definition value_eqb (a b : value) : option bool :=
  match a, b with
  | VInt x, VInt y => Some (Z.eqb x y)
  | VBool x, VBool y => Some (Bool.eqb x y)
  | VNil, VNil => Some true
  | VNil, _ => Some false
  | _, VNil => Some false
  | VStr x, VStr y => Some (N.eqb x y)
  | _, _ => None
  end.

Definition do_bin (o : binop) (a b : value) : value + err :=
  match o, a, b with
  | BEq, _, _ => match value_eqb a b with Some r => inl (VBool r) | None => inr EOther end
  | BNe, _, _ => match value_eqb a b with Some r => inl (VBool (negb r)) | None => inr EOther end
  | BAdd, VInt x, VInt y => inl (VInt (x + y))
  | BSub, VInt x, VInt y => inl (VInt (x - y))
  | BMul, VInt x, VInt y => inl (VInt (x * y))
  | BDiv, VInt x, VInt y => if Z.eqb y 0 then inr EDivZero else inl (VInt (Z.quot x y))
  | BLt, VInt x, VInt y => inl (VBool (Z.ltb x y))
  | BLe, VInt x, VInt y => inl (VBool (Z.leb x y))
  | BGt, VInt x, VInt y => inl (VBool (Z.ltb y x))
  | BGe, VInt x, VInt y => inl (VBool (Z.leb y x))
  | _, _, _ => inr EOther
  end.

Fixpoint pop_values (n : nat) (st : list item) : option (list value * list item) :=
  match n with
  | O => Some ([], st)
  | S k => match st with
           | ItV v :: r => match pop_values k r with Some (vs, r') => Some (v :: vs, r') | None => None end
           | _ => None
           end
  end.

(* stack.go dropToMarkerByteCode: stops at the frame pointer *)
Fixpoint drop_to_marker (l : option N) (fp : nat) (st : list item) : list item :=
  match st with
  | [] => []
  | x :: r =>
      if Nat.leb (length st) fp then st else
      match x with
      | ItM m => match l with
                 | None => r
                 | Some t => if N.eqb m t then r else drop_to_marker l fp r
                 end
      | _ => drop_to_marker l fp r
      end
  end.

(* return.go, Return(1): what stays on the stack once the single result has been popped.
   After fix 030cc3b3 everything above the frame pointer is discarded (inside a function); before it only one
   marker directly below the result was dropped, and callFramePop handed the rest to the caller. *)
Definition ret1_stack (fp : nat) (st : list item) : list item :=
  if andb (Nat.ltb 0 fp) (Nat.ltb fp (length st)) then trunc fp st else st.
Definition ret1_stack_old (fp : nat) (st : list item) : list item :=
  if Nat.ltb fp (length st)
  then match st with y :: r => if is_marker y then r else st | [] => st end
  else st.

(* callBytecodeFunction.go + callframe.go *)
Definition call_func (p : program) (g : glob) (c : ctx) (u : nat) (cap : option nat) : R :=
  let parent := match unit_lit p u, cap with true, Some s => s | _, _ => c_syms c end in
  let '(g1, t) := new_scope g parent in
  (g1, frame_push c t (CUnit u), None).

Definition do_call (p : program) (g : glob) (c : ctx) (argc : nat) : R :=
  match pop_values argc (c_stack c) with
  | None => (g, c, Some EOther)
  | Some (_, st) =>
      match st with
      | ItV (VFunc u cap) :: r => call_func p g (set_stack c r) u cap
      | _ :: r => (g, set_stack c r, Some EOther)
      | [] => (g, c, Some EOther)
      end
  end.

(* a fresh context as made by NewContext(s, cb) for one deferred call *)
Definition child_ctx (c : ctx) (d : dfr) : ctx :=
  {| c_code := CDefer d; c_pc := 0; c_stack := []; c_fp := 0;
     c_syms := match d_syms d with Some s => s | None => c_syms c end;
     c_trys := []; c_defers := []; c_running := true; c_panic := None; c_result := None; c_dsyms := None;
     c_debug := false |}.

Section WithChild.
  (* runs a child context to completion: returns the shared state and the error of cx.Run() *)
  Variable child : glob -> ctx -> glob * option err.

  (* defer.go invokeDeferredStatements / invokePanicDefers BEFORE fix b6774d66: for i := len-1 .. 0; return at
     the first error other than ErrStop (the deferred calls registered before the failing one never run) *)
  Fixpoint invoke_list_old (panicking : bool) (g : glob) (c : ctx) (ds : list dfr) : glob * ctx * option err :=
    match ds with
    | [] => (g, c, None)
    | d :: r =>
        let anc := if panicking then c_panic c :: g_anc g else [] in
        let '(g1, e) := child (set_anc g anc) (child_ctx c d) in
        let c1 := if panicking then set_panic c (hd None (g_anc g1)) else c in
        let g2 := set_anc g1 (if panicking then tl (g_anc g1) else g_anc g) in
        match e with
        | None | Some EStop => invoke_list_old panicking g2 c1 r
        | Some e' => (g2, c1, Some e')
        end
    end.

  (* after fix b6774d66: every deferred call runs, the first error (other than ErrStop) is returned afterwards.
     invokeDeferredStatements: the child has no panicContext (the chain is cut); invokePanicDefers: the child
     can reach the panic state of this context and of the contexts further down the chain. *)
  Fixpoint invoke_list (panicking : bool) (g : glob) (c : ctx) (ds : list dfr) : glob * ctx * option err :=
    match ds with
    | [] => (g, c, None)
    | d :: r =>
        let anc := if panicking then c_panic c :: g_anc g else [] in
        let '(g1, e) := child (set_anc g anc) (child_ctx c d) in
        let c1 := if panicking then set_panic c (hd None (g_anc g1)) else c in
        (* the child may have cleared the panic of a context further down the chain (recover walks it) *)
        let g2 := set_anc g1 (if panicking then tl (g_anc g1) else g_anc g) in
        let '(g3, c3, e3) := invoke_list panicking g2 c1 r in
        (g3, c3, match e with None | Some EStop => e3 | Some e' => Some e' end)
    end.
  Definition invoke_deferred (g : glob) (c : ctx) : R := invoke_list false g c (rev (c_defers c)).
  Definition invoke_panic_defers (g : glob) (c : ctx) : R := invoke_list true g c (rev (c_defers c)).

  (* defer.go runDefersByteCode (after fix a4adb034: the list is cleared once the calls were invoked) *)
  Definition run_defers_op (g : glob) (c : ctx) : R :=
    match c_defers c with
    | [] => (g, c, None)
    | _ => let '(g1, c1, e) := invoke_deferred g c in (g1, set_defers c1 [], e)
    end.
  (* RunDefers over the loop before fix b6774d66 *)
  Definition run_defers_op_skip_old (g : glob) (c : ctx) : R :=
    match c_defers c with
    | [] => (g, c, None)
    | _ => let '(g1, c1, e) := invoke_list_old false g c (rev (c_defers c)) in (g1, set_defers c1 [], e)
    end.
  (* before fix a4adb034 the list stayed in place *)
  Definition run_defers_op_old (g : glob) (c : ctx) : R :=
    match c_defers c with [] => (g, c, None) | _ => invoke_deferred g c end.

  (* return.go returnByteCode *)
  Definition do_return (g : glob) (c : ctx) (k : retkind) : R :=
    let r1 : ctx * option err :=
      match k with
      | RBool => match pop c with
                 | None => (c, Some EOther)
                 | Some (ItV v, c1) => (set_result c1 (Some v), None)
                 | Some (_, c1) => (c1, Some EOther)             (* ErrFunctionReturnedVoid *)
                 end
      | RInt 1 => match pop c with
                  | None => (c, Some EOther)
                  | Some (x, c1) =>
                      let c2 := set_result c1 (match x with ItV v => Some v | _ => Some VNil end) in
                      (set_stack c2 (ret1_stack (c_fp c2) (c_stack c2)), None)
                  end
      | RInt (S (S _)) => (set_result c None, None)
      | _ => (set_result (set_stack c (trunc (c_fp c - 1) (c_stack c))) None, None)
      end in
    match r1 with
    | (c1, Some e) => (g, c1, Some e)
    | (c1, None) =>
        if Nat.ltb 0 (c_fp c1)
        then (* void return lowered sp to fp-1; callFramePop resets sp to fp: the frame slot is still there *)
             let c1' := match k with
                        | RBool | RInt (S _) => c1
                        | _ => set_stack c1 (trunc (c_fp c) (c_stack c))
                        end in
             let '(c2, e) := frame_pop c1' in (g, c2, e)
        else (g, set_running c1 false, None)
    end.

  (* panic.go unwindPanic *)
  Fixpoint unwind_panic (p : program) (fuel : nat) (g : glob) (c : ctx) : R :=
    match fuel with
    | O => (g, c, Some EOther)
    | S f =>
        let '(g1, c1, e) := match c_defers c with [] => (g, c, None) | _ => invoke_panic_defers g c end in
        match e with
        | Some e' => (g1, c1, Some e')
        | None =>
            match c_panic c1 with
            | None =>                                   (* recovered *)
                let c2 := set_defers c1 [] in
                if Nat.eqb (c_fp c2) 0 then (g1, set_running c2 false, Some EStop)
                else let c3 := set_stack c2 (trunc (c_fp c2) (c_stack c2)) in
                     (* synthesized return value (BUG-04): a single unnamed return gives nil; the generated
                        subset has no named or multiple results *)
                     let nret := match c_code c3 with
                                 | CUnit u => match nth_error p u with Some un => u_nret un | None => 0 end
                                 | CDefer _ => 0 end in
                     let c4 := if Nat.eqb nret 1 then set_result c3 (Some VNil) else c3 in
                     let '(c5, e5) := frame_pop c4 in (g1, c5, e5)
            | Some pv =>
                if Nat.eqb (c_fp c1) 0
                then (set_out g1 (g_out g1), set_panic (set_running c1 false) None, Some EPanicUnhandled)
                else let c2 := set_stack c1 (trunc (c_fp c1) (c_stack c1)) in
                     match frame_pop c2 with
                     | (c3, None) => unwind_panic p f g1 c3
                     | (c3, Some _) => (g1, set_panic (set_running c3 false) None, Some EPanicUnhandled)
                     end
            end
        end
    end.

  Definition exec (p : program) (g : glob) (c : ctx) (i : instr) : R :=
    match i with
    | IAtLine n => if andb (c_debug c) (negb (Z.eqb n 0)) then (g, c, Some ESignalDebugger) else (g, c, None)
    | IPushV v => (g, push c (ItV v), None)
    | IPushMark l => (g, push c (ItM l), None)
    | IPushFun u => (g, push c (ItV (VFunc u (if unit_lit p u then Some (c_syms c) else None))), None)
    | IStoreGlobal n => match pop c with
                        | Some (ItV v, c1) => (sym_set_in g 0 n v, c1, None)
                        | Some (_, c1) => (g, c1, Some EOther) | None => (g, c, Some EOther) end
    | IImport | INop => (g, c, None)
    | ISymbolCreate n => match sym_create g (c_syms c) n with Some g1 => (g1, c, None) | None => (g, c, Some EOther) end
    | IStore n => match pop c with
                  | Some (ItV v, c1) => match sym_store g (c_syms c1) n v with
                                        | Some g1 => (g1, c1, None) | None => (g, c1, Some EOther) end
                  | Some (_, c1) => (g, c1, Some EOther) | None => (g, c, Some EOther) end
    | IStoreAlways n => match pop c with
                        | Some (ItV v, c1) => (sym_set_in g (c_syms c1) n v, c1, None)
                        | Some (_, c1) => (g, c1, Some EOther) | None => (g, c, Some EOther) end
    | ILoad n => match sym_get g (c_syms c) n with Some v => (g, push c (ItV v), None) | None => (g, c, Some EOther) end
    | IDup => match c_stack c with x :: _ => (g, push c x, None) | [] => (g, c, Some EOther) end
    | IEntryPoint => match pop c with
                     | Some (ItV (VStr n), c1) =>
                         match sym_get g (c_syms c1) n with
                         | Some v => do_call p g (push c1 (ItV v)) 0
                         | None => (g, c1, Some EOther) end
                     | Some (_, c1) => (g, c1, Some EOther) | None => (g, c, Some EOther) end
    | IEntryPointExit => (g, set_stack c (drop_to_marker None (c_fp c) (c_stack c)), None)
    | IPushScope => let '(g1, t) := new_scope g (c_syms c) in (g1, set_syms c t, None)
    | IPopScope k => (g, set_syms c (Nat.iter k (fun s => match scope_parent g s with Some q => q | None => s end) (c_syms c)), None)
    | IDeferStart b => (g, set_dsyms c (if b then Some (c_syms c) else None), None)
    | IDefer argc => match pop_values argc (c_stack c) with
                     | Some (args, ItV f :: r) =>
                         (g, set_defers (set_stack c r) (c_defers c ++ [{| d_target := f; d_args := args; d_syms := c_dsyms c |}]), None)
                     | _ => (g, c, Some EOther) end
    | ITry a => (g, set_trys c (a :: c_trys c), None)
    | ITryPop => match c_trys c with [] => (g, c, Some EOther) | _ :: r => (g, set_trys c r, None) end
    | IDropToMarker l => (g, set_stack c (drop_to_marker l (c_fp c) (c_stack c)), None)
    | IBranch a => (g, set_pc c a, None)
    | IBranchFalse a => match pop c with
                        | Some (ItV (VBool b), c1) => (g, if b then c1 else set_pc c1 a, None)
                        | Some (_, c1) => (g, c1, Some EOther) | None => (g, c, Some EOther) end
    | IBranchTrue a => match pop c with
                       | Some (ItV (VBool b), c1) => (g, if b then set_pc c1 a else c1, None)
                       | Some (_, c1) => (g, c1, Some EOther) | None => (g, c, Some EOther) end
    | ICall argc => do_call p g c argc
    | IBin o => match c_stack c with
                | ItV b :: ItV a :: r => match do_bin o a b with
                                         | inl v => (g, set_stack c (ItV v :: r), None)
                                         | inr e => (g, set_stack c r, Some e) end
                | _ => (g, c, Some EOther) end
    | IRunDefers => run_defers_op g c
    | IReturn k => do_return g c k
    | IUserPanic => match pop c with
                    | Some (ItV v, c1) => (g, set_panic c1 (Some v), Some EPanicActive)
                    | Some (_, c1) => (g, set_panic c1 (Some VNil), Some EPanicActive)
                    | None => (g, c, Some EOther) end
    | IRecover =>
        match c_panic c with
        | Some v => (g, push (set_panic c None) (ItV v), None)
        | None =>
            (* findPanickingContext: first ancestor with panicActive *)
            let fix go (pre post : list (option value)) :=
              match post with
              | [] => None
              | Some v :: r => Some (v, rev pre ++ None :: r)
              | None :: r => go (None :: pre) r
              end in
            match go [] (g_anc g) with
            | Some (v, anc') => (set_anc g anc', push c (ItV v), None)
            | None => (g, push c (ItV VNil), None)
            end
        end
    | IPrint n => match pop_values n (c_stack c) with
                  | Some (vs, r) => (set_out g (vs ++ g_out g), set_stack c r, None)
                  | None => (g, c, Some EOther) end
    | INewline => (g, c, None)
    end.

  (* one turn of the dispatch loop of RunFromAddress, after the running/pc test *)
  Definition step (p : program) (g : glob) (c : ctx) (i : instr) : R * bool (* true = the loop returns this error *) :=
    let '(g1, c1, e) := exec p g (set_pc c (S (c_pc c))) i in
    let '(c2, e2) := handle_catch c1 e in
    match e2 with
    | None => ((g1, c2, None), false)
    | Some EPanicActive =>
        match unwind_panic p (S (length (c_stack c2))) g1 c2 with
        | (g3, c3, None) => ((g3, c3, None), false)
        | (g3, c3, Some e3) => ((g3, c3, Some e3), true)
        end
    | Some e' => ((g1, c2, Some e'), true)
    end.
End WithChild.

Inductive outcome := Finished (e : option err) | OutOfFuel.

(* RunFromAddress: fuel bounds the total number of dispatched instructions including child contexts *)
Fixpoint run (fuel : nat) (p : program) (g : glob) (c : ctx) : glob * ctx * outcome :=
  match fuel with
  | O => (g, c, OutOfFuel)
  | S f =>
      if negb (c_running c) then (g, c, Finished None) else
      match nth_error (code_of p (c_code c)) (c_pc c) with
      | None => (g, c, Finished None)
      | Some i =>
          let child := fun g' c' => match run f p g' c' with
                                     | (g'', _, Finished e) => (g'', e)
                                     | (g'', _, OutOfFuel) => (g'', Some EOther) end in
          match step child p g c i with
          | ((g1, c1, _), false) => run f p g1 c1
          | ((g1, c1, e), true) => (g1, c1, Finished e)
          end
      end
  end.

Definition init_glob : glob := {| g_scopes := [{| s_parent := None; s_vars := [] |}]; g_out := []; g_anc := [] |}.
Definition init_ctx (debug : bool) : ctx :=
  {| c_code := CUnit 0; c_pc := 0; c_stack := []; c_fp := 0; c_syms := 0; c_trys := []; c_defers := [];
     c_running := true; c_panic := None; c_result := None; c_dsyms := None; c_debug := debug |}.

(* observable result: printed integers in order, and the outcome class
   0 = ended normally (nil or ErrStop), 1 = runtime error, 2 = unhandled panic, 3 = out of fuel, 4 = debugger signal *)
Definition out_ints (g : glob) : list Z :=
  flat_map (fun v => match v with VInt z => [z] | VBool true => [(-1)%Z] | VBool false => [(-2)%Z] | _ => [(-3)%Z] end) (rev (g_out g)).
Definition outcome_class (o : outcome) : Z :=
  match o with
  | Finished None | Finished (Some EStop) => 0 | Finished (Some EPanicUnhandled) => 2
  | Finished (Some ESignalDebugger) => 4 | Finished (Some _) => 1 | OutOfFuel => 3 end%Z.
Definition run_program (fuel : nat) (p : program) : list Z :=
  let '(g, _, o) := run fuel p init_glob (init_ctx false) in outcome_class o :: out_ints g.
