(* Lex/Properties.v — property theorems of C06 only; proofs live in Proofs.v.
   go_int_lit / go_rune_lit / go_string_lit : the Go specification's literal grammar with its value (GoLit.v);
   ego_lit : what Ego's tokenizer + compiler make of the same token text (EgoLit.v, repaired code);
   ego_lit_old : the same before the repair. *)
From Lex Require Import Model Proofs.
Open Scope N_scope.

(* the property at full strength (no magnitude bound): refuted below by 9223372036854775808 *)
Definition C06_statement : Prop :=
  forall s : str,
    (forall v, go_int_lit s = Some v -> exists w, ego_lit s = EInt w v) /\
    (forall v, go_rune_lit s = Some v -> ego_lit s = ERunes [v]) /\
    (forall b, go_string_lit s = Some b -> ego_lit s = EStr b).

(* every Go integer literal (decimal, 0b, 0o, 0x, legacy octal, any placement of '_' the grammar allows)
   whose value fits an int64 is an integer constant of that value in Ego *)
Theorem C06_int :
  forall (s : str) (v : N), go_int_lit s = Some v -> v < 2 ^ 63 -> exists wide, ego_lit s = EInt wide v.
Proof. exact C06_int_proof. Qed.

(* every Go rune literal, including every escape form, denotes exactly that one rune in Ego *)
Theorem C06_rune :
  forall (s : str) (v : N), go_rune_lit s = Some v -> ego_lit s = ERunes [v].
Proof. exact C06_rune_proof. Qed.

(* every interpreted string literal (all escapes) and raw string literal (CR dropped) has the same bytes in Ego *)
Theorem C06_string :
  forall (s : str) (b : bytes), go_string_lit s = Some b -> ego_lit s = EStr b.
Proof. exact C06_string_proof. Qed.

(* before the repair: 0x_FF, 0xFFFFFFFF, 1_000 were not integers, '\n' was two runes, a raw string kept its CR *)
Theorem C06_old_refuted :
  (go_int_lit w_0x_FF = Some 255 /\ ego_lit_old w_0x_FF = ENotInt) /\
  (go_int_lit w_0xFFFFFFFF = Some 4294967295 /\ ego_lit_old w_0xFFFFFFFF = ENotInt) /\
  (go_int_lit w_1_000 = Some 1000 /\ ego_lit_old w_1_000 = ENotInt) /\
  (go_rune_lit w_nl = Some 10 /\ ego_lit_old w_nl = ERunes [92; 110]) /\
  (go_string_lit w_rawcr = Some [97; 98] /\ ego_lit_old w_rawcr = EStr [97; 13; 98]).
Proof. exact old_refuted. Qed.

(* the bound in C06_int is necessary: the literal 9223372036854775808 (as in -9223372036854775808) is not an integer in Ego *)
Theorem C06_int_unbounded_refuted :
  exists (s : str) (v : N), go_int_lit s = Some v /\ ego_lit s = ENotInt.
Proof. exists w_2p63, (2 ^ 63). exact unbounded_refuted. Qed.

Example C06_int_nonvacuous :     (* 0X_7f_FF  and  0_17 *)
  go_int_lit [48;88;95;55;102;95;70;70] = Some 32767 /\ ego_lit [48;88;95;55;102;95;70;70] = EInt false 32767 /\
  go_int_lit [48;95;49;55] = Some 15 /\ ego_lit [48;95;49;55] = EInt false 15.
Proof. vm_compute. repeat split. Qed.
Example C06_rune_nonvacuous :    (* 'é' and '\377' *)
  go_rune_lit [39;92;117;48;48;101;57;39] = Some 233 /\ ego_lit [39;92;117;48;48;101;57;39] = ERunes [233] /\
  go_rune_lit [39;92;51;55;55;39] = Some 255.
Proof. vm_compute. repeat split. Qed.
Example C06_string_nonvacuous :  (* dq a \t e-acute \xff \dq dq *)
  go_string_lit [34;97;92;116;92;117;48;48;101;57;92;120;102;102;92;34;34] = Some [97;9;195;169;255;34] /\
  ego_lit [34;97;92;116;92;117;48;48;101;57;92;120;102;102;92;34;34] = EStr [97;9;195;169;255;34].
Proof. vm_compute. repeat split. Qed.
