(* Assets/Properties.v — property theorems of C39 only; proofs live in Proofs.v. *)
From Common Require Import Base.
From Coq Require Import ZArith.
From Assets Require Import Model Proofs.
Open Scope Z_scope.

(* No Range header (or none at all) and no file size makes the handler panic. *)
Theorem C39_no_panic :
  forall (cached : bool) (h : option str) (file : list N),
    zlen file <= max_int64 -> handle true cached h file <> Panic.
Proof. exact handle_no_panic. Qed.

(* For every Range header and every file the answer is exactly one of: 400 (malformed), 416 (not
   satisfiable), the whole file (no header), or 206 with body = file[start .. min stop (size-1)]
   and Content-Range "bytes start-min(stop,size-1)/size" with 0 <= start <= last < size. *)
Theorem C39_range_exact :
  forall (cached : bool) (h : option str) (file : list N),
    zlen file <= max_int64 ->
    match parse_range true h with
    | PPanic => False
    | PBad => handle true cached h file = Err 400
    | PNone => handle true cached h file = Full file
    | PRange start stop =>
        match spec_range start stop (zlen file) with
        | Some (a, b) => handle true cached h file = Partial a b (zlen file) (slice file a (b - a + 1)) /\
                         0 <= a <= b /\ b < zlen file /\ a = start /\ b = Z.min stop (zlen file - 1)
        | None => handle true cached h file = Err 416
        end
    end.
Proof. exact handle_exact. Qed.

(* Whatever the path spelling, the file name handed to the file system is the root followed by at
   least one more segment, and has no "", "." or ".." segment: lexically inside the asset root. *)
Theorem C39_contained :
  forall (root : list seg) (path : str),
    forallb plain_seg root = true ->
    (exists rest, rest <> [] /\ normalize root path = root ++ rest) /\
    forallb plain_seg (normalize root path) = true.
Proof. exact normalize_contained. Qed.

(* The code before the repair: "bytes=5" panics (index out of range); "bytes=20-" on a 10-byte file
   panics (negative make); "bytes=10-" on a 10-byte file answers 206 "bytes 10-9/10"; "bytes=0-" on a
   cached asset answers 206 "bytes 0--1/0". *)
Definition ten : list N := [48;49;50;51;52;53;54;55;56;57]%N.
Theorem C39_old_refuted :
  handle false false (Some [98;121;116;101;115;61;53]%N) ten = Panic /\
  handle false false (Some [98;121;116;101;115;61;50;48;45]%N) ten = Panic /\
  handle false false (Some [98;121;116;101;115;61;49;48;45]%N) ten = Partial 10 9 10 [] /\
  handle false true (Some [98;121;116;101;115;61;48;45]%N) ten = Partial 0 (-1) 0 ten.
Proof. vm_compute. repeat split. Qed.

(* non-vacuity: concrete non-trivial instances *)
Example C39_range_nonvacuous :
  handle true false (Some [98;121;116;101;115;61;50;45;53]%N) ten = Partial 2 5 10 [50;51;52;53]%N /\
  handle true false (Some [98;121;116;101;115;61;55;45;57;57]%N) ten = Partial 7 9 10 [55;56;57]%N /\
  handle true true (Some [98;121;116;101;115;61;48;45]%N) ten = Partial 0 9 10 ten /\
  handle true false (Some [98;121;116;101;115;61;53]%N) ten = Err 400 /\
  handle true false (Some [98;121;116;101;115;61;50;48;45]%N) ten = Err 416 /\
  content_range 2 5 10 = [98;121;116;101;115;32;50;45;53;47;49;48]%N.
Proof. vm_compute. repeat split. Qed.

Example C39_contained_nonvacuous :
  let root := [[116;109;112]; [108;105;98]]%N in     (* /tmp/lib *)
  forallb plain_seg root = true /\
  (* "/assets/./a//b.txt" *)
  normalize root [47;97;115;115;101;116;115;47;46;47;97;47;47;98;46;116;120;116]%N
    = root ++ [[97;115;115;101;116;115]; [97]; [98;46;116;120;116]]%N /\
  (* "../../etc/passwd" *)
  normalize root [46;46;47;46;46;47;101;116;99;47;112;97;115;115;119;100]%N = root ++ [invalid_seg].
Proof. vm_compute. repeat split. Qed.
