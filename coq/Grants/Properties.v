(* Grants/Properties.v — property theorems of C43 only; proofs live in Proofs.v. *)
From Common Require Import Base.
From Grants Require Import Model Proofs.
Open Scope N_scope.

(* The property as stated: on a restricted DSN a non-administrator is let through by the row endpoints
   only by a grant recorded for exactly this user, DSN and table; grants for another user, DSN or table
   never authorize.  (False as it stands: see C43_crosstalk_refuted for DSN names containing a dot.) *)
Definition C43_statement : Prop :=
  forall ops su d t p, lookup (dsns (run ops)) d = Some true ->
    row_request (run ops) su false d t p = Some true -> exists o, In o ops /\ grants_op o (su, d, t) p.

(* the decision of the row endpoints, in every reachable or unreachable store state *)
Theorem C43_iff_partial :
  forall st su sa d t p restricted, dot_free d = true -> lookup (dsns st) d = Some restricted ->
    (row_request st su sa d t p = Some true <-> sa = true \/ restricted = false \/ records st su d t p = true).
Proof. exact request_iff. Qed.

(* over all histories of DSN definitions, grants, revokes, creations and deletions: an authorization of a
   non-administrator on a restricted DSN whose name has no dot stems from a grant operation in the history
   for exactly this (user, DSN, table) that set the permission or table-admin *)
Theorem C43_no_crosstalk_partial :
  forall ops su d t p, dot_free d = true -> lookup (dsns (run ops)) d = Some true ->
    row_request (run ops) su false d t p = Some true -> exists o, In o ops /\ grants_op o (su, d, t) p.
Proof. exact authorized_needs_grant. Qed.

(* a grant takes effect as soon as it is recorded (at most one row for the key before it) *)
Theorem C43_grant_effective :
  forall st u d t p, (length (matching (rows st) u d t) <= 1)%nat ->
    records (step st (OGrant u d t [(true, p)])) u d t p = true.
Proof. exact grant_effective. Qed.

(* DeleteTable: once a table is dropped no grant on it survives; a non-administrator is refused until a new
   grant is recorded (also when a table of the same name is created again by somebody else) *)
Theorem C43_drop_clears :
  forall st su d t p, dot_free d = true -> lookup (dsns st) d = Some true -> has_table (tables st) d t = true ->
    row_request (step st (OTDrop d t)) su false d t p = Some false.
Proof. exact drop_clears. Qed.

(* DSN names may contain a dot, and Authorized splits "dsn.table" at the first dot: a grant on
   (u, "a", "b.c") lets u read table "c" of the restricted DSN "a.b" although no grant for it exists *)
Theorem C43_crosstalk_refuted :
  lookup (dsns (run crosstalk_history)) dAB = Some true /\
  row_request (run crosstalk_history) u1 false dAB tC PRead = Some true /\
  (forall o, In o crosstalk_history -> ~ grants_op o (u1, dAB, tC) PRead) /\
  records (run crosstalk_history) u1 dAB tC PRead = false.
Proof. exact crosstalk_refuted. Qed.

(* non-vacuity: a history with two users, a revoke and a re-grant *)
Definition ex_hist : list op :=
  [OSetDSN [100] true; OTCreate [97] [100] [116]; OGrant [98] [100] [116] [(true, PRead)];
   OGrant [98] [100] [116] [(false, PRead)]; OGrant [98] [100] [116] [(true, PUpdate)]].
Definition ex_hist2 : list op := ex_hist ++ [OTDrop [100] [116]; OTCreate [99] [100] [116]].
Example C43_nonvacuous :
  dot_free [100] = true /\ lookup (dsns (run ex_hist)) [100] = Some true /\
  row_request (run ex_hist) [98] false [100] [116] PUpdate = Some true /\
  row_request (run ex_hist) [98] false [100] [116] PRead = Some false /\
  row_request (run ex_hist) [97] false [100] [116] PDelete = Some true /\
  row_request (run ex_hist) [99] false [100] [116] PRead = Some false /\
  row_request (run ex_hist) [99] true [100] [116] PRead = Some true /\
  has_table (tables (run ex_hist)) [100] [116] = true /\
  row_request (run ex_hist2) [98] false [100] [116] PUpdate = Some false /\
  row_request (run ex_hist2) [97] false [100] [116] PRead = Some false /\
  row_request (run ex_hist2) [99] false [100] [116] PDelete = Some true.
Proof. vm_compute. repeat split. Qed.
