#!/usr/bin/env python3
"""usage: tools_seedupdate.py <id> <detected> <detected_by text> — updates /verif/seeded/<id>/meta.json"""
import json, sys
p = "/verif/seeded/%s/meta.json" % sys.argv[1]
m = json.load(open(p))
if m.get("detected") == "no":
    m["missed_at_first"] = m.get("detected_by", "")
m["detected"] = sys.argv[2]
m["detected_by"] = sys.argv[3]
json.dump(m, open(p, "w"), indent=1)
