From Coq Require Import List Arith Bool ZArith Lia Permutation.
Import ListNotations.
From Shared Require Import Model.

Lemma tbl_eqb_eq a b : tbl_eqb a b = true <-> a = b.
Proof. unfold tbl_eqb. destruct (list_eq_dec Nat.eq_dec a b); split; congruence. Qed.
Lemma tbl_eqb_refl a : tbl_eqb a a = true.
Proof. apply tbl_eqb_eq. reflexivity. Qed.

Lemma is_shared_In S t : is_shared S t = true <-> In t S.
Proof.
  unfold is_shared. rewrite existsb_exists. split.
  - intros [x [Hx He]]. apply tbl_eqb_eq in He. subst. assumption.
  - intro H. exists t. split; [assumption|apply tbl_eqb_refl].
Qed.

Lemma mark_mono S t u : is_shared S u = true -> is_shared (mark S t) u = true.
Proof. rewrite !is_shared_In. unfold mark. intro H. apply in_or_app. right. assumption. Qed.

(* the flags only grow *)
Lemma step_shared_mono s e u : is_shared (shared s) u = true -> is_shared (shared (step s e)) u = true.
Proof.
  intro H. destruct e as [w [t|t|t|t]]; unfold step, step_pol, record; cbn [snd fst shared]; try assumption.
  - destruct (cache_written false (shared s) t); cbn [shared]; assumption.
  - apply mark_mono. assumption.
Qed.

(* an access holds the lock its kind requires: read lock for reads, write lock for writes *)
Definition proper (a : access) : Prop := a_lock a = if a_write a then WLock else RLock.

(* invariant: every recorded access to a common table was properly locked; every recorded access was in reach *)
Definition inv (sc : scopes) (s : state) : Prop :=
  (forall t, In t (common sc) -> is_shared (shared s) t = true) /\
  (forall a, In a (hist s) -> reach sc (a_tid a) (a_tbl a) = true) /\
  (forall a, In a (hist s) -> In (a_tbl a) (common sc) -> proper a) /\
  raced s = false.

Lemma In_common sc t : existsb (tbl_eqb t) (common sc) = true <-> In t (common sc).
Proof.
  rewrite existsb_exists. split.
  - intros [x [Hx He]]. apply tbl_eqb_eq in He. subst. assumption.
  - intro H. exists t. split; [assumption|apply tbl_eqb_refl].
Qed.

(* a table both goroutines can reach is a common table *)
Lemma both_reach_common sc U t :
  disjoint_scopes sc U = true -> In t U ->
  reach sc P t = true -> reach sc C t = true -> In t (common sc).
Proof.
  intros Hd Ht HP HC. unfold disjoint_scopes in Hd. rewrite forallb_forall in Hd. specialize (Hd t Ht).
  unfold reach in HP, HC. apply In_common.
  destruct (existsb (tbl_eqb t) (common sc)); [reflexivity|]. cbn in HP, HC. rewrite HP, HC in Hd. discriminate.
Qed.

Lemma proper_excluded x y : proper x -> proper y -> (a_write x || a_write y) = true ->
  excluded (a_lock x) (a_lock y) = true.
Proof.
  unfold proper. intros Hx Hy Hw. rewrite Hx, Hy.
  destruct (a_write x), (a_write y); cbn in *; try reflexivity; discriminate.
Qed.

Lemma no_conflict sc U s (a' : access) :
  disjoint_scopes sc U = true -> In (a_tbl a') U -> inv sc s -> reach sc (a_tid a') (a_tbl a') = true ->
  (In (a_tbl a') (common sc) -> proper a') ->
  existsb (conflict a') (hist s) = false.
Proof.
  intros Hd Ht [Hc [Hr [Hl _]]] Hw Hp.
  destruct (existsb _ (hist s)) eqn:E; [|reflexivity]. exfalso.
  apply existsb_exists in E. destruct E as [a [Ha Hcf]].
  unfold conflict in Hcf.
  apply andb_prop in Hcf. destruct Hcf as [Hcf Hlk].
  apply andb_prop in Hcf. destruct Hcf as [Hcf Hwr].
  apply andb_prop in Hcf. destruct Hcf as [Heq Htid].
  apply tbl_eqb_eq in Heq.
  assert (Hcom : In (a_tbl a') (common sc)).
  { specialize (Hr a Ha). rewrite <- Heq in Hr.
    destruct (a_tid a'), (a_tid a); cbn in Htid; try discriminate;
      eapply both_reach_common; eauto. }
  assert (Hpa : proper a) by (apply Hl; [assumption|rewrite <- Heq; assumption]).
  rewrite (proper_excluded a' a (Hp Hcom) Hpa Hwr) in Hlk. discriminate.
Qed.

Lemma inv_record sc U s (a' : access) :
  disjoint_scopes sc U = true -> In (a_tbl a') U -> inv sc s -> reach sc (a_tid a') (a_tbl a') = true ->
  (In (a_tbl a') (common sc) -> proper a') -> inv sc (record s a').
Proof.
  intros Hd Ht Hi Hw Hp. pose proof Hi as [Hc [Hr [Hl Hrc]]].
  unfold record. repeat split; cbn [shared hist raced].
  - assumption.
  - intros a [<-|Ha]; auto.
  - intros a [<-|Ha] Hin; auto.
  - rewrite Hrc. cbn. eapply no_conflict; eauto.
Qed.

Lemma inv_step sc U s e :
  disjoint_scopes sc U = true -> In (act_tbl (snd e)) U ->
  reach sc (fst e) (act_tbl (snd e)) = true -> inv sc s -> inv sc (step s e).
Proof.
  intros Hd Ht Hw Hi. pose proof Hi as [Hc [Hr [Hl Hrc]]].
  destruct e as [w [t|t|t|t]]; cbn in Ht, Hw; unfold step, step_pol; cbn [snd fst].
  - (* Read *) apply (inv_record sc U); auto. cbn. intro Hin. unfold proper, rmode. cbn. rewrite (Hc t Hin). reflexivity.
  - (* Write *) apply (inv_record sc U); auto. cbn. intro Hin. unfold proper, wmode. cbn. rewrite (Hc t Hin). reflexivity.
  - (* Lookup *)
    assert (H1 : inv sc (record s (mkAcc w t false (rmode (shared s) t)))).
    { apply (inv_record sc U); auto. cbn. intro Hin. unfold proper, rmode. cbn. rewrite (Hc t Hin). reflexivity. }
    unfold cache_written. cbn [orb]. destruct (is_shared (shared s) t) eqn:Es; cbn [negb]; [assumption|].
    apply (inv_record sc U); auto. cbn. intro Hin. rewrite (Hc t Hin) in Es. discriminate.
  - (* Mark *) repeat split; cbn; auto. intros t0 Ht0. apply (mark_mono (shared s) t t0). auto.
Qed.

Lemma run_no_race sc U S0 il :
  disjoint_scopes sc U = true ->
  (forall e, In e il -> In (act_tbl (snd e)) U) ->
  well_scoped sc il = true ->
  (forall t, In t (common sc) -> is_shared S0 t = true) ->
  raced (run S0 il) = false.
Proof.
  intros Hd HU Hws H0. unfold run, run_pol. fold step.
  assert (Hinv : inv sc (mkState S0 [] false)).
  { repeat split; cbn; auto; intros a []. }
  revert Hinv. generalize (mkState S0 [] false) as s.
  induction il as [|e il IH]; intros s Hinv; cbn [fold_left].
  - destruct Hinv as [_ [_ [_ H]]]. assumption.
  - unfold well_scoped in Hws. cbn [forallb] in Hws. apply andb_prop in Hws. destruct Hws as [He Hrest].
    apply IH; auto.
    + intros e' He'. apply HU. right. assumption.
    + eapply inv_step; eauto. apply HU. left. reflexivity.
Qed.

(* the cache-on-shared-tables variant: two goroutines resolving a global through the shared captured
   function scope race on its cache fields although both hold its read lock *)
Definition cache_schedule : list (tid * act) := [(P, Lookup [1; 0]); (C, Lookup [1; 0])].
Lemma cache_on_shared_races :
  raced (run_pol true (fork_state_new [[0]] [1; 0]) cache_schedule) = true /\
  raced (run_pol false (fork_state_new [[0]] [1; 0]) cache_schedule) = false.
Proof. vm_compute. split; reflexivity. Qed.

(* marking the captured scope before the fork makes its whole chain shared *)
Lemma suffixes_self t : In t (suffixes t).
Proof. destruct t; cbn; auto. Qed.
Lemma fork_marks S cap t : In t (suffixes cap) -> is_shared (fork_state_new S cap) t = true.
Proof. intro H. apply is_shared_In. unfold fork_state_new, mark. apply in_or_app. left. assumption. Qed.

(* ---- the old protocol: a schedule with a race *)
Definition cap0 : table := [1; 0].
Definition sc0 : scopes := mkScopes (suffixes cap0) [[7; 1; 0]] [[8; 1; 0]].
Definition old_schedule : list (tid * act) := [(P, Write cap0); (C, Mark cap0); (C, Read cap0)].
Lemma old_races : raced (run [[0]] old_schedule) = true /\ well_scoped sc0 old_schedule = true.
Proof. vm_compute. split; reflexivity. Qed.
Lemma old_other_schedule_ok : raced (run [[0]] [(C, Mark cap0); (P, Write cap0); (C, Read cap0)]) = false.
Proof. vm_compute. reflexivity. Qed.

(* ---- commutation of critical sections *)
Lemma get_add_to v k s w : get w (add_to v k s) = if Nat.eqb w v then (get w s + k)%Z else get w s.
Proof.
  induction s as [|[u x] r IH]; cbn.
  - destruct (Nat.eqb w v); lia.
  - destruct (Nat.eqb v u) eqn:E; cbn.
    + apply Nat.eqb_eq in E. subst. destruct (Nat.eqb w u); lia.
    + rewrite IH. destruct (Nat.eqb w u) eqn:E2; [|reflexivity].
      apply Nat.eqb_eq in E2. subst. rewrite Nat.eqb_sym, E. reflexivity.
Qed.

Lemma get_run_sections l : forall s w,
  get w (run_sections l s) = (get w s + fold_right (fun c acc => if Nat.eqb w (fst c) then snd c + acc else acc) 0 l)%Z.
Proof.
  induction l as [|c l IH]; intros s w; cbn.
  - lia.
  - unfold run_sections in *. cbn [fold_left]. rewrite IH, get_add_to. destruct (Nat.eqb w (fst c)); lia.
Qed.

Lemma sum_perm w l1 l2 : Permutation l1 l2 ->
  fold_right (fun c acc => if Nat.eqb w (fst c) then snd c + acc else acc)%Z 0%Z l1 =
  fold_right (fun c acc => if Nat.eqb w (fst c) then snd c + acc else acc)%Z 0%Z l2.
Proof.
  induction 1; cbn; try lia.
  - rewrite IHPermutation. reflexivity.
  - destruct (Nat.eqb w (fst x)), (Nat.eqb w (fst y)); lia.
Qed.

Lemma sections_deterministic l1 l2 s w : Permutation l1 l2 -> get w (run_sections l1 s) = get w (run_sections l2 s).
Proof. intro H. rewrite !get_run_sections. rewrite (sum_perm w l1 l2 H). reflexivity. Qed.

(* interleavings of two threads are permutations of their concatenation *)
Lemma interleave_perm {A} (a b c : list A) : interleave a b c -> Permutation (a ++ b) c.
Proof.
  induction 1; cbn.
  - constructor.
  - constructor. assumption.
  - eapply Permutation_trans; [apply Permutation_sym, Permutation_middle|]. constructor. assumption.
Qed.

(* ---- the start-up read of the launcher's scope table (old code) breaks the statement *)
Definition sp0 : table := [7; 1; 0].
Definition startup_schedule : list (tid * act) := [(P, Write sp0); (C, Read sp0)].
Lemma startup_races :
  raced (run (fork_state_new [[0]] cap0) startup_schedule) = true /\ well_scoped sc0 startup_schedule = false.
Proof. vm_compute. split; reflexivity. Qed.

Lemma statement_old_refuted : ~ statement_with child_startup_old.
Proof.
  intro H.
  specialize (H sc0 [cap0; [0]; sp0; [8; 1; 0]; []] (fork_state_new [[0]] cap0) sp0 [Write sp0] [] startup_schedule).
  assert (E : raced (run (fork_state_new [[0]] cap0) startup_schedule) = false).
  { apply H; try (vm_compute; reflexivity).
    - vm_compute. auto.
    - intros e He. vm_compute in He. destruct He as [<-|[<-|[]]]; vm_compute; auto.
    - intros t Ht. vm_compute in Ht. destruct Ht as [<-|[<-|[<-|[]]]]; vm_compute; reflexivity.
    - unfold startup_schedule, tag, child_startup_old. cbn. apply il_l. apply il_r. apply il_nil. }
  vm_compute in E. discriminate.
Qed.

Lemma interleave_forallb {A} (f : A -> bool) (a b c : list A) :
  interleave a b c -> forallb f a = true -> forallb f b = true -> forallb f c = true.
Proof.
  induction 1; cbn [forallb]; intros Ha Hb; auto.
  - apply andb_prop in Ha. destruct Ha as [Hx Ha]. rewrite Hx. cbn. auto.
  - apply andb_prop in Hb. destruct Hb as [Hx Hb]. rewrite Hx. cbn. auto.
Qed.

Lemma statement_holds : C08_statement.
Proof.
  intros sc U S0 sp ilP ilC il Hd _ _ HU H0 HP HC Hil.
  eapply run_no_race; eauto.
  unfold well_scoped in *. eapply interleave_forallb; eauto.
Qed.

(* an operation that holds only the read lock of a shared table stores nothing in it *)
Lemma lookup_dirty_unshared B S t u : In u (lookup_dirty false B S t) -> is_shared S u = false.
Proof.
  unfold lookup_dirty. intro H. apply filter_In in H. destruct H as [_ H].
  apply andb_prop in H. destruct H as [_ H]. unfold cache_written in H. cbn in H.
  destruct (is_shared S u); [discriminate|reflexivity].
Qed.
