(* RowCodec/Proofs.v *)
From RowCodec Require Import Model.
Open Scope Z_scope.

Lemma f64_exact z : Z.abs z <= two53 -> f64 z = z.
Proof. intros H. unfold f64. destruct (Z.leb_spec (Z.abs z) two53); [reflexivity|lia]. Qed.

Lemma to_int_id z : - two63 <= z < two63 -> to_int z = z.
Proof.
  intros H. unfold to_int. destruct (Z.leb_spec (- two63) z); destruct (Z.ltb_spec z two63); cbn; try reflexivity; lia.
Qed.

Lemma roundtrip_ok t v : representable t v -> roundtrip true t v = Ok v.
Proof.
  destruct t, v; cbn [representable]; try tauto; intros H; unfold roundtrip; cbn [coerce_store read]; try reflexivity.
  - rewrite f64_exact by assumption. rewrite to_int_id; [reflexivity|]. unfold two53, two63 in *. lia.
  - destruct b; reflexivity.
Qed.

Lemma json_int_exact z : - two63 <= z < two63 -> json_int true z = z.
Proof.
  intros H. unfold json_int. destruct (Z.leb_spec (- two63) z); destruct (Z.ltb_spec z two63); cbn; try reflexivity; lia.
Qed.

Lemma roundtrip_n_ok t v : of_type t v -> roundtrip_n true true t v = Ok v.
Proof.
  destruct t, v; cbn [of_type]; try tauto; intros H; unfold roundtrip_n; cbn [coerce_store_n coerce_store read]; try reflexivity.
  - rewrite json_int_exact by assumption. reflexivity.
  - destruct b; reflexivity.
Qed.

Lemma representable_of_type t v : representable t v -> of_type t v.
Proof. destruct t, v; cbn; try tauto. unfold two53, two63. lia. Qed.

(* the old time binding keeps whole seconds only *)
Lemma roundtrip_old t v :
  representable t v -> (forall s n, v = VTs s n -> n = 0) -> roundtrip false t v = Ok v.
Proof.
  intros H Hn. destruct t, v; cbn in H; try tauto.
  - rewrite <- (roundtrip_ok TInt (VInt z) H). reflexivity.
  - rewrite <- (roundtrip_ok TBool (VBool b) H). reflexivity.
  - pose proof (Hn sec nano eq_refl) as E. subst nano. reflexivity.
Qed.

Lemma int_refuted :
  of_type TInt (VInt 9007199254740993) /\ roundtrip true TInt (VInt 9007199254740993) = Ok (VInt 9007199254740992) /\
  of_type TInt (VInt 9223372036854775807) /\ roundtrip true TInt (VInt 9223372036854775807) = Ok (VInt (-9223372036854775808)).
Proof. repeat split; cbn; try lia; vm_compute; reflexivity. Qed.

Lemma ts_old_refuted :
  of_type TTs (VTs 1709296245 123456789) /\ roundtrip false TTs (VTs 1709296245 123456789) = Ok (VTs 1709296245 0).
Proof. split; [cbn; lia|reflexivity]. Qed.

(* ---------- the schema cache never holds the column type of an earlier table of the same name *)
Definition TInv (s : tstate) : Prop :=
  (forall t, cw s = Some t -> actual s = Some t) /\ (forall t, cr s = Some t -> actual s = Some t).

Lemma tstep_inv s o : TInv s -> TInv (fst (tstep true s o)).
Proof.
  intros I. pose proof I as [Hw Hr]. destruct o; cbn [tstep].
  - destruct (actual s) eqn:A; cbn [fst]; [exact I|]. split; cbn; discriminate.
  - destruct (actual s) eqn:A; cbn [fst]; [|exact I]. split; cbn; discriminate.
  - destruct (actual s) as [t|] eqn:A; cbn [fst]; [|exact I]. split; cbn [cw cr actual].
    + intros t' E. destruct (cw s) as [c|] eqn:C; inversion E; subst; [now apply Hw|reflexivity].
    + exact Hr.
  - destruct (actual s) as [t|] eqn:A; cbn [fst]; [|exact I]. split; cbn [cw cr actual].
    + exact Hw.
    + intros t' E. destruct (cr s) as [c|] eqn:C; inversion E; subst; [now apply Hr|reflexivity].
  - split; cbn; [discriminate|exact Hr].
  - split; cbn; [exact Hw|discriminate].
Qed.

Lemma trun_inv h : TInv (trun true h).
Proof.
  unfold trun. assert (I : TInv tinit) by (split; cbn; discriminate). revert I. generalize tinit.
  induction h as [|o h IH]; intros s I; cbn; [assumption|]. apply IH. now apply tstep_inv.
Qed.

Lemma write_read_current_full h t v :
  actual (trun true h) = Some t -> of_type t v ->
  snd (tstep true (fst (tstep true (trun true h) (TWrite v))) TRead) = Some (Ok v).
Proof.
  intros A R. destruct (trun_inv h) as [Hw Hr]. set (s := trun true h) in *.
  assert (Ew : match cw s with Some c => c | None => t end = t).
  { destruct (cw s) as [c|] eqn:C; [|reflexivity]. assert (actual s = Some c) by (apply Hw; first [exact C|reflexivity]). congruence. }
  assert (Er : match cr s with Some c => c | None => t end = t).
  { destruct (cr s) as [c|] eqn:C; [|reflexivity]. assert (actual s = Some c) by (apply Hr; first [exact C|reflexivity]). congruence. }
  pose proof (roundtrip_n_ok t v R) as RT. unfold roundtrip_n in RT.
  destruct (coerce_store_n true true t v) as [c|] eqn:CS; [|discriminate].
  assert (E1 : fst (tstep true s (TWrite v)) = mkT (Some t) (Some c) (Some t) (cr s)).
  { cbn [tstep]. rewrite A. cbn [fst]. rewrite Ew, CS. reflexivity. }
  rewrite E1. cbn [tstep actual held cr cw snd]. rewrite Er. f_equal. exact RT.
Qed.

Lemma write_read_current h t v :
  actual (trun true h) = Some t -> representable t v ->
  snd (tstep true (fst (tstep true (trun true h) (TWrite v))) TRead) = Some (Ok v).
Proof. intros A R. apply (write_read_current_full h t v A). now apply representable_of_type. Qed.

Definition stale_history : list top := [TCreate TInt; TWrite (VInt 7); TRead; TDrop; TCreate TStr].
Lemma stale_refuted :
  actual (trun false stale_history) = Some TStr /\ representable TStr (VStr [48; 48; 55]%N) /\
  snd (tstep false (fst (tstep false (trun false stale_history) (TWrite (VStr [48; 48; 55]%N)))) TRead)
  <> Some (Ok (VStr [48; 48; 55]%N)).
Proof. split; [reflexivity|]. split; [exact I|]. vm_compute. discriminate. Qed.

(* ---------- date and time columns *)
Lemma roundtrip_col_ok c v : of_col_type c v -> roundtrip_col c v = Ok v.
Proof.
  destruct c as [t| |], v as [x|d|s n]; cbn [of_col_type]; try tauto; intros H.
  - cbn [roundtrip_col]. rewrite (roundtrip_n_ok t x H). reflexivity.
  - cbn [roundtrip_col instant_of]. rewrite (roundtrip_n_ok TTs (VTs (86400 * d) 0)) by (cbn; lia).
    cbn [date_of_instant]. rewrite Z.mul_comm, Z_mod_mult, Z.eqb_refl. cbn [andb].
    rewrite Z_div_mult by lia. reflexivity.
  - destruct H as [Hs Hn]. cbn [roundtrip_col instant_of].
    rewrite (roundtrip_n_ok TTs (VTs (year0 + s) n)) by (cbn; lia).
    cbn [tod_of_instant]. destruct (Z.leb_spec year0 (year0 + s)); [|lia].
    destruct (Z.ltb_spec (year0 + s) (year0 + 86400)); [|lia]. cbn [andb]. f_equal. f_equal. lia.
Qed.

(* ---------- floats *)
Section FloatFacts.
  Variable F : Type.
  Variable client_format server_format : F -> list N.
  Variable parse_float : list N -> option F.
  Variable sqlite_real : F -> F.
  Variable storable : F -> Prop.
  Hypothesis client_law : forall f, parse_float (client_format f) = Some f.
  Hypothesis server_law : forall f, parse_float (server_format f) = Some f.
  Hypothesis real_exact : forall f, storable f -> sqlite_real f = f.

  Lemma float_roundtrip_ok f : storable f -> float_roundtrip F client_format server_format parse_float sqlite_real f = Some f.
  Proof. intros H. unfold float_roundtrip. rewrite client_law, (real_exact f H). apply server_law. Qed.
End FloatFacts.
