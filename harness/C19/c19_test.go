//go:build verif

package util

// Overlaid into /repo/internal/util by /verif/check C19.  Line protocol (VERIF_IN -> VERIF_OUT), every
// answer starts with the 0-based index of the request line:
//
//	M <hex text>                      -> <i> M <hex of egostrings.JSONMinify(text)>
//	W <gz 0|1> <thr> <J|R> <hex json> -> <i> W <status> <gzip|-> <hex payload on the wire> <hex payload after
//	                                      client decoding> <hex json.Marshal(value)> <hex returned indented text> <counted length>
//	                                     (J: the text is decoded with UseNumber into any; R: passed as json.RawMessage)
//	S <repo root>                     -> <i> S <file> <func> <1 if the function also calls json.MarshalIndent>
//	                                     one line per call of JSONMinify outside tests, then <i> S end <n>

import (
	"bufio"
	"bytes"
	"compress/gzip"
	"encoding/hex"
	"encoding/json"
	"fmt"
	"go/ast"
	"go/parser"
	"go/token"
	"io"
	"io/fs"
	"net/http"
	"net/http/httptest"
	"os"
	"path/filepath"
	"strings"
	"testing"

	"github.com/tucats/ego/internal/cli/settings"
	"github.com/tucats/ego/internal/defs"
	egostrings "github.com/tucats/ego/internal/util/strings"
)

func verifC19Sites(w io.Writer, idx int, root string) {
	n := 0
	fset := token.NewFileSet()

	_ = filepath.WalkDir(root, func(path string, d fs.DirEntry, err error) error {
		if err != nil {
			return nil
		}

		if d.IsDir() {
			name := d.Name()
			if path != root && (strings.HasPrefix(name, ".") || name == "testdata" || name == "node_modules") {
				return filepath.SkipDir
			}

			return nil
		}

		if !strings.HasSuffix(path, ".go") || strings.HasSuffix(path, "_test.go") {
			return nil
		}

		f, err := parser.ParseFile(fset, path, nil, 0)
		if err != nil {
			return nil
		}

		for _, decl := range f.Decls {
			fd, ok := decl.(*ast.FuncDecl)
			if !ok || fd.Body == nil {
				continue
			}

			calls, indent := 0, 0

			ast.Inspect(fd.Body, func(x ast.Node) bool {
				if ce, ok := x.(*ast.CallExpr); ok {
					name := ""

					switch fn := ce.Fun.(type) {
					case *ast.SelectorExpr:
						name = fn.Sel.Name
					case *ast.Ident:
						name = fn.Name
					}

					if name == "JSONMinify" {
						calls++
					}

					if name == "MarshalIndent" {
						indent++
					}
				}

				return true
			})

			rel, _ := filepath.Rel(root, path)

			for k := 0; k < calls; k++ {
				has := 0
				if indent > 0 {
					has = 1
				}

				fmt.Fprintf(w, "%d S %s %s %d\n", idx, rel, fd.Name.Name, has)

				n++
			}
		}

		return nil
	})

	fmt.Fprintf(w, "%d S end %d\n", idx, n)
}

func TestVerifC19(t *testing.T) {
	in, err := os.Open(os.Getenv("VERIF_IN"))
	if err != nil {
		t.Fatal(err)
	}
	defer in.Close()

	out, err := os.Create(os.Getenv("VERIF_OUT"))
	if err != nil {
		t.Fatal(err)
	}
	defer out.Close()

	w := bufio.NewWriter(out)
	defer w.Flush()

	sc := bufio.NewScanner(in)
	sc.Buffer(make([]byte, 1<<24), 1<<24)

	previous := settings.Get(defs.ServerCompressionThresholdSetting)
	defer settings.SetDefault(defs.ServerCompressionThresholdSetting, previous)

	idx := -1

	for sc.Scan() {
		f := strings.Fields(sc.Text())
		if len(f) < 1 {
			continue
		}

		idx++

		switch f[0] {
		case "M":
			arg := ""
			if len(f) > 1 && f[1] != "-" {
				arg = f[1]
			}

			b, _ := hex.DecodeString(arg)
			fmt.Fprintf(w, "%d M %s\n", idx, verifC19Hex([]byte(egostrings.JSONMinify(string(b)))))

		case "S":
			verifC19Sites(w, idx, f[1])

		case "W":
			if len(f) < 5 {
				fmt.Fprintf(w, "%d W err short\n", idx)

				continue
			}

			text, _ := hex.DecodeString(f[4])

			var value any

			if f[3] == "R" {
				value = json.RawMessage(text)
			} else {
				dec := json.NewDecoder(bytes.NewReader(text))
				dec.UseNumber()

				if err := dec.Decode(&value); err != nil {
					fmt.Fprintf(w, "%d W err decode\n", idx)

					continue
				}
			}

			want, err := json.Marshal(value)
			if err != nil {
				fmt.Fprintf(w, "%d W err marshal\n", idx)

				continue
			}

			settings.SetDefault(defs.ServerCompressionThresholdSetting, f[2])

			req := httptest.NewRequest(http.MethodGet, "/x", nil)
			if f[1] == "1" {
				req.Header.Set("Accept-Encoding", "deflate, gzip;q=0.8")
			}

			length := 0
			rec := httptest.NewRecorder()
			indented := WriteJSON(rec, ResponseInfo{SessionID: 1, AcceptsGzip: AcceptsGzip(req), Length: &length}, http.StatusOK, value)
			res := rec.Result()
			wire, _ := io.ReadAll(res.Body)
			enc := res.Header.Get("Content-Encoding")
			decoded := wire

			if enc == "gzip" {
				zr, err := gzip.NewReader(bytes.NewReader(wire))
				if err != nil {
					fmt.Fprintf(w, "%d W err gunzip\n", idx)

					continue
				}

				decoded, err = io.ReadAll(zr)
				if err != nil {
					fmt.Fprintf(w, "%d W err gunzip\n", idx)

					continue
				}
			} else if enc == "" {
				enc = "-"
			}

			fmt.Fprintf(w, "%d W %d %s %s %s %s %s %d\n", idx, res.StatusCode, enc, verifC19Hex(wire), verifC19Hex(decoded),
				verifC19Hex(want), verifC19Hex(indented), length)
		}
	}
}

func verifC19Hex(b []byte) string {
	if len(b) == 0 {
		return "-"
	}

	return hex.EncodeToString(b)
}
