(* Sandbox/Properties.v — property theorems of C26 only; proofs live in Proofs.v. *)
From Sandbox Require Import Model Proofs.
Open Scope N_scope.

(* The property as stated: for every file system, sandbox root and path spelling, the place the
   kernel reaches through SandboxJoin's result lies at or below the real sandbox root.
   (descends q r: same kind of path, r's segments are a prefix of q's, the rest are plain names.) *)
Definition C26_statement (fixd : bool) : Prop :=
  forall (fs : node) (root p : str) (rroot : path),
    is_abs root = true -> evalsym_t fs (clean_str root) = Some rroot ->
    match touch_t fs (sandbox_join_p (lstat_t fs) (evalsym_t fs) fixd root p) with
    | None => True
    | Some q => descends q rroot
    end.

(* Lexical confinement, every spelling of root and path (absolute, relative, "..", repeated
   separators, empty): the string SandboxJoin chooses is the cleaned root followed by plain names
   (no "..", no ".", no empty segment).  This is the whole result when the root does not exist. *)
Theorem C26_lexical :
  forall (fixd : bool) (root p : str),
    descends (sandbox_join_p no_lstat no_evalsym fixd root p) (clean_str root).
Proof. exact lexical. Qed.

(* Resolved confinement for any arrangement of links, over an abstract file system given by
   lstat / evalsym / touch and the five laws relating them (assumed; validated on every generated
   layout against the tree model and the real kernel by the check). *)
Theorem C26_resolved :
  forall (lstat : path -> bool) (evalsym touch : path -> option path),
    lstat (true, []) = true ->
    (forall p r, evalsym p = Some r -> normal r /\ fst r = true) ->
    (forall p r, evalsym p = Some r -> evalsym r = Some r) ->
    (forall p r, evalsym p = Some r -> touch p = Some r) ->
    (forall p r x rest, evalsym p = Some r -> lstat (fst p, snd p ++ [x]) = false ->
        touch (fst r, snd r ++ x :: rest) = None \/
        touch (fst r, snd r ++ x :: rest) = Some (fst r, snd r ++ [x])) ->
    forall (root p : str) (rroot : path),
      is_abs root = true -> evalsym (clean_str root) = Some rroot ->
      match touch (sandbox_join_p lstat evalsym true root p) with
      | None => True
      | Some q => descends q rroot
      end.
Proof. exact resolved. Qed.

(* The code before the repair: a dangling link inside the sandbox pointing outside makes a
   creating call land outside (replayed on the real code by the check). *)
Theorem C26_old_refuted : ~ C26_statement false.
Proof.
  intros H. specialize (H wit_fs wit_root wit_p (true, [[115;98]]) eq_refl eq_refl).
  destruct old_refuted as (_ & Ht & Hb). cbv zeta in Ht. rewrite Ht in H.
  destruct H as (_ & rest & Hs & _). cbn [snd] in Hs. discriminate.
Qed.

Example C26_nonvacuous :
  (* "/sb" with path "a//../../sb-evil/./x" is clamped; "/sb/a/../b" is kept as /sb/b *)
  sandbox_join_lex [47;115;98] [97;47;47;46;46;47;46;46;47;115;98;45;101;47;46;47;120] = [47;115;98] /\
  sandbox_join_lex [47;115;98] [47;115;98;47;97;47;46;46;47;98] = [47;115;98;47;98] /\
  (* the tree instance used in the refutation satisfies the hypotheses' shape and the repaired code confines it *)
  lstat_t wit_fs (true, []) = true /\
  touch_t wit_fs (sandbox_join_p (lstat_t wit_fs) (evalsym_t wit_fs) true wit_root wit_p) = Some (true, [[115;98]]).
Proof. vm_compute. auto. Qed.
