//go:build verif

package auth

// Overlaid into /repo/internal/server/auth by /verif/check C25.  Builds a real user store
// (NewFileService on a JSON file, or NewDatabaseService on a SQLite file), seeds it with users whose
// stored credential is in a given format, and runs the real ValidatePassword on a sequence of
// (user, password) steps, reporting the verdict and the class of every stored credential after each
// step ("same" as last written by the harness (seed or change) / a new "bcrypt" hash / "other"), read from
// the store itself.  A step may also be a credential change (ReadUser, replace Password, WriteUser - what the
// admin handlers do).  The short-term auth cache is live and never purged within a scenario.  At the end of a scenario the store is
// opened a second time from disk (before the first service is closed) to see whether the credentials persisted.
//
// VERIF_IN : JSON [ {store, plaintext, users:[{name, fmt, pw(hex), perms}], steps:[{user(hex), pass(hex)} | {op:"change", user(hex), fmt, pw(hex)}]} ]
// VERIF_OUT: JSON [ {error, steps:[{ok, stored:{name: class}}], reopened:{name: class}} ]

import (
	"encoding/hex"
	"encoding/json"
	"fmt"
	"os"
	"path/filepath"
	"sort"
	"strings"
	"testing"

	"github.com/tucats/ego/internal/caches"
	"github.com/tucats/ego/internal/cli/settings"
	"github.com/tucats/ego/internal/defs"
	"github.com/tucats/ego/internal/language/data"
	"github.com/tucats/ego/internal/language/symbols"
	egostrings "github.com/tucats/ego/internal/util/strings"
	"golang.org/x/crypto/bcrypt"
)

type c25User struct {
	Name  string   `json:"name"`
	Fmt   string   `json:"fmt"`
	Pw    string   `json:"pw"`
	Perms []string `json:"perms"`
}

type c25Step struct {
	// "" = login; "change" = replace the stored credential of user (fmt, pw); "setuser" = the SetUser builtin
	// (name, plaintext password pw, perms); "deluser" = the DeleteUser builtin
	Op    string   `json:"op"`
	Perms []string `json:"perms"`
	User string `json:"user"`
	Pass string `json:"pass"`
	Fmt  string `json:"fmt"`
	Pw   string `json:"pw"`
}

type c25Scenario struct {
	Store     string     `json:"store"`
	Plaintext bool       `json:"plaintext"`
	Users     []c25User  `json:"users"`
	Steps     []c25Step  `json:"steps"`
}

type c25StepOut struct {
	Ok     bool              `json:"ok"`
	Stored map[string]string `json:"stored"`
	Names  []string          `json:"names,omitempty"` // all stored user names (after setuser / deluser steps)
	// setuser: did SetUser store a new bcrypt credential? (it must not for passwords over 72 bytes: HashPassword fails)
	CredSet bool `json:"credset"`
}

type c25Out struct {
	Error    string            `json:"error"`
	Steps    []c25StepOut      `json:"steps"`
	Reopened map[string]string `json:"reopened"`
}

func c25Unhex(s string) string {
	b, _ := hex.DecodeString(s)

	return string(b)
}

// c25Stored reads what the store itself holds for name, without touching the short-term auth cache
// (the SQL service is read through its table handle, the file service has no cache).
func c25Stored(svc userIOService, name string) (string, bool) {
	if pg, ok := svc.(*databaseService); ok {
		rows, err := pg.userHandle.Begin().Read(pg.userHandle.Equals("name", name))
		if err != nil || len(rows) == 0 {
			return "", false
		}

		return rows[len(rows)-1].(*defs.User).Password, true
	}

	u, err := svc.ReadUser(0, name, true)

	return u.Password, err == nil
}

// class of every stored credential relative to what the harness last wrote for that user
func c25Classes(svc userIOService, current map[string]string) map[string]string {
	res := map[string]string{}

	for name, expect := range current {
		pw, found := c25Stored(svc, name)

		switch {
		case !found:
			res[name] = "missing"
		case pw == expect:
			res[name] = "same"
		case IsBcryptHash(pw):
			res[name] = "bcrypt"
		default:
			res[name] = "other:" + hex.EncodeToString([]byte(pw))
		}
	}

	return res
}

func c25Names(svc userIOService) []string {
	res := []string{}
	for name := range svc.ListUsers(true) {
		res = append(res, name)
	}

	sort.Strings(res)

	return res
}

func c25Encode(fmtName, pw string) string {
	switch fmtName {
	case "bcrypt": // minimum cost: the comparison cost is read from the hash itself
		h, _ := bcrypt.GenerateFromPassword([]byte(pw), bcrypt.MinCost)

		return string(h)
	case "sha":
		return egostrings.HashString(pw)
	case "plain":
		return "{" + pw + "}"
	}

	return pw // raw stored text
}

func c25Open(kind, path string) (userIOService, error) {
	if kind == "db" {
		return NewDatabaseService("sqlite3://"+path, "", "")
	}

	// a non-empty file, so that NewFileService does not spend a cost-12 bcrypt on a default user
	if _, err := os.Stat(path); err != nil {
		_ = os.WriteFile(path, []byte(`{"zzadmin": {"name": "zzadmin", "password": "x"}}`), 0o600)
	}

	return NewFileService(path, "zzadmin", "x")
}

func TestVerifC25(t *testing.T) {
	in, err := os.ReadFile(os.Getenv("VERIF_IN"))
	if err != nil {
		t.Fatal(err)
	}

	var scenarios []c25Scenario
	if err := json.Unmarshal(in, &scenarios); err != nil {
		t.Fatal(err)
	}

	tmp := os.Getenv("VERIF_TMP")
	outs := []c25Out{}

	for i, sc := range scenarios {
		o := c25Out{}
		path := filepath.Join(tmp, fmt.Sprintf("users-%d.%s", i, map[bool]string{true: "db", false: "json"}[sc.Store == "db"]))

		if sc.Plaintext {
			settings.SetDefault(defs.PlaintextPasswordSetting, "true")
		} else {
			settings.SetDefault(defs.PlaintextPasswordSetting, "false")
		}

		// a scenario is a fresh server start: empty short-term caches, then never purged again
		caches.Active(true)
		caches.PurgeLocal(caches.AuthCache)

		svc, err := c25Open(sc.Store, path)
		if err != nil {
			o.Error = "open: " + err.Error()
			outs = append(outs, o)

			continue
		}

		AuthService = svc
		_ = svc.DeleteUser(0, "zzadmin")

		seeded := map[string]string{}

		for _, u := range sc.Users {
			stored := c25Encode(u.Fmt, c25Unhex(u.Pw))
			seeded[u.Name] = stored

			if err := svc.WriteUser(0, defs.User{Name: u.Name, Password: stored, Permissions: u.Perms}); err != nil {
				o.Error = "seed: " + err.Error()
			}
		}

		_ = svc.Flush()

		// The auth cache is live during the steps, exactly as in a running server: nothing is purged.
		for _, st := range sc.Steps {
			if st.Op == "setuser" || st.Op == "deluser" {
				// the server's own create / delete path (admin handlers and Ego builtins): names are lower-cased there
				name := c25Unhex(st.User)
				syms := symbols.NewSymbolTable("verif c25")
				syms.SetAlways(defs.SessionVariable, 1)

				var err error

				credSet := false

				if st.Op == "setuser" {
					perms := []any{}
					for _, p := range st.Perms {
						perms = append(perms, p)
					}

					args := data.NewMap(data.StringType, data.InterfaceType).
						SetAlways("name", name).
						SetAlways("password", c25Unhex(st.Pw)).
						SetAlways("permissions", perms)
					before, existed := c25Stored(svc, strings.ToLower(name))
					_, err = SetUser(syms, data.NewList(args))
					after, _ := c25Stored(svc, strings.ToLower(name))
					credSet = IsBcryptHash(after) && (!existed || after != before)

					// from now on "same" means: whatever SetUser stored (a cost-12 bcrypt hash)
					if pw, found := c25Stored(svc, strings.ToLower(name)); found {
						seeded[strings.ToLower(name)] = pw
					}
				} else {
					_, err = DeleteUser(syms, data.NewList(name))
					delete(seeded, strings.ToLower(name))
				}

				o.Steps = append(o.Steps, c25StepOut{Ok: err == nil, Stored: c25Classes(svc, seeded), Names: c25Names(svc), CredSet: credSet})

				continue
			}

			if st.Op == "change" {
				// what the admin handlers do: read the record, replace the credential, write it back
				name := c25Unhex(st.User)
				cur, err := AuthService.ReadUser(1, name, false)

				if err == nil {
					cur.Password = c25Encode(st.Fmt, c25Unhex(st.Pw))
					err = AuthService.WriteUser(1, cur)

					if err == nil {
						err = AuthService.Flush()
						seeded[name] = cur.Password
					}
				}

				o.Steps = append(o.Steps, c25StepOut{Ok: err == nil, Stored: c25Classes(svc, seeded)})

				continue
			}

			ok := ValidatePassword(1, c25Unhex(st.User), c25Unhex(st.Pass))
			o.Steps = append(o.Steps, c25StepOut{Ok: ok, Stored: c25Classes(svc, seeded)})
		}

		// what is on disk now?  (looked at BEFORE closing the first service: Close would flush)
		if again, err := c25Open(sc.Store, path); err == nil {
			o.Reopened = c25Classes(again, seeded)
			_ = again.Close()
		} else {
			o.Error += " reopen: " + err.Error()
		}

		AuthService = svc
		_ = svc.Close()

		outs = append(outs, o)
	}

	b, _ := json.Marshal(outs)
	if err := os.WriteFile(os.Getenv("VERIF_OUT"), b, 0o600); err != nil {
		t.Fatal(err)
	}
}
