//go:build verif

package dsns

// Overlaid into /repo/internal/server/dsns by /verif/check C44 (observed part).
// Creates DSNs (postgres and sqlite providers) carrying canary passwords through the real handlers, then calls
// every DSN handler and scans each raw response body for the plaintext password and for the stored password text.
// VERIF_OUT:  C <handler> <status>                   one line per handler call
//             L <handler> <plain|stored> <dsn name>  a secret was found in a response body

import (
	"bufio"
	"bytes"
	"encoding/json"
	"fmt"
	"net/http"
	"net/http/httptest"
	"os"
	"strconv"
	"testing"

	egodsns "github.com/tucats/ego/internal/dsns"
	"github.com/tucats/ego/internal/router"
)

func TestVerifC44DSNs(t *testing.T) {
	out, err := os.Create(os.Getenv("VERIF_OUT"))
	if err != nil {
		t.Fatal(err)
	}
	defer out.Close()

	w := bufio.NewWriter(out)
	defer w.Flush()

	n, _ := strconv.Atoi(os.Getenv("VERIF_N"))
	if n < 1 {
		n = 2
	}

	svc, err := egodsns.NewFileService("memory")
	if err != nil {
		t.Fatal(err)
	}

	egodsns.DSNService = svc

	plain := map[string][]string{}
	stored := map[string][]string{}

	snapshot := func() {
		list, _ := egodsns.DSNService.ListDSNS(0, "admin")
		for name, d := range list {
			if len(d.Password) >= 8 {
				stored[name] = append(stored[name], d.Password)
			}

			if full, e := egodsns.DSNService.ReadDSN(0, "admin", name, true); e == nil && len(full.Password) >= 8 {
				stored[name] = append(stored[name], full.Password)
			}
		}
	}

	scan := func(handler string, status int, body []byte) {
		fmt.Fprintf(w, "C %s %d\n", handler, status)

		for name, list := range plain {
			for _, p := range list {
				if bytes.Contains(body, []byte(p)) {
					fmt.Fprintf(w, "L %s plain %s\n", handler, name)
				}
			}
		}

		for name, list := range stored {
			for _, p := range list {
				if p != "********" && bytes.Contains(body, []byte(p)) {
					fmt.Fprintf(w, "L %s stored %s\n", handler, name)
				}
			}
		}
	}

	session := func(name string) *router.Session {
		parts := map[string]any{}
		if name != "" {
			parts["dsn"] = name
		}

		return &router.Session{ID: 9, User: "admin", Admin: true, URLParts: parts, Parameters: map[string][]string{}}
	}

	request := func(method string, body any) *http.Request {
		var b []byte
		if body != nil {
			b, _ = json.Marshal(body)
		}

		r, _ := http.NewRequest(method, "/dsns", bytes.NewReader(b))

		return r
	}

	names := []string{}

	for i := 0; i < n; i++ {
		for _, provider := range []string{"sqlite", "sqlite3", "postgres"} {
			name := fmt.Sprintf("canary%s%d", provider, i)
			pw := fmt.Sprintf("CANARYDSNPW%s%04dXYZ", provider, i)
			plain[name] = append(plain[name], pw)
			names = append(names, name)

			body := map[string]any{"name": name, "provider": provider, "database": "/tmp/" + name + ".db", "user": "dbuser", "password": pw}
			if provider == "postgres" {
				body["database"] = "db" + name
				body["host"] = "localhost"
				body["port"] = 5432
			}

			rr := httptest.NewRecorder()
			st := CreateDSNHandler(session(""), rr, request(http.MethodPost, body))
			snapshot()
			scan("create", st, rr.Body.Bytes())
		}
	}

	rr := httptest.NewRecorder()
	st := ListDSNHandler(session(""), rr, request(http.MethodGet, nil))
	scan("list", st, rr.Body.Bytes())

	for _, name := range names {
		rr := httptest.NewRecorder()
		st := GetDSNHandler(session(name), rr, request(http.MethodGet, nil))
		scan("get", st, rr.Body.Bytes())

		pw2 := "CANARYDSNNEW" + name + "XYZ"
		plain[name] = append(plain[name], pw2)

		rr = httptest.NewRecorder()
		st = UpdateDSNHandler(session(name), rr, request(http.MethodPatch, map[string]any{"name": name, "password": pw2}))
		snapshot()
		scan("update", st, rr.Body.Bytes())

		rr = httptest.NewRecorder()
		st = GetDSNHandler(session(name), rr, request(http.MethodGet, nil))
		scan("get", st, rr.Body.Bytes())

		rr = httptest.NewRecorder()
		st = ListDSNPermHandler(session(name), rr, request(http.MethodGet, nil))
		scan("perms", st, rr.Body.Bytes())
	}

	rr = httptest.NewRecorder()
	st = ListDSNHandler(session(""), rr, request(http.MethodGet, nil))
	scan("list", st, rr.Body.Bytes())

	for _, name := range names {
		rr := httptest.NewRecorder()
		st := DeleteDSNHandler(session(name), rr, request(http.MethodDelete, nil))
		scan("delete", st, rr.Body.Bytes())
	}
}
