(* VM/Properties.v — property theorems of C10 (try/catch and defer run exactly when documented) over the
   MiniEgo VM model; proofs live in Proofs.v. *)
From Coq Require Import ZArith NArith List Bool.
Import ListNotations.
From VM Require Import Model Proofs Shape Shape2 TryMarker.
Open Scope nat_scope.

(* A catchable error raised in ANY running context whose innermost live try entry is number k and whose try
   marker lies anywhere below the top of the stack -- below any number of values, other markers and call
   frames of called functions -- is redirected (no error remains) to that entry's catch address; the entry
   is spent (addr 0) and can not be chosen again, the entries nested inside it are discarded, everything
   above the marker is dropped and every call frame above it is popped formally (code, frame pointer and
   defer list are those of the function that owns the try). *)
Theorem C10_catch_once : forall c e k above below,
  between_instructions c -> catchable e = true ->
  find_live (c_trys c) = Some k ->
  c_stack c = above ++ ItM L_try :: below -> Forall no_try_marker above ->
  exists c',
    handle_catch c (Some e) = (c', None) /\
    c_pc c' = nth k (c_trys c) 0 /\ c_pc c' <> 0 /\
    c_trys c' = 0 :: skipn (S k) (c_trys c) /\
    find_live (c_trys c') <> Some 0 /\
    c_stack c' = below /\
    c_code c' = c_code (after_frames c (c_stack c)) /\
    c_fp c' = c_fp (after_frames c (c_stack c)) /\
    c_defers c' = c_defers (after_frames c (c_stack c)).
Proof. exact catch_once. Qed.

(* With no live try entry the error is not absorbed, and the dispatch loop returns it: no further
   instruction of the program runs. *)
Theorem C10_uncaught_stops : forall fuel p g c i g1 c1 e,
  c_running c = true -> nth_error (code_of p (c_code c)) (c_pc c) = Some i ->
  (forall child, exec child p g (set_pc c (S (c_pc c))) i = (g1, c1, Some e)) ->
  catchable e = true -> find_live (c_trys c1) = None ->
  run (S fuel) p g c = (g1, c1, Finished (Some e)).
Proof. exact uncaught_stops. Qed.

(* RunDefers (every return path: compileReturn and the end of a function body emit it) starts ALL of the frame's
   deferred calls, in the reverse of their registration order, one child context each, each exactly once --
   whatever any of them returns (errors included: the first error is reported afterwards) -- and leaves the
   list empty ... *)
Theorem C10_defers_rev_once : forall child g c,
  exists e, run_defers_op child g c = (fold_left (one_call child c) (rev (c_defers c)) g, set_defers c [], e).
Proof. exact run_defers_rev_once. Qed.

(* ... with no error when no deferred call fails ... *)
Theorem C10_defers_rev_once_ok : forall child g c, child_ok child ->
  run_defers_op child g c = (fold_left (one_call child c) (rev (c_defers c)) g, set_defers c [], None).
Proof. exact run_defers_rev_once_ok. Qed.

(* ... and whatever the deferred calls do a second RunDefers in the same frame starts nothing. *)
Theorem C10_defers_spent : forall child g c g1 c1 e,
  run_defers_op child g c = (g1, c1, e) -> c_defers c1 = [] /\ run_defers_op child g1 c1 = (g1, c1, None).
Proof. exact run_defers_spent. Qed.

(* panic unwinding starts ALL of them too, in the same order, each with access to the panic state, whatever
   panic state or error each call leaves (a call that recovered or failed does not stop the ones registered
   before it) *)
Theorem C10_panic_defers_rev_once : forall child g c,
  exists e, invoke_panic_defers child g c = (fold_left (one_panic_call child) (rev (c_defers c)) (g, c), e).
Proof. intros. unfold invoke_panic_defers. apply invoke_panic_list_all. Qed.

(* A frame whose deferred calls cleared the panic (recover()) is popped and execution resumes in the caller,
   right after the call, with the caller's own defer list; nothing of the panicking frame stays on the stack
   except the synthesized nil result. *)
Theorem C10_recover_resumes_caller : forall child p fuel g c g1 c1 fr rest,
  invoke_panic_defers child g c = (g1, c1, None) -> c_defers c <> [] ->
  c_panic c1 = None ->
  trunc (c_fp c1) (c_stack c1) = ItF fr :: rest -> c_fp c1 = S (length rest) ->
  exists v, unwind_panic child p (S fuel) g c = (g1, v, None) /\
    c_code v = f_code fr /\ c_pc v = f_pc fr /\ c_fp v = f_fp fr /\ c_syms v = f_syms fr /\
    c_defers v = f_defers fr /\ c_panic v = None /\ c_running v = c_running c1 /\
    (c_stack v = rest \/ exists r, c_stack v = ItV r :: rest).
Proof. exact recover_resumes_caller. Qed.

(* The code before fix a4adb034 ran deferred calls twice: kept as a replayable witness. *)
Theorem C10_old_refuted : forall child g c d, child_ok child -> c_defers c = [d] ->
  exists g1 c1, run_defers_op_old child g c = (g1, c1, None) /\ c_defers c1 = [d] /\
                run_defers_op_old child g1 c1 = (one_call child c1 g1 d, c1, None).
Proof. exact run_defers_old_twice. Qed.

(* ------------------------------------------------------------------ non-vacuity *)
Definition ex_frame : frame :=
  {| f_code := CUnit 3; f_pc := 17; f_fp := 0; f_syms := 2; f_defers := []; f_trydepth := 1 |}.
Definition ex_ctx : ctx :=
  {| c_code := CUnit 5; c_pc := 40; c_stack := [ItV (VInt 1); ItM 12%N; ItF ex_frame; ItV (VInt 2); ItM L_try; ItV (VInt 3)];
     c_fp := 4; c_syms := 7; c_trys := [0; 9; 21]; c_defers := [{| d_target := VNil; d_args := []; d_syms := None |}];
     c_running := true; c_panic := None; c_result := None; c_dsyms := None; c_debug := false |}.

Example C10_catch_once_nonvacuous :
  between_instructions ex_ctx /\ find_live (c_trys ex_ctx) = Some 1 /\
  Forall no_try_marker [ItV (VInt 1); ItM 12%N; ItF ex_frame; ItV (VInt 2)] /\
  exists c', handle_catch ex_ctx (Some EDivZero) = (c', None) /\ c_pc c' = 9 /\ c_trys c' = [0; 21] /\
             c_stack c' = [ItV (VInt 3)] /\ c_code c' = CUnit 3 /\ c_fp c' = 0 /\ c_defers c' = [].
Proof.
  split; [constructor; cbn; auto|]. split; [reflexivity|].
  split; [repeat constructor; unfold no_try_marker; discriminate|].
  eexists. vm_compute. repeat split; reflexivity.
Qed.

(* a child runner that prints the deferred target and never fails *)
Definition ex_child (g : glob) (c : ctx) : glob * option err :=
  match c_code c with
  | CDefer d => (set_out g (d_target d :: g_out g), None)
  | _ => (g, None)
  end.
Definition ex_dctx : ctx :=
  {| c_code := CUnit 1; c_pc := 3; c_stack := []; c_fp := 0; c_syms := 0; c_trys := [];
     c_defers := [{| d_target := VInt 1; d_args := []; d_syms := None |};
                  {| d_target := VInt 2; d_args := []; d_syms := None |};
                  {| d_target := VInt 3; d_args := []; d_syms := None |}];
     c_running := true; c_panic := None; c_result := None; c_dsyms := None; c_debug := false |}.

Example C10_defers_rev_once_nonvacuous :
  child_ok ex_child /\
  rev (g_out (fst (fst (run_defers_op ex_child init_glob ex_dctx)))) = [VInt 3; VInt 2; VInt 1].
Proof.
  split.
  - intros g c. left. unfold ex_child. destruct (c_code c); reflexivity.
  - vm_compute. reflexivity.
Qed.

Example C10_uncaught_stops_nonvacuous :
  let p := [{| u_lit := false; u_nret := 0;
               u_code := [IPushV (VInt 1); IPushV (VInt 0); IBin BDiv; IPrint 1] |}] in
  run 10 p init_glob (init_ctx false) =
  (init_glob, set_stack (set_pc (init_ctx false) 3) [], Finished (Some EDivZero)).
Proof. vm_compute. reflexivity. Qed.

(* panic in a called function, recovered by its deferred closure: the caller resumes and prints *)
Example C10_recover_resumes_caller_nonvacuous :
  let p := [ {| u_lit := false; u_nret := 0;
                u_code := [IPushFun 1; ICall 0; IPushV (VInt 7); IPrint 1] |};
             {| u_lit := false; u_nret := 0;
                u_code := [IDeferStart true; IPushFun 2; IDefer 0; IPushV (VInt 5); IUserPanic; IPushV (VInt 6); IPrint 1;
                           IRunDefers; IReturn RNone] |};
             {| u_lit := true; u_nret := 0;
                u_code := [IRecover; IPrint 1; IRunDefers; IReturn RNone] |} ] in
  run_program 100 p = [0; 5; 7]%Z.
Proof. vm_compute. reflexivity. Qed.

(* ------------------------------------------------------------------ deferred calls that fail *)
(* The full statement: every registered deferred call is started exactly once whatever the others do.  It is
   C10_defers_rev_once for the repaired code (fix b6774d66) ... *)
Definition C10_defers_statement (op : (glob -> ctx -> glob * option err) -> glob -> ctx -> glob * ctx * option err) : Prop :=
  forall child g c, fst (fst (op child g c)) = fold_left (one_call child c) (rev (c_defers c)) g.

Theorem C10_defers_statement_holds : C10_defers_statement run_defers_op.
Proof. intros child g c. destruct (run_defers_rev_once child g c) as [e H]. rewrite H. reflexivity. Qed.

(* ... and was false before it: invokeDeferredStatements returned at the first deferred call that failed, the
   deferred calls registered before it were never started. *)
Definition failing_child (g : glob) (c : ctx) : glob * option err :=
  match c_code c with
  | CDefer d => (set_out g (d_target d :: g_out g),
                 match d_target d with VInt 2%Z => Some EDivZero | _ => None end)
  | _ => (g, None)
  end.

Theorem C10_failing_defer_skips_rest_old_refuted : ~ C10_defers_statement run_defers_op_skip_old.
Proof.
  intros H.
  specialize (H failing_child init_glob
    {| c_code := CUnit 1; c_pc := 3; c_stack := []; c_fp := 0; c_syms := 0; c_trys := [];
       c_defers := [{| d_target := VInt 1; d_args := []; d_syms := None |};
                    {| d_target := VInt 2; d_args := []; d_syms := None |}];
       c_running := true; c_panic := None; c_result := None; c_dsyms := None; c_debug := false |}).
  vm_compute in H. discriminate H.
Qed.

(* non-vacuity of the unguarded statement: the failing call does not stop the one registered before it *)
Example C10_defers_rev_once_failing_nonvacuous :
  rev (g_out (fst (fst (run_defers_op failing_child init_glob ex_dctx)))) = [VInt 3; VInt 2; VInt 1] /\
  snd (run_defers_op failing_child init_glob ex_dctx) = Some EDivZero.
Proof. vm_compute. split; reflexivity. Qed.

(* panic path: the deferred call registered LAST recovers; the two registered before it still run, in
   reverse order, and the caller resumes (C10_panic_defers_rev_once folds over ALL of rev (c_defers c),
   independently of the panic state the calls leave) *)
Example C10_recover_in_last_registered_defer :
  let p := [ {| u_lit := false; u_nret := 0;
                u_code := [IPushFun 1; ICall 0; IPushV (VInt 7); IPrint 1] |};
             {| u_lit := false; u_nret := 0;
                u_code := [IDeferStart true; IPushFun 3; IDefer 0; IDeferStart true; IPushFun 4; IDefer 0;
                           IDeferStart true; IPushFun 2; IDefer 0;
                           IPushV (VInt 5); IUserPanic; IRunDefers; IReturn RNone] |};
             {| u_lit := true; u_nret := 0; u_code := [IRecover; IPrint 1; IRunDefers; IReturn RNone] |};
             {| u_lit := true; u_nret := 0; u_code := [IPushV (VInt 1); IPrint 1; IRunDefers; IReturn RNone] |};
             {| u_lit := true; u_nret := 0; u_code := [IPushV (VInt 2); IPrint 1; IRunDefers; IReturn RNone] |} ] in
  run_program 200 p = [0; 5; 2; 1; 7]%Z.
Proof. vm_compute. reflexivity. Qed.

(* ------------------------------------------------------------------ value return below stack markers *)
(* Return(1) (fix 030cc3b3): once the result is taken nothing of the returning function is left above its call
   frame, whatever try markers / loop markers / temporaries surrounded the return statement; callFramePop then
   hands the caller the result and nothing else. *)
Theorem C10_return_leaves_frame_clean : forall fp st, 0 < fp -> fp <= length st -> length (ret1_stack fp st) = fp.
Proof. exact ret1_stack_clean. Qed.

(* before the fix two try markers above the frame left one behind, which the caller received as a value *)
Theorem C10_return_marker_old_refuted :
  exists fp st, 0 < fp /\ fp <= length st /\ length (ret1_stack_old fp st) <> fp.
Proof. exact ret1_stack_old_leaks. Qed.

(* ------------------------------------------------------------------ the stack-shape hypothesis is an invariant *)
(* shape_ok = the shape part of between_instructions (call frames saved the frame pointer of the stack below
   them, the frame pointer is consistent, the result register is empty while running).  It is preserved by the
   model's own semantics of every instruction that completes, for the instructions that do not move call
   frames (arithmetic, load/store, scopes, branches, print, markers, Try/TryPop, Defer, Recover), for Call (the
   pushed frame saves the right frame pointer) and for RunDefers ... *)
Theorem C10_step_preserves_shape : forall child p g c i g' c',
  shape_ok c ->
  (simple_instr i = true \/ (exists n, i = ICall n) \/ i = IRunDefers) ->
  exec child p g (set_pc c (S (c_pc c))) i = (g', c', None) -> shape_ok c'.
Proof. exact step_preserves_shape. Qed.

(* ... and by the catch redirection: the context a catch block starts in is well shaped again, whatever number
   of values, markers and call frames the unwinding popped. *)
Theorem C10_catch_preserves_shape : forall c e c',
  shape_ok c -> c_running c = true -> handle_catch c (Some e) = (c', None) -> shape_ok c'.
Proof. exact catch_preserves_shape. Qed.

(* callFramePop from a well-shaped context inside a function restores a well-shaped caller *)
Theorem C10_frame_pop_shape : forall c c', shape_ok c -> 0 < c_fp c ->
  (forall v, c_result c = Some v -> length (c_stack c) = c_fp c) ->
  frame_pop c = (c', None) -> wf_stack (c_stack c') /\ c_fp c' = fp_of (c_stack c') /\
                               (c_result c' = None \/ c_result c' = c_result c /\ c_fp c < length (c_stack c)).
Proof. exact frame_pop_shape. Qed.

Example C10_shape_nonvacuous :
  shape_ok ex_ctx /\ simple_instr (IBin BDiv) = true /\
  (exists c', handle_catch ex_ctx (Some EDivZero) = (c', None) /\ shape_ok c').
Proof.
  assert (H : shape_ok ex_ctx) by (repeat split; cbn; auto).
  split; [exact H|]. split; [reflexivity|].
  destruct (handle_catch ex_ctx (Some EDivZero)) as [c' e] eqn:E.
  assert (e = None) by (vm_compute in E; congruence). subst e.
  exists c'. split; [reflexivity|]. eapply catch_preserves_shape; eauto.
Qed.

(* ------------------------------------------------------------------ the shape over whole runs (coq/VM/Shape2.v) *)
(* shape2 = call frames saved the frame pointer of the stack below them + the frame pointer is consistent.
   EVERY instruction of the model -- completing or failing, Return in all operand forms, Dup, the entry
   instructions -- keeps it, unless it pops a call frame off an empty local stack (underflow c i = true: the
   one way the model and the Go VM lose the shape) ... *)
Theorem C10_exec_preserves_shape : forall child p g c i g' c' e,
  shape2 c -> underflow c i = false -> exec child p g c i = (g', c', e) -> shape2 c'.
Proof. exact exec_shape2. Qed.

(* ... so does a whole dispatch step: the instruction, the catch redirection of its error (caught or not) and
   panic unwinding with the deferred calls of every frame it pops ... *)
Theorem C10_dispatch_preserves_shape : forall child p g c i g1 c1 e fl,
  shape2 c -> underflow c i = false -> step child p g c i = ((g1, c1, e), fl) -> shape2 c1.
Proof. exact step_shape2. Qed.

(* ... and a whole run: run_u is run with a flag raised when some dispatched instruction underflowed
   (run_u_project: it is the same run); unless the flag is raised the context the run ends in -- normally, with
   an uncaught error, with an unhandled panic or out of fuel -- is well shaped. *)
Theorem C10_run_u_is_run : forall fuel p g c, fst (run_u fuel p g c) = run fuel p g c.
Proof. exact run_u_project. Qed.

Theorem C10_run_preserves_shape : forall fuel p g c,
  shape2 c -> snd (run_u fuel p g c) = false -> shape2 (snd (fst (run fuel p g c))).
Proof. exact run_preserves_shape. Qed.

(* Return in every operand form, and panic unwinding, as whole instructions *)
Theorem C10_return_preserves_shape : forall g c k g' c' e,
  shape2 c -> (match k with RBool | RInt 1 => top_frame c = false | _ => True end) ->
  do_return g c k = (g', c', e) -> shape2 c'.
Proof. exact do_return_shape2. Qed.

Theorem C10_unwind_panic_preserves_shape : forall child p fuel g c g' c' e,
  shape2 c -> unwind_panic child p fuel g c = (g', c', e) -> shape2 c'.
Proof. exact unwind_panic_shape2. Qed.

Example C10_run_preserves_shape_nonvacuous :
  let p := [ {| u_lit := false; u_nret := 0;
                u_code := [ITry 9; IPushMark L_try; IPushFun 1; ICall 0; IPushV (VInt 7); IPrint 1;
                           IDropToMarker (Some L_try); IBranch 11; INop; IPushV (VInt 8); IPrint 1; ITryPop] |};
             {| u_lit := false; u_nret := 1;
                u_code := [IDeferStart true; IPushFun 2; IDefer 0; IPushV (VInt 1); IPushV (VInt 0); IBin BDiv;
                           IRunDefers; IReturn (RInt 1)] |};
             {| u_lit := true; u_nret := 0; u_code := [IPushV (VInt 5); IPrint 1; IRunDefers; IReturn RNone] |} ] in
  shape2 (init_ctx false) /\ snd (run_u 100 p init_glob (init_ctx false)) = false /\
  run_program 100 p = [0; 8]%Z /\ shape2 (snd (fst (run 100 p init_glob (init_ctx false)))).
Proof.
  cbn zeta. split; [split; cbn; auto|]. split; [vm_compute; reflexivity|]. split; [vm_compute; reflexivity|].
  apply run_preserves_shape; [split; cbn; auto|vm_compute; reflexivity].
Qed.

(* ------------------------------------------------------------------ the try-marker premise, compiled shape *)
(* For a try block as the compiler emits it (Try a; Push marker<try>; body) whose body is made of value-level
   instructions (value_instr: no nested try, no other marker, no call/return): entering the block establishes
   "the first non-value item below the top of the stack is the try marker, and entry a is on top of the try
   stack"; every value-level instruction that completes keeps it; and it yields the premises of C10_catch_once
   (live innermost entry, marker present with no try marker above).  partial: bodies containing calls, nested
   try blocks or other markers (let/call) are not covered -- observed by the correspondence. *)
Theorem C10_try_marker_present_partial :
  (forall child p g c a,
     exists c2, exec child p g c (ITry a) = (g, set_trys c (a :: c_trys c), None) /\
                exec child p g (set_trys c (a :: c_trys c)) (IPushMark L_try) = (g, c2, None) /\
                marker_next (c_stack c2) = true /\ c_trys c2 = a :: c_trys c) /\
  (forall child p g c i g' c',
     value_instr i = true -> marker_next (c_stack c) = true -> exec child p g c i = (g', c', None) ->
     marker_next (c_stack c') = true /\ c_trys c' = c_trys c) /\
  (forall c a t,
     marker_next (c_stack c) = true -> c_trys c = a :: t -> a <> 0 ->
     find_live (c_trys c) = Some 0 /\
     exists above below, c_stack c = above ++ ItM L_try :: below /\ Forall no_try_marker above).
Proof. exact (conj try_entry (conj value_instr_keeps_marker marker_next_premises)). Qed.

Example C10_try_marker_present_nonvacuous :
  let c := set_stack (init_ctx false) [ItV (VInt 1); ItV (VInt 0); ItM L_try; ItV (VInt 9)] in
  marker_next (c_stack c) = true /\ value_instr (IBin BAdd) = true /\
  exists c', exec (fun g _ => (g, None)) [] init_glob c (IBin BAdd) = (init_glob, c', None) /\
             marker_next (c_stack c') = true.
Proof. cbn zeta. split; [reflexivity|]. split; [reflexivity|]. eexists. split; reflexivity. Qed.
