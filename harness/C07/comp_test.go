//go:build verif

package compiler

// Overlaid into /repo/internal/language/compiler by /verif/check C07 (kernel correspondence for defer.go).
// VERIF_IN lines "H <hex of the text that follows the defer keyword>" -> VERIF_OUT lines
//   "H <kinds> <receiver: panic|none|some> <args: panic|ok>"
// kinds = one letter per token of tokenizer.New(text, true): I identifier, D ".", L "(", R ")", O other ("-" when empty).
// receiver: hoistDeferReceiver on a fresh compiler positioned at token 0: none = nothing hoisted (position and token
// spellings unchanged, no error), some = anything else.  args: hoistDeferCallArguments on another fresh compiler.

import (
	"bufio"
	"encoding/hex"
	"fmt"
	"os"
	"strings"
	"testing"

	"github.com/tucats/ego/internal/language/tokenizer"
)

func TestVerifC07Defer(t *testing.T) {
	in, err := os.Open(os.Getenv("VERIF_IN"))
	if err != nil {
		t.Fatal(err)
	}
	defer in.Close()

	out, err := os.Create(os.Getenv("VERIF_OUT"))
	if err != nil {
		t.Fatal(err)
	}
	defer out.Close()

	w := bufio.NewWriter(out)
	defer w.Flush()

	sc := bufio.NewScanner(in)
	sc.Buffer(make([]byte, 1<<20), 1<<20)

	for sc.Scan() {
		f := strings.Fields(sc.Text())
		if len(f) < 2 || f[0] != "H" {
			continue
		}

		b, _ := hex.DecodeString(strings.TrimSuffix(f[1], "-"))
		text := string(b)

		kinds := ""
		for _, k := range tokenizer.New(text, true).Tokens {
			switch {
			case k.IsIdentifier():
				kinds += "I"
			case k.Is(tokenizer.DotToken):
				kinds += "D"
			case k.Is(tokenizer.StartOfListToken):
				kinds += "L"
			case k.Is(tokenizer.EndOfListToken):
				kinds += "R"
			default:
				kinds += "O"
			}
		}

		if kinds == "" {
			kinds = "-"
		}

		recv := func() (s string) {
			defer func() {
				if r := recover(); r != nil {
					s = "panic"
				}
			}()

			c := New("verif")
			c.t = tokenizer.New(text, true)
			before := c.t.GetTokens(0, len(c.t.Tokens), true)
			c.t.Reset()

			if err := c.hoistDeferReceiver(); err == nil && c.t.Mark() == 0 && c.t.GetTokens(0, len(c.t.Tokens), true) == before {
				return "none"
			}

			return "some"
		}()

		args := func() (s string) {
			defer func() {
				if r := recover(); r != nil {
					s = "panic"
				}
			}()

			c := New("verif")
			c.t = tokenizer.New(text, true)
			c.t.Reset()
			_ = c.hoistDeferCallArguments()

			return "ok"
		}()

		fmt.Fprintf(w, "H %s %s %s\n", kinds, recv, args)
	}
}
