(* SqlGen/Proofs.v — lexical confinement of the generated SQL text. *)
From Coq Require Import String Ascii.
From Coq Require Import ZifyBool ZifyN ZifyNat.
From Common Require Import Base.
From SqlGen Require Import Model.
Open Scope list_scope.
Open Scope N_scope.

Definition no_nul (s : str) : Prop := forallb (fun c => negb (c =? 0)) s = true.
Definition sep (c : N) : bool := (c =? 32) || (c =? 40) || (c =? 41) || (c =? 44).
Definition pending (st : lst) : bool :=
  match st with
  | S0 | SW _ | SN1 _ | SN2 _ | SV _ => true
  | SQq q _ => negb (sep q) && negb (q =? 0)
  | _ => false
  end.
Definition starts_sep (s : str) : bool := match s with c :: _ => sep c | [] => false end.

Definition seg (text : str) (toks : list stok) : Prop :=
  exists st o, run S0 text = (st, o) /\ pending st = true /\ toks = o ++ finish st.
Definition lex0 (text : str) (toks : list stok) : Prop := run S0 text = (S0, toks).
Definition Seg (o : out) : Prop := seg (fst o) (snd o).
Definition Lex0 (o : out) : Prop := lex0 (fst o) (snd o).

Lemma run_app : forall a st b,
  run st (a ++ b) = let (s1, o1) := run st a in let (s2, o2) := run s1 b in (s2, o1 ++ o2).
Proof.
  induction a as [|c a IH]; intros st b; cbn [run app].
  - destruct (run st b); reflexivity.
  - destruct (step st c) as [s1 o1]. rewrite IH. destruct (run s1 a) as [s2 o2].
    destruct (run s2 b) as [s3 o3]. rewrite app_assoc. reflexivity.
Qed.

Lemma sql_lex_seg a t : seg a t -> sql_lex a = t.
Proof. intros (st & o & Hr & _ & Ht). unfold sql_lex. rewrite Hr. symmetry. exact Ht. Qed.

Lemma lex0_seg a t : lex0 a t -> seg a t.
Proof. intros H. exists S0, t. repeat split; [exact H | now rewrite app_nil_r]. Qed.
Lemma Lex0_Seg o : Lex0 o -> Seg o.
Proof. apply lex0_seg. Qed.
Lemma Seg_onil : Seg onil.
Proof. apply lex0_seg. reflexivity. Qed.
Lemma Lex0_onil : Lex0 onil.
Proof. reflexivity. Qed.

Lemma Lex0_app a b : Lex0 a -> Lex0 b -> Lex0 (a +++ b).
Proof.
  unfold Lex0, lex0. intros Ha Hb. cbn [oapp fst snd]. rewrite run_app, Ha, Hb. reflexivity.
Qed.
Lemma Lex0_Seg_app a b : Lex0 a -> Seg b -> Seg (a +++ b).
Proof.
  unfold Lex0, lex0, Seg, seg. intros Ha (st & o & Hr & Hp & Ht). cbn [oapp fst snd].
  exists st, (snd a ++ o). rewrite run_app, Ha, Hr. repeat split; [exact Hp|]. rewrite Ht, app_assoc. reflexivity.
Qed.

Lemma sep_cases c : sep c = true -> c = 32 \/ c = 40 \/ c = 41 \/ c = 44.
Proof. unfold sep. lia. Qed.

Lemma step_sep st c : pending st = true -> sep c = true ->
  step st c = (S0, finish st ++ snd (step0 c)) /\ fst (step0 c) = S0.
Proof.
  intros Hp Hs.
  destruct st; try discriminate Hp;
    try (destruct (sep_cases c Hs) as [-> | [-> | [-> | ->]]]; split; reflexivity).
  cbn [pending] in Hp. apply andb_true_iff in Hp as [Hq Hq0].
  assert (Hne : (c =? q) = false).
  { destruct (N.eqb_spec c q) as [->|]; [|reflexivity]. rewrite Hs in Hq. discriminate. }
  unfold step, flush_then. rewrite Hne.
  destruct (sep_cases c Hs) as [-> | [-> | [-> | ->]]]; split; reflexivity.
Qed.

Lemma seg_sep_run a ta b : seg a ta -> starts_sep b = true ->
  run S0 (a ++ b) = let (s2, o2) := run S0 b in (s2, ta ++ o2).
Proof.
  intros (st & o & Hr & Hp & Ht) Hb. destruct b as [|c b]; [discriminate|]. cbn [starts_sep] in Hb.
  rewrite run_app, Hr. cbn [run].
  destruct (step_sep st c Hp Hb) as [H1 H2]. rewrite H1.
  assert (H0 : step S0 c = (S0, snd (step0 c))).
  { destruct (sep_cases c Hb) as [-> | [-> | [-> | ->]]]; reflexivity. }
  rewrite H0. destruct (run S0 b) as [s2 o2]. rewrite Ht. now rewrite !app_assoc.
Qed.

Lemma Seg_Lex0_app a b : Seg a -> starts_sep (fst b) = true -> Lex0 b -> Lex0 (a +++ b).
Proof.
  unfold Lex0, lex0, Seg. intros Ha Hs Hb. cbn [oapp fst snd]. rewrite (seg_sep_run _ _ _ Ha Hs), Hb. reflexivity.
Qed.
Lemma Seg_Seg_app a b : Seg a -> starts_sep (fst b) = true -> Seg b -> Seg (a +++ b).
Proof.
  unfold Seg. intros Ha Hs (st & o & Hr & Hp & Ht). cbn [oapp fst snd].
  exists st, (snd a ++ o). rewrite (seg_sep_run _ _ _ Ha Hs), Hr. repeat split; [exact Hp|].
  rewrite Ht, app_assoc. reflexivity.
Qed.
Lemma starts_sep_app a b : starts_sep a = true -> starts_sep (a ++ b) = true.
Proof. destruct a; [discriminate|]. intros H; exact H. Qed.

(* ---------------------------------------------------------------- quoted names and values *)
Lemma no_nul_cons c s : no_nul (c :: s) <-> (c =? 0) = false /\ no_nul s.
Proof. unfold no_nul. cbn [forallb]. rewrite andb_true_iff, negb_true_iff. reflexivity. Qed.
Lemma no_nul_app a b : no_nul (a ++ b) <-> no_nul a /\ no_nul b.
Proof. unfold no_nul. rewrite forallb_app, andb_true_iff. reflexivity. Qed.
Lemma no_nul_firstn n s : no_nul s -> no_nul (firstn n s).
Proof. intros H. rewrite <- (firstn_skipn n s) in H. apply no_nul_app in H. tauto. Qed.
Lemma no_nul_skipn n s : no_nul s -> no_nul (skipn n s).
Proof. intros H. rewrite <- (firstn_skipn n s) in H. apply no_nul_app in H. tauto. Qed.
Lemma no_nul_trim_prefix p s : no_nul s -> no_nul (trim_prefix p s).
Proof. unfold trim_prefix. destruct (has_prefix p s); [apply no_nul_skipn|auto]. Qed.
Lemma no_nul_trim_suffix p s : no_nul s -> no_nul (trim_suffix p s).
Proof. unfold trim_suffix. destruct (has_suffix p s); [apply no_nul_firstn|auto]. Qed.

Lemma run_quoted q : (q =? 0) = false -> forall s acc, no_nul s ->
  run (SQt q acc) (double_q q s ++ [q]) = (SQq q (acc ++ s), []).
Proof.
  intros Hq. induction s as [|c s IH]; intros acc Hs.
  - cbn [double_q app run]. unfold step. rewrite Hq, N.eqb_refl, !app_nil_r. reflexivity.
  - apply no_nul_cons in Hs as [Hc Hs]. cbn [double_q].
    destruct (N.eqb_spec c q) as [->|Hne].
    + cbn [app run]. unfold step at 1. rewrite Hq, N.eqb_refl.
      unfold step at 1. rewrite Hq, N.eqb_refl.
      rewrite (IH (acc ++ [q]) Hs). rewrite <- app_assoc. reflexivity.
    + cbn [app run]. unfold step at 1. rewrite Hc.
      assert (Hcq : (c =? q) = false) by (apply N.eqb_neq; exact Hne). rewrite Hcq.
      rewrite (IH (acc ++ [c]) Hs). rewrite <- app_assoc. reflexivity.
Qed.

Lemma Seg_ident s : no_nul s -> Seg (sql_ident s, [TId s]).
Proof.
  intros Hs. exists (SQq DQ s), []. unfold sql_ident. cbn [fst snd run].
  change (step S0 DQ) with (SQt DQ [], @nil stok). cbv beta iota.
  rewrite (run_quoted DQ eq_refl s [] Hs). cbn [app]. repeat split.
Qed.
Lemma Seg_strlit s : no_nul s -> Seg (sql_strlit s, [TStr s]).
Proof.
  intros Hs. exists (SQq SQ s), []. unfold sql_strlit. cbn [fst snd run].
  change (step S0 SQ) with (SQt SQ [], @nil stok). cbv beta iota.
  rewrite (run_quoted SQ eq_refl s [] Hs). cbn [app]. repeat split.
Qed.

(* what follows a quoted name can be any byte but the quote itself *)
Lemma ident_confined s rest : no_nul s -> match rest with c :: _ => (c =? DQ) = false | [] => True end ->
  sql_lex (sql_ident s ++ rest) = TId s :: sql_lex rest.
Proof.
  intros Hs Hr. unfold sql_lex, sql_ident.
  change (DQ :: double_q DQ s ++ [DQ]) with ([DQ] ++ (double_q DQ s ++ [DQ])).
  rewrite <- app_assoc. cbn [app run]. change (step S0 DQ) with (SQt DQ [], @nil stok). cbv beta iota.
  rewrite run_app, (run_quoted DQ eq_refl s [] Hs). cbn [app].
  destruct rest as [|c rest]; [reflexivity|].
  cbn [run]. unfold step. cbn [app].
  destruct (N.eqb_spec c 0) as [->|Hc0].
  - cbn. destruct (run SEnd rest) eqn:E.
    assert (Hend : forall r, run SEnd r = (SEnd, [])).
    { induction r as [|x r IHr]; [reflexivity|]. cbn [run]. unfold step. destruct (x =? 0); rewrite IHr; reflexivity. }
    rewrite Hend in E. inversion E; subst. reflexivity.
  - rewrite Hr. unfold flush_then. destruct (step0 c) as [s1 o1]. destruct (run s1 rest) as [s2 o2].
    reflexivity.
Qed.
Lemma string_confined s rest : no_nul s -> match rest with c :: _ => (c =? SQ) = false | [] => True end ->
  sql_lex (sql_strlit s ++ rest) = TStr s :: sql_lex rest.
Proof.
  intros Hs Hr. unfold sql_lex, sql_strlit.
  change (SQ :: double_q SQ s ++ [SQ]) with ([SQ] ++ (double_q SQ s ++ [SQ])).
  rewrite <- app_assoc. cbn [app run]. change (step S0 SQ) with (SQt SQ [], @nil stok). cbv beta iota.
  rewrite run_app, (run_quoted SQ eq_refl s [] Hs). cbn [app].
  destruct rest as [|c rest]; [reflexivity|].
  cbn [run]. unfold step. cbn [app].
  destruct (N.eqb_spec c 0) as [->|Hc0].
  - cbn. destruct (run SEnd rest) eqn:E.
    assert (Hend : forall r, run SEnd r = (SEnd, [])).
    { induction r as [|x r IHr]; [reflexivity|]. cbn [run]. unfold step. destruct (x =? 0); rewrite IHr; reflexivity. }
    rewrite Hend in E. inversion E; subst. reflexivity.
  - rewrite Hr. unfold flush_then. destruct (step0 c) as [s1 o1]. destruct (run s1 rest) as [s2 o2].
    reflexivity.
Qed.

(* ---------------------------------------------------------------- digits, words, variables *)
Lemma digit_facts c : is_digit c = true -> (c =? 0) = false /\ idchar c = true.
Proof. unfold idchar, is_alnum_, is_alpha_, is_digit. lia. Qed.

Lemma run_digits1 : forall ds acc, all_digits ds = true -> run (SN1 acc) ds = (SN1 (acc ++ ds), []).
Proof.
  induction ds as [|c ds IH]; intros acc H; cbn [run].
  - now rewrite app_nil_r.
  - unfold all_digits in H. cbn [forallb] in H. apply andb_true_iff in H as [Hc Hd].
    destruct (digit_facts c Hc) as [H0 _]. unfold step. rewrite H0, Hc.
    rewrite (IH (acc ++ [c]) Hd), <- app_assoc. reflexivity.
Qed.
Lemma run_digits2 : forall ds acc, all_digits ds = true -> run (SN2 acc) ds = (SN2 (acc ++ ds), []).
Proof.
  induction ds as [|c ds IH]; intros acc H; cbn [run].
  - now rewrite app_nil_r.
  - unfold all_digits in H. cbn [forallb] in H. apply andb_true_iff in H as [Hc Hd].
    destruct (digit_facts c Hc) as [H0 _]. unfold step. rewrite H0, Hc.
    rewrite (IH (acc ++ [c]) Hd), <- app_assoc. reflexivity.
Qed.
Lemma run_digitsV : forall ds acc, all_digits ds = true -> run (SV acc) ds = (SV (acc ++ ds), []).
Proof.
  induction ds as [|c ds IH]; intros acc H; cbn [run].
  - now rewrite app_nil_r.
  - unfold all_digits in H. cbn [forallb] in H. apply andb_true_iff in H as [Hc Hd].
    destruct (digit_facts c Hc) as [H0 Hi]. unfold step. rewrite H0, Hi.
    rewrite (IH (acc ++ [c]) Hd), <- app_assoc. reflexivity.
Qed.
Lemma step0_digit c : is_digit c = true -> step0 c = (SN1 [c], []).
Proof.
  intros H. unfold step0, is_sqlspace, DQ, SQ, BT. rewrite H. unfold is_digit in H.
  replace (c =? 32) with false by lia. replace (c =? 9) with false by lia. replace (c =? 10) with false by lia.
  replace (c =? 12) with false by lia. replace (c =? 13) with false by lia. replace (c =? 34) with false by lia.
  replace (c =? 39) with false by lia. replace (c =? 96) with false by lia. replace (c =? 91) with false by lia.
  reflexivity.
Qed.
Lemma run_number0 c ds : is_digit c = true -> all_digits ds = true -> run S0 (c :: ds) = (SN1 (c :: ds), []).
Proof.
  intros Hc Hd. cbn [run]. destruct (digit_facts c Hc) as [H0 _]. unfold step. rewrite H0, (step0_digit c Hc).
  rewrite (run_digits1 ds [c] Hd). reflexivity.
Qed.
Lemma Seg_digits ds : ds <> [] -> all_digits ds = true -> Seg (ds, [TNum ds]).
Proof.
  intros Hn Hd. destruct ds as [|c ds]; [congruence|]. unfold all_digits in Hd. cbn [forallb] in Hd.
  apply andb_true_iff in Hd as [Hc Hd]. exists (SN1 (c :: ds)), []. cbn [fst snd].
  rewrite (run_number0 c ds Hc Hd). repeat split.
Qed.

Lemma alnum_facts c : is_alnum_ c = true -> (c =? 0) = false /\ idchar c = true.
Proof. unfold idchar, is_alnum_, is_alpha_, is_digit. lia. Qed.
Lemma run_word : forall r acc, forallb is_alnum_ r = true -> run (SW acc) r = (SW (acc ++ r), []).
Proof.
  induction r as [|c r IH]; intros acc H; cbn [run].
  - now rewrite app_nil_r.
  - cbn [forallb] in H. apply andb_true_iff in H as [Hc Hd].
    destruct (alnum_facts c Hc) as [H0 Hi]. unfold step. rewrite H0, Hi.
    rewrite (IH (acc ++ [c]) Hd), <- app_assoc. reflexivity.
Qed.
Lemma step0_alpha c : is_alpha_ c = true -> step S0 c = (SW [c], []).
Proof.
  intros H. unfold step, step0, is_sqlspace, DQ, SQ, BT, idchar, is_alnum_. rewrite H. unfold is_alpha_ in H.
  replace (c =? 0) with false by lia.
  replace (c =? 32) with false by lia. replace (c =? 9) with false by lia. replace (c =? 10) with false by lia.
  replace (c =? 12) with false by lia. replace (c =? 13) with false by lia. replace (c =? 34) with false by lia.
  replace (c =? 39) with false by lia. replace (c =? 96) with false by lia. replace (c =? 91) with false by lia.
  replace (is_digit c) with false by (unfold is_digit; lia).
  replace (c =? 36) with false by lia. replace (c =? 63) with false by lia. replace (c =? 58) with false by lia.
  replace (c =? 64) with false by lia. replace (c =? 35) with false by lia.
  reflexivity.
Qed.
Lemma Seg_plain p : is_plain_name p = true -> Seg (p, [TWord p]).
Proof.
  destruct p as [|c r]; [discriminate|]. cbn [is_plain_name]. intros H. apply andb_true_iff in H as [Hc Hr].
  exists (SW (c :: r)), []. cbn [fst snd run]. rewrite (step0_alpha c Hc), (run_word r [c] Hr). repeat split.
Qed.
Lemma Seg_dollar n : Seg (36 :: digits n, [TVar (36 :: digits n)]).
Proof.
  exists (SV (36 :: digits n)), []. cbn [fst snd run]. change (step S0 36) with (SV [36], @nil stok). cbv beta iota.
  rewrite (run_digitsV (digits n) [36] (digits_all_digits n)). repeat split.
Qed.

(* ---------------------------------------------------------------- fixed pieces *)
Ltac lex0_fixed := unfold Lex0, lex0; vm_compute; reflexivity.
Ltac seg_fixed := unfold Seg, seg; eexists; eexists; split; [vm_compute; reflexivity | split; reflexivity].

(* ---------------------------------------------------------------- constants of a filter *)
Lemma span_digits_spec : forall s d r, span_digits s = (d, r) ->
  s = d ++ r /\ all_digits d = true /\ match r with c :: _ => is_digit c = false | [] => True end.
Proof.
  induction s as [|c s IH]; intros d r H; cbn [span_digits] in H.
  - inversion H; subst. repeat split.
  - destruct (is_digit c) eqn:Hc.
    + destruct (span_digits s) as [a b] eqn:E. inversion H; subst. destruct (IH a r eq_refl) as (H1 & H2 & H3).
      repeat split; [cbn; congruence | unfold all_digits; cbn [forallb]; rewrite Hc; exact H2 | exact H3].
    + inversion H; subst. repeat split. exact Hc.
Qed.

Lemma Seg_number s : is_number s = true -> Seg (s, [TNum s]).
Proof.
  unfold is_number. destruct (span_digits s) as [d r] eqn:E.
  destruct (span_digits_spec s d r E) as (Hs & Hd & Hr). destruct r as [|c r].
  - intros Hn. rewrite app_nil_r in Hs. subst s. apply Seg_digits; [destruct d; [discriminate|congruence]|exact Hd].
  - intros H. apply andb_true_iff in H as [H Hall]. apply andb_true_iff in H as [H Hnr].
    apply andb_true_iff in H as [Hdot Hnd]. apply N.eqb_eq in Hdot. subst c.
    destruct d as [|d0 d]; [discriminate|]. unfold all_digits in Hd. cbn [forallb] in Hd.
    apply andb_true_iff in Hd as [Hd0 Hd].
    exists (SN2 s), []. cbn [fst snd]. repeat split. subst s.
    change ((d0 :: d) ++ 46 :: r) with ((d0 :: d) ++ [46] ++ r). rewrite run_app, (run_number0 d0 d Hd0 Hd).
    rewrite run_app. cbn [run]. change (step (SN1 (d0 :: d)) 46) with (SN2 ((d0 :: d) ++ [46]), @nil stok).
    cbv beta iota. rewrite (run_digits2 r _ Hall). rewrite <- app_assoc. reflexivity.
Qed.

Lemma str_eqb_true a b : str_eqb a b = true -> a = b.
Proof. apply str_eqb_eq. Qed.

Lemma Seg_constant e : is_sql_constant e = true -> Seg (e, const_toks e).
Proof.
  unfold is_sql_constant, const_toks. intros H.
  destruct (str_eqb e (s2l "NULL")) eqn:E1; [apply str_eqb_true in E1; subst e; seg_fixed|].
  destruct (str_eqb e (s2l "true")) eqn:E2; [apply str_eqb_true in E2; subst e; seg_fixed|].
  destruct (str_eqb e (s2l "false")) eqn:E3; [apply str_eqb_true in E3; subst e; seg_fixed|].
  cbn [orb] in H |- *. destruct (signed e) eqn:Es.
  - destruct e as [|c t]; [discriminate|]. cbn [signed] in Es. cbn [tl firstn] in *.
    destruct (Seg_number t H) as (st & o & Hr & Hp & Ht). cbn [fst snd] in *.
    assert (Hd : exists d ds, t = d :: ds /\ is_digit d = true).
    { unfold is_number in H. destruct (span_digits t) as [d r] eqn:E. destruct (span_digits_spec t d r E) as (Hs & Hd & _).
      destruct d as [|d0 d]; [destruct r; cbn in H; try discriminate; rewrite andb_false_r in H; discriminate|].
      exists d0, (d ++ r). split; [exact Hs|]. unfold all_digits in Hd. cbn [forallb] in Hd.
      apply andb_true_iff in Hd. tauto. }
    destruct Hd as (d & ds & -> & Hdig). destruct (digit_facts d Hdig) as [Hd0 _].
    exists st, (TOp [c] :: o). cbn [fst snd]. split; [|split; [exact Hp|rewrite Ht; reflexivity]].
    cbn [run] in Hr |- *. unfold step in Hr at 1. rewrite Hd0 in Hr.
    apply orb_true_iff in Es as [Ec|Ec]; apply N.eqb_eq in Ec; subst c.
    + change (step S0 43) with (S0, [TOp [43]]). cbv beta iota. unfold step at 1. rewrite Hd0.
      destruct (step0 d) as [s1 o1]. destruct (run s1 ds) as [s2 o2]. inversion Hr; subst. reflexivity.
    + change (step S0 45) with (SOp 45, @nil stok). cbv beta iota. unfold step at 1. rewrite Hd0.
      unfold is_digit in Hdig.
      replace (d =? 45) with false by lia. replace (d =? 42) with false by lia.
      cbn [andb orb N.eqb Pos.eqb]. unfold flush_then.
      destruct (step0 d) as [s1 o1]. destruct (run s1 ds) as [s2 o2]. inversion Hr; subst. reflexivity.
  - apply Seg_number. exact H.
Qed.

(* ---------------------------------------------------------------- filterClause *)
Definition toks_ok (ts : list etok) : Prop := Forall (fun t => no_nul (sp t)) ts.
Definition Q (r : res (out * list etok)) : Prop := forall o ts', r = Ok (o, ts') -> Seg o /\ toks_ok ts'.
Definition Rec (rec : list etok -> res (out * list etok)) : Prop := forall ts, toks_ok ts -> Q (rec ts).

Lemma no_nul_strip_outer s : no_nul s -> no_nul (strip_outer s).
Proof.
  intros H. unfold strip_outer. destruct (has_prefix [SQ] s); [apply no_nul_trim_prefix, no_nul_trim_suffix, H|].
  destruct (has_prefix [DQ] s); [apply no_nul_trim_prefix, no_nul_trim_suffix, H|exact H].
Qed.

Lemma leaf_seg op nm o : no_nul (sp op) -> leaf true op nm = Ok o -> Seg o.
Proof.
  intros Hn. unfold leaf. cbn [andb].
  destruct ((cls op =? c_string) || (cls op =? c_value) && has_prefix [SQ] (sp op)) eqn:Es.
  - intros H. inversion H; subst. apply Seg_strlit.
    destruct (cls op =? c_string); [exact Hn|apply no_nul_trim_suffix, no_nul_trim_prefix, Hn].
  - unfold sql_escape. destruct (esc_scan 0 (length (strip_outer (sp op))) (strip_outer (sp op))); [|discriminate].
    pose proof (no_nul_strip_outer _ Hn) as He. destruct nm.
    + intros H. inversion H; subst. apply Seg_ident, He.
    + destruct (is_sql_constant (strip_outer (sp op))) eqn:Ec; [|discriminate].
      intros H. inversion H; subst. apply Seg_constant, Ec.
Qed.

Lemma is_next_ok c s ts r : is_next c s ts = Some r -> toks_ok ts -> toks_ok r.
Proof.
  unfold is_next. destruct ts as [|t ts]; [discriminate|]. destruct (tok_is t c s); [|discriminate].
  intros H Hok. inversion H; subst. inversion Hok; assumption.
Qed.
Lemma tnext_ok ts : toks_ok ts -> no_nul (sp (fst (tnext ts))) /\ toks_ok (snd (tnext ts)).
Proof.
  destruct ts as [|t ts]; cbn; intros H; [split; [reflexivity|constructor]|]. inversion H; subst. tauto.
Qed.
Lemma tl_ok ts : toks_ok ts -> toks_ok (tl ts).
Proof. destruct ts; cbn; intros H; [exact H|inversion H; assumption]. Qed.
Lemma skipn_ok n ts : toks_ok ts -> toks_ok (skipn n ts).
Proof. revert ts; induction n; intros ts H; cbn; [exact H|]. destruct ts; [exact H|]. apply IHn. inversion H; assumption. Qed.

Lemma Lex0_position : Lex0 (fx "POSITION(" [Wd "POSITION"; Op "("]). Proof. lex0_fixed. Qed.
Lemma Lex0_in : Lex0 (fx " IN " [Wd "IN"]). Proof. lex0_fixed. Qed.
Lemma Seg_gt0 : Seg (fx ") > 0" [Op ")"; Op ">"; TNum [48]]). Proof. seg_fixed. Qed.
Lemma Lex0_isnull : Lex0 (fx " IS NULL " [Wd "IS"; Wd "NULL"]). Proof. lex0_fixed. Qed.
Lemma Lex0_and : Lex0 (fx " AND " [Wd "AND"]). Proof. lex0_fixed. Qed.
Lemma Lex0_or : Lex0 (fx " OR " [Wd "OR"]). Proof. lex0_fixed. Qed.
Lemma Lex0_not : Lex0 (fx " NOT " [Wd "NOT"] +++ fx " " []). Proof. lex0_fixed. Qed.
Lemma Lex0_lp : Lex0 (fx "(" [Op "("]). Proof. lex0_fixed. Qed.
Lemma Lex0_rp : Lex0 (fx ")" [Op ")"]). Proof. lex0_fixed. Qed.
Lemma Lex0_where : Lex0 (fx "WHERE " [Wd "WHERE"]). Proof. lex0_fixed. Qed.
Lemma Lex0_space : Lex0 (fx " " []). Proof. lex0_fixed. Qed.
Lemma Lex0_comma : Lex0 comma. Proof. lex0_fixed. Qed.

Lemma cloop_ok fixd rec (Hrec : Rec rec) : forall (n : nat) (cj term acc : out) (first : bool) (cnt : nat) (ts : list etok),
  Lex0 cj -> starts_sep (fst cj) = true -> Seg term ->
  (if first then Lex0 acc else Seg acc) -> toks_ok ts -> Q (cloop fixd rec n cj term acc first cnt ts).
Proof.
  unfold Rec, Q in *.
  induction n as [|n IH]; intros cj term acc first cnt ts Hc Hcs Ht Ha Hts o ts' H; cbn [cloop] in H; [discriminate|].
  destruct (is_comma ts) as [ts1|] eqn:Ec.
  - pose proof (is_next_ok _ _ _ _ Ec Hts) as H1.
    destruct (rec ts1) as [[value ts2]| |] eqn:Er; try discriminate.
    destruct (Hrec ts1 H1 value ts2 Er) as [Hv H2].
    refine (IH _ _ _ false _ _ Hc Hcs Ht _ H2 o ts' H).
    assert (Hrest : Seg (fx "POSITION(" [Wd "POSITION"; Op "("] +++ value +++ fx " IN " [Wd "IN"] +++ term
                         +++ fx ") > 0" [Op ")"; Op ">"; TNum [48]])).
    { apply Lex0_Seg_app; [apply Lex0_position|]. apply Seg_Seg_app; [exact Hv|reflexivity|].
      apply Lex0_Seg_app; [apply Lex0_in|]. apply Seg_Seg_app; [exact Ht|reflexivity|apply Seg_gt0]. }
    destruct first.
    + apply Lex0_Seg_app; [exact Ha|]. apply Lex0_Seg_app; [apply Lex0_onil|exact Hrest].
    + apply Seg_Seg_app; [exact Ha| |].
      * cbn [oapp fst]. apply starts_sep_app, Hcs.
      * apply Lex0_Seg_app; [exact Hc|exact Hrest].
  - assert (Hacc : Seg acc) by (destruct first; [apply Lex0_Seg|]; exact Ha).
    destruct (fixd && Nat.leb 2 cnt); inversion H; subst; (split; [|exact Hts]); [|exact Hacc].
    apply Lex0_Seg_app; [apply Lex0_lp|]. apply Lex0_Seg. apply Seg_Lex0_app; [exact Hacc|reflexivity|apply Lex0_rp].
Qed.

Lemma dloop_ok rec (Hrec : Rec rec) : forall (n : nat) (infix : out) (is_eq list_ok : bool) (count : nat) (acc term : out) (ts : list etok),
  Lex0 (fx " " [] +++ infix +++ fx " " []) -> Lex0 acc -> Seg term -> toks_ok ts ->
  Q (dloop rec n infix is_eq list_ok count acc term ts).
Proof.
  unfold Rec, Q in *.
  induction n as [|n IH]; intros infix is_eq list_ok count acc term ts Hi Ha Ht Hts o ts' H; cbn [dloop] in H; [discriminate|].
  assert (Hat : Seg (acc +++ term)) by (apply Lex0_Seg_app; assumption).
  destruct (is_comma ts) as [ts1|] eqn:Ec.
  - pose proof (is_next_ok _ _ _ _ Ec Hts) as H1.
    destruct (is_eq && sp_is (peek1 ts1) "." && sp_is (peek2 ts1) "nil").
    + refine (IH _ _ _ _ _ _ _ Hi _ Seg_onil (skipn_ok 2 _ H1) o ts' H).
      apply Seg_Lex0_app; [exact Hat|reflexivity|apply Lex0_isnull].
    + destruct (rec ts1) as [[t ts2]| |] eqn:Er; try discriminate.
      destruct (Hrec ts1 H1 t ts2 Er) as [Hv H2].
      refine (IH _ _ _ _ _ _ _ Hi _ Hv H2 o ts' H).
      apply Seg_Lex0_app; [exact Hat|reflexivity|exact Hi].
  - destruct (Nat.ltb (S count) 2); [discriminate|].
    destruct (Nat.ltb 2 (S count) && negb list_ok); [discriminate|].
    inversion H; subst. split; assumption.
Qed.

Lemma infix_of_ok u i e l : infix_of u = Some (i, e, l) -> Lex0 (fx " " [] +++ i +++ fx " " []).
Proof.
  unfold infix_of.
  repeat match goal with |- context [if ?c then _ else _] => destruct c end; intros H; inversion H; subst; lex0_fixed.
Qed.

Lemma clause_body_ok rec n (Hrec : Rec rec) ts : toks_ok ts -> Q (clause_body true rec n ts).
Proof.
  intros Hts. unfold clause_body.
  destruct (tnext ts) as [op0 t0] eqn:E0. pose proof (tnext_ok ts Hts) as [Hop0 Ht0]. rewrite E0 in Hop0, Ht0. cbn [fst snd] in *.
  destruct (if sp_is op0 "+" || sp_is op0 "-" then let (nx, t2) := tnext t0 in (mk c_value (sp op0 ++ sp nx), t2) else (op0, t0))
    as [op1 t1] eqn:E1.
  assert (H1 : no_nul (sp op1) /\ toks_ok t1).
  { destruct (sp_is op0 "+" || sp_is op0 "-").
    - destruct (tnext t0) as [nx t2] eqn:En. pose proof (tnext_ok t0 Ht0) as [Hnx Ht2]. rewrite En in Hnx, Ht2.
      inversion E1; subst. cbn [sp fst snd] in *. split; [apply no_nul_app; tauto|exact Ht2].
    - inversion E1; subst. tauto. }
  destruct H1 as [Hop1 Ht1].
  destruct (if sp_is op1 "." || sp_is (peek1 t1) "nil" then (mk c_value (s2l "NULL"), tl t1) else (op1, t1)) as [op2 t2] eqn:E2.
  assert (H2 : no_nul (sp op2) /\ toks_ok t2).
  { destruct (sp_is op1 "." || sp_is (peek1 t1) "nil"); inversion E2; subst; [split; [reflexivity|apply tl_ok, Ht1]|tauto]. }
  destruct H2 as [Hop2 Ht2].
  intros o ts' H.
  destruct (is_lp t2) as [t3|] eqn:Elp.
  - pose proof (is_next_ok _ _ _ _ Elp Ht2) as Ht3.
    destruct (in_list (go_upper (sp op2)) ["CONTAINS"%string; "HAS"%string; "HASANY"%string; "CONTAINSALL"%string; "HASALL"%string]).
    + destruct (rec t3) as [[term t4]| |] eqn:Er; try discriminate.
      destruct (Hrec t3 Ht3 term t4 Er) as [Hterm Ht4].
      match type of H with match cloop ?fx ?r ?n ?c ?t ?a ?f ?cn ?s with _ => _ end = _ =>
        destruct (cloop fx r n c t a f cn s) as [[r5 t5]| |] eqn:Ecl; try discriminate;
        assert (Hq : Q (cloop fx r n c t a f cn s))
      end.
      { apply cloop_ok; try assumption; [destruct (in_list _ _); [apply Lex0_and|apply Lex0_or]
                                        |destruct (in_list _ _); reflexivity|apply Lex0_onil]. }
      destruct (Hq r5 t5 Ecl) as [Hr5 Ht5].
      destruct (is_rp t5) as [t6|] eqn:Erp; [|discriminate]. inversion H; subst.
      split; [exact Hr5|exact (is_next_ok _ _ _ _ Erp Ht5)].
    + destruct (in_list (go_upper (sp op2)) ["NOT"%string]).
      * destruct (rec t3) as [[term t4]| |] eqn:Er; try discriminate.
        destruct (Hrec t3 Ht3 term t4 Er) as [Hterm Ht4].
        destruct (is_rp t4) as [t5|] eqn:Erp; [|discriminate]. inversion H; subst.
        split; [|exact (is_next_ok _ _ _ _ Erp Ht4)].
        apply (Lex0_Seg_app (fx " NOT " [Wd "NOT"]) (fx " " [] +++ term)); [lex0_fixed|].
        apply Lex0_Seg_app; [apply Lex0_space|exact Hterm].
      * destruct (infix_of (go_upper (sp op2))) as [[[infix is_eq] list_ok]|] eqn:Ei; [|discriminate].
        destruct (rec t3) as [[term t4]| |] eqn:Er; try discriminate.
        destruct (Hrec t3 Ht3 term t4 Er) as [Hterm Ht4].
        destruct (dloop rec n infix is_eq list_ok 0 (fx "(" [Op "("]) term t4) as [[r5 t5]| |] eqn:Edl; try discriminate.
        destruct (dloop_ok rec Hrec n infix is_eq list_ok 0 _ term t4 (infix_of_ok _ _ _ _ Ei) Lex0_lp Hterm Ht4 r5 t5 Edl)
          as [Hr5 Ht5].
        destruct (is_rp t5) as [t6|] eqn:Erp; [|discriminate]. inversion H; subst.
        split; [|exact (is_next_ok _ _ _ _ Erp Ht5)].
        apply Lex0_Seg. apply Seg_Lex0_app; [exact Hr5|reflexivity|apply Lex0_rp].
  - destruct (leaf true op2 _) as [lo| |] eqn:El; try discriminate. inversion H; subst.
    split; [exact (leaf_seg _ _ _ Hop2 El)|exact Ht2].
Qed.

Lemma fclause_ok : forall fuel, Rec (fclause true fuel).
Proof.
  induction fuel as [|f IH]; intros ts Hts o ts' H; cbn [fclause] in H; [discriminate|].
  exact (clause_body_ok _ _ IH ts Hts o ts' H).
Qed.

Lemma wloop_ok : forall n acc ts o, Lex0 acc -> toks_ok ts -> wloop true n acc ts = Ok o -> Seg o.
Proof.
  induction n as [|n IH]; intros acc ts o Ha Hts H; cbn [wloop] in H; [discriminate|].
  destruct (fclause true (S (S (length ts))) ts) as [[c ts1]| |] eqn:Ef; try discriminate.
  destruct (fclause_ok _ ts Hts c ts1 Ef) as [Hc Hts1].
  destruct (is_comma ts1) as [ts2|] eqn:Ec.
  - refine (IH _ ts2 o _ (is_next_ok _ _ _ _ Ec Hts1) H).
    apply (Lex0_app acc). exact Ha. apply Seg_Lex0_app; [exact Hc|reflexivity|apply Lex0_and].
  - inversion H; subst. apply Lex0_Seg_app; assumption.
Qed.

Definition filters_ok (fs : list (list etok)) : Prop := Forall toks_ok fs.

Lemma where_exprs_ok : forall fs idx acc o, filters_ok fs -> Seg acc -> (idx = O -> Lex0 acc) ->
  where_exprs true idx fs acc = Ok o -> Seg o.
Proof.
  induction fs as [|ts fs IH]; intros idx acc o Hfs Ha H0 H; cbn [where_exprs] in H.
  - inversion H; subst. exact Ha.
  - inversion Hfs as [|? ? Hts Hrest]; subst. destruct ts as [|t ts].
    + apply (IH (S idx) acc o Hrest Ha); [discriminate|exact H].
    + match type of H with match wloop true ?n ?a ?s with _ => _ end = _ =>
        destruct (wloop true n a s) as [acc'| |] eqn:Ew; try discriminate; assert (Hl : Lex0 a) end.
      { destruct idx; cbn [Nat.ltb Nat.leb]; [apply H0; reflexivity|].
        apply Seg_Lex0_app; [exact Ha|reflexivity|apply Lex0_and]. }
      apply (IH (S idx) acc' o Hrest); [exact (wloop_ok _ _ _ _ Hl Hts Ew)|discriminate|exact H].
Qed.

Lemma where_clause_ok fs o : filters_ok fs -> where_clause true fs = Ok o -> Seg o.
Proof.
  intros Hfs. unfold where_clause. destruct fs as [|f fs].
  - intros H. inversion H. apply Seg_onil.
  - apply where_exprs_ok; [exact Hfs|apply Lex0_Seg, Lex0_where|intros _; apply Lex0_where].
Qed.

(* ---------------------------------------------------------------- NUL-freeness of substrings *)
Lemma no_nul_in s : no_nul s <-> forall c, In c s -> c <> 0.
Proof.
  unfold no_nul. rewrite forallb_forall. split; intros H c Hc; specialize (H c Hc).
  - apply negb_true_iff, N.eqb_neq in H. exact H.
  - apply negb_true_iff, N.eqb_neq. exact H.
Qed.
Lemma no_nul_incl a b : incl a b -> no_nul b -> no_nul a.
Proof. rewrite !no_nul_in. intros Hi Hb c Hc. apply Hb, Hi, Hc. Qed.
Lemma incl_trim_left s : incl (trim_left s) s.
Proof. induction s as [|c s IH]; cbn; [apply incl_refl|]. destruct (is_space c); [apply incl_tl, IH|apply incl_refl]. Qed.
Lemma incl_rev (s : str) : incl (rev s) s.
Proof. intros c Hc. apply in_rev. exact Hc. Qed.
Lemma incl_trim_space s : incl (trim_space s) s.
Proof.
  unfold trim_space. eapply incl_tran; [apply incl_rev|]. eapply incl_tran; [apply incl_trim_left|].
  eapply incl_tran; [apply incl_rev|]. apply incl_trim_left.
Qed.
Lemma no_nul_trim_space s : no_nul s -> no_nul (trim_space s).
Proof. apply no_nul_incl, incl_trim_space. Qed.
Lemma split_on_incl d : forall s p, In p (split_on d s) -> incl p s.
Proof.
  induction s as [|c s IH]; intros p Hp; cbn [split_on] in Hp.
  - destruct Hp as [<-|[]]. apply incl_refl.
  - destruct (c =? d).
    + destruct Hp as [<-|Hp]; [intros x []|apply incl_tl, IH, Hp].
    + destruct (split_on d s) as [|h t] eqn:E.
      * destruct Hp as [<-|[]]. intros x [<-|[]]. left. reflexivity.
      * destruct Hp as [<-|Hp].
        -- intros x [<-|Hx]; [left; reflexivity|right; apply (IH h); [left; reflexivity|exact Hx]].
        -- apply incl_tl, IH. right. exact Hp.
Qed.
Lemma split_on_nonempty d s : split_on d s <> [].
Proof. destruct s as [|c s]; cbn; [discriminate|]. destruct (c =? d); [discriminate|]. destruct (split_on d s); discriminate. Qed.
Lemma plain_no_nul p : is_plain_name p = true -> no_nul p.
Proof.
  destruct p as [|c r]; [discriminate|]. cbn [is_plain_name]. intros H. apply andb_true_iff in H as [Hc Hr].
  apply no_nul_cons. split; [unfold is_alpha_ in Hc; lia|]. unfold no_nul. rewrite forallb_forall in *.
  intros x Hx. specialize (Hr x Hx). destruct (alnum_facts x Hr) as [H0 _]. now rewrite H0.
Qed.
Lemma no_nul_replace_all pat rep : no_nul rep -> forall fuel s, no_nul s -> no_nul (replace_all pat rep fuel s).
Proof.
  intros Hrep. induction fuel as [|f IH]; intros s Hs; cbn [replace_all]; [exact Hs|].
  destruct s as [|c s]; [exact Hs|]. destruct (has_prefix pat (c :: s)).
  - apply no_nul_app. split; [exact Hrep|]. apply IH, no_nul_skipn, Hs.
  - apply no_nul_cons in Hs as [Hc Hs]. apply no_nul_cons. split; [exact Hc|apply IH, Hs].
Qed.
Lemma no_nul_strip_quotes s : no_nul s -> no_nul (strip_quotes s).
Proof. intros H. unfold strip_quotes. apply no_nul_trim_prefix, no_nul_trim_suffix, no_nul_replace_all; [reflexivity|exact H]. Qed.

(* ---------------------------------------------------------------- lists of items *)
Lemma Seg_app_onil a : Seg a -> Seg (a +++ onil).
Proof. unfold Seg, oapp. cbn [fst snd onil]. now rewrite !app_nil_r. Qed.

Lemma ojoin_seg d : Lex0 d -> starts_sep (fst d) = true -> forall l, Forall Seg l -> Seg (ojoin d l).
Proof.
  intros Hd Hs. induction l as [|x r IH]; intros Hl; [apply Seg_onil|]. inversion Hl as [|? ? Hx Hr]; subst.
  destruct r as [|y r]; [exact Hx|]. change (ojoin d (x :: y :: r)) with (x +++ d +++ ojoin d (y :: r)).
  apply Seg_Seg_app; [exact Hx| |apply Lex0_Seg_app; [exact Hd|apply IH, Hr]].
  cbn [oapp fst]. apply starts_sep_app, Hs.
Qed.

Lemma count_column_seg spec c : count_column spec = Some c -> Seg c.
Proof.
  unfold count_column. set (text := trim_space spec).
  destruct (negb (has_prefix (s2l "count(") (List.map lower text))); [discriminate|].
  destruct (index_of 41 text) as [k|]; [|discriminate].
  set (arg := firstn (k - 6) (skipn 6 text)). set (rest := skipn (k + 1) text).
  destruct (if str_eqb arg [42] then Some (fx "*" [Op "*"]) else if is_plain_name arg then Some (sql_ident arg, [TId arg]) else None)
    as [a|] eqn:Ea; [|discriminate].
  assert (Ha : Seg a).
  { destruct (str_eqb arg [42]); [inversion Ea; subst; apply Lex0_Seg; lex0_fixed|].
    destruct (is_plain_name arg) eqn:Ep; [|discriminate]. inversion Ea; subst. apply Seg_ident, plain_no_nul, Ep. }
  assert (Hr : Lex0 (fx "count(" [Wd "count"; Op "("] +++ a +++ fx ")" [Op ")"])).
  { apply Lex0_app; [lex0_fixed|]. apply Seg_Lex0_app; [exact Ha|reflexivity|apply Lex0_rp]. }
  destruct rest as [|r0 rest'].
  - intros H. inversion H; subst. apply Lex0_Seg, Hr.
  - destruct (has_prefix (s2l " as ") (List.map lower (r0 :: rest')) && is_plain_name (skipn 4 (r0 :: rest'))) eqn:E; [|discriminate].
    apply andb_true_iff in E as [_ Ep]. intros H. inversion H; subst.
    apply (Lex0_Seg_app _ _ Hr). apply Lex0_Seg_app; [lex0_fixed|]. apply Seg_ident, plain_no_nul, Ep.
Qed.

Lemma column_item_seg name : no_nul name -> Forall Seg (column_item true name).
Proof.
  intros Hn. unfold column_item. destruct (count_column name) as [c|] eqn:Ec.
  - constructor; [exact (count_column_seg _ _ Ec)|constructor].
  - pose proof (no_nul_trim_space _ Hn) as Ht. destruct (trim_space name) as [|t0 t]; constructor; [|constructor].
    apply Seg_ident, Ht.
Qed.

Lemma Lex0_star : Lex0 star. Proof. lex0_fixed. Qed.

Lemma column_list_seg cols : no_nul cols -> Seg (column_list true cols).
Proof.
  intros Hn. unfold column_list. destruct cols as [|c0 cols]; [apply Lex0_Seg, Lex0_star|].
  assert (H : Forall Seg (flat_map (column_item true) (split_on 44 (c0 :: cols)))).
  { apply Forall_flat_map, Forall_forall. intros p Hp. apply column_item_seg.
    eapply no_nul_incl; [apply (split_on_incl _ _ _ Hp)|exact Hn]. }
  destruct (flat_map (column_item true) (split_on 44 (c0 :: cols))) as [|i0 items]; [apply Lex0_Seg, Lex0_star|].
  apply ojoin_seg; [apply Lex0_comma|reflexivity|exact H].
Qed.

Lemma sort_part_seg part : no_nul part -> Seg (sort_part true part).
Proof.
  intros Hn. unfold sort_part. destruct (is_plain_name (trim_space part)) eqn:Ep; [apply Seg_plain, Ep|].
  apply Seg_ident, no_nul_trim_space, Hn.
Qed.

Lemma sort_list_seg vals : Forall no_nul vals -> Seg (sort_list true vals).
Proof.
  intros Hv. unfold sort_list.
  set (v := filter (fun x => match trim_space x with [] => false | _ => true end) vals).
  assert (Hvv : Forall no_nul v).
  { apply Forall_forall. intros x Hx. apply filter_In in Hx as [Hx _]. rewrite Forall_forall in Hv. apply Hv, Hx. }
  destruct v as [|v0 v']; [apply Seg_onil|].
  apply Lex0_Seg_app; [lex0_fixed|].
  assert (Hparts : Forall Seg (List.map (sort_part true) (flat_map (fun name => split_on 44 (sort_name name)) (v0 :: v')))).
  { apply Forall_map, Forall_flat_map. eapply Forall_impl; [|exact Hvv]. intros name Hname.
    apply Forall_forall. intros p Hp. apply sort_part_seg.
    eapply no_nul_incl; [apply (split_on_incl _ _ _ Hp)|]. apply no_nul_trim_prefix, Hname. }
  pose proof (ojoin_seg comma Lex0_comma eq_refl _ Hparts) as Hj.
  destruct (existsb (has_prefix [126]) (v0 :: v')).
  - apply Seg_Seg_app; [exact Hj|reflexivity|seg_fixed].
  - apply Seg_app_onil, Hj.
Qed.

Lemma span_all_digits : forall d, all_digits d = true -> span_digits d = (d, []).
Proof.
  induction d as [|c d IH]; intros H; [reflexivity|]. unfold all_digits in H. cbn [forallb] in H.
  apply andb_true_iff in H as [Hc Hd]. cbn [span_digits]. rewrite Hc, (IH Hd). reflexivity.
Qed.

Lemma itoa_seg z : Seg (itoa z).
Proof.
  unfold itoa. destruct (z <? 0)%Z.
  - set (d := digits (Z.to_N (- z))).
    assert (Hc : is_sql_constant (45 :: d) = true).
    { unfold is_sql_constant. cbn [signed tl]. replace ((45 =? 43) || (45 =? 45)) with true by reflexivity.
      unfold is_number. rewrite (span_all_digits d (digits_all_digits _)).
      pose proof (digits_nonempty (Z.to_N (- z))) as Hne. fold d in Hne. destruct d; [congruence|].
      cbn [nonempty]. now rewrite !orb_true_r. }
    pose proof (Seg_constant _ Hc) as H. unfold const_toks in H. cbn in H. exact H.
  - apply Seg_digits; [apply digits_nonempty|apply digits_all_digits].
Qed.

Lemma paging_seg l s : Seg (paging l s).
Proof.
  unfold paging. apply Lex0_Seg_app; [lex0_fixed|].
  destruct s as [s|]; [destruct (s =? 0)%Z|]; try (apply Seg_app_onil, itoa_seg).
  apply Seg_Seg_app; [apply itoa_seg|reflexivity|]. apply Lex0_Seg_app; [lex0_fixed|apply itoa_seg].
Qed.

(* "a"."b"."c" *)
Lemma dotted_run : forall parts, parts <> [] -> Forall no_nul parts ->
  exists t lastp o, fst (ojoin dot (List.map (fun p => (sql_ident p, [TId p])) parts)) = DQ :: t
    /\ run (SQt DQ []) t = (SQq DQ lastp, o)
    /\ snd (ojoin dot (List.map (fun p => (sql_ident p, [TId p])) parts)) = o ++ [TId lastp].
Proof.
  induction parts as [|p r IH]; intros Hne Hall; [congruence|]. inversion Hall as [|? ? Hp Hr]; subst.
  destruct r as [|q r].
  - exists (double_q DQ p ++ [DQ]), p, []. cbn [List.map ojoin fst snd]. unfold sql_ident.
    rewrite (run_quoted DQ eq_refl p [] Hp). repeat split.
  - destruct (IH ltac:(discriminate) Hr) as (t & lastp & o & Ht & Hrun & Hsnd).
    change (List.map (fun p0 => (sql_ident p0, [TId p0])) (p :: q :: r))
      with ((sql_ident p, [TId p]) :: List.map (fun p0 => (sql_ident p0, [TId p0])) (q :: r)).
    set (rest := List.map (fun p0 => (sql_ident p0, [TId p0])) (q :: r)) in *.
    change (ojoin dot ((sql_ident p, [TId p]) :: rest)) with ((sql_ident p, [TId p]) +++ dot +++ ojoin dot rest).
    cbn [oapp fst snd]. rewrite Ht, Hsnd.
    exists ((double_q DQ p ++ [DQ]) ++ s2l "." ++ DQ :: t), lastp, ([TId p] ++ [TOp [46]] ++ o).
    split; [reflexivity|].
    split; [|reflexivity].
    rewrite run_app, (run_quoted DQ eq_refl p [] Hp). cbn [app]. change (s2l ".") with [46]. cbn [app run].
    change (step (SQq DQ p) 46) with (SOp 46, [TId p]). cbv beta iota.
    change (step (SOp 46) DQ) with (SQt DQ [], [TOp [46]]). cbv beta iota.
    rewrite Hrun. reflexivity.
Qed.

Lemma name_parts_ok pg user table : no_nul user -> no_nul table ->
  name_parts pg user table <> [] /\ Forall no_nul (name_parts pg user table).
Proof.
  intros Hu Ht. unfold name_parts. pose proof (no_nul_strip_quotes _ Hu) as Hu'. pose proof (no_nul_strip_quotes _ Ht) as Ht'.
  destruct (index_of 46 (strip_quotes table)).
  - split; [apply split_on_nonempty|]. apply Forall_forall. intros p Hp.
    eapply no_nul_incl; [apply (split_on_incl _ _ _ Hp)|exact Ht'].
  - destruct pg; split; try discriminate; repeat constructor; assumption.
Qed.

Lemma full_name_seg pg user table : no_nul user -> no_nul table -> Seg (full_name pg user table).
Proof.
  intros Hu Ht. destruct (name_parts_ok pg user table Hu Ht) as [Hne Hall].
  destruct (dotted_run _ Hne Hall) as (t & lastp & o & Hfst & Hrun & Hsnd).
  unfold full_name, Seg, seg. rewrite Hfst, Hsnd. exists (SQq DQ lastp), o.
  cbn [run]. change (step S0 DQ) with (SQt DQ [], @nil stok). cbv beta iota. rewrite Hrun. repeat split.
Qed.

(* ---------------------------------------------------------------- writeSpaceString *)
Lemma step_space_pending st : pending (fst (step st 32)) = true -> fst (step st 32) = S0.
Proof.
  destruct st; try reflexivity; try discriminate.
  - unfold step. change (32 =? 0) with false. cbv iota. destruct (32 =? q) eqn:E.
    + apply N.eqb_eq in E. subst q. cbn. discriminate.
    + cbn. discriminate.
  - unfold step. change (32 =? 0) with false. cbv iota. destruct (32 =? q) eqn:E; [cbn; discriminate|reflexivity].
  - unfold step, flush_then. change (32 =? 0) with false. cbv iota.
    change (32 =? 45) with false. change (32 =? 42) with false. change (is_digit 32) with false.
    change (32 =? 61) with false. change (32 =? 62) with false. change (32 =? 60) with false. change (32 =? 124) with false.
    rewrite !andb_false_r. reflexivity.
Qed.

Lemma ends_space_lex0 b : Seg b -> last (fst b) 0 = 32 -> Lex0 b.
Proof.
  intros (st & o & Hr & Hp & Ht) Hl.
  assert (Hne : fst b <> []) by (intros E; rewrite E in Hl; discriminate).
  rewrite (app_removelast_last 0 Hne), Hl in Hr. rewrite run_app in Hr.
  destruct (run S0 (removelast (fst b))) as [s1 o1] eqn:E1. cbn [run] in Hr.
  destruct (step s1 32) as [s2 o2] eqn:E2. inversion Hr; subst.
  pose proof (step_space_pending s1) as Hs. rewrite E2 in Hs. cbn [fst] in Hs. specialize (Hs Hp). subst st.
  unfold Lex0, lex0. rewrite (app_removelast_last 0 Hne), Hl, run_app, E1. cbn [run]. rewrite E2, Ht. cbn [finish].
  now rewrite !app_nil_r.
Qed.

Lemma wss_seg b s : Seg b -> Seg s -> Seg (wss b s).
Proof.
  intros Hb Hs. unfold wss. destruct (last (fst b) 0 =? 32) eqn:E.
  - apply N.eqb_eq in E. apply Lex0_Seg_app; [apply ends_space_lex0; assumption|exact Hs].
  - apply Lex0_Seg_app; [|exact Hs]. apply Seg_Lex0_app; [exact Hb|reflexivity|apply Lex0_space].
Qed.

(* ---------------------------------------------------------------- statements *)
Definition request_ok (r : request) : Prop :=
  no_nul (r_user r) /\ no_nul (r_table r) /\ no_nul (r_columns r) /\ filters_ok (r_filters r) /\ Forall no_nul (r_sort r).

Lemma form_select_ok sel r o : request_ok r -> form_select true sel r = Ok o -> Seg o.
Proof.
  intros (Hu & Ht & Hc & Hf & Hs). unfold form_select.
  set (b0 := if sel then wss (fx "SELECT" [Wd "SELECT"]) (column_list true (r_columns r)) else fx "DELETE" [Wd "DELETE"]).
  assert (Hb0 : Seg b0).
  { unfold b0. destruct sel; [apply wss_seg; [seg_fixed|apply column_list_seg, Hc]|seg_fixed]. }
  set (b1 := wss b0 (fx "FROM " [Wd "FROM"] +++ full_name (r_pg r) (r_user r) (r_table r))).
  assert (Hb1 : Seg b1).
  { unfold b1. apply wss_seg; [exact Hb0|]. apply Lex0_Seg_app; [lex0_fixed|apply full_name_seg; assumption]. }
  destruct (where_clause true (r_filters r)) as [w| |] eqn:Ew; try discriminate.
  pose proof (where_clause_ok _ _ Hf Ew) as Hw.
  set (b2 := if is_nil w then b1 else wss b1 w).
  assert (Hb2 : Seg b2) by (unfold b2; destruct (is_nil w); [exact Hb1|apply wss_seg; assumption]).
  set (b3 := if negb (is_nil (sort_list true (r_sort r))) && sel then wss b2 (sort_list true (r_sort r)) else b2).
  assert (Hb3 : Seg b3).
  { unfold b3. destruct (negb (is_nil (sort_list true (r_sort r))) && sel); [|exact Hb2].
    apply wss_seg; [exact Hb2|apply sort_list_seg, Hs]. }
  intros H. inversion H; subst. destruct sel; [apply wss_seg; [exact Hb3|apply paging_seg]|exact Hb3].
Qed.

Lemma form_insert_ok pg user table keys : no_nul user -> no_nul table -> Forall no_nul keys ->
  Seg (form_insert pg user table keys).
Proof.
  intros Hu Ht Hk. unfold form_insert.
  apply Seg_Seg_app; [seg_fixed|reflexivity|]. apply Lex0_Seg_app; [lex0_fixed|].
  assert (Hd : forall n i, Forall Seg (dollars i n)).
  { induction n as [|n IH]; intros i; cbn [dollars]; constructor; [apply Seg_dollar|apply IH]. }
  assert (Htail : Seg (fx ") VALUES (" [Op ")"; Wd "VALUES"; Op "("] +++ ojoin comma (dollars 1 (length keys)) +++ fx ")" [Op ")"])).
  { apply Lex0_Seg_app; [lex0_fixed|]. apply Lex0_Seg.
    apply Seg_Lex0_app; [apply ojoin_seg; [apply Lex0_comma|reflexivity|apply Hd]|reflexivity|apply Lex0_rp]. }
  apply Seg_Seg_app; [apply full_name_seg; assumption| |].
  - destruct keys; reflexivity.
  - destruct keys as [|k keys]; [apply Lex0_Seg_app; [apply Lex0_onil|exact Htail]|].
    apply Seg_Seg_app; [|reflexivity|exact Htail].
    apply Lex0_Seg_app; [apply Lex0_lp|]. apply ojoin_seg; [apply Lex0_comma|reflexivity|].
    apply Forall_map. eapply Forall_impl; [|exact Hk]. intros a Ha. apply Seg_ident, Ha.
Qed.

Lemma wss_lex0 b s : Seg b -> Lex0 s -> Lex0 (wss b s).
Proof.
  intros Hb Hs. unfold wss. destruct (last (fst b) 0 =? 32) eqn:E.
  - apply N.eqb_eq in E. apply Lex0_app; [apply ends_space_lex0; assumption|exact Hs].
  - apply Lex0_app; [|exact Hs]. apply Seg_Lex0_app; [exact Hb|reflexivity|apply Lex0_space].
Qed.

Lemma set_item_seg k i : no_nul k ->
  Seg ((sql_ident k, [TId k]) +++ fx "=" [Op "="] +++ (36 :: digits i, [TVar (36 :: digits i)])).
Proof.
  intros Hk. exists (SV (36 :: digits i)), [TId k; TOp [61]]. cbn [oapp fst snd fx].
  split; [|split; reflexivity]. unfold sql_ident. change (s2l "=") with [61]. cbn [app run].
  change (step S0 DQ) with (SQt DQ [], @nil stok). cbv beta iota.
  rewrite run_app, (run_quoted DQ eq_refl k [] Hk). cbn [app run].
  change (step (SQq DQ k) 61) with (SOp 61, [TId k]). cbv beta iota.
  change (step (SOp 61) 36) with (SV [36], [TOp [61]]). cbv beta iota.
  rewrite (run_digitsV (digits i) [36] (digits_all_digits i)). reflexivity.
Qed.

Lemma form_update_ok pg user table keys rowid fs o : no_nul user -> no_nul table -> Forall no_nul keys -> filters_ok fs ->
  form_update true pg user table keys rowid fs = Ok o -> Seg o.
Proof.
  intros Hu Ht Hk Hf. unfold form_update.
  set (b0 := wss (fx "UPDATE" [Wd "UPDATE"]) (full_name pg user table)).
  assert (Hb0 : Seg b0) by (apply wss_seg; [seg_fixed|apply full_name_seg; assumption]).
  set (b1 := match keys with [] => b0 | _ => wss b0 (fx "SET " [Wd "SET"]) +++ ojoin comma (sets 1 keys) end).
  assert (Hb1 : Seg b1).
  { unfold b1. destruct keys as [|k keys]; [exact Hb0|].
    apply Lex0_Seg_app; [apply wss_lex0; [exact Hb0|lex0_fixed]|].
    apply ojoin_seg; [apply Lex0_comma|reflexivity|].
    assert (Hs : forall ks i, Forall no_nul ks -> Forall Seg (sets i ks)).
    { induction ks as [|a ks IH]; intros i Hks; cbn [sets]; constructor; inversion Hks; subst;
        [apply set_item_seg; assumption|apply IH; assumption]. }
    apply Hs, Hk. }
  destruct (where_clause true fs) as [w| |] eqn:Ew; try discriminate.
  pose proof (where_clause_ok _ _ Hf Ew) as Hw.
  set (rc := (sql_ident rowid_name, [TId rowid_name]) +++ fx " = " [Op "="]
             +++ (36 :: digits (N.of_nat (S (length keys))), [TVar (36 :: digits (N.of_nat (S (length keys))))])).
  assert (Hrc : Seg rc).
  { unfold rc. apply Seg_Seg_app; [apply Seg_ident; reflexivity|reflexivity|]. apply Lex0_Seg_app; [lex0_fixed|apply Seg_dollar]. }
  set (w' := if rowid then (if is_nil w then fx "WHERE " [Wd "WHERE"] +++ rc else w +++ fx " AND " [Wd "AND"] +++ rc) else w).
  assert (Hw' : Seg w').
  { unfold w'. destruct rowid; [|exact Hw]. destruct (is_nil w).
    - apply Lex0_Seg_app; [apply Lex0_where|exact Hrc].
    - apply Seg_Seg_app; [exact Hw|reflexivity|]. apply Lex0_Seg_app; [apply Lex0_and|exact Hrc]. }
  intros H. inversion H; subst. destruct (is_nil w'); [exact Hb1|apply wss_seg; assumption].
Qed.

(* ---------------------------------------------------------------- the code before the repairs *)
Definition q_inj : etok := mk c_string (s2l " OR 1=1 --").
Definition old_filters : list (list etok) :=
  [ [mk c_ident (s2l "EQ"); mk c_special [40]; mk c_ident (s2l "name"); mk c_special [44]; mk c_string (s2l "x'"); mk c_special [41]];
    [mk c_ident (s2l "EQ"); mk c_special [40]; mk c_ident (s2l "city"); mk c_special [44]; q_inj; mk c_special [41]] ].

Lemma old_refuted :
  (exists vals, Forall no_nul vals /\ sql_lex (fst (sort_list false vals)) <> snd (sort_list false vals)
                /\ In (TWord (s2l "password")) (sql_lex (fst (sort_list false vals))))
  /\ (exists cols, no_nul cols /\ sql_lex (fst (column_list false cols)) <> snd (column_list false cols)
                /\ In (TWord (s2l "secrets")) (sql_lex (fst (column_list false cols))))
  /\ (exists fs o, filters_ok fs /\ where_clause false fs = Ok o /\ sql_lex (fst o) <> snd o
                /\ ~ In (TStr (s2l " OR 1=1 --")) (sql_lex (fst o))).
Proof.
  split; [|split].
  - exists [s2l "(select password from users limit 1)"]. split; [repeat constructor|]. split.
    + vm_compute. discriminate.
    + vm_compute. tauto.
  - exists (s2l "count(*) from secrets --,id"). split; [reflexivity|]. split.
    + vm_compute. discriminate.
    + vm_compute. tauto.
  - exists old_filters. eexists. split; [repeat constructor|]. split; [vm_compute; reflexivity|]. split.
    + vm_compute. discriminate.
    + vm_compute. intuition discriminate.
Qed.
