(* Lint/Proofs.v — lemmas for C35. *)
From Common Require Import Base.
From Lint Require Import Model.
Open Scope N_scope.

(* ------------------------------------------------------------------ drop_while, trim *)
Lemma dw_weaken (p q : N -> bool) : (forall c, q c = true -> p c = true) ->
  forall s, drop_while p (drop_while q s) = drop_while p s.
Proof.
  intros H s. induction s as [|c r IH]; [reflexivity|]. cbn [drop_while].
  destruct (q c) eqn:Q.
  - rewrite (H c Q). exact IH.
  - reflexivity.
Qed.

Lemma dw_snoc p l c : drop_while p (l ++ [c]) =
  match drop_while p l with [] => if p c then [] else [c] | x => x ++ [c] end.
Proof.
  induction l as [|a l IH]; cbn [app drop_while]; [destruct (p c); reflexivity|].
  destruct (p a); [exact IH|reflexivity].
Qed.

Lemma dw_app_stop p a x b : p x = false -> drop_while p (a ++ x :: b) = drop_while p a ++ x :: b.
Proof.
  intros H. induction a as [|c a IH]; cbn [app drop_while]; [rewrite H; reflexivity|].
  destruct (p c); [exact IH|reflexivity].
Qed.

Lemma dw_forallb (P p : N -> bool) s : forallb P s = true -> forallb P (drop_while p s) = true.
Proof.
  induction s as [|c r IH]; [auto|]. cbn [drop_while]. destruct (p c); [|auto].
  cbn [forallb]. intros H. apply andb_true_iff in H. apply IH, H.
Qed.

Lemma cr_is_space c : (13 =? c) = true -> is_space c = true.
Proof. intros H. apply N.eqb_eq in H. subst. reflexivity. Qed.

Lemma rtrim_strip_cr s : rtrim (strip_cr s) = rtrim s.
Proof.
  unfold rtrim, strip_cr. rewrite rev_involutive. rewrite (dw_weaken is_space (N.eqb 13) cr_is_space). reflexivity.
Qed.

Lemma trim_strip_cr s : trim (strip_cr s) = trim s.
Proof. unfold trim. rewrite rtrim_strip_cr. reflexivity. Qed.

Lemma strip_cr_idem s : strip_cr (strip_cr s) = strip_cr s.
Proof.
  unfold strip_cr. rewrite rev_involutive. rewrite (dw_weaken (N.eqb 13) (N.eqb 13)); auto.
Qed.

Lemma strip_cr_cons x r : (13 =? x) = false -> strip_cr (x :: r) = x :: strip_cr r.
Proof.
  intros H. unfold strip_cr. cbn [rev]. rewrite dw_snoc.
  destruct (drop_while (N.eqb 13) (rev r)) eqn:E.
  - rewrite H. reflexivity.
  - rewrite rev_app_distr. reflexivity.
Qed.

Lemma strip_cr_starts c s : (13 =? c) = false -> starts_with c (strip_cr s) = starts_with c s.
Proof.
  intros Hc. destruct s as [|x r]; [reflexivity|].
  destruct (13 =? x) eqn:Hx.
  - apply N.eqb_eq in Hx. subst x. cbn [starts_with].
    assert (E : (13 =? c) = false) by exact Hc.
    unfold strip_cr. cbn [rev]. rewrite dw_snoc. destruct (drop_while (N.eqb 13) (rev r)) eqn:D.
    + rewrite N.eqb_refl. cbn [rev starts_with]. symmetry. exact Hc.
    + rewrite rev_app_distr. reflexivity.
  - rewrite strip_cr_cons by exact Hx. reflexivity.
Qed.

Lemma rtrim_cons c r : rtrim (c :: r) =
  match rtrim r with [] => if is_space c then [] else [c] | _ => c :: rtrim r end.
Proof.
  unfold rtrim. cbn [rev]. rewrite dw_snoc. destruct (drop_while is_space (rev r)) as [|y ys] eqn:E.
  - destruct (is_space c); reflexivity.
  - rewrite rev_app_distr. cbn [rev app]. destruct (rev ys ++ [y]) eqn:F.
    + destruct (rev ys); discriminate.
    + reflexivity.
Qed.

Lemma ltrim_idem s : ltrim (ltrim s) = ltrim s.
Proof. unfold ltrim. apply dw_weaken. auto. Qed.

Lemma ltrim_cons c r : ltrim (c :: r) = if is_space c then ltrim r else c :: r.
Proof. reflexivity. Qed.

Lemma rtrim_ltrim_comm s : rtrim (ltrim s) = ltrim (rtrim s).
Proof.
  induction s as [|c r IH]; [reflexivity|].
  rewrite ltrim_cons. destruct (is_space c) eqn:Sp.
  - rewrite IH. rewrite rtrim_cons, Sp. destruct (rtrim r) as [|y ys] eqn:E; [reflexivity|].
    rewrite (ltrim_cons c), Sp. reflexivity.
  - rewrite rtrim_cons, Sp. destruct (rtrim r) as [|y ys] eqn:E.
    + rewrite (ltrim_cons c), Sp. reflexivity.
    + rewrite (ltrim_cons c), Sp. reflexivity.
Qed.

Lemma trim_ltrim s : trim (ltrim s) = trim s.
Proof. unfold trim. rewrite rtrim_ltrim_comm, ltrim_idem. reflexivity. Qed.

Lemma rtrim_app_stop a x b : is_space x = false -> rtrim (a ++ x :: b) = a ++ x :: rtrim b.
Proof.
  intros H. unfold rtrim. rewrite rev_app_distr. cbn [rev]. rewrite <- app_assoc. cbn [app].
  rewrite dw_app_stop by exact H. rewrite rev_app_distr. cbn [rev]. rewrite rev_involutive.
  rewrite <- app_assoc. reflexivity.
Qed.

Lemma ltrim_app_stop a x b : is_space x = false -> ltrim (a ++ x :: b) = ltrim a ++ x :: b.
Proof. apply dw_app_stop. Qed.

Lemma trim_bracketed h : trim (91 :: h ++ [93]) = 91 :: h ++ [93].
Proof.
  unfold trim.
  assert (E : rtrim (91 :: h ++ [93]) = 91 :: h ++ [93]).
  { change (91 :: h ++ [93]) with ((91 :: h) ++ 93 :: []). rewrite rtrim_app_stop by reflexivity. reflexivity. }
  rewrite E. reflexivity.
Qed.

(* ------------------------------------------------------------------ cut_eq *)
Definition no_eq (s : str) : bool := forallb (fun c => negb (c =? 61)) s.

Lemma cut_eq_spec s k v : cut_eq s = Some (k, v) -> s = k ++ 61 :: v /\ no_eq k = true.
Proof.
  revert k v. induction s as [|c r IH]; intros k v H; [discriminate|].
  cbn [cut_eq] in H. destruct (c =? 61) eqn:E.
  - inversion H; subst. apply N.eqb_eq in E. subst. split; reflexivity.
  - destruct (cut_eq r) as [[k' v']|]; [|discriminate]. inversion H; subst.
    destruct (IH k' v eq_refl) as [-> Hn]. split; [reflexivity|]. cbn. rewrite E. exact Hn.
Qed.

Lemma cut_eq_app k v : no_eq k = true -> cut_eq (k ++ 61 :: v) = Some (k, v).
Proof.
  induction k as [|c k IH]; intros H; [reflexivity|].
  cbn in H. apply andb_true_iff in H as [Hc Hk]. cbn [app cut_eq].
  destruct (c =? 61); [discriminate|]. rewrite (IH Hk). reflexivity.
Qed.

Lemma no_eq_ltrim k : no_eq k = true -> no_eq (ltrim k) = true.
Proof. apply dw_forallb. Qed.

(* ------------------------------------------------------------------ lines *)
Definition no_nl (s : str) : bool := forallb (fun c => negb (c =? 10)) s.

Lemma split_nl_nonnil s : split_nl s <> [].
Proof. destruct s as [|c r]; cbn; [discriminate|]. destruct (c =? 10); [discriminate|]. destruct (split_nl r); discriminate. Qed.

Lemma split_nl_line l r : no_nl l = true -> split_nl (l ++ 10 :: r) = l :: split_nl r.
Proof.
  induction l as [|c l IH]; intros H; [reflexivity|].
  cbn in H. apply andb_true_iff in H as [Hc Hl]. cbn [app split_nl].
  destruct (c =? 10); [discriminate|]. rewrite (IH Hl). reflexivity.
Qed.

Lemma split_join ls : Forall (fun l => no_nl l = true) ls -> split_nl (join_lines ls) = ls ++ [[]].
Proof.
  induction 1 as [|l ls Hl _ IH]; [reflexivity|].
  cbn [join_lines flat_map]. rewrite <- app_assoc. cbn [app].
  rewrite split_nl_line by exact Hl. fold (join_lines ls). rewrite IH. reflexivity.
Qed.

Lemma split_nl_no_nl s : Forall (fun l => no_nl l = true) (split_nl s).
Proof.
  induction s as [|c r IH]; [repeat constructor|]. cbn [split_nl].
  destruct (c =? 10) eqn:E; [constructor; [reflexivity|exact IH]|].
  destruct (split_nl r) as [|l ls]; [repeat constructor; cbn; rewrite E; reflexivity|].
  inversion IH; subst. constructor; [|assumption]. cbn. rewrite E. assumption.
Qed.

Lemma no_nl_rev s : no_nl (rev s) = no_nl s.
Proof.
  unfold no_nl. induction s as [|c r IH]; [reflexivity|]. cbn [rev forallb].
  rewrite forallb_app, IH. cbn. rewrite andb_true_r. apply andb_comm.
Qed.
Lemma no_nl_strip_cr s : no_nl s = true -> no_nl (strip_cr s) = true.
Proof. intros H. unfold strip_cr. rewrite no_nl_rev. apply dw_forallb. rewrite no_nl_rev. exact H. Qed.
Lemma no_nl_trim s : no_nl s = true -> no_nl (trim s) = true.
Proof. intros H. unfold trim, ltrim, rtrim. apply dw_forallb. rewrite no_nl_rev. apply dw_forallb. rewrite no_nl_rev. exact H. Qed.
Lemma no_nl_tl s : no_nl s = true -> no_nl (tl s) = true.
Proof. destruct s; cbn; [auto|]. intros H. apply andb_true_iff in H. apply H. Qed.
Lemma no_nl_removelast s : no_nl s = true -> no_nl (removelast s) = true.
Proof.
  induction s as [|c r IH]; [auto|]. intros H. cbn in H. apply andb_true_iff in H as [Hc Hr].
  cbn [removelast]. destruct r; [reflexivity|]. cbn [no_nl forallb]. rewrite Hc. exact (IH Hr).
Qed.

(* ------------------------------------------------------------------ one line, both tools *)
Lemma cclass_strip_cr raw : cclass (strip_cr raw) = cclass raw.
Proof. unfold cclass. rewrite strip_cr_starts by reflexivity. rewrite trim_strip_cr. reflexivity. Qed.

Lemma lclass_strip_cr raw : lclass true (strip_cr raw) = lclass true raw.
Proof. unfold lclass. rewrite strip_cr_idem. reflexivity. Qed.

Lemma cclass_entry line k v c t' :
  starts_with 35 line = false -> trim line = c :: t' -> (c =? 91) = false -> cut_eq line = Some (k, v) ->
  cclass line = CEntry (trim k) (rtrim v).
Proof.
  intros H35 Ht H91 Hc. destruct (cut_eq_spec _ _ _ Hc) as [-> Hn].
  assert (T : trim (k ++ 61 :: v) = ltrim k ++ 61 :: rtrim v).
  { unfold trim. rewrite rtrim_app_stop by reflexivity. apply ltrim_app_stop. reflexivity. }
  unfold cclass. rewrite H35. rewrite T in *.
  assert (Hcut : cut_eq (ltrim k ++ 61 :: rtrim v) = Some (ltrim k, rtrim v))
    by (apply cut_eq_app, no_eq_ltrim, Hn).
  remember (ltrim k ++ 61 :: rtrim v) as t eqn:Et.
  destruct t as [|c0 t0]; [discriminate|]. inversion Ht; subst c0 t0.
  rewrite H91, Hcut, trim_ltrim. reflexivity.
Qed.

Lemma line_corr raw :
  match lclass true raw with
  | LBlank => cclass raw = CSkip
  | LComment l => l = strip_cr raw /\ cclass raw = CSkip
  | LHeader h => cclass raw = CHeader h
  | LEntry k v => strip_cr raw = k ++ 61 :: v /\ cclass raw = CEntry (trim k) (rtrim v)
  | LBad => True
  end.
Proof.
  unfold lclass. rewrite <- (cclass_strip_cr raw).
  remember (strip_cr raw) as line eqn:El.
  destruct (trim line) as [|c t'] eqn:T.
  - unfold cclass. destruct (starts_with 35 line); [reflexivity|]. rewrite T. reflexivity.
  - destruct (starts_with 35 line) eqn:S.
    + split; [reflexivity|]. unfold cclass. rewrite S. reflexivity.
    + destruct (c =? 91) eqn:B.
      * destruct (ends_with 93 (c :: t')) eqn:E; [|exact I].
        unfold cclass. rewrite S, T, B, E. reflexivity.
      * destruct (cut_eq line) as [[k v]|] eqn:C; [|exact I].
        destruct k as [|k0 k']; [exact I|].
        split; [apply (cut_eq_spec _ _ _ C)|].
        exact (cclass_entry line (k0 :: k') v c t' S T B C).
Qed.

Definition header_line (h : str) : str := 91 :: h ++ [93].

Lemma ends_with_header_line h : ends_with 93 (header_line h) = true.
Proof. unfold ends_with, header_line. cbn [rev]. rewrite rev_app_distr. reflexivity. Qed.

Lemma middle_header_line h : middle (header_line h) = h.
Proof. unfold middle, header_line. cbn [tl]. apply removelast_last. Qed.

Lemma cclass_header_line h : cclass (header_line h) = CHeader h.
Proof.
  unfold cclass.
  assert (S : starts_with 35 (header_line h) = false) by reflexivity. rewrite S.
  assert (T : trim (header_line h) = header_line h) by apply trim_bracketed. rewrite T.
  pose proof (ends_with_header_line h) as E. pose proof (middle_header_line h) as M.
  assert (Hd : header_line h = 91 :: h ++ [93]) by reflexivity.
  remember (header_line h) as t eqn:Et. clear Et.
  destruct t as [|c0 t0]; [discriminate|]. inversion Hd; subst c0.
  cbv zeta. change (91 =? 91) with true. cbv iota. rewrite <- H1, E, M. reflexivity.
Qed.

Lemma strip_cr_snoc a x : (13 =? x) = false -> strip_cr (a ++ [x]) = a ++ [x].
Proof.
  intros H. unfold strip_cr. rewrite rev_app_distr. cbn [rev app drop_while]. rewrite H.
  change (x :: rev a) with ([x] ++ rev a). rewrite rev_app_distr, rev_involutive. reflexivity.
Qed.

Lemma lclass_header_line h : lclass true (header_line h) = LHeader h.
Proof.
  unfold lclass.
  assert (S : strip_cr (header_line h) = header_line h).
  { unfold header_line. change (91 :: h ++ [93]) with ((91 :: h) ++ [93]). apply strip_cr_snoc. reflexivity. }
  rewrite S.
  assert (S5 : starts_with 35 (header_line h) = false) by reflexivity. rewrite S5.
  assert (T : trim (header_line h) = header_line h) by apply trim_bracketed. rewrite T.
  pose proof (ends_with_header_line h) as E. pose proof (middle_header_line h) as M.
  assert (Hd : header_line h = 91 :: h ++ [93]) by reflexivity.
  remember (header_line h) as t eqn:Et. clear Et.
  destruct t as [|c0 t0]; [discriminate|]. inversion Hd; subst c0.
  change (91 =? 91) with true. cbv iota zeta. rewrite <- H1, E, M. reflexivity.
Qed.

Lemma no_nl_header_line h : no_nl h = true -> no_nl (header_line h) = true.
Proof. intros H. unfold header_line, no_nl. cbn [forallb]. rewrite forallb_app. fold (no_nl h). rewrite H. reflexivity. Qed.

(* what each rendered line must satisfy *)
Definition wf_comment (l : str) : Prop := lclass true l = LComment l /\ no_nl l = true.
Definition wf_entry (e : str * str) : Prop :=
  lclass true (entry_line e) = LEntry (fst e) (snd e) /\ no_nl (entry_line e) = true.
Definition wf_block (b : block) : Prop :=
  match b with
  | BComment ls => Forall wf_comment ls
  | BSection _ h es => no_nl h = true /\ Forall wf_entry es
  end.

Lemma wf_comment_cclass l : wf_comment l -> cclass l = CSkip.
Proof. intros [H _]. pose proof (line_corr l) as L. rewrite H in L. apply L. Qed.

Lemma wf_entry_cclass e : wf_entry e -> cclass (entry_line e) = CEntry (trim (fst e)) (rtrim (snd e)).
Proof. intros [H _]. pose proof (line_corr (entry_line e)) as L. rewrite H in L. apply L. Qed.

(* the classes langlint assigns give well-formed rendered lines *)
Lemma lclass_comment_wf raw l : no_nl raw = true -> lclass true raw = LComment l -> wf_comment l.
Proof.
  intros Hn H. pose proof (line_corr raw) as L. rewrite H in L. destruct L as [-> _].
  split; [rewrite lclass_strip_cr; exact H | apply no_nl_strip_cr, Hn].
Qed.

Lemma lclass_entry_wf raw k v : no_nl raw = true -> lclass true raw = LEntry k v -> wf_entry (k, v).
Proof.
  intros Hn H. pose proof (line_corr raw) as L. rewrite H in L. destruct L as [E _].
  unfold wf_entry, entry_line. cbn [fst snd app]. rewrite <- E.
  split; [rewrite lclass_strip_cr; exact H | apply no_nl_strip_cr, Hn].
Qed.

Lemma lclass_header_no_nl raw h : no_nl raw = true -> lclass true raw = LHeader h -> no_nl h = true.
Proof.
  intros Hn H. unfold lclass in H.
  destruct (trim (strip_cr raw)) as [|c t'] eqn:T; [discriminate|].
  destruct (starts_with 35 (strip_cr raw)); [discriminate|].
  destruct (c =? 91).
  - destruct (ends_with 93 (c :: t')); [|discriminate]. inversion H; subst h.
    unfold middle. apply no_nl_removelast, no_nl_tl. rewrite <- T. apply no_nl_trim, no_nl_strip_cr, Hn.
  - destruct (cut_eq (strip_cr raw)) as [[k v]|]; [|discriminate]. destruct k; discriminate.
Qed.

(* ------------------------------------------------------------------ stable sort *)
Lemma str_ltb_irrefl a : str_ltb a a = false.
Proof. induction a as [|x a IH]; [reflexivity|]. cbn. rewrite N.ltb_irrefl. exact IH. Qed.

Lemma str_ltb_asym : forall a b, str_ltb a b = true -> str_ltb b a = false.
Proof.
  induction a as [|x a IH]; intros b H; destruct b as [|y b]; cbn in *; try discriminate; try reflexivity.
  destruct (N.ltb_spec x y) as [L|L].
  - destruct (N.ltb_spec y x); [lia|reflexivity].
  - destruct (N.ltb_spec y x) as [L2|L2]; [discriminate|]. apply IH, H.
Qed.

Section Sort.
  Let sk := sort_key true.
  Let ins := insert_e true.
  Let srt := sort_e true.

  Lemma insert_forall (P : str * str -> Prop) x l : P x -> Forall P l -> Forall P (ins x l).
  Proof.
    intros Hx H. induction H as [|y r Hy Hr IH]; unfold ins; cbn [insert_e]; [repeat constructor; exact Hx|].
    destruct (str_ltb (sort_key true y) (sort_key true x));
      [constructor; [exact Hy|exact IH] | constructor; [exact Hx|constructor; assumption]].
  Qed.

  Lemma sort_forall (P : str * str -> Prop) l : Forall P l -> Forall P (srt l).
  Proof.
    induction 1 as [|x l Hx _ IH]; [constructor|]. unfold srt. cbn [sort_e fold_right].
    apply insert_forall; assumption.
  Qed.

  (* entries selected by a predicate that determines the sort key keep their order *)
  Lemma filter_insert (P : str * str -> bool) x l :
    (forall a b, P a = true -> P b = true -> sk a = sk b) ->
    filter P (ins x l) = if P x then x :: filter P l else filter P l.
  Proof.
    intros HP. induction l as [|y r IH]; [reflexivity|].
    cbn [ins insert_e]. destruct (str_ltb (sort_key true y) (sort_key true x)) eqn:L; [|reflexivity].
    cbn [filter]. fold ins. rewrite IH.
    destruct (P y) eqn:Py; [|reflexivity].
    destruct (P x) eqn:Px; [|reflexivity].
    exfalso. pose proof (HP _ _ Py Px) as E. unfold sk in E. rewrite E, str_ltb_irrefl in L. discriminate.
  Qed.

  Lemma filter_sort (P : str * str -> bool) l :
    (forall a b, P a = true -> P b = true -> sk a = sk b) -> filter P (srt l) = filter P l.
  Proof.
    intros HP. induction l as [|x l IH]; [reflexivity|].
    cbn [srt sort_e fold_right]. fold (sort_e true l). fold srt. fold ins.
    rewrite (filter_insert P x (srt l) HP), IH. reflexivity.
  Qed.

  (* sorted = no adjacent pair out of order *)
  Fixpoint sorted (l : list (str * str)) : Prop :=
    match l with
    | [] => True
    | x :: r => match r with [] => True | y :: _ => str_ltb (sk y) (sk x) = false end /\ sorted r
    end.

  Lemma insert_sorted x l : sorted l -> sorted (ins x l).
  Proof.
    induction l as [|y r IH]; intros H; [cbn; auto|].
    cbn [ins insert_e]. destruct (str_ltb (sort_key true y) (sort_key true x)) eqn:L.
    - fold ins. destruct H as [Hy Hr]. specialize (IH Hr). split; [|exact IH].
      destruct r as [|z r']; cbn [ins insert_e].
      + apply str_ltb_asym, L.
      + destruct (str_ltb (sort_key true z) (sort_key true x)); [exact Hy|apply str_ltb_asym, L].
    - split; [exact L|exact H].
  Qed.

  Lemma sort_sorted l : sorted (srt l).
  Proof. induction l as [|x l IH]; [exact I|]. cbn. apply insert_sorted, IH. Qed.

  Lemma sort_of_sorted l : sorted l -> srt l = l.
  Proof.
    induction l as [|x l IH]; intros H; [reflexivity|]. destruct H as [Hx Hl].
    cbn [srt sort_e fold_right]. fold (sort_e true l). fold srt. rewrite (IH Hl).
    destruct l as [|y r]; [reflexivity|]. cbn [insert_e]. fold sk. rewrite Hx. reflexivity.
  Qed.

  Lemma sort_idem l : srt (srt l) = srt l.
  Proof. apply sort_of_sorted, sort_sorted. Qed.

  Lemma sort_nonnil l : l <> [] -> srt l <> [].
  Proof.
    destruct l as [|x l]; [congruence|]. intros _. cbn [srt sort_e fold_right]. fold (sort_e true l).
    destruct (sort_e true l) as [|y r]; cbn [insert_e]; [discriminate|].
    destruct (str_ltb (sort_key true y) (sort_key true x)); discriminate.
  Qed.
End Sort.

(* ------------------------------------------------------------------ tables *)
Lemma lookup_app K a b : lookup K (a ++ b) = match lookup K a with Some m => Some m | None => lookup K b end.
Proof.
  induction a as [|[k m] a IH]; [reflexivity|]. cbn [app lookup].
  destruct (str_eqb k K); [reflexivity|exact IH].
Qed.

(* looking up in a reversed list only depends on the entries with that key, in order *)
Lemma lookup_rev_filter K (l : table) :
  lookup K (rev l) = lookup K (rev (filter (fun q => str_eqb (fst q) K) l)).
Proof.
  induction l as [|[k m] l IH]; [reflexivity|].
  cbn [rev filter fst]. rewrite lookup_app, IH.
  destruct (str_eqb k K) eqn:E.
  - cbn [rev]. rewrite lookup_app. cbn [lookup]. rewrite E. reflexivity.
  - cbn [lookup]. rewrite E. destruct (lookup K (rev (filter (fun q => str_eqb (fst q) K) l))); reflexivity.
Qed.

Lemma full_key_inj p a b : full_key p a = full_key p b -> a = b.
Proof.
  unfold full_key. destruct p as [|c p]; [auto|]. intros H.
  apply app_inv_head in H. inversion H. reflexivity.
Qed.

(* what a section block adds to the compiler's definitions *)
Definition def_of (p : str) (e : str * str) : str * str := (full_key p (trim (fst e)), rtrim (snd e)).
Definition add_entries (p : str) (es : list (str * str)) (t : table) : table := rev (map (def_of p) es) ++ t.

Definition block_effect (sorted_ : bool) (st : cstate) (b : block) : cstate :=
  match b with
  | BComment _ => st
  | BSection hh h es =>
      let p := if hh then h else fst st in
      (p, add_entries p (if sorted_ then sort_e true es else es) (snd st))
  end.

Definition cst_eq (a b : cstate) : Prop := fst a = fst b /\ table_eq (snd a) (snd b).

Lemma add_entries_sorted p es t : table_eq (add_entries p (sort_e true es) t) (add_entries p es t).
Proof.
  intros K. unfold add_entries. rewrite !lookup_app.
  rewrite (lookup_rev_filter K (map (def_of p) (sort_e true es))).
  rewrite (lookup_rev_filter K (map (def_of p) es)).
  assert (F : forall l, filter (fun q => str_eqb (fst q) K) (map (def_of p) l)
                        = map (def_of p) (filter (fun e => str_eqb (fst (def_of p e)) K) l)).
  { induction l as [|e l IH]; [reflexivity|]. cbn [map filter]. rewrite IH.
    destruct (str_eqb (fst (def_of p e)) K); reflexivity. }
  rewrite !F. rewrite filter_sort; [reflexivity|].
  intros a b Ha Hb. apply str_eqb_eq in Ha, Hb. unfold def_of in Ha, Hb. cbn [fst] in Ha, Hb.
  unfold sort_key. apply (full_key_inj p). congruence.
Qed.

Lemma add_entries_cong p es t t' : table_eq t t' -> table_eq (add_entries p es t) (add_entries p es t').
Proof. intros H K. unfold add_entries. rewrite !lookup_app. rewrite (H K). reflexivity. Qed.

Lemma block_effect_cong s a b blk : cst_eq a b -> cst_eq (block_effect s a blk) (block_effect s b blk).
Proof.
  intros [Hp Ht]. destruct blk as [ls|hh h es]; [split; assumption|].
  cbn [block_effect]. rewrite Hp. split; [reflexivity|]. cbn [snd]. apply add_entries_cong, Ht.
Qed.

Lemma block_effect_sorted a blk : cst_eq (block_effect true a blk) (block_effect false a blk).
Proof.
  destruct blk as [ls|hh h es]; [split; [reflexivity|intros K; reflexivity]|].
  cbn [block_effect]. split; [reflexivity|]. cbn [snd]. apply add_entries_sorted.
Qed.

Lemma cst_eq_trans a b c : cst_eq a b -> cst_eq b c -> cst_eq a c.
Proof. intros [H1 H2] [H3 H4]. split; [congruence|]. intros K. rewrite (H2 K). apply H4. Qed.

Lemma fold_effect_sorted bs : forall a b, cst_eq a b ->
  cst_eq (fold_left (block_effect true) bs a) (fold_left (block_effect false) bs b).
Proof.
  induction bs as [|blk bs IH]; intros a b H; [exact H|]. cbn [fold_left]. apply IH.
  eapply cst_eq_trans; [apply block_effect_sorted|]. apply block_effect_cong, H.
Qed.

(* ------------------------------------------------------------------ compiling rendered blocks *)
Definition ostep (acc : option cstate) (l : str) : option cstate :=
  match acc with Some s => cstep s l | None => None end.

Lemma fold_ostep_none ls : fold_left ostep ls None = None.
Proof. induction ls; [reflexivity|exact IHls]. Qed.

Lemma compile_lines_app a b st :
  compile_lines (a ++ b) st = match compile_lines a st with Some s => compile_lines b s | None => None end.
Proof.
  unfold compile_lines. fold ostep. rewrite fold_left_app.
  destruct (fold_left ostep a (Some st)); [reflexivity|apply fold_ostep_none].
Qed.

Lemma compile_lines_cons l ls st :
  compile_lines (l :: ls) st = match cstep st l with Some s => compile_lines ls s | None => None end.
Proof.
  unfold compile_lines. fold ostep. cbn [fold_left ostep].
  destruct (cstep st l); [reflexivity|apply fold_ostep_none].
Qed.

Lemma compile_comments ls st : Forall wf_comment ls -> compile_lines ls st = Some st.
Proof.
  induction 1 as [|l ls Hl _ IH]; [reflexivity|]. rewrite compile_lines_cons.
  unfold cstep. rewrite (wf_comment_cclass l Hl). exact IH.
Qed.

Lemma add_entries_cons p e es t : add_entries p (e :: es) t = add_entries p es (def_of p e :: t).
Proof. unfold add_entries. cbn [map rev]. rewrite <- app_assoc. reflexivity. Qed.

Lemma add_entries_snoc p e es t : add_entries p (es ++ [e]) t = def_of p e :: add_entries p es t.
Proof. unfold add_entries. rewrite map_app, rev_app_distr. reflexivity. Qed.

Lemma compile_entries p es : forall t, Forall wf_entry es ->
  compile_lines (map entry_line es) (p, t) = Some (p, add_entries p es t).
Proof.
  induction es as [|e es IH]; intros t H; [reflexivity|]. inversion H as [|? ? He Hes]; subst.
  cbn [map]. rewrite compile_lines_cons. unfold cstep. rewrite (wf_entry_cclass e He). cbn [fst snd].
  rewrite add_entries_cons. apply IH, Hes.
Qed.

Lemma compile_block b st : wf_block b -> compile_lines (block_lines true b) st = Some (block_effect true st b).
Proof.
  destruct b as [ls|hh h es]; cbn [wf_block block_lines block_effect].
  - apply compile_comments.
  - intros [Hh He]. pose proof (sort_forall wf_entry es He) as Hs. destruct st as [p t]. destruct hh.
    + change ([[91] ++ h ++ [93]] ++ map entry_line (sort_e true es)) with (header_line h :: map entry_line (sort_e true es)).
      rewrite compile_lines_cons. unfold cstep. rewrite cclass_header_line. cbn [fst snd].
      apply compile_entries, Hs.
    + cbn [app fst snd]. apply compile_entries, Hs.
Qed.

Lemma cstep_blank st : cstep st [] = Some st.
Proof. reflexivity. Qed.

Lemma compile_blocks bs : forall st, Forall wf_block bs ->
  compile_lines (blocks_lines true bs) st = Some (fold_left (block_effect true) bs st).
Proof.
  induction bs as [|b r IH]; intros st H; [reflexivity|]. inversion H as [|? ? Hb Hr]; subst.
  cbn [blocks_lines fold_left]. rewrite compile_lines_app, (compile_block b st Hb).
  destruct r as [|b2 r2]; [reflexivity|].
  rewrite compile_lines_cons, cstep_blank. apply IH, Hr.
Qed.

(* ------------------------------------------------------------------ parse against the compiler *)
Fixpoint prefix_of (bs : list block) : str :=          (* newest first *)
  match bs with
  | [] => []
  | BSection true h _ :: _ => h
  | _ :: r => prefix_of r
  end.

Fixpoint canon (bs : list block) : Prop :=             (* newest first *)
  match bs with
  | [] => True
  | b :: older =>
      match b with
      | BComment ls => ls <> [] /\ match older with BComment _ :: _ => False | _ => True end
      | BSection true _ _ => True
      | BSection false h es =>
          es <> [] /\ h = prefix_of older /\ match older with BSection _ _ _ :: _ => False | _ => True end
      end /\ canon older
  end.

Definition init_c : cstate := ([], []).

Definition Inv (pst : pstate) (cst : cstate) : Prop :=
  match pst with (bs, cp, seen) =>
    cst = fold_left (block_effect false) (rev bs) init_c /\ fst cst = cp /\ cp = prefix_of bs /\
    seen = map fst (snd cst) /\ Forall wf_block bs /\ canon bs
  end.

Lemma fold_rev_cons b bs :
  fold_left (block_effect false) (rev (b :: bs)) init_c =
  block_effect false (fold_left (block_effect false) (rev bs) init_c) b.
Proof. cbn [rev]. rewrite fold_left_app. reflexivity. Qed.

Lemma app_nonnil {A} (l : list A) x : l ++ [x] <> [].
Proof. destruct l; discriminate. Qed.

Ltac inv6 := unfold Inv; refine (conj _ (conj _ (conj _ (conj _ (conj _ _))))).

Lemma prefix_no_nl bs : Forall wf_block bs -> no_nl (prefix_of bs) = true.
Proof.
  induction 1 as [|b r Hb _ IH]; [reflexivity|].
  destruct b as [ls2|[|] h2 es2]; cbn [prefix_of]; try exact IH. apply Hb.
Qed.

Lemma pstep_inv pst cst raw pst' :
  Inv pst cst -> no_nl raw = true -> pstep true pst raw = Some pst' ->
  exists cst', cstep cst raw = Some cst' /\ Inv pst' cst'.
Proof.
  destruct pst as [[bs cp] seen]. intros (Hc & Hp & Hpre & Hseen & Hwf & Hcan) Hn Hs.
  unfold pstep in Hs. pose proof (line_corr raw) as L. unfold cstep.
  destruct (lclass true raw) as [|l|h|k v|] eqn:Lc.
  - (* blank *) inversion Hs; subst pst'. rewrite L. exists cst. split; [reflexivity|]. inv6; assumption.
  - (* comment *) destruct L as [El Lc']. rewrite Lc'. exists cst. split; [reflexivity|].
    pose proof (lclass_comment_wf raw l Hn Lc) as Wl.
    destruct bs as [|[ls|hh h es] r]; inversion Hs; subst pst'; clear Hs; inv6.
    + exact Hc.
    + exact Hp.
    + exact Hpre.
    + exact Hseen.
    + constructor; [constructor; [exact Wl|constructor]|constructor].
    + split; [split; [discriminate|exact I]|exact I].
    + rewrite fold_rev_cons in Hc |- *. exact Hc.
    + exact Hp.
    + exact Hpre.
    + exact Hseen.
    + pose proof (Forall_inv Hwf) as Hb. pose proof (Forall_inv_tail Hwf) as Hr.
      constructor; [|exact Hr]. cbn [wf_block] in *. apply Forall_app. split; [exact Hb|constructor; [exact Wl|constructor]].
    + destruct Hcan as [[Hne Hold] Hcr]. split; [split; [apply app_nonnil|exact Hold]|exact Hcr].
    + rewrite fold_rev_cons. cbn [block_effect]. exact Hc.
    + exact Hp.
    + exact Hpre.
    + exact Hseen.
    + constructor; [constructor; [exact Wl|constructor]|exact Hwf].
    + split; [split; [discriminate|exact I]|exact Hcan].
  - (* header *) rewrite L. inversion Hs; subst pst'; clear Hs.
    exists (h, snd cst). split; [reflexivity|]. inv6.
    + rewrite fold_rev_cons. rewrite <- Hc. reflexivity.
    + reflexivity.
    + reflexivity.
    + exact Hseen.
    + constructor; [|exact Hwf]. split; [exact (lclass_header_no_nl raw h Hn Lc)|constructor].
    + split; [exact I|exact Hcan].
  - (* entry *) destruct L as [El Lc']. rewrite Lc'.
    pose proof (lclass_entry_wf raw k v Hn Lc) as We.
    exists (fst cst, (full_key (fst cst) (trim k), rtrim v) :: snd cst). split; [reflexivity|].
    destruct bs as [|[ls|hh h es] r]; inversion Hs; subst pst'; clear Hs; inv6.
    + rewrite fold_rev_cons. rewrite <- Hc. reflexivity.
    + exact Hp.
    + exact Hpre.
    + cbn [dup_key map fst snd]. rewrite Hp, Hseen. reflexivity.
    + constructor; [|exact Hwf]. split; [rewrite Hpre; reflexivity|constructor; [exact We|constructor]].
    + split; [split; [discriminate|split; [exact Hpre|exact I]]|exact I].
    + rewrite fold_rev_cons. rewrite <- Hc. reflexivity.
    + exact Hp.
    + exact Hpre.
    + cbn [dup_key map fst snd]. rewrite Hp, Hseen. reflexivity.
    + constructor; [|exact Hwf]. split; [rewrite Hpre; apply prefix_no_nl, Hwf|constructor; [exact We|constructor]].
    + split; [split; [discriminate|split; [exact Hpre|exact I]]|exact Hcan].
    + (* append to the current section *)
      rewrite fold_rev_cons in Hc. rewrite fold_rev_cons.
      cbn [block_effect] in Hc |- *. rewrite add_entries_snoc. rewrite Hc. reflexivity.
    + exact Hp.
    + destruct hh; exact Hpre.
    + assert (Hh_cp : h = cp).
      { destruct hh; [rewrite Hpre; reflexivity|]. destruct Hcan as [(_ & Hh2 & _) _]. rewrite Hpre. exact Hh2. }
      cbn [dup_key map fst snd]. rewrite Hh_cp, <- Hp, Hseen. reflexivity.
    + pose proof (Forall_inv Hwf) as Hb. pose proof (Forall_inv_tail Hwf) as Hr. destruct Hb as [Hh Hes].
      constructor; [|exact Hr]. split; [exact Hh|]. apply Forall_app. split; [exact Hes|constructor; [exact We|constructor]].
    + destruct hh; [exact Hcan|]. destruct Hcan as [(Hne & Hh2 & Hold) Hcr].
      split; [split; [apply app_nonnil|split; assumption]|exact Hcr].
  - discriminate.
Qed.

Definition opstep (acc : option pstate) (l : str) : option pstate :=
  match acc with Some s => pstep true s l | None => None end.

Lemma fold_opstep_none ls : fold_left opstep ls None = None.
Proof. induction ls; [reflexivity|exact IHls]. Qed.

Lemma parse_lines_inv ls : forall pst cst pst',
  Forall (fun l => no_nl l = true) ls -> Inv pst cst ->
  fold_left opstep ls (Some pst) = Some pst' ->
  exists cst', compile_lines ls cst = Some cst' /\ Inv pst' cst'.
Proof.
  induction ls as [|l ls IH]; intros pst cst pst' Hn Hi Hf.
  - inversion Hf; subst. exists cst. split; [reflexivity|exact Hi].
  - cbn [fold_left opstep] in Hf. destruct (pstep true pst l) as [pst1|] eqn:Hs.
    + destruct (pstep_inv pst cst l pst1 Hi (Forall_inv Hn) Hs) as (cst1 & Hc1 & Hi1).
      destruct (IH pst1 cst1 pst' (Forall_inv_tail Hn) Hi1 Hf) as (cst' & Hc' & Hi').
      exists cst'. split; [|exact Hi']. rewrite compile_lines_cons, Hc1. exact Hc'.
    + rewrite fold_opstep_none in Hf. discriminate.
Qed.

Lemma Inv_init : Inv ([], [], []) init_c.
Proof. unfold Inv. repeat split; constructor. Qed.

Lemma parse_inv f bs cp seen : parse true f = Some (bs, cp, seen) ->
  exists cst, compile_lines (split_nl f) init_c = Some cst /\ Inv (bs, cp, seen) cst.
Proof.
  intros H. apply (parse_lines_inv (split_nl f) ([], [], []) init_c); [apply split_nl_no_nl|apply Inv_init|exact H].
Qed.

Lemma blocks_lines_no_nl bs : Forall wf_block bs -> Forall (fun l => no_nl l = true) (blocks_lines true bs).
Proof.
  induction 1 as [|b r Hb _ IH]; [constructor|]. cbn [blocks_lines]. apply Forall_app. split.
  - destruct b as [ls|hh h es]; cbn [block_lines wf_block] in *.
    + eapply Forall_impl; [|exact Hb]. intros l [_ H]. exact H.
    + destruct Hb as [Hh He]. apply Forall_app. split.
      * destruct hh; [|constructor]. constructor; [|constructor]. apply (no_nl_header_line h Hh).
      * apply Forall_forall. intros l Hl. apply in_map_iff in Hl as (e & <- & He2).
        pose proof (sort_forall wf_entry es He) as Hs. rewrite Forall_forall in Hs. apply (Hs e He2).
  - destruct r; [constructor|]. constructor; [reflexivity|exact IH].
Qed.

(* compiling the rendered file = the sorted block effects *)
Lemma compile_render bs : Forall wf_block bs ->
  compile_lines (split_nl (render true bs)) init_c = Some (fold_left (block_effect true) bs init_c).
Proof.
  intros H. unfold render. rewrite split_join by (apply blocks_lines_no_nl, H).
  rewrite compile_lines_app, (compile_blocks bs init_c H). reflexivity.
Qed.

Lemma Forall_rev' {A} (P : A -> Prop) l : Forall P l -> Forall P (rev l).
Proof. intros H. apply Forall_forall. intros x Hx. apply in_rev in Hx. rewrite Forall_forall in H. auto. Qed.

Lemma table_preserved f g : Format f = Some g ->
  exists t t', compile_defs f = Some t /\ compile_defs g = Some t' /\ table_eq t t'.
Proof.
  unfold Format, Format_gen. destruct (parse true f) as [[[bs cp] seen]|] eqn:P; [|discriminate].
  intros H. inversion H; subst g. clear H.
  destruct (parse_inv f bs cp seen P) as (cst & Hc & Hi). destruct Hi as (Hfold & _ & _ & _ & Hwf & _).
  pose proof (compile_render (rev bs) (Forall_rev' _ _ Hwf)) as Hr.
  exists (snd cst), (snd (fold_left (block_effect true) (rev bs) init_c)).
  unfold compile_defs. fold init_c. rewrite Hc, Hr. split; [reflexivity|]. split; [reflexivity|].
  rewrite Hfold.
  destruct (fold_effect_sorted (rev bs) init_c init_c) as [_ Ht]; [split; [reflexivity|intros K; reflexivity]|].
  intros K. symmetry. apply Ht.
Qed.

Lemma dup_reported f g : Format f = Some g ->
  forall K, reported f K = true <-> (2 <= defs_of f K)%nat.
Proof.
  unfold Format, Format_gen, reported, reported_gen, defs_of.
  destruct (parse true f) as [[[bs cp] seen]|] eqn:P; [|discriminate]. intros _ K.
  destruct (parse_inv f bs cp seen P) as (cst & Hc & Hi). destruct Hi as (_ & _ & _ & Hseen & _ & _).
  unfold compile_defs. fold init_c. rewrite Hc. cbn [option_map]. rewrite <- Hseen.
  rewrite Nat.ltb_lt. lia.
Qed.

(* ------------------------------------------------------------------ idempotence *)
Definition sortb (b : block) : block :=
  match b with BComment _ => b | BSection hh h es => BSection hh h (sort_e true es) end.

Lemma block_lines_sortb b : block_lines true (sortb b) = block_lines true b.
Proof. destruct b as [ls|hh h es]; [reflexivity|]. cbn [sortb block_lines]. rewrite sort_idem. reflexivity. Qed.

Lemma blocks_lines_sortb bs : blocks_lines true (map sortb bs) = blocks_lines true bs.
Proof.
  induction bs as [|b r IH]; [reflexivity|]. cbn [map blocks_lines]. rewrite block_lines_sortb, IH.
  destruct r; reflexivity.
Qed.

Lemma blocks_lines_snoc bs b :
  blocks_lines true (bs ++ [b]) =
  blocks_lines true bs ++ (match bs with [] => [] | _ => [[]] end) ++ block_lines true b.
Proof.
  induction bs as [|x r IH]; [cbn; rewrite app_nil_r; reflexivity|].
  cbn [app blocks_lines]. rewrite IH. destruct r as [|y r'].
  - cbn. rewrite app_nil_r. reflexivity.
  - cbn [app]. rewrite <- !app_assoc. reflexivity.
Qed.

Lemma parse_comments ls : forall acc r cp seen, Forall wf_comment ls ->
  fold_left opstep ls (Some (BComment acc :: r, cp, seen)) = Some (BComment (acc ++ ls) :: r, cp, seen).
Proof.
  induction ls as [|l ls IH]; intros acc r cp seen H; [rewrite app_nil_r; reflexivity|].
  cbn [fold_left opstep]. unfold pstep. destruct (Forall_inv H) as [Hl _]. rewrite Hl.
  rewrite (IH (acc ++ [l]) r cp seen (Forall_inv_tail H)). rewrite <- app_assoc. reflexivity.
Qed.

Lemma parse_entries es : forall hh h acc r cp seen, Forall wf_entry es ->
  exists seen', fold_left opstep (map entry_line es) (Some (BSection hh h acc :: r, cp, seen))
                = Some (BSection hh h (acc ++ es) :: r, cp, seen').
Proof.
  induction es as [|e es IH]; intros hh h acc r cp seen H; [exists seen; rewrite app_nil_r; reflexivity|].
  cbn [map fold_left opstep]. unfold pstep. destruct (Forall_inv H) as [He _]. rewrite He.
  destruct (IH hh h (acc ++ [(fst e, snd e)]) r cp (full_key h (dup_key true (fst e)) :: seen) (Forall_inv_tail H)) as (s' & Hs).
  exists s'. rewrite Hs. rewrite <- app_assoc. destruct e; reflexivity.
Qed.

Lemma opstep_blank pst : opstep (Some pst) [] = Some pst.
Proof. destruct pst as [[bs cp] seen]. reflexivity. Qed.

Lemma pstep_comment_new bs cp seen l :
  lclass true l = LComment l -> match bs with BComment _ :: _ => False | _ => True end ->
  pstep true (bs, cp, seen) l = Some (BComment [l] :: bs, cp, seen).
Proof. intros H Hb. unfold pstep. rewrite H. destruct bs as [|[ls0|hh0 h0 es0] r]; [reflexivity|contradiction|reflexivity]. Qed.

Lemma pstep_entry_new bs cp seen e :
  lclass true (entry_line e) = LEntry (fst e) (snd e) -> match bs with BSection _ _ _ :: _ => False | _ => True end ->
  pstep true (bs, cp, seen) (entry_line e)
  = Some (BSection false cp [(fst e, snd e)] :: bs, cp, full_key cp (dup_key true (fst e)) :: seen).
Proof. intros H Hb. unfold pstep. rewrite H. destruct bs as [|[ls0|hh0 h0 es0] r]; [reflexivity|reflexivity|contradiction]. Qed.

Lemma sortb_head_not_comment bs :
  match bs with BComment _ :: _ => False | _ => True end -> match map sortb bs with BComment _ :: _ => False | _ => True end.
Proof. destruct bs as [|[ls0|hh0 h0 es0] r]; auto. Qed.
Lemma sortb_head_not_section bs :
  match bs with BSection _ _ _ :: _ => False | _ => True end -> match map sortb bs with BSection _ _ _ :: _ => False | _ => True end.
Proof. destruct bs as [|[ls0|hh0 h0 es0] r]; auto. Qed.

Lemma reparse bs : Forall wf_block bs -> canon bs ->
  exists seen, fold_left opstep (blocks_lines true (rev bs)) (Some ([], [], [])) = Some (map sortb bs, prefix_of bs, seen).
Proof.
  induction bs as [|b older IH]; intros Hwf Hcan; [exists []; reflexivity|].
  pose proof (Forall_inv Hwf) as Hb. pose proof (Forall_inv_tail Hwf) as Hr. destruct Hcan as [Hcb Hco].
  destruct (IH Hr Hco) as (s0 & H0).
  cbn [rev]. rewrite blocks_lines_snoc, !fold_left_app, H0.
  clear H0 IH.
  assert (Hsep : forall sep : list str, sep = [] \/ sep = [[]] ->
            fold_left opstep sep (Some (map sortb older, prefix_of older, s0)) = Some (map sortb older, prefix_of older, s0)).
  { intros sep [->| ->]; reflexivity. }
  rewrite Hsep by (destruct (rev older); auto). clear Hsep.
  destruct b as [ls|hh h es].
  - (* comment block *)
    destruct Hcb as [Hne Hold]. cbn [block_lines wf_block] in *. destruct ls as [|l ls]; [congruence|].
    cbn [fold_left opstep]. destruct (Forall_inv Hb) as [Hl _].
    rewrite (pstep_comment_new _ _ _ l Hl (sortb_head_not_comment older Hold)).
    exists s0. refine (eq_trans (parse_comments ls [l] _ _ _ (Forall_inv_tail Hb)) _). reflexivity.
  - destruct Hb as [Hh Hes]. pose proof (sort_forall wf_entry es Hes) as Hs. destruct hh.
    + (* section with header *)
      change (block_lines true (BSection true h es)) with (header_line h :: map entry_line (sort_e true es)).
      cbn [fold_left opstep]. unfold pstep. rewrite lclass_header_line.
      destruct (parse_entries (sort_e true es) true h [] (map sortb older) h s0 Hs) as (s' & Hp).
      exists s'. refine (eq_trans Hp _). reflexivity.
    + (* entries continuing the section after a comment block / at the start of the file *)
      destruct Hcb as (Hne & Hh2 & Hold). cbn [block_lines app].
      pose proof (sort_nonnil es Hne) as Hsn. destruct (sort_e true es) as [|e1 rest] eqn:Es; [congruence|].
      cbn [map fold_left opstep]. destruct (Forall_inv Hs) as [He1 _].
      rewrite (pstep_entry_new _ _ _ e1 He1 (sortb_head_not_section older Hold)).
      destruct (parse_entries rest false (prefix_of older) [(fst e1, snd e1)] (map sortb older) (prefix_of older)
                  (full_key (prefix_of older) (dup_key true (fst e1)) :: s0) (Forall_inv_tail Hs)) as (s' & Hp).
      exists s'. refine (eq_trans Hp _). cbn [map sortb prefix_of]. rewrite Es, Hh2. destruct e1; reflexivity.
Qed.

Lemma idempotent f g : Format f = Some g -> Format g = Some g.
Proof.
  unfold Format, Format_gen. destruct (parse true f) as [[[bs cp] seen]|] eqn:P; [|discriminate].
  intros H. inversion H; subst g. clear H.
  destruct (parse_inv f bs cp seen P) as (cst & _ & Hi). destruct Hi as (_ & _ & _ & _ & Hwf & Hcan).
  destruct (reparse bs Hwf Hcan) as (s' & Hre).
  unfold parse, render. fold opstep.
  rewrite split_join by (apply blocks_lines_no_nl, Forall_rev', Hwf).
  rewrite fold_left_app, Hre. cbn [fold_left]. rewrite opstep_blank.
  rewrite <- map_rev, blocks_lines_sortb. reflexivity.
Qed.

(* ------------------------------------------------------------------ the code as found *)
Definition w1 : str := [91;115;93;10; 97;32;61;49;10; 97;61;50;10].                     (* "[s]\na =1\na=2\n" *)
Definition w2 : str := [91;115;93;10; 98;61;49;10; 32;91;120;61;93;10; 99;61;50;10].    (* "[s]\nb=1\n [x=]\nc=2\n" *)

Lemma old_witness1 :
  Format_old w1 = Some [91;115;93;10; 97;61;50;10; 97;32;61;49;10] /\                   (* "[s]\na=2\na =1\n" *)
  option_map (lookup [115;46;97]) (compile_defs w1) = Some (Some [50]) /\                (* s.a -> "2" *)
  option_map (lookup [115;46;97]) (compile_defs [91;115;93;10; 97;61;50;10; 97;32;61;49;10]) = Some (Some [49]) /\
  dup_count_gen false w1 = 0%nat /\ defs_of w1 [115;46;97] = 2%nat.
Proof. vm_compute. repeat split. Qed.

Lemma old_witness2 :
  Format_old w2 = Some [91;115;93;10; 32;91;120;61;93;10; 98;61;49;10; 99;61;50;10] /\  (* "[s]\n [x=]\nb=1\nc=2\n" *)
  option_map (lookup [115;46;98]) (compile_defs w2) = Some (Some [49]) /\                (* s.b -> "1" *)
  option_map (lookup [115;46;98]) (compile_defs [91;115;93;10; 32;91;120;61;93;10; 98;61;49;10; 99;61;50;10]) = Some None /\
  dup_count_gen false w2 = 0%nat.
Proof. vm_compute. repeat split. Qed.
