//go:build verif

package commands

// Overlaid into /repo/internal/commands by /verif/check C32 / C20. Runs the REAL route declarations
// (defineStaticRoutes + defineNativeAdminHandlers, the same calls setupServerRouter makes) and dumps
// endpoint, method and gate flags of every route, one per line:
//   ROUTE <hex endpoint> <method> <mustAuth> <canAuth> <lightweight> <n perms> <hex perm>...

import (
	"bufio"
	"encoding/hex"
	"encoding/json"
	"fmt"
	"os"
	"sort"
	"testing"

	"github.com/tucats/ego/internal/cli/settings"
	"github.com/tucats/ego/internal/defs"
)

func b2i(b bool) int {
	if b {
		return 1
	}

	return 0
}

func TestVerifRouteTable(t *testing.T) {
	// optional OAuth authorization-server routes are part of the table when enabled
	if os.Getenv("VERIF_OAUTH_AS") == "1" {
		settings.SetDefault(defs.OAuthASEnabledSetting, "true")
	}

	r := defineStaticRoutes()
	defineNativeAdminHandlers(r)

	out, err := os.Create(os.Getenv("VERIF_OUT"))
	if err != nil {
		t.Fatal(err)
	}
	defer out.Close()

	w := bufio.NewWriter(out)
	defer w.Flush()

	for _, x := range r.VerifRoutes() {
		fmt.Fprintf(w, "ROUTE %s %s %d %d %d %d", hex.EncodeToString([]byte(x.Endpoint)), x.Method,
			b2i(x.MustAuth), b2i(x.CanAuth), b2i(x.Lightweight), len(x.Perms))
		for _, p := range x.Perms {
			fmt.Fprintf(w, " %s", hex.EncodeToString([]byte(p)))
		}

		fmt.Fprintln(w)
	}
}

// TestVerifRealFind: VERIF_IN JSON {"builds":k,"calls":c,"reqs":[[method,path],...]} ->
// VERIF_OUT JSON [[[status,endpoint,method],...distinct...],...per request] on the real table,
// rebuilt `builds` times, `calls` FindRoute calls each.
func TestVerifRealFind(t *testing.T) {
	b, err := os.ReadFile(os.Getenv("VERIF_IN"))
	if err != nil {
		t.Fatal(err)
	}

	in := struct {
		Builds, Calls int
		Reqs          [][2]string
	}{}
	if err := json.Unmarshal(b, &in); err != nil {
		t.Fatal(err)
	}

	seen := make([]map[[3]string]bool, len(in.Reqs))
	for i := range seen {
		seen[i] = map[[3]string]bool{}
	}

	for k := 0; k < in.Builds; k++ {
		r := defineStaticRoutes()
		defineNativeAdminHandlers(r)

		for qi, q := range in.Reqs {
			for c := 0; c < in.Calls; c++ {
				rt, status := r.FindRoute(q[0], q[1], false)
				id := rt.VerifID()
				seen[qi][[3]string{fmt.Sprint(status), id[0], id[1]}] = true
			}
		}
	}

	out := [][][3]string{}

	for qi := range in.Reqs {
		l := [][3]string{}
		for k := range seen[qi] {
			l = append(l, k)
		}

		sort.Slice(l, func(i, j int) bool { return fmt.Sprint(l[i]) < fmt.Sprint(l[j]) })
		out = append(out, l)
	}

	ob, _ := json.Marshal(out)
	if err := os.WriteFile(os.Getenv("VERIF_OUT"), ob, 0o644); err != nil {
		t.Fatal(err)
	}
}
