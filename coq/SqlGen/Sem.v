(* SqlGen/Sem.v — the MEANING of table filters.
   filter      : abstract syntax of the documented filter language (docs/API.md: EQ LT LE GT GE AND OR NOT HAS HASALL,
                 plus the EQ(col,.nil) null test the generator knows)
   eval_filter : its documented meaning on a row, three-valued (None = unknown, as soon as a NULL is compared);
                 a row is selected when the result is Some true
   sexpr / eval_sql : SQL boolean expressions with SQLite's documented semantics for what the generator emits
                 (comparison, AND / OR / NOT in three-valued logic, IS NULL, POSITION(sub IN str) as in PostgreSQL)
   gen_filter  : the text + token template filterClause writes for a well formed filter (compared with the real
                 WhereClause byte for byte on every run)
   flat_of / where_ast : the expression SQL's precedence rules (OR < AND < NOT < comparison) make of that text.
                 The generator writes HAS(...) lists and NOT operands without parentheses, which is visible here.
   parse_where : a precedence parser from the confined token stream to sexpr (link between text and where_ast).
   Definitions only; proofs are in SemProofs.v. *)
From Coq Require Import String Ascii.
From Common Require Import Base.
From SqlGen Require Import Model.
Open Scope string_scope.
Open Scope list_scope.
Open Scope N_scope.

Inductive value := VNull | VInt (z : Z) | VText (s : str).
Definition trow := list (str * value).                       (* column name -> value *)
Inductive cmp := CEq | CLt | CLe | CGt | CGe.
Inductive operand := OCol (c : str) | OInt (z : Z) | OStr (s : str).
Inductive filter :=
| FCmp (o : cmp) (a b : operand)
| FIsNull (c : str)
| FAnd (l : list filter)
| FOr (l : list filter)
| FNot (f : filter)
| FHas (all : bool) (c : str) (vs : list str).

(* ------------------------------------------------------------------ three-valued logic *)
Definition and3 (a b : option bool) : option bool :=
  match a, b with
  | Some false, _ | _, Some false => Some false
  | Some true, Some true => Some true
  | _, _ => None
  end.
Definition or3 (a b : option bool) : option bool :=
  match a, b with
  | Some true, _ | _, Some true => Some true
  | Some false, Some false => Some false
  | _, _ => None
  end.
Definition not3 (a : option bool) : option bool := option_map negb a.

(* ------------------------------------------------------------------ values *)
Fixpoint col (r : trow) (c : str) : value :=
  match r with [] => VNull | (k, v) :: r' => if str_eqb k c then v else col r' c end.
Fixpoint has_col (r : trow) (c : str) : bool :=
  match r with [] => false | (k, _) :: r' => str_eqb k c || has_col r' c end.

Fixpoint str_compare (a b : str) : comparison :=      (* memcmp order: SQLite's BINARY collation *)
  match a, b with
  | [], [] => Eq
  | [], _ :: _ => Lt
  | _ :: _, [] => Gt
  | x :: a', y :: b' => match N.compare x y with Eq => str_compare a' b' | c => c end
  end.
Definition cmp_holds (o : cmp) (c : comparison) : bool :=
  match o, c with
  | CEq, Eq => true
  | CLt, Lt => true
  | CLe, Lt | CLe, Eq => true
  | CGt, Gt => true
  | CGe, Gt | CGe, Eq => true
  | _, _ => false
  end.
(* comparison of two SQL values: unknown with a NULL; integers before texts (SQLite storage class order) *)
Definition cmp3 (o : cmp) (a b : value) : option bool :=
  match a, b with
  | VNull, _ | _, VNull => None
  | VInt x, VInt y => Some (cmp_holds o (Z.compare x y))
  | VText x, VText y => Some (cmp_holds o (str_compare x y))
  | VInt _, VText _ => Some (cmp_holds o Lt)
  | VText _, VInt _ => Some (cmp_holds o Gt)
  end.

(* first position (0 based) of sub in s *)
Fixpoint find_sub (sub s : str) : option nat :=
  if has_prefix sub s then Some O
  else match s with [] => None | _ :: s' => option_map S (find_sub sub s') end.
Definition contains (s sub : str) : bool := match find_sub sub s with Some _ => true | None => false end.

(* ------------------------------------------------------------------ documented meaning of a filter *)
Definition opval (r : trow) (a : operand) : value :=
  match a with OCol c => col r c | OInt z => VInt z | OStr s => VText s end.
Definition has3 (v : value) (sub : str) : option bool :=
  match v with VText s => Some (contains s sub) | VNull => None | VInt _ => Some false end.

Fixpoint eval_filter (r : trow) (f : filter) : option bool :=
  match f with
  | FCmp o a b => cmp3 o (opval r a) (opval r b)
  | FIsNull c => Some (match col r c with VNull => true | _ => false end)
  | FAnd l => fold_right and3 (Some true) (List.map (eval_filter r) l)
  | FOr l => fold_right or3 (Some false) (List.map (eval_filter r) l)
  | FNot g => not3 (eval_filter r g)
  | FHas all c vs =>
      if all then fold_right and3 (Some true) (List.map (has3 (col r c)) vs)
      else fold_right or3 (Some false) (List.map (has3 (col r c)) vs)
  end.
Definition selects (r : trow) (f : filter) : bool := match eval_filter r f with Some true => true | _ => false end.

(* ------------------------------------------------------------------ SQL expressions *)
Inductive sexpr :=
| SCol (c : str) | SLit (v : value)
| SCmp (o : cmp) (a b : sexpr)
| SAnd (a b : sexpr) | SOr (a b : sexpr) | SNot (a : sexpr)
| SIsNull (a : sexpr)
| SPos (sub s : sexpr).                       (* POSITION(sub IN s): 1 based, 0 when absent *)

Definition truth (v : value) : option bool :=
  match v with VNull => None | VInt z => Some (negb (z =? 0)%Z) | VText _ => Some false end.
Definition of3 (b : option bool) : value :=
  match b with None => VNull | Some true => VInt 1 | Some false => VInt 0 end.

Fixpoint eval_sql (r : trow) (e : sexpr) : value :=
  match e with
  | SCol c => col r c
  | SLit v => v
  | SCmp o a b => of3 (cmp3 o (eval_sql r a) (eval_sql r b))
  | SAnd a b => of3 (and3 (truth (eval_sql r a)) (truth (eval_sql r b)))
  | SOr a b => of3 (or3 (truth (eval_sql r a)) (truth (eval_sql r b)))
  | SNot a => of3 (not3 (truth (eval_sql r a)))
  | SIsNull a => of3 (Some (match eval_sql r a with VNull => true | _ => false end))
  | SPos sub s =>
      match eval_sql r sub, eval_sql r s with
      | VText x, VText y => VInt (match find_sub x y with Some k => Z.of_nat (S k) | None => 0 end)
      | VNull, _ | _, VNull => VNull
      | _, _ => VInt 0
      end
  end.
Definition sql_selects (r : trow) (e : sexpr) : bool := match truth (eval_sql r e) with Some true => true | _ => false end.

(* ------------------------------------------------------------------ what SQL's precedence makes of the generated text *)
(* a disjunction (outer list) of conjunctions (inner lists) of atoms: the reading of an unparenthesised
   sequence  a AND b OR c AND d ...  *)
Definition flat := list (list sexpr).
Definition conj_expr (c : list sexpr) : sexpr :=
  match c with [] => SLit (VInt 1) | a :: r => fold_left SAnd r a end.
Definition flat_expr (d : flat) : sexpr :=
  match d with [] => SLit (VInt 0) | c :: r => fold_left (fun e c' => SOr e (conj_expr c')) r (conj_expr c) end.
(* text1 AND text2: the last conjunction of the first joins the first conjunction of the second *)
Fixpoint join_and (d1 d2 : flat) : flat :=
  match d1 with
  | [] => d2
  | [c] => match d2 with [] => [c] | c2 :: r2 => (c ++ c2) :: r2 end
  | c :: r => c :: join_and r d2
  end.
(* NOT text: applies to the first atom only *)
Definition not_flat (d : flat) : flat :=
  match d with (a :: c) :: r => (SNot a :: c) :: r | _ => d end.

Definition sop (a : operand) : sexpr :=
  match a with OCol c => SCol c | OInt z => SLit (VInt z) | OStr s => SLit (VText s) end.
Definition pos_gt0 (c sub : str) : sexpr := SCmp CGt (SPos (SLit (VText sub)) (SCol c)) (SLit (VInt 0)).

Fixpoint flat_of (f : filter) : flat :=
  match f with
  | FCmp o a b => [[SCmp o (sop a) (sop b)]]
  | FIsNull c => [[SIsNull (SCol c)]]
  | FAnd l => [[flat_expr (fold_right (fun g acc => join_and (flat_of g) acc) [] l)]]      (* parenthesised *)
  | FOr l => [[flat_expr (fold_right (fun g acc => flat_of g ++ acc) [] l)]]               (* parenthesised *)
  | FNot g => not_flat (flat_of g)
  | FHas all c vs =>
      let d := if all then [List.map (pos_gt0 c) vs] else List.map (fun v => [pos_gt0 c v]) vs in
      if Nat.leb 2 (length vs) then [[flat_expr d]] else d       (* repaired code: several values are parenthesised *)
  end.
(* the WHERE clause of several filters: joined with AND, no parentheses *)
Definition where_flat (fs : list filter) : flat := fold_right (fun g acc => join_and (flat_of g) acc) [] fs.
Definition where_ast (fs : list filter) : sexpr := flat_expr (where_flat fs).

(* the generator before the repair (HAS lists without parentheses) *)
Fixpoint flat_of_old (f : filter) : flat :=
  match f with
  | FCmp o a b => [[SCmp o (sop a) (sop b)]]
  | FIsNull c => [[SIsNull (SCol c)]]
  | FAnd l => [[flat_expr (fold_right (fun g acc => join_and (flat_of_old g) acc) [] l)]]      (* parenthesised *)
  | FOr l => [[flat_expr (fold_right (fun g acc => flat_of_old g ++ acc) [] l)]]               (* parenthesised *)
  | FNot g => not_flat (flat_of_old g)
  | FHas all c vs => if all then [List.map (pos_gt0 c) vs] else List.map (fun v => [pos_gt0 c v]) vs
  end.
(* the WHERE clause of several filters: joined with AND, no parentheses *)
Definition where_flat_old (fs : list filter) : flat := fold_right (fun g acc => join_and (flat_of_old g) acc) [] fs.
Definition where_ast_old (fs : list filter) : sexpr := flat_expr (where_flat_old fs).

(* precedence-safety: where the missing parentheses do not matter *)
Definition single_atom (d : flat) : bool := match d with [[_]] => true | _ => false end.
Definition single_conj (d : flat) : bool := match d with [_ :: _] => true | _ => false end.
Fixpoint safe (f : filter) : bool :=
  match f with
  | FCmp _ _ _ | FIsNull _ => true
  | FAnd l => forallb (fun g => safe g && single_conj (flat_of g)) l && Nat.leb 2 (length l)
  | FOr l => forallb safe l && Nat.leb 2 (length l)
  | FNot g => safe g && single_atom (flat_of g)
  | FHas _ _ vs => Nat.leb 1 (length vs)
  end.
(* the documented grammar: AND / OR take two or more sub-expressions, HAS / HASALL at least one value *)
Fixpoint wf (f : filter) : bool :=
  match f with
  | FCmp _ _ _ | FIsNull _ => true
  | FAnd l | FOr l => forallb wf l && Nat.leb 2 (length l)
  | FNot g => wf g
  | FHas _ _ vs => Nat.leb 1 (length vs)
  end.
Definition safe_where (fs : list filter) : bool :=
  match fs with
  | [] => false
  | [f] => safe f
  | _ => forallb (fun g => safe g && single_conj (flat_of g)) fs
  end.

(* ------------------------------------------------------------------ the text filterClause writes *)
Definition zlit (z : Z) : out :=
  if (z <? 0)%Z then (45 :: digits (Z.to_N (- z)), [TOp [45]; TNum (digits (Z.to_N (- z)))])
  else (digits (Z.to_N z), [TNum (digits (Z.to_N z))]).
Definition gen_operand (a : operand) : out :=
  match a with
  | OCol c => (sql_ident c, [TId c])
  | OInt z => zlit z
  | OStr s => (sql_strlit s, [TStr s])
  end.
Definition cmp_out (o : cmp) : out :=
  match o with
  | CEq => fx "=" [Op "="] | CLt => fx "<" [Op "<"] | CLe => fx "<=" [Op "<="]
  | CGt => fx ">" [Op ">"] | CGe => fx ">=" [Op ">="]
  end.
Definition gen_pos (c v : str) : out :=
  fx "POSITION(" [Wd "POSITION"; Op "("] +++ (sql_strlit v, [TStr v]) +++ fx " IN " [Wd "IN"] +++ (sql_ident c, [TId c])
     +++ fx ") > 0" [Op ")"; Op ">"; TNum [48]].
Definition infix_sep (s : out) : out := fx " " [] +++ s +++ fx " " [].

Fixpoint gen_filter (f : filter) : out :=
  match f with
  | FCmp o a b => fx "(" [Op "("] +++ gen_operand a +++ infix_sep (cmp_out o) +++ gen_operand b +++ fx ")" [Op ")"]
  | FIsNull c => fx "(" [Op "("] +++ (sql_ident c, [TId c]) +++ fx " IS NULL " [Wd "IS"; Wd "NULL"] +++ fx ")" [Op ")"]
  | FAnd l => fx "(" [Op "("] +++ ojoin (infix_sep (fx " AND " [Wd "AND"])) (List.map gen_filter l) +++ fx ")" [Op ")"]
  | FOr l => fx "(" [Op "("] +++ ojoin (infix_sep (fx " OR " [Wd "OR"])) (List.map gen_filter l) +++ fx ")" [Op ")"]
  | FNot g => fx " NOT " [Wd "NOT"] +++ fx " " [] +++ gen_filter g
  | FHas all c vs =>
      let body := ojoin (if all then fx " AND " [Wd "AND"] else fx " OR " [Wd "OR"]) (List.map (gen_pos c) vs) in
      if Nat.leb 2 (length vs) then fx "(" [Op "("] +++ body +++ fx ")" [Op ")"] else body
  end.
Definition gen_where (fs : list filter) : out :=
  match fs with
  | [] => onil
  | _ => fx "WHERE " [Wd "WHERE"] +++ ojoin (fx " AND " [Wd "AND"]) (List.map gen_filter fs)
  end.

(* the text before the repair *)
Fixpoint gen_filter_old (f : filter) : out :=
  match f with
  | FCmp o a b => fx "(" [Op "("] +++ gen_operand a +++ infix_sep (cmp_out o) +++ gen_operand b +++ fx ")" [Op ")"]
  | FIsNull c => fx "(" [Op "("] +++ (sql_ident c, [TId c]) +++ fx " IS NULL " [Wd "IS"; Wd "NULL"] +++ fx ")" [Op ")"]
  | FAnd l => fx "(" [Op "("] +++ ojoin (infix_sep (fx " AND " [Wd "AND"])) (List.map gen_filter_old l) +++ fx ")" [Op ")"]
  | FOr l => fx "(" [Op "("] +++ ojoin (infix_sep (fx " OR " [Wd "OR"])) (List.map gen_filter_old l) +++ fx ")" [Op ")"]
  | FNot g => fx " NOT " [Wd "NOT"] +++ fx " " [] +++ gen_filter_old g
  | FHas all c vs => ojoin (if all then fx " AND " [Wd "AND"] else fx " OR " [Wd "OR"]) (List.map (gen_pos c) vs)
  end.
Definition gen_where_old (fs : list filter) : out :=
  match fs with
  | [] => onil
  | _ => fx "WHERE " [Wd "WHERE"] +++ ojoin (fx " AND " [Wd "AND"]) (List.map gen_filter_old fs)
  end.

(* ------------------------------------------------------------------ parser: token stream -> sexpr (SQL precedence) *)
Definition is_word (t : stok) (w : string) : bool := match t with TWord s => str_eqb s (s2l w) | _ => false end.
Definition is_op (t : stok) (w : string) : bool := match t with TOp s => str_eqb s (s2l w) | _ => false end.
Definition cmp_of_tok (t : stok) : option cmp :=
  if is_op t "=" then Some CEq else if is_op t "<" then Some CLt else if is_op t "<=" then Some CLe
  else if is_op t ">" then Some CGt else if is_op t ">=" then Some CGe else None.
Definition num_val (s : str) : Z := Z.of_N (dec_val s).

Fixpoint p_or (fuel : nat) (ts : list stok) : option (sexpr * list stok) :=
  match fuel with
  | O => None
  | S n =>
      let p_primary (ts : list stok) : option (sexpr * list stok) :=
        match ts with
        | TId c :: r => Some (SCol c, r)
        | TStr s :: r => Some (SLit (VText s), r)
        | TNum d :: r => Some (SLit (VInt (num_val d)), r)
        | TOp m :: TNum d :: r =>
            if str_eqb m [45] then Some (SLit (VInt (- num_val d)), r)
            else if str_eqb m [40] then
              match p_or n (TNum d :: r) with
              | Some (e, t' :: r') => if is_op t' ")" then Some (e, r') else None
              | _ => None
              end
            else None
        | TWord w :: r =>
            if str_eqb w (s2l "POSITION") then
              match r with
              | TOp lp :: TStr s :: TWord i :: TId c :: TOp rp :: r' =>
                  if str_eqb lp [40] && str_eqb i (s2l "IN") && str_eqb rp [41]
                  then Some (SPos (SLit (VText s)) (SCol c), r') else None
              | _ => None
              end
            else None
        | t :: r => if is_op t "(" then
                      match p_or n r with
                      | Some (e, t' :: r') => if is_op t' ")" then Some (e, r') else None
                      | _ => None
                      end
                    else None
        | [] => None
        end in
      let p_cmp (ts : list stok) : option (sexpr * list stok) :=
        match p_primary ts with
        | Some (a, t :: r) =>
            if is_word t "IS" then
              match r with t2 :: r2 => if is_word t2 "NULL" then Some (SIsNull a, r2) else None | [] => None end
            else match cmp_of_tok t with
                 | Some o => match p_primary r with Some (b, r') => Some (SCmp o a b, r') | None => None end
                 | None => Some (a, t :: r)
                 end
        | x => x
        end in
      let fix p_not_k (k : nat) (ts : list stok) : option (sexpr * list stok) :=
        match k with
        | O => None
        | S k' => match ts with
                  | t :: r => if is_word t "NOT"
                              then match p_not_k k' r with Some (e, r') => Some (SNot e, r') | None => None end
                              else p_cmp ts
                  | [] => None
                  end
        end in
      let p_not (ts : list stok) : option (sexpr * list stok) := p_not_k (S (length ts)) ts in
      let fix and_tail (k : nat) (e : sexpr) (ts : list stok) : option (sexpr * list stok) :=
        match k with
        | O => None
        | S k' => match ts with
                  | t :: r => if is_word t "AND"
                              then match p_not r with Some (b, r') => and_tail k' (SAnd e b) r' | None => None end
                              else Some (e, ts)
                  | [] => Some (e, [])
                  end
        end in
      let p_and (ts : list stok) : option (sexpr * list stok) :=
        match p_not ts with Some (a, r) => and_tail (S (length r)) a r | None => None end in
      let fix or_tail (k : nat) (e : sexpr) (ts : list stok) : option (sexpr * list stok) :=
        match k with
        | O => None
        | S k' => match ts with
                  | t :: r => if is_word t "OR"
                              then match p_and r with Some (b, r') => or_tail k' (SOr e b) r' | None => None end
                              else Some (e, ts)
                  | [] => Some (e, [])
                  end
        end in
      match p_and ts with Some (a, r) => or_tail (S (length r)) a r | None => None end
  end.

Definition parse_where (ts : list stok) : option sexpr :=
  match ts with
  | t :: r => if is_word t "WHERE"
              then match p_or (S (length r)) r with Some (e, []) => Some e | _ => None end
              else None
  | [] => None
  end.

(* ------------------------------------------------------------------ helpers for the run *)
Fixpoint sexpr_eqb (a b : sexpr) : bool :=
  match a, b with
  | SCol x, SCol y => str_eqb x y
  | SLit VNull, SLit VNull => true
  | SLit (VInt x), SLit (VInt y) => (x =? y)%Z
  | SLit (VText x), SLit (VText y) => str_eqb x y
  | SCmp o a1 b1, SCmp o' a2 b2 =>
      match o, o' with CEq, CEq | CLt, CLt | CLe, CLe | CGt, CGt | CGe, CGe => true | _, _ => false end
      && sexpr_eqb a1 a2 && sexpr_eqb b1 b2
  | SAnd a1 b1, SAnd a2 b2 | SOr a1 b1, SOr a2 b2 | SPos a1 b1, SPos a2 b2 => sexpr_eqb a1 a2 && sexpr_eqb b1 b2
  | SNot a1, SNot a2 | SIsNull a1, SIsNull a2 => sexpr_eqb a1 a2
  | _, _ => false
  end.
(* ids (first column, integer) of the rows of a table a filter list selects by its documented meaning *)
Definition selected_ids (tbl : list trow) (fs : list filter) : list Z :=
  flat_map (fun r => if forallb (selects r) fs then match r with (_, VInt z) :: _ => [z] | _ => [] end else []) tbl.
Definition sql_selected_ids (tbl : list trow) (e : sexpr) : list Z :=
  flat_map (fun r => if sql_selects r e then match r with (_, VInt z) :: _ => [z] | _ => [] end else []) tbl.
