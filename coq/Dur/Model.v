(* Dur/Model.v — executable model of internal/util/time.go: FormatDuration (extended form)
   and ParseDuration (with parseDurationWithDays, egostrings.Atoi on its decimal path and
   time.ParseDuration on its integer fragment).  Definitions only; proofs are in Proofs.v.
   Strings are lists of code points (all < 128 inside the modelled fragment). *)
From Common Require Export Base.
Open Scope Z_scope.

Inductive res := Ok (z : Z) | Err | OOM.   (* OOM: input outside the modelled fragment *)

Definition c_sp := 32%N.  Definition c_minus := 45%N.  Definition c_plus := 43%N.
Definition c_dot := 46%N. Definition c_d := 100%N. Definition c_h := 104%N.
Definition c_m := 109%N.  Definition c_s := 115%N.  Definition c_n := 110%N.
Definition c_u := 117%N.

Definition two63 : Z := 9223372036854775808.
Definition two64 : Z := 18446744073709551616.
Definition wrap64 (z : Z) : Z := (z + two63) mod two64 - two63.

Definition digitsZ (z : Z) : str :=
  if z <? 0 then c_minus :: digits (Z.to_N (- z)) else digits (Z.to_N z).

(* ---------------------------------------------------------------- FormatDuration(d, true) *)
Definition ns_s : Z := 1000000000.
Definition ns_m : Z := 60000000000.
Definition ns_h : Z := 3600000000000.

(* one "<n><unit>" term, preceded by a space when the builder already holds more than one char *)
Definition term (acc : str) (n : Z) (u : N) : str :=
  acc ++ (if (1 <? Z.of_nat (length acc)) then [c_sp] else []) ++ digitsZ n ++ [u].

Definition format_ext (d : Z) : option str :=
  if d =? 0 then Some [48%N; c_s]
  else if Z.abs d <? ns_s then None                        (* d.String(): not modelled *)
  else
    let r0 : str := if d <? 0 then [c_minus] else [] in
    let a := Z.abs d in
    let hours := a / ns_h in                               (* int(d.Hours()) *)
    let r1 := if 0 <? hours then
                let r := if 23 <? hours then r0 ++ digitsZ (hours / 24) ++ [c_d] else r0 in
                let hrem := if 23 <? hours then hours mod 24 else hours in
                if 0 <? hrem then term r hrem c_h else r
              else r0 in
    let minutes := (a / ns_m) mod 60 in
    let r2 := if 1 <=? minutes then term r1 minutes c_m else r1 in
    let seconds := (a / ns_s) mod 60 in
    let r3 := if 1 <=? seconds then term r2 seconds c_s else r2 in
    Some r3.

(* ---------------------------------------------------------------- time.ParseDuration *)
(* character automaton equivalent to the library's leadingInt / unit slicing loop on the
   fragment without fractions; '.' leads to OOM *)
Inductive phase := PNum (x : Z) (pre : bool) | PUnit (v : Z) (u : str) | PErr | POom.

Definition unit_of (u : str) : option Z :=
  if str_eqb u [c_n; c_s] then Some 1
  else if str_eqb u [c_u; c_s] then Some 1000
  else if str_eqb u [c_m; c_s] then Some 1000000
  else if str_eqb u [c_s] then Some ns_s
  else if str_eqb u [c_m] then Some ns_m
  else if str_eqb u [c_h] then Some ns_h
  else None.

(* finish a "<v><u>" term: returns new total or None on unknown unit / overflow *)
Definition close_term (d v : Z) (u : str) : option Z :=
  match unit_of u with
  | None => None
  | Some k => if two63 / k <? v then None
              else let d' := (d + v * k) mod two64 in
                   if two63 <? d' then None else Some d'
  end.

Definition gp_step (st : Z * phase) (c : N) : Z * phase :=
  let '(d, ph) := st in
  match ph with
  | PErr | POom => st
  | PNum x pre =>
      if is_digit c then
        if two63 / 10 <? x then (d, PErr)
        else let x' := x * 10 + (Z.of_N c - 48) in
             if two63 <? x' then (d, PErr) else (d, PNum x' true)
      else if (c =? c_dot)%N then (d, POom)
      else if pre then (d, PUnit x [c]) else (d, PErr)
  | PUnit v u =>
      if is_digit c || (c =? c_dot)%N then
        match close_term d v u with
        | None => (d, PErr)
        | Some d' => if (c =? c_dot)%N then (d', POom) else (d', PNum (Z.of_N c - 48) true)
        end
      else (d, PUnit v (u ++ [c]))
  end.

Definition go_parse (s : str) : res :=
  let '(neg, body) := match s with
                      | c :: r => if (c =? c_minus)%N then (true, r)
                                  else if (c =? c_plus)%N then (false, r) else (false, s)
                      | [] => (false, s)
                      end in
  if str_eqb body [48%N] then Ok 0
  else match body with
  | [] => Err
  | _ =>
    match fold_left gp_step body (0, PNum 0 false) with
    | (_, POom) => OOM
    | (_, PErr) => Err
    | (_, PNum _ _) => Err                      (* missing unit *)
    | (d, PUnit v u) =>
        match close_term d v u with
        | None => Err
        | Some d' => if neg then Ok (- d') else if two63 - 1 <? d' then Err else Ok d'
        end
    end
  end.

(* ---------------------------------------------------------------- egostrings.Atoi, decimal path *)
(* argument never contains white space here; other paths (rune literal, 0x, 0o, 0b) are
   excluded by the alphabet check of parse_dur *)
Definition atoi (s : str) : option Z :=
  let '(neg, body) := match s with
                      | c :: r => if (c =? c_minus)%N then (true, r)
                                  else if (c =? c_plus)%N then (false, r) else (false, s)
                      | [] => (false, s)
                      end in
  match body with
  | [] => None
  | _ => if all_digits body then
           let v := Z.of_N (dec_val body) in
           if neg then (if two63 <? v then None else Some (- v))
           else (if two63 - 1 <? v then None else Some v)
         else None
  end.

(* ---------------------------------------------------------------- parseDurationWithDays *)
Definition is_space (c : N) : bool :=
  ((9 <=? c) && (c <=? 13) || (c =? 32) || (c =? 133) || (c =? 160))%N.

Record sc := { chars : str; mseen : bool; days : Z; hrs : Z; mins : Z; secs : Z; msec : Z; failed : bool }.
Definition sc0 := {| chars := []; mseen := false; days := 0; hrs := 0; mins := 0; secs := 0; msec := 0; failed := false |}.

Definition sc_step (st : sc) (ch : N) : sc :=
  if failed st then st else
  let ov := match chars st with [] => Some 0 | _ => atoi (chars st) end in
  match ov with
  | None => {| chars := chars st; mseen := mseen st; days := days st; hrs := hrs st; mins := mins st;
               secs := secs st; msec := msec st; failed := true |}
  | Some value =>
    let pending := mseen st && negb (match chars st with [] => true | _ => false end) in
    if (ch =? c_d)%N then
      {| chars := []; mseen := false; days := if pending then 0 else value; hrs := hrs st;
         mins := if pending then value else mins st; secs := secs st; msec := msec st; failed := false |}
    else if (ch =? c_h)%N then
      {| chars := []; mseen := false; days := days st; hrs := if pending then 0 else value;
         mins := if pending then value else mins st; secs := secs st; msec := msec st; failed := false |}
    else if (ch =? c_m)%N then
      {| chars := chars st; mseen := true; days := days st; hrs := hrs st; mins := mins st;
         secs := secs st; msec := msec st; failed := false |}
    else if (ch =? c_s)%N then
      if mseen st then
        {| chars := []; mseen := false; days := days st; hrs := hrs st; mins := mins st;
           secs := secs st; msec := value; failed := false |}
      else match chars st with
           | [] => st
           | _ => {| chars := []; mseen := false; days := days st; hrs := hrs st; mins := mins st;
                     secs := value; msec := msec st; failed := false |}
           end
    else
      let chars1 := if pending then [] else chars st in
      let mins1 := if pending then value else mins st in
      {| chars := if is_space ch then chars1 else chars1 ++ [ch]; mseen := false; days := days st;
         hrs := hrs st; mins := mins1; secs := secs st; msec := msec st; failed := false |}
  end.

Definition sc_finish (st : sc) : option (Z * Z * Z * Z * Z) :=
  if failed st then None else
  if mseen st then
    match chars st with
    | [] => Some (days st, hrs st, mins st, secs st, msec st)
    | _ => match atoi (chars st) with
           | None => None
           | Some v => Some (days st, hrs st, v, secs st, msec st)
           end
    end
  else match chars st with
       | [] => Some (days st, hrs st, mins st, secs st, msec st)
       | _ => None
       end.

Definition scan (s : str) : option (Z * Z * Z * Z * Z) := sc_finish (fold_left sc_step s sc0).

(* ---------------------------------------------------------------- ParseDuration (after the fix) *)
Definition in_alphabet (c : N) : bool :=
  is_digit c || (c =? c_sp)%N || (c =? c_d)%N || (c =? c_h)%N || (c =? c_m)%N || (c =? c_s)%N
  || (c =? c_minus)%N || (c =? c_plus)%N || (c =? c_dot)%N || (c =? c_n)%N || (c =? c_u)%N
  || (c =? 113)%N.

Fixpoint trim_left (s : str) : str :=
  match s with c :: r => if is_space c then trim_left r else s | [] => [] end.
Definition trim_right (s : str) : str :=
  fold_right (fun c acc => match acc with [] => if is_space c then [] else [c] | _ => c :: acc end) [] s.
Definition trim (s : str) : str := trim_right (trim_left s).

Definition fmt_hmsms (h m s ms : Z) : str :=
  digitsZ h ++ [c_h] ++ digitsZ m ++ [c_m] ++ digitsZ s ++ [c_s] ++ digitsZ ms ++ [c_m; c_s].

Definition parse_dur (s : str) : res :=
  if negb (forallb in_alphabet s) then OOM else
  if negb (existsb (N.eqb c_d) s) then
    go_parse (filter (fun c => negb (c =? c_sp)%N) s)
  else
    let t := trim s in
    let '(neg, body) := match t with
                        | c :: r => if (c =? c_minus)%N then (true, r) else (false, t)
                        | [] => (false, t)
                        end in
    match scan body with
    | None => Err
    | Some (dd, hh, mm, ss, ms) =>
        match go_parse (fmt_hmsms (wrap64 (hh + wrap64 (dd * 24))) mm ss ms) with
        | Ok v => Ok (if neg then - v else v)
        | r => r
        end
    end.

(* the unrepaired ParseDuration (before the fix: commit): kept so the recorded defect stays replayable *)
Definition parse_dur_old (s : str) : res :=
  if negb (forallb in_alphabet s) then OOM else
  if negb (existsb (N.eqb c_d) s) then go_parse s
  else match scan s with
       | None => Err
       | Some (dd, hh, mm, ss, ms) => go_parse (fmt_hmsms (wrap64 (hh + wrap64 (dd * 24))) mm ss ms)
       end.

(* ---------------------------------------------------------------- documented spellings *)
Inductive tok := TNum (n : Z) | TChar (c : N).
Definition tok_str (t : tok) : str := match t with TNum n => digitsZ n | TChar c => [c] end.
Definition flatten (ts : list tok) : str := concat (map tok_str ts).

Definition term_toks (o : option Z) (u : N) : list (list tok) :=
  match o with Some n => [[TNum n; TChar u]] | None => [] end.
Fixpoint join_toks (sep : list tok) (l : list (list tok)) : list tok :=
  match l with [] => [] | [x] => x | x :: r => x ++ sep ++ join_toks sep r end.
Definition spelling_toks (neg spaced : bool) (od oh om os : option Z) : list tok :=
  (if neg then [TChar c_minus] else []) ++
  join_toks (if spaced then [TChar c_sp] else [])
            (term_toks od c_d ++ term_toks oh c_h ++ term_toks om c_m ++ term_toks os c_s).
Definition spelling neg spaced od oh om os : str := flatten (spelling_toks neg spaced od oh om os).

Definition oz (o : option Z) : Z := match o with Some n => n | None => 0 end.
Definition spelling_abs (od oh om os : option Z) : Z :=
  oz od * 24 * ns_h + oz oh * ns_h + oz om * ns_m + oz os * ns_s.
Definition spelling_value (neg : bool) (od oh om os : option Z) : Z :=
  if neg then - spelling_abs od oh om os else spelling_abs od oh om os.
Definition onat (o : option Z) : Prop := match o with Some n => 0 <= n | None => True end.
Definition terms_ok (od oh om os : option Z) : Prop :=
  (od <> None \/ oh <> None \/ om <> None \/ os <> None) /\
  onat od /\ onat oh /\ onat om /\ onat os /\ spelling_abs od oh om os <= two63 - 1.
