(* Route/Proofs.v — lemmas for C32 *)
From Coq Require Import Permutation.
From Common Require Import Base.
From Route Require Import Model.
Open Scope N_scope.

(* ---------------------------------------------------------------- find / existsb / uniq *)
Lemma existsb_find_none {A} (f : A -> bool) l : existsb f l = false -> find f l = None.
Proof. induction l as [|a l IH]; cbn; [reflexivity|]. destruct (f a); cbn; [discriminate|exact IH]. Qed.

Lemma existsb_find_some {A} (f : A -> bool) l : existsb f l = true -> exists r, find f l = Some r.
Proof. induction l as [|a l IH]; cbn; [discriminate|]. destruct (f a); cbn; [eauto|exact IH]. Qed.

Lemma uniq_eq f cs a b :
  uniq f cs = true -> In a cs -> f a = true -> In b cs -> f b = true -> a = b.
Proof.
  unfold uniq. intros Hu Ha Hfa Hb Hfb.
  assert (Ia : In a (filter f cs)) by (apply filter_In; auto).
  assert (Ib : In b (filter f cs)) by (apply filter_In; auto).
  destruct (filter f cs) as [|x [|y l]]; cbn in *.
  - contradiction.
  - destruct Ia as [<-|[]], Ib as [<-|[]]. reflexivity.
  - discriminate.
Qed.

Lemma find_perm f cs cs' :
  Permutation cs cs' -> (uniq f cs = true \/ existsb f cs = false) -> find f cs' = find f cs.
Proof.
  intros P H.
  destruct (find f cs) as [a|] eqn:E1, (find f cs') as [b|] eqn:E2; try reflexivity.
  - apply find_some in E1 as [Ia Fa]. apply find_some in E2 as [Ib Fb].
    apply (Permutation_in _ (Permutation_sym P)) in Ib.
    destruct H as [H|H].
    + f_equal. eapply uniq_eq; eauto.
    + assert (existsb f cs = true) by (apply existsb_exists; eauto). congruence.
  - apply find_some in E1 as [Ia Fa]. apply (Permutation_in _ P) in Ia.
    pose proof (find_none _ _ E2 _ Ia). congruence.
  - apply find_some in E2 as [Ib Fb]. apply (Permutation_in _ (Permutation_sym P)) in Ib.
    pose proof (find_none _ _ E1 _ Ib). congruence.
Qed.

(* ---------------------------------------------------------------- aggregates *)
Lemma fold_min_perm l l' : Permutation l l' -> forall a, fold_left N.min l a = fold_left N.min l' a.
Proof.
  induction 1 as [|x l l' P IH|x y l|l l' l'' P1 IH1 P2 IH2]; intros a; cbn.
  - reflexivity.
  - apply IH.
  - f_equal. lia.
  - rewrite IH1. apply IH2.
Qed.

Lemma fold_max_perm l l' : Permutation l l' -> forall a, fold_left N.max l a = fold_left N.max l' a.
Proof.
  induction 1 as [|x l l' P IH|x y l|l l' l'' P1 IH1 P2 IH2]; intros a; cbn.
  - reflexivity.
  - apply IH.
  - f_equal. lia.
  - rewrite IH1. apply IH2.
Qed.

Lemma minc_perm cs cs' : Permutation cs cs' -> minc cs = minc cs'.
Proof. intros P. unfold minc. apply fold_min_perm, Permutation_map, P. Qed.
Lemma maxc_perm cs cs' : Permutation cs cs' -> maxc cs = maxc cs'.
Proof. intros P. unfold maxc. apply fold_max_perm, Permutation_map, P. Qed.
Lemma maxlen_perm cs cs' : Permutation cs cs' -> maxlen cs = maxlen cs'.
Proof. intros P. unfold maxlen. apply fold_max_perm, Permutation_map, P. Qed.

Lemma fold_min_le_acc l : forall a, fold_left N.min l a <= a.
Proof. induction l as [|x l IH]; cbn; intros a; [lia|]. etransitivity; [apply IH|lia]. Qed.
Lemma fold_min_le_in l : forall a x, In x l -> fold_left N.min l a <= x.
Proof.
  induction l as [|y l IH]; cbn; intros a x H; [contradiction|]. destruct H as [->|H].
  - etransitivity; [apply fold_min_le_acc|lia].
  - apply IH, H.
Qed.
Lemma fold_max_ge_acc l : forall a, a <= fold_left N.max l a.
Proof. induction l as [|x l IH]; cbn; intros a; [lia|]. etransitivity; [|apply IH]. lia. Qed.
Lemma fold_max_ge_in l : forall a x, In x l -> x <= fold_left N.max l a.
Proof.
  induction l as [|y l IH]; cbn; intros a x H; [contradiction|]. destruct H as [->|H].
  - etransitivity; [|apply fold_max_ge_acc]. lia.
  - apply IH, H.
Qed.

(* ---------------------------------------------------------------- the cascade is order independent *)
Lemma cascade_perm cs cs' ps :
  Permutation cs cs' -> det_body cs ps = true -> cascade cs' ps = cascade cs ps.
Proof.
  intros P H. unfold cascade, det_body in *.
  rewrite <- (minc_perm _ _ P), <- (maxc_perm _ _ P), <- (maxlen_perm _ _ P).
  destruct (existsb (exact ps) cs) eqn:E1.
  { rewrite (find_perm _ _ _ P (or_introl H)). destruct (existsb_find_some _ _ E1) as [r0 ->]. reflexivity. }
  rewrite (find_perm _ _ _ P (or_intror E1)), (existsb_find_none _ _ E1).
  destruct (existsb novar cs) eqn:E2.
  { rewrite (find_perm _ _ _ P (or_introl H)). destruct (existsb_find_some _ _ E2) as [r0 ->]. reflexivity. }
  rewrite (find_perm _ _ _ P (or_intror E2)), (existsb_find_none _ _ E2).
  destruct (minc cs <? maxc cs).
  { destruct (minc cs <? 100); [|reflexivity].
    rewrite (find_perm _ _ _ P (or_introl H)). reflexivity. }
  destruct (existsb (pc_eq ps) cs) eqn:E4.
  { rewrite (find_perm _ _ _ P (or_introl H)). destruct (existsb_find_some _ _ E4) as [r0 ->]. reflexivity. }
  rewrite (find_perm _ _ _ P (or_intror E4)), (existsb_find_none _ _ E4).
  rewrite (find_perm _ _ _ P (or_introl H)). reflexivity.
Qed.

Lemma choose_perm cs cs' m ps :
  Permutation cs cs' -> det cs ps = true -> choose cs' m ps = choose cs m ps.
Proof.
  intros P H. destruct cs as [|a [|b cs]].
  - apply Permutation_nil in P. subst. reflexivity.
  - apply Permutation_length_1_inv in P. subst. reflexivity.
  - pose proof (Permutation_length P) as L.
    destruct cs' as [|a' [|b' cs']]; cbn in L; try discriminate.
    cbn [choose det] in *. apply cascade_perm; assumption.
Qed.

Lemma filter_perm {A} (f : A -> bool) l l' : Permutation l l' -> Permutation (filter f l) (filter f l').
Proof.
  induction 1 as [|x l l' P IH|x y l|l l' l'' P1 IH1 P2 IH2]; cbn.
  - constructor.
  - destruct (f x); [constructor|]; exact IH.
  - destruct (f x), (f y); try reflexivity. apply perm_swap.
  - etransitivity; eassumption.
Qed.

Lemma perm_invariant_at T T' m ps :
  det (cands T m ps) ps = true -> Permutation T T' -> find_parts T' m ps = find_parts T m ps.
Proof.
  intros H P. unfold find_parts. apply choose_perm; [|exact H].
  unfold cands. apply filter_perm, P.
Qed.

Lemma perm_invariant T :
  unambiguous T -> forall T' method path, Permutation T T' -> find_route T' method path = find_route T method path.
Proof. intros U T' method path P. unfold find_route. apply perm_invariant_at; [apply U|exact P]. Qed.

(* ---------------------------------------------------------------- histories *)
Lemma run_app h1 : forall T h2, run T (h1 ++ h2) = run T h1 ++ run (T ++ regs h1) h2.
Proof.
  induction h1 as [|o h1 IH]; intros T h2; cbn.
  - rewrite app_nil_r. reflexivity.
  - destruct o as [r|m p]; cbn.
    + rewrite IH, <- app_assoc. reflexivity.
    + rewrite IH. reflexivity.
Qed.

Lemma history_table h m p : run [] (h ++ [Look m p]) = run [] h ++ [find_route (regs h) m p].
Proof. rewrite run_app. reflexivity. Qed.

Lemma stateless h h' m p :
  Permutation (regs h) (regs h') ->
  det (cands (regs h) (upper m) (split (norm_path p))) (split (norm_path p)) = true ->
  exists o, run [] (h ++ [Look m p]) = run [] h ++ [o] /\ run [] (h' ++ [Look m p]) = run [] h' ++ [o].
Proof.
  intros P D. exists (find_route (regs h) m p). rewrite !history_table. split; [reflexivity|].
  f_equal. f_equal. unfold find_route. apply perm_invariant_at; assumption.
Qed.

(* ---------------------------------------------------------------- fewer variables are preferred *)
Lemma fewest_vars cs m ps r c :
  choose cs m ps = Found r -> In c cs -> existsb (exact ps) cs = false -> nvars r <= nvars c.
Proof.
  intros H Ic E1. destruct cs as [|a [|b cs]].
  - contradiction.
  - cbn in H. destruct (meth_ok a m); [|discriminate]. destruct Ic as [<-|[]]. injection H as <-. lia.
  - cbn [choose] in H. remember (a :: b :: cs) as l eqn:Hl. clear Hl. unfold cascade in H.
    rewrite (existsb_find_none _ _ E1) in H.
    assert (Hmin : minc l <= nvars c) by (apply fold_min_le_in, in_map, Ic).
    destruct (find novar l) as [r0|] eqn:F2.
    { injection H as <-. apply find_some in F2 as [_ F2]. unfold novar in F2. unfold nvars. lia. }
    destruct (N.ltb_spec (minc l) (maxc l)) as [Hlt|Hge].
    { destruct (minc l <? 100); [|discriminate].
      destruct (find (fun c0 => nvars c0 =? minc l) l) as [r0|] eqn:F3; [|discriminate].
      injection H as <-. apply find_some in F3 as [_ F3]. lia. }
    assert (Hr : In r l).
    { destruct (find (pc_eq ps) l) as [r0|] eqn:F4.
      - injection H as <-. apply find_some in F4. tauto.
      - destruct (find (fun c0 => rlen c0 =? maxlen l) l) as [r0|] eqn:F5; [|discriminate].
        injection H as <-. apply find_some in F5. tauto. }
    assert (nvars r <= maxc l) by (apply fold_max_ge_in, in_map, Hr). lia.
Qed.

(* ---------------------------------------------------------------- the unrestricted claim fails *)
Definition sROOT : str := [47].
Definition sX : str := [47;120].
Definition sGET : str := [71;69;84].
Definition T_tie : list route := [mkRoute sROOT sGET; mkRoute sX sGET].

Lemma refuted : exists T T' m p, Permutation T T' /\ find_route T' m p <> find_route T m p.
Proof.
  exists T_tie, (rev T_tie), sGET, sX. split.
  - apply Permutation_rev.
  - vm_compute. discriminate.
Qed.

(* ---------------------------------------------------------------- the empty path *)
(* before the repair two routes that have nothing to do with the request were both candidates for
   the empty path and the first one visited won *)
Definition sA : str := [47;97].
Definition sB : str := [47;98].
Definition T_empty : list route := [mkRoute sA sGET; mkRoute sB sGET].

Lemma old_refuted : exists T T' m, Permutation T T' /\ find_route_old T' m [] <> find_route_old T m [].
Proof.
  exists T_empty, (rev T_empty), sGET. split.
  - apply Permutation_rev.
  - vm_compute. discriminate.
Qed.

(* after it the empty path is the root path *)
Lemma empty_is_root T m : find_route T m [] = find_route T m [SLASH].
Proof. reflexivity. Qed.

