(* Grants/Model.v — executable model of the table grant store and of the authorization decision of
   tucats/ego (internal/server/tables/security.go: GrantPermissions, DeletePermissions,
   DeletePermissionsByDSN, createTablePermissions, Authorized; the guard at the row endpoints in
   rows.go / rowsAbstract.go; internal/dsns ReadDSN / WriteDSN / DeleteDSN).  Definitions only. *)
From Common Require Import Base.
Open Scope N_scope.

Record row := mkrow { r_user : str; r_dsn : str; r_table : str;
                      p_admin : bool; p_read : bool; p_write : bool; p_update : bool; p_delete : bool }.
Inductive perm := PRead | PWrite | PUpdate | PDelete | PAdmin.

(* dsns: dsn name -> restricted; tables: the tables that physically exist in the database behind a DSN name *)
Record state := mkst { rows : list row; dsns : list (str * bool); tables : list (str * str) }.
Definition empty : state := mkst [] [] [].

Inductive op :=
| OSetDSN (d : str) (restricted : bool)            (* DSNService.WriteDSN *)
| ODelDSN (d : str)                                (* DSNService.DeleteDSN + DeletePermissionsByDSN *)
| OGrant (u d t : str) (ch : list (bool * perm))   (* GrantPermissions, "+perm" / "-perm" in sorted order *)
| OCreate (u d t : str)                            (* createTablePermissions: the creator gets everything *)
| ODelete (fu fd ft : option str)                  (* DeletePermissions with the filters that are present *)
| OTCreate (u d t : str)                           (* TableCreate handler: CREATE TABLE, then createTablePermissions *)
| OTDrop (d t : str).                              (* DeleteTable handler: DROP TABLE, then removeTablePermissions *)

Definition key_eqb (r : row) (u d t : str) : bool :=
  str_eqb (r_user r) u && str_eqb (r_dsn r) d && str_eqb (r_table r) t.
Definition matching (rs : list row) (u d t : str) : list row := filter (fun r => key_eqb r u d t) rs.

Definition set_flag (r : row) (p : perm) (v : bool) : row :=
  match p with
  | PRead => mkrow (r_user r) (r_dsn r) (r_table r) (p_admin r) v (p_write r) (p_update r) (p_delete r)
  | PWrite => mkrow (r_user r) (r_dsn r) (r_table r) (p_admin r) (p_read r) v (p_update r) (p_delete r)
  | PUpdate => mkrow (r_user r) (r_dsn r) (r_table r) (p_admin r) (p_read r) (p_write r) v (p_delete r)
  | PDelete => mkrow (r_user r) (r_dsn r) (r_table r) (p_admin r) (p_read r) (p_write r) (p_update r) v
  | PAdmin => mkrow (r_user r) (r_dsn r) (r_table r) v (p_read r) (p_write r) (p_update r) (p_delete r)
  end.
Definition apply_changes (r : row) (ch : list (bool * perm)) : row :=
  fold_left (fun r c => set_flag r (snd c) (fst c)) ch r.
Definition blank (u d t : str) : row := mkrow u d t false false false false false.
Definition full (u d t : str) : row := mkrow u d t true true true true true.

Definition opt_match (f : option str) (s : str) : bool := match f with None => true | Some x => str_eqb s x end.

Fixpoint set_dsn (l : list (str * bool)) (d : str) (v : bool) : list (str * bool) :=
  match l with
  | [] => [(d, v)]
  | (k, x) :: r => if str_eqb k d then (k, v) :: r else (k, x) :: set_dsn r d v
  end.
Fixpoint lookup (l : list (str * bool)) (d : str) : option bool :=
  match l with [] => None | (k, x) :: r => if str_eqb k d then Some x else lookup r d end.

Definition has_table (l : list (str * str)) (d t : str) : bool :=
  existsb (fun dt => str_eqb (fst dt) d && str_eqb (snd dt) t) l.

Definition step (st : state) (o : op) : state :=
  match o with
  | OSetDSN d v => mkst (rows st) (set_dsn (dsns st) d v) (tables st)
  | ODelDSN d => mkst (filter (fun r => negb (str_eqb (r_dsn r) d)) (rows st))
                      (filter (fun kv => negb (str_eqb (fst kv) d)) (dsns st)) (tables st)
  | OGrant u d t ch =>
      match matching (rows st) u d t with
      | [] => mkst (rows st ++ [apply_changes (blank u d t) ch]) (dsns st) (tables st)
      | [_] => mkst (List.map (fun r => if key_eqb r u d t then apply_changes r ch else r) (rows st)) (dsns st) (tables st)
      | _ => st                                     (* ambiguous entry: error, nothing changes *)
      end
  | OCreate u d t => mkst (rows st ++ [full u d t]) (dsns st) (tables st)
  | ODelete fu fd ft =>
      mkst (filter (fun r => negb (opt_match fu (r_user r) && opt_match fd (r_dsn r) && opt_match ft (r_table r))) (rows st))
           (dsns st) (tables st)
  | OTCreate u d t =>
      match lookup (dsns st) d with
      | None => st                                  (* GetDatabase fails *)
      | Some _ => if has_table (tables st) d t then st      (* CREATE TABLE fails *)
                  else mkst (rows st ++ [full u d t]) (dsns st) ((d, t) :: tables st)
      end
  | OTDrop d t =>
      match lookup (dsns st) d with
      | None => st
      | Some _ => if has_table (tables st) d t
                  then mkst (filter (fun r => negb (str_eqb (r_dsn r) d && str_eqb (r_table r) t)) (rows st)) (dsns st)
                            (filter (fun dt => negb (str_eqb (fst dt) d && str_eqb (snd dt) t)) (tables st))
                  else st                           (* DROP TABLE fails, the grants stay *)
      end
  end.
Definition run (ops : list op) : state := fold_left step ops empty.

Definition row_allows (r : row) (p : perm) : bool :=
  match p with
  | PRead => p_read r || p_admin r
  | PWrite => p_write r || p_admin r
  | PUpdate => p_update r || p_admin r
  | PDelete => p_delete r || p_admin r
  | PAdmin => p_admin r
  end.

Fixpoint index_of (c : N) (s : str) : option nat :=
  match s with [] => None | x :: r => if x =? c then Some O else option_map S (index_of c r) end.
(* the call sites pass dsn ++ "." ++ table; Authorized splits at the first dot *)
Definition encode (d t : str) : str := d ++ 46 :: t.
Definition decode (enc : str) : str * str :=
  match index_of 46 enc with
  | Some k => (firstn k enc, skipn (S k) enc)
  | None => ([], enc)
  end.

(* Authorized(session{User su, Admin sa}, user, enc, ops...) *)
Definition authorized (st : state) (su : str) (sa : bool) (user enc : str) (ps : list perm) : bool :=
  if str_eqb user su && sa then true else
  let (d, t) := decode enc in
  match lookup (dsns st) d with
  | None => false
  | Some false => true
  | Some true =>
      match matching (rows st) user d t with
      | [r] => forallb (row_allows r) ps
      | _ => false
      end
  end.

(* the guard of the row endpoints: if db.Restricted { if !session.Admin && !Authorized(session, session.User, dsn+"."+table, p) {403} }
   None: the DSN does not exist (the request fails before the guard) *)
Definition row_request (st : state) (su : str) (sa : bool) (d t : str) (p : perm) : option bool :=
  match lookup (dsns st) d with
  | None => None
  | Some false => Some true
  | Some true => Some (sa || authorized st su sa su (encode d t) [p])
  end.

(* what the permission store records for (user, dsn, table): exactly one row, and it allows p *)
Definition records (st : state) (u d t : str) (p : perm) : bool :=
  match matching (rows st) u d t with [r] => row_allows r p | _ => false end.

Definition dot_free (s : str) : bool := forallb (fun c => negb (c =? 46)) s.

(* helpers for the correspondence run *)
Definition perm_of (n : N) : perm :=
  match n with 0 => PRead | 1 => PWrite | 2 => PUpdate | 3 => PDelete | _ => PAdmin end.
Definition b2n (b : bool) : N := if b then 1 else 0.

Inductive item := IO (o : op) | IQ (su : str) (sa : bool) (u d t : str) (ps : list perm)
                | IR (su : str) (sa : bool) (d t : str) (p : perm).       (* a row request at an endpoint *)
Fixpoint replay (st : state) (l : list item) : list N :=
  match l with
  | [] => []
  | IO o :: r => replay (step st o) r
  | IQ su sa u d t ps :: r => b2n (authorized st su sa u (encode d t) ps) :: replay st r
  | IR su sa d t p :: r => match row_request st su sa d t p with Some b => b2n b | None => 2 end :: replay st r
  end.
(* model answer 2 = the request fails before the grant check (no such DSN): nothing to compare *)
Fixpoint ans_match (m real : list N) : bool :=
  match m, real with
  | [], [] => true
  | x :: m', y :: r' => ((x =? 2) || (x =? y)) && ans_match m' r'
  | _, _ => false
  end.
Fixpoint nlist_eqb (a b : list N) : bool :=
  match a, b with [], [] => true | x :: a', y :: b' => (x =? y) && nlist_eqb a' b' | _, _ => false end.
