(* Arith/Prog.v — (1) the comparison opcodes Equal, NotEqual, LessThan, LessThanOrEqual, GreaterThan,
   GreaterThanOrEqual (bytecode/equal.go, notEqual.go, lessThan.go, ...) with getComparisonTerms, incl. the
   operand-constant form the optimizer produces ("Push k; LessThan" -> "LessThan [k]": the right operand then
   comes from the instruction instead of the stack, everything else is identical);
   (2) a small program model over the mode-dependent boundaries of Arith/Model.v: forward-branching
   instruction lists with a value stack, a variable store and an output list.
   Definitions only; proofs are in ProgProofs.v.  Nothing in Model.v is changed. *)
From Coq Require Import List ZArith Bool.
From Common Require Import Base.
From Arith Require Import Model.
Import ListNotations.
Open Scope Z_scope.

(* ---------- comparisons ---------- *)
Inductive cop := CEq | CNe | CLt | CLe | CGt | CGe.

Definition zcmp (o : cop) (a b : Z) : bool :=
  match o with
  | CEq => a =? b | CNe => negb (a =? b) | CLt => a <? b | CLe => a <=? b | CGt => b <? a | CGe => b <=? a
  end.
(* Go compares strings bytewise; on UTF-8 this is the order of the code point lists *)
Fixpoint str_ltb (a b : str) : bool :=
  match a, b with
  | _, [] => false
  | [], _ :: _ => true
  | x :: a', y :: b' => (x <? y)%N || ((x =? y)%N && str_ltb a' b')
  end.
Definition scmp (o : cop) (a b : str) : bool :=
  match o with
  | CEq => str_eqb a b | CNe => negb (str_eqb a b) | CLt => str_ltb a b | CLe => negb (str_ltb b a)
  | CGt => str_ltb b a | CGe => negb (str_ltb a b)
  end.

(* getComparisonTerms: when either operand is a constant and both are numeric, the operand of the lower
   kind is converted (plain Coerce, in every mode) to the kind of the other *)
Definition cmp_terms (x y : value * bool) : res (value * value) :=
  let '(v1, c1) := x in
  let '(v2, c2) := y in
  if (c1 || c2) && is_numeric v1 && is_numeric v2 then
    if rank (kind_of v2) <? rank (kind_of v1)
    then bind (coerce v2 (kind_of v1)) (fun v2' => Ok (v1, v2'))
    else bind (coerce v1 (kind_of v2)) (fun v1' => Ok (v1', v2))
  else Ok (v1, v2).

(* the type switch on two operands of one Go type *)
Definition cmp_same (o : cop) (v1 v2 : value) : res value :=
  match v1, v2 with
  | VInt _ a, VInt _ b => Ok (VBool (zcmp o a b))          (* via data.Int64 / data.UInt64 *)
  | VFlt a, VFlt b => Ok (VBool (zcmp o a b))
  | VStr a, VStr b => Ok (VBool (scmp o a b))
  | VBool a, VBool b =>
      match o with
      | CEq => Ok (VBool (Bool.eqb a b))
      | CNe => Ok (VBool (negb (Bool.eqb a b)))
      | _ => Err EInvalidType                               (* no bool case in the ordering opcodes *)
      end
  | _, _ => Err EOther                                      (* not reachable: both operands have one kind here *)
  end.

(* the six opcodes; x is the left operand, y the right one (stack top, or the instruction's operand) *)
Definition compare_op (m : mode) (o : cop) (x y : value * bool) : res value :=
  bind (cmp_terms x y)
       (fun p =>
          if is_strict m then
            if kind_eqb (kind_of (fst p)) (kind_of (snd p)) then cmp_same o (fst p) (snd p)
            else Err ETypeMismatch
          else bind (normalize (fst p) false (snd p) false false)
                    (fun q => cmp_same o (fst q) (snd q))).

(* branchFalse/branchTrue condition: strict insists on a bool, otherwise data.Bool *)
Definition condition (m : mode) (v : value) : res bool :=
  if is_strict m then match v with VBool b => Ok b | _ => Err EOther end
  else match coerce v KBool with Ok (VBool b) => Ok b | Ok _ => Err EOther | Err e => Err e | OOM => OOM end.

(* ---------- programs over the boundaries ---------- *)
Inductive instr :=
| IPush (v : value) (c : bool)        (* Push of a plain value or of a constant (data.Immutable) *)
| ILoad (x : nat)                     (* Load: the variable's value, never a constant *)
| IBin (o : op)                       (* Add Sub Mul Div Modulo *)
| ICmp (o : cop)                      (* Equal ... GreaterThanOrEqual, both operands on the stack *)
| ICmpK (o : cop) (v : value) (c : bool)   (* the same with the right operand folded into the instruction *)
| INeg                                (* Negate false *)
| IStore (x : nat)                    (* Store: checkType against the variable's current value, then set *)
| IIncr (x : nat) (v : value) (c : bool)   (* Increment [x, v] *)
| IArg (t : kind)                     (* argument conformance + coercion of the stack top to the declared kind *)
| IRet (t : kind)                     (* Coerce: return-value coercion of the stack top to the declared kind *)
| IPrint                              (* pop and append to the output (stands for fmt.Printf("%T %v")) *)
| IBranchFalse (n : nat)              (* pop the condition; if false skip the next n instructions (forward only) *)
| IBranchTrue (n : nat)
| IJump (n : nat).                    (* skip the next n instructions *)

Record state := { stack : list (value * bool); vars : list value; out : list value; skip : nat }.

Fixpoint set_nth (x : nat) (v : value) (l : list value) : option (list value) :=
  match x, l with
  | O, _ :: r => Some (v :: r)
  | S x', a :: r => match set_nth x' v r with Some r' => Some (a :: r') | None => None end
  | _, [] => None
  end.

Definition with_stack (s : state) (st : list (value * bool)) : state :=
  {| stack := st; vars := vars s; out := out s; skip := skip s |}.

(* one instruction; stack underflow and unknown variables are errors (EOther) in every mode *)
Definition exec (m : mode) (i : instr) (s : state) : res state :=
  match i, stack s with
  | IPush v c, st => Ok (with_stack s ((v, c) :: st))
  | ILoad x, st =>
      match nth_error (vars s) x with
      | Some v => Ok (with_stack s ((v, false) :: st))
      | None => Err EOther
      end
  | IBin o, y :: x :: st => bind (binop m o x y) (fun r => Ok (with_stack s ((r, false) :: st)))
  | ICmp o, y :: x :: st => bind (compare_op m o x y) (fun r => Ok (with_stack s ((r, false) :: st)))
  | ICmpK o v c, x :: st => bind (compare_op m o x (v, c)) (fun r => Ok (with_stack s ((r, false) :: st)))
  | INeg, x :: st => bind (negate x) (fun r => Ok (with_stack s (r :: st)))
  | IStore x, v :: st =>
      match nth_error (vars s) x with
      | Some old =>
          bind (store m old v)
               (fun r => match set_nth x r (vars s) with
                         | Some vs => Ok {| stack := st; vars := vs; out := out s; skip := skip s |}
                         | None => Err EOther
                         end)
      | None => Err EOther
      end
  | IIncr x v c, _ =>
      match nth_error (vars s) x with
      | Some old =>
          bind (increment cfg_now m old (v, c))
               (fun r => match set_nth x r (vars s) with
                         | Some vs => Ok {| stack := stack s; vars := vs; out := out s; skip := skip s |}
                         | None => Err EOther
                         end)
      | None => Err EOther
      end
  | IArg t, x :: st => bind (argument m t x) (fun r => Ok (with_stack s ((r, false) :: st)))
  | IRet t, x :: st => bind (retval m t x) (fun r => Ok (with_stack s ((r, false) :: st)))
  | IPrint, (v, _) :: st => Ok {| stack := st; vars := vars s; out := out s ++ [v]; skip := skip s |}
  | IBranchFalse n, (v, _) :: st =>
      bind (condition m v)
           (fun b => Ok {| stack := st; vars := vars s; out := out s; skip := if b then 0%nat else n |})
  | IBranchTrue n, (v, _) :: st =>
      bind (condition m v)
           (fun b => Ok {| stack := st; vars := vars s; out := out s; skip := if b then n else 0%nat |})
  | IJump n, st => Ok {| stack := st; vars := vars s; out := out s; skip := n |}
  | _, _ => Err EOther
  end.

(* skipped instructions are not executed *)
Definition step (m : mode) (i : instr) (s : state) : res state :=
  match skip s with
  | S k => Ok {| stack := stack s; vars := vars s; out := out s; skip := k |}
  | O => exec m i s
  end.

Fixpoint run (m : mode) (p : list instr) (s : state) : res state :=
  match p with
  | [] => Ok s
  | i :: r => bind (step m i s) (run m r)
  end.

(* what a finished program shows: its output and its final variables *)
Definition observe (r : res state) : res (list value * list value) :=
  match r with Ok s => Ok (out s, vars s) | Err e => Err e | OOM => OOM end.

(* ---------- comparison helper for the generated correspondence files ---------- *)
Fixpoint out_eqb (a b : list value) : bool :=
  match a, b with
  | [], [] => true
  | x :: a', y :: b' => value_eqb x y && out_eqb a' b'
  | _, _ => false
  end.
(* expected = Some output of a run that finished, None for a run that ended in an error;
   0 = agree, 1 = disagree, 2 = outside the model *)
Definition chk_run (m : mode) (p : list instr) (s : state) (expected : option (list value)) : Z :=
  match observe (run m p s), expected with
  | OOM, _ => 2
  | Ok (o, _), Some e => if out_eqb o e then 0 else 1
  | Err _, None => 0
  | _, _ => 1
  end.
