(* Assets/Proofs.v — lemmas for C39 *)
From Common Require Import Base.
From Coq Require Import ZArith Lia.
From Assets Require Import Model.
Open Scope Z_scope.

(* ------------------------------------------------------------ parser *)
Lemma parse_range_inv fx h start stop :
  parse_range fx h = PRange start stop -> 0 <= start /\ (stop = EOD \/ start <= stop).
Proof.
  unfold parse_range. destruct h as [hv|]; [|discriminate].
  destruct (fx && Nat.ltb (length (split_dash (strip_unit hv))) 2)%bool; [discriminate|].
  destruct (parse_int (nth 0 (split_dash (strip_unit hv)) [])) as [s|]; [|discriminate].
  destruct (split_dash (strip_unit hv)) as [|r0 [|r1 rs]]; try discriminate.
  destruct r1 as [|c r1].
  - destruct (Z.ltb_spec s 0); [discriminate|]. intros Heq. injection Heq as <- <-. auto.
  - destruct (parse_int (c :: r1)) as [e|]; [|discriminate].
    destruct (Z.ltb_spec s 0); cbn [orb]; [discriminate|].
    destruct (Z.eqb_spec e EOD); cbn [negb andb].
    + intros Heq. injection Heq as <- <-. auto.
    + destruct (Z.ltb_spec e s); [discriminate|]. intros Heq. injection Heq as <- <-. split; [assumption|right; assumption].
Qed.

Lemma parse_range_no_panic h : parse_range true h <> PPanic.
Proof.
  unfold parse_range. destruct h as [hv|]; [|discriminate].
  destruct (split_dash (strip_unit hv)) as [|r0 [|r1 rs]] eqn:E; cbn [length Nat.ltb Nat.leb andb]; try discriminate.
  destruct (parse_int (nth 0 (r0 :: r1 :: rs) [])) as [s|]; [|discriminate].
  destruct r1 as [|c r1].
  - destruct (s <? 0); discriminate.
  - destruct (parse_int (c :: r1)) as [e|]; [|discriminate].
    destruct ((s <? 0) || (negb (e =? EOD) && (e <? s)))%bool; discriminate.
Qed.

(* ------------------------------------------------------------ range arithmetic *)
Lemma slice_all file : slice file 0 (zlen file) = file.
Proof.
  unfold slice, zlen. cbn [Z.to_nat skipn]. rewrite Nat2Z.id. apply firstn_all.
Qed.

Lemma serve_spec cached start stop file :
  0 <= start -> (stop = EOD \/ start <= stop) -> zlen file <= max_int64 ->
  serve true cached (PRange start stop) file =
  match spec_range start stop (zlen file) with
  | Some (a, b) => Partial a b (zlen file) (slice file a (b - a + 1))
  | None => Err 416
  end.
Proof.
  intros Hs Hst Hsz. unfold serve, spec_range. set (size := zlen file) in *.
  assert (Hsize : 0 <= size) by (unfold size, zlen; lia).
  cbn [andb].
  destruct (Z.eqb_spec start 0) as [E0|N0]; destruct (Z.eqb_spec stop EOD) as [EE|NE]; cbn [andb orb].
  - (* whole asset *)
    subst start stop. destruct (Z.leb_spec size 0) as [Hle|Hgt].
    + destruct (Z.leb_spec 0 0); [|lia]. destruct (Z.ltb_spec 0 size); [lia|]. reflexivity.
    + destruct (Z.leb_spec 0 0); [|lia]. destruct (Z.ltb_spec 0 size); [|lia]. cbn [andb].
      unfold EOD in *. replace (Z.min max_int64 (size - 1)) with (size - 1) by lia.
      replace (size - 1 - 0 + 1) with size by lia. unfold size. rewrite slice_all. reflexivity.
  - subst start. destruct (Z.leb_spec size 0) as [Hle|Hgt].
    + destruct (Z.leb_spec 0 0); [|lia]. destruct (Z.ltb_spec 0 size); [lia|]. reflexivity.
    + destruct (Z.leb_spec 0 0); [|lia]. destruct (Z.ltb_spec 0 size); [|lia].
      destruct Hst as [Hst|Hst]; [contradiction|]. destruct (Z.leb_spec 0 stop); [|lia]. cbn [andb].
      destruct (Z.leb_spec size stop) as [Hbig|Hsmall].
      * replace (Z.min stop (size - 1)) with (size - 1) by lia.
        destruct (Z.ltb_spec (size - 1 - 0 + 1) 0); [lia|].
        replace (Z.max 0 (Z.min (size - 1 - 0 + 1) (size - 0))) with (size - 1 - 0 + 1) by lia. reflexivity.
      * replace (Z.min stop (size - 1)) with stop by lia.
        destruct (Z.ltb_spec (stop - 0 + 1) 0); [lia|].
        replace (Z.max 0 (Z.min (stop - 0 + 1) (size - 0))) with (stop - 0 + 1) by lia. reflexivity.
  - subst stop. destruct (Z.leb_spec size start) as [Hle|Hgt].
    + destruct (Z.leb_spec 0 start); [|lia]. destruct (Z.ltb_spec start size); [lia|]. reflexivity.
    + destruct (Z.leb_spec 0 start); [|lia]. destruct (Z.ltb_spec start size); [|lia]. cbn [andb].
      unfold EOD in *. replace (Z.min max_int64 (size - 1)) with (size - 1) by lia.
      destruct (Z.ltb_spec (size - 1 - start + 1) 0); [lia|].
      replace (Z.max 0 (Z.min (size - 1 - start + 1) (size - start))) with (size - 1 - start + 1) by lia. reflexivity.
  - destruct (Z.leb_spec size start) as [Hle|Hgt].
    + destruct (Z.leb_spec 0 start); [|lia]. destruct (Z.ltb_spec start size); [lia|]. reflexivity.
    + destruct (Z.leb_spec 0 start); [|lia]. destruct (Z.ltb_spec start size); [|lia].
      destruct Hst as [Hst|Hst]; [contradiction|]. destruct (Z.leb_spec start stop); [|lia]. cbn [andb].
      destruct (Z.leb_spec size stop) as [Hbig|Hsmall].
      * replace (Z.min stop (size - 1)) with (size - 1) by lia.
        destruct (Z.ltb_spec (size - 1 - start + 1) 0); [lia|].
        replace (Z.max 0 (Z.min (size - 1 - start + 1) (size - start))) with (size - 1 - start + 1) by lia. reflexivity.
      * replace (Z.min stop (size - 1)) with stop by lia.
        destruct (Z.ltb_spec (stop - start + 1) 0); [lia|].
        replace (Z.max 0 (Z.min (stop - start + 1) (size - start))) with (stop - start + 1) by lia. reflexivity.
Qed.

Lemma handle_no_panic cached h file : zlen file <= max_int64 -> handle true cached h file <> Panic.
Proof.
  intros Hsz. unfold handle. destruct (parse_range true h) as [| | |s e] eqn:E.
  - exfalso. exact (parse_range_no_panic h E).
  - discriminate.
  - discriminate.
  - apply parse_range_inv in E as [H0 H1]. rewrite serve_spec by assumption.
    destruct (spec_range s e (zlen file)) as [[a b]|]; discriminate.
Qed.

Lemma handle_exact cached h file :
  zlen file <= max_int64 ->
  match parse_range true h with
  | PPanic => False
  | PBad => handle true cached h file = Err 400
  | PNone => handle true cached h file = Full file
  | PRange start stop =>
      match spec_range start stop (zlen file) with
      | Some (a, b) => handle true cached h file = Partial a b (zlen file) (slice file a (b - a + 1)) /\
                       0 <= a <= b /\ b < zlen file /\ a = start /\ b = Z.min stop (zlen file - 1)
      | None => handle true cached h file = Err 416
      end
  end.
Proof.
  intros Hsz. unfold handle. destruct (parse_range true h) as [| | |s e] eqn:E.
  - exact (parse_range_no_panic h E).
  - reflexivity.
  - reflexivity.
  - apply parse_range_inv in E as [H0 H1]. rewrite serve_spec by assumption.
    destruct (spec_range s e (zlen file)) as [[a b]|] eqn:S; [|reflexivity].
    split; [reflexivity|]. unfold spec_range in S.
    destruct (Z.leb_spec 0 s); [|discriminate]. destruct (Z.ltb_spec s (zlen file)); [|discriminate].
    destruct ((e =? EOD) || (s <=? e))%bool eqn:B; [|discriminate]. cbn [andb] in S. injection S as <- <-.
    repeat split; try lia.
    destruct H1 as [->|H1]; unfold EOD in *; lia.
Qed.

(* ------------------------------------------------------------ confinement *)
Definition plain_seg (s : seg) : bool := negb (str_eqb s []) && negb (str_eqb s dot) && negb (str_eqb s dotdot).

Lemma clean_step_plain stack s : forallb plain_seg stack = true -> forallb plain_seg (clean_step stack s) = true.
Proof.
  intros H. unfold clean_step.
  destruct (str_eqb s []) eqn:E1; cbn [orb]; [exact H|].
  destruct (str_eqb s dot) eqn:E2; [exact H|].
  destruct (str_eqb s dotdot) eqn:E3.
  - destruct stack as [|x st]; [reflexivity|]. cbn [tl]. cbn [forallb] in H. apply andb_true_iff in H as [_ H]. exact H.
  - cbn [forallb]. rewrite H. unfold plain_seg. rewrite E1, E2, E3. reflexivity.
Qed.

Lemma fold_clean_plain segs : forall stack, forallb plain_seg stack = true ->
  forallb plain_seg (fold_left clean_step segs stack) = true.
Proof.
  induction segs as [|s segs IH]; intros stack H; cbn [fold_left]; [exact H|].
  apply IH. apply clean_step_plain. exact H.
Qed.

Lemma clean_plain segs : forallb plain_seg (clean segs) = true.
Proof.
  unfold clean. apply forallb_forall. intros x Hx. apply in_rev in Hx.
  pose proof (fold_clean_plain segs [] eq_refl) as H. rewrite forallb_forall in H. exact (H x Hx).
Qed.

Lemma proper_prefix_app a : forall b, proper_prefix a b = true -> exists rest, rest <> [] /\ b = a ++ rest.
Proof.
  induction a as [|x a IH]; intros b H.
  - destruct b as [|y b]; [discriminate|]. exists (y :: b). split; [discriminate|reflexivity].
  - destruct b as [|y b]; [discriminate|]. cbn [proper_prefix] in H. apply andb_true_iff in H as [Hxy H].
    apply str_eqb_eq in Hxy. subst y. destruct (IH b H) as (rest & Hr & ->). exists rest. auto.
Qed.

Lemma normalize_contained root path :
  forallb plain_seg root = true ->
  (exists rest, rest <> [] /\ normalize root path = root ++ rest) /\
  forallb plain_seg (normalize root path) = true.
Proof.
  intros Hroot. unfold normalize.
  destruct (proper_prefix root (clean (root ++ split_slash path))) eqn:E.
  - split; [apply proper_prefix_app; exact E | apply clean_plain].
  - split.
    + exists [invalid_seg]. split; [discriminate|reflexivity].
    + rewrite forallb_app, Hroot. reflexivity.
Qed.

(* ------------------------------------------------------------ conditional requests *)
Lemma parse_range_some fx hv : parse_range fx (Some hv) <> PNone.
Proof.
  unfold parse_range.
  destruct (fx && Nat.ltb (length (split_dash (strip_unit hv))) 2)%bool; [discriminate|].
  destruct (parse_int (nth 0 (split_dash (strip_unit hv)) [])) as [s|]; [|discriminate].
  destruct (split_dash (strip_unit hv)) as [|r0 [|r1 rs]]; try discriminate.
  destruct r1 as [|c r1].
  - destruct (s <? 0); discriminate.
  - destruct (parse_int (c :: r1)) as [e|]; [|discriminate].
    destruct ((s <? 0) || (negb (e =? EOD) && (e <? s)))%bool; discriminate.
Qed.

Lemma inm_match_true tag inm :
  inm_match tag inm = true ->
  exists m piece, inm = Some m /\ m <> [] /\ In piece (split_char 44 m) /\ trim_space piece = tag.
Proof.
  unfold inm_match. destruct inm as [m|]; [|discriminate]. destruct m as [|c m]; [discriminate|].
  intros H. apply existsb_exists in H as (piece & Hin & Heq). apply str_eqb_eq in Heq.
  exists (c :: m), piece. repeat split; try assumption. discriminate.
Qed.

Lemma handle_cond_spec hash cached h inm file :
  zlen file <= max_int64 ->
  match handle_cond hash true cached h inm file with
  | NotModified t => h = None /\ t = etag hash file /\
                     exists m piece, inm = Some m /\ m <> [] /\ In piece (split_char 44 m) /\ trim_space piece = t
  | FullTag t body => h = None /\ t = etag hash file /\ body = file /\ inm_match t inm = false
  | Plain o => h <> None /\ o = handle true cached h file /\ (forall b, o <> Full b) /\ o <> Panic
  end.
Proof.
  intros Hsz. unfold handle_cond. destruct h as [hv|].
  - pose proof (parse_range_some true hv) as Hn.
    pose proof (handle_exact cached (Some hv) file Hsz) as Hex.
    pose proof (handle_no_panic cached (Some hv) file Hsz) as Hnp.
    unfold handle in *.
    destruct (parse_range true (Some hv)) as [| | |s e] eqn:E; try contradiction.
    + split; [discriminate|]. split; [reflexivity|]. split; [|exact Hnp]. intros b. rewrite Hex. discriminate.
    + split; [discriminate|]. split; [reflexivity|]. split; [|exact Hnp].
      intros b. destruct (spec_range s e (zlen file)) as [[a b']|].
      * destruct Hex as [-> _]. discriminate.
      * rewrite Hex. discriminate.
  - cbn [parse_range]. destruct (inm_match (etag hash file) inm) eqn:M.
    + split; [reflexivity|]. split; [reflexivity|]. apply inm_match_true. exact M.
    + repeat split; auto.
Qed.

Lemma etag_inj hash : (forall a b, hash a = hash b -> a = b) -> forall a b, etag hash a = etag hash b -> a = b.
Proof.
  intros Hinj a b H. unfold etag in H. injection H as H. apply app_inv_tail in H. auto.
Qed.

(* a 304 means: one of the validators the client presented is the tag of the content being served now;
   if every presented validator is the tag of a copy the client holds, the client holds the current content *)
Lemma not_modified_current hash cached h m file olds :
  (forall a b, hash a = hash b -> a = b) -> zlen file <= max_int64 ->
  (forall piece, In piece (split_char 44 m) -> exists old, In old olds /\ trim_space piece = etag hash old) ->
  (exists t, handle_cond hash true cached h (Some m) file = NotModified t) -> In file olds.
Proof.
  intros Hinj Hsz Hold [t Ht]. pose proof (handle_cond_spec hash cached h (Some m) file Hsz) as S.
  rewrite Ht in S. destruct S as (_ & -> & m' & piece & Hm & _ & Hin & Htrim). injection Hm as <-.
  destruct (Hold piece Hin) as (old & Hino & Ho). rewrite Ho in Htrim. apply (etag_inj hash Hinj) in Htrim. subst. exact Hino.
Qed.
