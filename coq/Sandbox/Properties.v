(* Sandbox/Properties.v — property theorems of C26 only; proofs live in Proofs.v. *)
From Sandbox Require Import Model Proofs Tree.
Open Scope N_scope.

(* The property as stated: for every file system, sandbox root and path spelling, the place the
   kernel reaches through SandboxJoin's result lies at or below the real sandbox root.
   (descends q r: same kind of path, r's segments are a prefix of q's, the rest are plain names.) *)
Definition C26_statement (fixd : version) : Prop :=
  forall (fs : node) (root p : str) (rroot : path),
    is_abs root = true -> evalsym_t fs (clean_str root) = Some rroot ->
    match touch_t fs (sandbox_join_p (lstat_t fs) (evalsym_t fs) fixd root p) with
    | None => True
    | Some q => descends q rroot
    end.

(* Lexical confinement, every spelling of root and path (absolute, relative, "..", repeated
   separators, empty): the string SandboxJoin chooses is the cleaned root followed by plain names
   (no "..", no ".", no empty segment).  This is the whole result when the root does not exist. *)
Theorem C26_lexical :
  forall (fixd : version) (root p : str),
    descends (sandbox_join_p no_lstat no_evalsym fixd root p) (clean_str root).
Proof. exact lexical. Qed.

(* Resolved confinement for any arrangement of links, over an abstract file system given by
   lstat / evalsym / touch and the five laws relating them (kept: it applies to any file system that
   obeys the laws; the tree model below is proved to obey them). *)
Theorem C26_resolved :
  forall (lstat : path -> lres) (evalsym touch : path -> option path),
    lstat (true, []) = LYes ->
    (forall p r, evalsym p = Some r -> normal r /\ fst r = true) ->
    (forall p r, evalsym p = Some r -> evalsym r = Some r) ->
    (forall p r, evalsym p = Some r -> touch p = Some r) ->
    (forall p r x rest, evalsym p = Some r -> plain x -> lstat (fst p, snd p ++ [x]) = LNo ->
        touch (fst r, snd r ++ x :: rest) = None \/
        touch (fst r, snd r ++ x :: rest) = Some (fst r, snd r ++ [x])) ->
    forall (root p : str) (rroot : path),
      is_abs root = true -> evalsym (clean_str root) = Some rroot ->
      match touch (sandbox_join_p lstat evalsym V2 root p) with
      | None => True
      | Some q => descends q rroot
      end.
Proof. exact resolved. Qed.

(* The same for the tree file system, with no law left as a hypothesis: for every tree of directories,
   files and links (any targets: absolute, relative, with "..", dangling, cyclic), every absolute root
   that resolves and every path spelling, the place the kernel walk reaches through SandboxJoin's
   result lies at or below the real root.  Lstat, EvalSymlinks and the kernel walk are the fuelled
   kres with the same budget FUEL = 400 steps; running out of budget is Lstat's "other error"
   (clamped since fix f5147975), EvalSymlinks' failure and a failing call. *)
Theorem C26_resolved_tree : C26_statement V2.
Proof. exact resolved_tree. Qed.

(* The five laws hold for every tree (the hypotheses of C26_resolved, instantiated). *)
Theorem C26_tree_laws :
  forall fs : node,
    lstat_t fs (true, []) = LYes /\
    (forall p r, evalsym_t fs p = Some r -> normal r /\ fst r = true) /\
    (forall p r, evalsym_t fs p = Some r -> evalsym_t fs r = Some r) /\
    (forall p r, evalsym_t fs p = Some r -> touch_t fs p = Some r) /\
    (forall p r x rest, evalsym_t fs p = Some r -> plain x -> lstat_t fs (fst p, snd p ++ [x]) = LNo ->
        touch_t fs (fst r, snd r ++ x :: rest) = None \/
        touch_t fs (fst r, snd r ++ x :: rest) = Some (fst r, snd r ++ [x])).
Proof.
  intros fs. exact (conj (tree_root_exists fs) (conj (tree_real_normal fs) (conj (tree_real_fixed fs)
                   (conj (tree_touch_real fs) (tree_touch_absent fs))))).
Qed.

(* The code between the two repairs (V1): when Lstat gives up on a long chain of links although
   EvalSymlinks resolves the parent, the skipped entries can hold a link that leaves the sandbox. *)
Theorem C26_v1_refuted : ~ C26_statement V1.
Proof.
  intros H. pose (fs := chain_fs 396).
  assert (He : evalsym_t fs (clean_str wit_root) = Some (true, [[115;98]])) by (vm_compute; reflexivity).
  assert (Ht : touch_t fs (sandbox_join_p (lstat_t fs) (evalsym_t fs) V1 wit_root chain_p) = Some (true, [[111;117;116]; [115]]))
    by (vm_compute; reflexivity).
  clearbody fs.
  pose proof (H fs wit_root chain_p (true, [[115;98]]) eq_refl He) as H1. rewrite Ht in H1.
  destruct H1 as (_ & rest & Hs & _). cbn [snd app] in Hs. discriminate.
Qed.

(* The code before the repair: a dangling link inside the sandbox pointing outside makes a
   creating call land outside (replayed on the real code by the check). *)
Theorem C26_old_refuted : ~ C26_statement V0.
Proof.
  intros H. specialize (H wit_fs wit_root wit_p (true, [[115;98]]) eq_refl eq_refl).
  destruct old_refuted as (_ & Ht & Hb). cbv zeta in Ht. rewrite Ht in H.
  destruct H as (_ & rest & Hs & _). cbn [snd] in Hs. discriminate.
Qed.

Example C26_nonvacuous :
  (* "/sb" with path "a//../../sb-evil/./x" is clamped; "/sb/a/../b" is kept as /sb/b *)
  sandbox_join_lex [47;115;98] [97;47;47;46;46;47;46;46;47;115;98;45;101;47;46;47;120] = [47;115;98] /\
  sandbox_join_lex [47;115;98] [47;115;98;47;97;47;46;46;47;98] = [47;115;98;47;98] /\
  (* the tree instance used in the refutation satisfies the hypotheses' shape and the repaired code confines it *)
  lstat_t wit_fs (true, []) = LYes /\
  touch_t wit_fs (sandbox_join_p (lstat_t wit_fs) (evalsym_t wit_fs) V2 wit_root wit_p) = Some (true, [[115;98]]).
Proof. vm_compute. auto. Qed.

(* C26_resolved_tree is not vacuous: a tree with a link that leaves the sandbox, an absolute root that
   resolves; a path through the link is clamped, a path to a new file below a directory link is kept *)
Definition ex_fs : node :=
  Dir [ ([115;98], Dir [ ([97], Dir []) ; ([108;105], Link [97]) ; ([108;111], Link [47;111;117;116]) ]) ;
        ([111;117;116], Dir [([115], File)]) ].
Example C26_tree_nonvacuous :
  evalsym_t ex_fs (clean_str wit_root) = Some (true, [[115;98]]) /\
  touch_t ex_fs (sandbox_join_p (lstat_t ex_fs) (evalsym_t ex_fs) V2 wit_root [108;111;47;115]) = Some (true, [[115;98]]) /\
  touch_t ex_fs (sandbox_join_p (lstat_t ex_fs) (evalsym_t ex_fs) V2 wit_root [108;105;47;110;101;119]) = Some (true, [[115;98]; [97]; [110;101;119]]) /\
  (* the hypotheses of the fifth law are met on this tree: /sb/li resolves, "new" is plain and absent *)
  evalsym_t ex_fs (true, [[115;98]; [108;105]]) = Some (true, [[115;98]; [97]]) /\
  lstat_t ex_fs (true, [[115;98]; [108;105]] ++ [[110;101;119]]) = LNo.
Proof. vm_compute. auto. Qed.
