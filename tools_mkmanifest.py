#!/usr/bin/env python3
"""Regenerates MANIFEST.json from the META dict of every props/Cxx.py present."""
import importlib, json, os, sys
HERE = os.path.dirname(os.path.abspath(__file__))
sys.path.insert(0, os.path.join(HERE, "lib")); sys.path.insert(0, HERE)
props = [json.loads(l) for l in open(os.path.join(HERE, "properties.jsonl"))]
checks, na, engines = [], [], {}
NA_REASONS = json.load(open(os.path.join(HERE, "not_applicable.json")))
for p in props:
    pid = p["id"]
    if not os.path.exists(os.path.join(HERE, "props", pid + ".py")) or pid in NA_REASONS:
        na.append({"property_id": pid, "reason": NA_REASONS.get(pid, "no check built for this property (see DESIGN.md section 6)")})
        continue
    m = importlib.import_module("props." + pid).META
    checks.append({
        "property_id": pid,
        "quick_cmd": "./check %s --tier quick" % pid,
        "thorough_cmd": "./check %s --tier thorough" % pid,
        "evidence_file": "/verif/evidence/%s.json" % pid,
        "replay_cmd_template": "./check %s --replay {path}" % pid,
        "engine": m["group"],
        "level_claimed": {"category": "proof", "text": m["text"], "design_ref": m.get("design_ref", "DESIGN.md section 4, " + pid)},
        "level_note": m["note"],
        "technique": m["technique"],
    })
    engines.setdefault(m["group"], []).append(pid)
man = {
    "version": 1,
    "setup_cmd": "./setup.sh",
    "hooks": {"guard": "verif",
              "enable": "go test -tags verif -overlay <generated overlay.json>: in-package //go:build verif harness files from /verif/harness are overlaid into the packages at build time; no file under /repo is added or edited for hooks",
              "baseline_off_cmd": "cd /repo && GOFLAGS=-mod=mod GOPROXY=off go test -vet=off -count=1 -timeout 25m ./internal/util/javascript/ ./tools/langlint/",
              "source_commits": [], "add_only": True},
    "engines": [{"name": g, "path": "coq/" + g, "serves_properties": ps,
                 "kind_free_text": "Coq 8.16.1 development (Model.v / Proofs.v / Properties.v) + correspondence harness"} for g, ps in sorted(engines.items())],
    "checks": checks,
    "not_applicable": na,
    "notes": "Every claimed check: Coq theorems over an executable Gallina model + correspondence (model evaluated by vm_compute vs the real Go code through an in-package overlay harness) + property oracle on the implementation. See DESIGN.md.",
}
json.dump(man, open(os.path.join(HERE, "MANIFEST.json"), "w"), indent=1)
print("claimed", len(checks), "not_applicable", len(na))
