//go:build verif

package services

// Second stage of /verif/check C41: the REAL child process over the real file and socket ("pipe")
// transports.  TestMain lets this test binary stand in for the ego executable when callChildServices
// re-executes os.Args[0] with "--service <request-file|pipe>".  This file is compiled into a test binary
// built from the unmodified child.go.  VERIF_IN as for TestVerifC41 (cases with "real": true are used),
// VERIF_OUT2 receives {"index": [...], "inproc": [...], "file": [...], "pipe": [...]}.

import (
	"bytes"
	"encoding/hex"
	"encoding/json"
	"fmt"
	"net/http/httptest"
	"os"
	"path/filepath"
	"sort"
	"sync"
	"testing"
	"time"

	"github.com/tucats/ego/internal/cli/settings"
	"github.com/tucats/ego/internal/defs"
	"github.com/tucats/ego/internal/router"
)

func TestMain(m *testing.M) {
	for i, a := range os.Args {
		if a == "--service" && i+1 < len(os.Args) {
			var err error

			if os.Args[i+1] == defs.ChildServicesPipeMode {
				err = ChildServicePipe()
			} else {
				err = ChildService(os.Args[i+1])
			}

			if err != nil {
				fmt.Fprintln(os.Stderr, "Error:", err)
				os.Exit(1)
			}

			os.Exit(0)
		}
	}

	os.Exit(m.Run())
}

// c41RealRun handles one request; mode "" = in process through ServiceHandler, "file"/"pipe" = the real
// child path.  direct = call callChildServices without touching the child-services switch (used when
// several modes run at the same time); the transport setting must already be in place.
func c41RealRun(c c41E2E, file string, id int, mode string, direct bool) (res c41Wire) {
	defer func() {
		if r := recover(); r != nil {
			res.Panic = "panic"
		}
	}()

	body, _ := hex.DecodeString(c.Body)
	req := httptest.NewRequest(c.Method, c.URL, bytes.NewReader(body))

	for _, h := range c.Headers {
		for _, v := range h.V {
			req.Header.Add(h.K, v)
		}
	}

	parts := map[string]any{}
	for _, p := range c.Parts {
		parts[p.K] = c41PartValue(p)
	}

	session := &router.Session{
		ID: id, Path: c.Path, Filename: file, URLParts: parts, Parameters: req.URL.Query(), User: c.User, Admin: c.Admin,
		Authenticated: c.Auth, Token: c.Token, Permissions: c.Perms, AcceptsJSON: c.JSON, AcceptsText: c.Text,
		Instance: "verif-c41", Language: "en",
	}

	w := httptest.NewRecorder()

	if mode != "" && direct {
		_ = callChildServices(session, w, req)
	} else {
		_ = ServiceHandler(session, w, req)
	}

	res.Status = w.Code

	keys := []string{}
	for k := range w.Header() {
		keys = append(keys, k)
	}

	sort.Strings(keys)

	for _, k := range keys {
		res.Headers = append(res.Headers, c41KV{K: k, V: w.Header()[k]})
	}

	res.Body = hex.EncodeToString(w.Body.Bytes())

	return res
}

func TestVerifC41Real(t *testing.T) {
	raw, err := os.ReadFile(os.Getenv("VERIF_IN"))
	if err != nil {
		t.Fatal(err)
	}

	in := struct {
		E2E []c41E2E `json:"e2e"`
	}{}

	if err := json.Unmarshal(raw, &in); err != nil {
		t.Fatal(err)
	}

	out := struct {
		Index  []int     `json:"index"`
		Inproc []c41Wire `json:"inproc"`
		File   []c41Wire `json:"file"`
		Pipe   []c41Wire `json:"pipe"`
	}{}

	dir := t.TempDir()
	reqDir := t.TempDir()
	files := map[int]string{}
	fast, slow := []int{}, []int{}

	for i, c := range in.E2E {
		if !c.Real {
			continue
		}

		files[i] = c.File
		if c.File == "" {
			files[i] = filepath.Join(dir, fmt.Sprintf("real%d.ego", i))
			if err := os.WriteFile(files[i], []byte(c.Src), 0o644); err != nil {
				t.Fatal(err)
			}
		}

		if c.Slow {
			slow = append(slow, i)
		} else {
			fast = append(fast, i)
		}
	}

	results := map[string]map[int]c41Wire{"": {}, "file": {}, "pipe": {}}

	var mu sync.Mutex

	put := func(mode string, i int, w c41Wire) {
		mu.Lock()
		results[mode][i] = w
		mu.Unlock()
	}

	// slow services: all three modes of all slow cases at once.  The transport is read from the settings at
	// the start of callChildServices, so the pipe calls are started first and the file calls half a second later.
	var wg sync.WaitGroup

	settings.Set(defs.ChildServicesSetting, "false")
	settings.Set(defs.ChildRequestDirSetting, defs.ChildServicesPipeMode)

	for _, i := range slow {
		wg.Add(2)

		go func(i int) { defer wg.Done(); put("", i, c41RealRun(in.E2E[i], files[i], 1000+3*i, "", false)) }(i)
		go func(i int) { defer wg.Done(); put("pipe", i, c41RealRun(in.E2E[i], files[i], 1001+3*i, "pipe", true)) }(i)
	}

	if len(slow) > 0 {
		time.Sleep(500 * time.Millisecond)
		settings.Set(defs.ChildRequestDirSetting, reqDir)

		for _, i := range slow {
			wg.Add(1)

			go func(i int) { defer wg.Done(); put("file", i, c41RealRun(in.E2E[i], files[i], 1002+3*i, "file", true)) }(i)
		}

		time.Sleep(500 * time.Millisecond)
	}

	// fast services meanwhile, one after the other, through ServiceHandler and the settings switch
	for _, i := range fast {
		settings.Set(defs.ChildServicesSetting, "false")
		put("", i, c41RealRun(in.E2E[i], files[i], 7, "", false))
	}

	settings.Set(defs.ChildServicesSetting, "true")
	settings.Set(defs.ChildRequestDirSetting, reqDir)

	for _, i := range fast {
		put("file", i, c41RealRun(in.E2E[i], files[i], 7, "file", false))
	}

	settings.Set(defs.ChildRequestDirSetting, defs.ChildServicesPipeMode)

	for _, i := range fast {
		put("pipe", i, c41RealRun(in.E2E[i], files[i], 7, "pipe", false))
	}

	wg.Wait()
	settings.Set(defs.ChildServicesSetting, "false")

	for _, i := range append(fast, slow...) {
		out.Index = append(out.Index, i)
		out.Inproc = append(out.Inproc, results[""][i])
		out.File = append(out.File, results["file"][i])
		out.Pipe = append(out.Pipe, results["pipe"][i])
	}

	b, _ := json.Marshal(out)
	if err := os.WriteFile(os.Getenv("VERIF_OUT2"), b, 0o644); err != nil {
		t.Fatal(err)
	}
}
