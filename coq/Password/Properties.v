(* Password/Properties.v — property theorems of C25 only; proofs live in Proofs.v.
   [validate H plaintext st u p] = (ValidatePassword's verdict, the user store afterwards).
   [H : hashes] packs bcrypt (generate / compare) and SHA-256-hex; [hash_laws H] are the assumed laws:
   SHA-256 collision-free, a bcrypt hash matches exactly its own password among passwords of at most 72
   bytes, bcrypt reads only the first 72 bytes of a candidate, generated hashes carry a bcrypt prefix. *)
From Password Require Import Model Proofs.
Open Scope N_scope.

(* the statement of the property, first half, with no side condition on the store *)
Definition C25_statement : Prop :=
  forall H pt st u p, hash_laws H ->
    (fst (validate H pt st u p) = true <->
     u <> [] /\ p <> [] /\
     exists usr, In usr st /\ lower (uname usr) = lower u /\
                 cred_matches H pt (classify (upass usr)) p /\ permitted usr = true).

(* ... holds for every store whose user names are lower case and distinct (what SetUser / DeleteUser /
   the admin handlers write): authenticates <-> user exists case-insensitively, the password matches the
   stored credential in its format (plaintext only when enabled), and logon or root is held *)
Theorem C25_iff_partial :
  forall H pt st u p, hash_laws H -> store_wf st ->
    (fst (validate H pt st u p) = true <->
     u <> [] /\ p <> [] /\
     exists usr, In usr st /\ lower (uname usr) = lower u /\
                 cred_matches H pt (classify (upass usr)) p /\ permitted usr = true).
Proof. exact validate_iff'. Qed.

(* every store that the server's own write paths (SetUser, the DeleteUser builtin, the admin credential update,
   the login-time upgrade) can produce from the empty store is well formed ... *)
Theorem C25_reachable_wf : forall H ops, store_wf (build H ops).
Proof. exact build_wf. Qed.

(* ... so for those stores the first half of the property holds with no side condition *)
Theorem C25_iff :
  forall H pt ops u p, hash_laws H ->
    (fst (validate H pt (build H ops) u p) = true <->
     u <> [] /\ p <> [] /\
     exists usr, In usr (build H ops) /\ lower (uname usr) = lower u /\
                 cred_matches H pt (classify (upass usr)) p /\ permitted usr = true).
Proof. exact validate_iff_reachable. Qed.

(* ... and fails for a stored name that is not lower case: that user can never log in *)
Theorem C25_mixed_case_refuted :
  forall H, hash_laws H ->
  exists st u p usr, In usr st /\ lower (uname usr) = lower u /\ u <> [] /\ p <> [] /\
    cred_matches H true (classify (upass usr)) p /\ permitted usr = true /\
    NoDup (map uname st) /\ fst (validate H true st u p) = false.
Proof. exact mixed_case_refuted'. Qed.

(* second half: whatever a login attempt does to the store (upgrade of a legacy credential to bcrypt),
   every later verdict for every user and every candidate password of any length is unchanged.
   (Repaired code: credentials whose password is 72 bytes or longer are not upgraded.) *)
Definition C25_migration_statement : Prop :=
  forall H pt st u (p : str) v (q : str), hash_laws H ->
    fst (validate H pt (snd (validate H pt st u p)) v q) = fst (validate H pt st v q).

Theorem C25_migration_invariant : C25_migration_statement.
Proof. exact migration_invariant'. Qed.

(* a successful login with a password of 72 bytes or more leaves the store as it is *)
Theorem C25_no_upgrade_at_72 :
  forall H pt st u (p : str), hash_laws H -> (72 <= length p)%nat -> snd (validate H pt st u p) = st.
Proof. exact no_upgrade_at_72'. Qed.

(* the code before the repair (upgrade whenever HashPassword succeeds, i.e. up to 72 bytes): a 72-byte legacy
   password; after the upgrade p ++ "x" is accepted, before it was not *)
Theorem C25_migration_old_refuted :
  forall H, hash_laws H ->
  exists st u p q, store_wf st /\ fst (validate_old H true st u p) = true /\
    fst (validate_old H true st u q) = false /\
    fst (validate_old H true (snd (validate_old H true st u p)) u q) = true.
Proof. exact migration_old_refuted'. Qed.

(* credential change (ReadUser / replace Password / WriteUser, as the admin handlers do): the store stays
   well formed, so C25_iff_partial holds in the new state, and concretely the changed user is judged by the
   NEW credential while every other user's verdicts are untouched *)
Theorem C25_change_keeps_wf :
  forall st n c, store_wf st -> store_wf (change_password st n c).
Proof. exact change_keeps_wf. Qed.

Theorem C25_change_decides :
  forall H pt st n c usr u p, hash_laws H -> store_wf st -> lookup n st = Some usr ->
    (fst (validate H pt (change_password st n c) u p) = true <->
     if str_eqb n (lower u)
     then u <> [] /\ p <> [] /\ cred_matches H pt (classify c) p /\ permitted usr = true
     else fst (validate H pt st u p) = true).
Proof. exact change_decides. Qed.

(* the assumed laws are satisfiable (the stand-in used for the correspondence run satisfies them) *)
Theorem C25_laws_satisfiable : hash_laws toy.
Proof. exact toy_laws. Qed.

(* ---- non-vacuity on a concrete store *)
Definition ex_store : store :=
  [ {| uname := [98;111;98]; upass := sha toy [115;51]; uperms := [[69;71;79;46;76;79;71;79;78]] |};   (* bob, legacy SHA of "s3", EGO.LOGON *)
    {| uname := [97;108]; upass := [123;112;125]; uperms := [ego_root] |};                              (* al, "{p}", root *)
    {| uname := [101;118;101]; upass := bcrypt_gen toy [120]; uperms := [[120]] |} ].                   (* eve, bcrypt, no logon *)

Example C25_nonvacuous :
  store_wf ex_store /\
  fst (validate toy false ex_store [66;111;98] [115;51]) = true /\          (* "Bob" / "s3" *)
  fst (validate toy false ex_store [98;111;98] [83;51]) = false /\          (* "S3" *)
  fst (validate toy false ex_store [97;108] [112]) = false /\               (* plaintext disabled *)
  fst (validate toy true ex_store [97;108] [112]) = true /\
  fst (validate toy true ex_store [101;118;101] [120]) = false /\           (* right password, no logon/root *)
  upass (hd {| uname := []; upass := []; uperms := [] |} (snd (validate toy false ex_store [66;111;98] [115;51]))) = bcrypt_gen toy [115;51] /\
  fst (validate toy false (snd (validate toy false ex_store [66;111;98] [115;51])) [98;111;98] [115;51]) = true.
Proof.
  split.
  - split; [intros x [<-|[<-|[<-|[]]]]; reflexivity|].
    repeat constructor; cbn; intuition discriminate.
  - vm_compute. repeat split; congruence.
Qed.

Example C25_nonvacuous_change :
  let st' := change_password ex_store [98;111;98] (bcrypt_gen toy [110;101;119]) in     (* bob := bcrypt("new") *)
  store_wf st' /\
  fst (validate toy false st' [66;111;98] [110;101;119]) = true /\        (* "Bob" / "new" *)
  fst (validate toy false st' [98;111;98] [115;51]) = false.               (* old password *)
Proof.
  split; [apply change_keeps_wf; apply C25_nonvacuous|]. vm_compute. split; reflexivity.
Qed.

(* 72-byte quoted-plaintext password: accepted, not upgraded, the longer candidate stays rejected; a 71-byte one
   is upgraded and the longer candidate stays rejected as well; the old code accepted it after the upgrade *)
Definition ex72 (n : nat) : store := [{| uname := [100]; upass := (123 :: repeat 97 n) ++ [125]; uperms := [ego_logon] |}].
Example C25_nonvacuous_72 :
  fst (validate toy true (ex72 72) [100] (repeat 97 72)) = true /\
  snd (validate toy true (ex72 72) [100] (repeat 97 72)) = ex72 72 /\
  fst (validate toy true (snd (validate toy true (ex72 72) [100] (repeat 97 72))) [100] (repeat 97 73)) = false /\
  snd (validate toy true (ex72 71) [100] (repeat 97 71)) <> ex72 71 /\
  fst (validate toy true (snd (validate toy true (ex72 71) [100] (repeat 97 71))) [100] (repeat 97 72)) = false /\
  fst (validate toy true (snd (validate toy true (ex72 71) [100] (repeat 97 71))) [100] (repeat 97 71)) = true /\
  fst (validate_old toy true (snd (validate_old toy true (ex72 72) [100] (repeat 97 72))) [100] (repeat 97 73)) = true.
Proof. vm_compute. repeat split; congruence. Qed.

(* "Carol" created through SetUser is stored as "carol" and logs in under any spelling; deleted through "CAROL" *)
Definition ex_ops : list sop :=
  [SSet [67;97;114;111;108] (bcrypt_gen toy [112;119]) [ego_logon];          (* SetUser Carol / pw *)
   SSet [98;111;98] (sha toy [115;51]) [ego_root];
   SLogin false [66;79;66] [115;51];                                        (* BOB / s3: upgrade *)
   SChange [98;111;98] (bcrypt_gen toy [110;101;119])].
Example C25_nonvacuous_reachable :
  map uname (build toy ex_ops) = [[99;97;114;111;108]; [98;111;98]] /\
  fst (validate toy false (build toy ex_ops) [67;65;82;79;76] [112;119]) = true /\
  fst (validate toy false (build toy ex_ops) [98;111;98] [110;101;119]) = true /\
  build toy (ex_ops ++ [SDelete [67;65;82;79;76]; SDelete [98;111;98]]) = [].
Proof. vm_compute. repeat split; congruence. Qed.
