(* Arith/PropertiesC04.v — property theorems of C04 only; proofs live in Proofs.v.
   Each boundary at which the type-checking mode is consulted: whatever strict mode accepts,
   relaxed mode computes with the same result.  All values (integer, bool, string), all constness. *)
From Coq Require Import ZArith List Lia.
From Arith Require Import Model Spec Proofs Prog ProgProofs.
Import ListNotations.
Open Scope Z_scope.

(* The full statement of C04 quantifies over whole programs; what is proved is the statement at
   every mode-dependent boundary of the arithmetic/typing kernel (partial: not lifted to a VM). *)
Definition C04_statement_boundaries : Prop :=
  (forall o x y r, binop Strict o x y = Ok r -> binop Relaxed o x y = Ok r) /\
  (forall ex x r, store Strict ex x = Ok r -> store Relaxed ex x = Ok r) /\
  (forall t x r, argument Strict t x = Ok r -> argument Relaxed t x = Ok r) /\
  (forall t x r, wf (fst x) -> retval Strict t x = Ok r -> retval Relaxed t x = Ok r) /\
  (forall g v step r, increment g Strict v step = Ok r -> increment g Relaxed v step = Ok r).

(* boundary 2: combining two values in an expression (add/sub/mul/div/mod) *)
Theorem C04_binop_partial :
  forall o x y r, binop Strict o x y = Ok r -> binop Relaxed o x y = Ok r.
Proof. exact binop_strict_relaxed. Qed.
(* boundary 1: assigning to a variable *)
Theorem C04_store_partial :
  forall ex x r, store Strict ex x = Ok r -> store Relaxed ex x = Ok r.
Proof. exact store_strict_relaxed. Qed.
(* boundary 3: passing a function argument *)
Theorem C04_argument_partial :
  forall t x r, argument Strict t x = Ok r -> argument Relaxed t x = Ok r.
Proof. exact argument_strict_relaxed. Qed.
(* boundary 4: returning a value (values on the stack are always wrapped to their kind: wf) *)
Theorem C04_return_partial :
  forall t x r, wf (fst x) -> retval Strict t x = Ok r -> retval Relaxed t x = Ok r.
Proof. exact retval_strict_relaxed. Qed.
(* the fused Increment instruction, for either configuration of the instruction *)
Theorem C04_increment_partial :
  forall g v step r, increment g Strict v step = Ok r -> increment g Relaxed v step = Ok r.
Proof. exact increment_strict_relaxed. Qed.
(* composed: every increment / compound-assignment statement form, optimized or not *)
Theorem C04_statement_forms_partial :
  forall g opt f xv r, exec_form g Strict opt f xv = Ok r -> exec_form g Relaxed opt f xv = Ok r.
Proof. exact exec_form_strict_relaxed. Qed.

(* a float literal with an integral value (2.0, 4.0) meeting an integer operand, on either side: in every
   mode it is the literal that adapts, so the result keeps the integer's kind (n / 2.0 with n = 7 is int 3 under
   strict AND relaxed: the integer is never promoted to float64); with C04_binop_partial the values agree too *)
Theorem C04_float_literal_partial :
  forall m o k v z r,
    (binop m o (VInt k v, false) (VFlt z, true) = Ok r \/ binop m o (VFlt z, true) (VInt k v, false) = Ok r) ->
    exists y, r = VInt k y /\ in_range k y.
Proof. exact float_literal_adapts. Qed.

(* the six comparison opcodes (Equal, NotEqual, LessThan, LessThanOrEqual, GreaterThan, GreaterThanOrEqual),
   stack form and operand-constant form alike (the right operand y then comes from the instruction) *)
Theorem C04_compare_partial :
  forall o x y r, compare_op Strict o x y = Ok r -> compare_op Relaxed o x y = Ok r.
Proof. exact compare_strict_relaxed. Qed.

(* program-level lift: any forward-branching instruction list over the modelled boundaries (Push, Load,
   Add..Modulo, the comparisons in both forms, Negate, Store, Increment, argument and return coercion, print,
   BranchFalse/BranchTrue/Jump), started in any state whose integers are wrapped to their kind: if it runs to
   completion under strict typing, it runs to completion under relaxed typing with the same output and the
   same final variables (indeed the same final state).  Proved by induction on the list from the
   per-boundary theorems; the invariant "values stay wrapped" is proved along the strict run. *)
Theorem C04_program_partial :
  forall p s o, Forall wf_instr p -> wf_state s ->
    observe (run Strict p s) = Ok o -> observe (run Relaxed p s) = Ok o.
Proof. exact program_strict_relaxed. Qed.
Theorem C04_program_state_partial :
  forall p s s1, Forall wf_instr p -> wf_state s ->
    run Strict p s = Ok s1 -> run Relaxed p s = Ok s1.
Proof. exact run_sim. Qed.

Theorem C04_boundaries_partial : C04_statement_boundaries.
Proof.
  repeat split; [exact binop_strict_relaxed|exact store_strict_relaxed|exact argument_strict_relaxed|
                 exact retval_strict_relaxed|exact increment_strict_relaxed].
Qed.

(* non-vacuity: strict accepts non-trivial cells (a constant adapting losslessly at each boundary), and
   strict really rejects programs that relaxed runs, so the implication is not an equivalence *)
Example C04_nonvacuous :
  binop Strict Mul (VInt I16 300, false) (VInt Int 100, true) = Ok (VInt I16 30000) /\
  store Strict (VInt I8 0) (VInt Int (-128), true) = Ok (VInt I8 (-128)) /\
  argument Strict (KI U16) (VInt Int 65535, true) = Ok (VInt U16 65535) /\
  wf (VInt Int 7) /\ retval Strict (KI U64) (VInt Int 7, true) = Ok (VInt U64 7) /\
  increment cfg_now Strict (VInt I32 2147483647) (VInt Int 1, true) = Ok (VInt I32 (-2147483648)).
Proof. vm_compute. repeat split; congruence. Qed.
Example C04_nonvacuous_float_literal :
  binop Strict Div (VInt Int 7, false) (VFlt 2, true) = Ok (VInt Int 3) /\
  binop Relaxed Div (VInt Int 7, false) (VFlt 2, true) = Ok (VInt Int 3) /\
  binop Strict Mul (VFlt 3, true) (VInt I8 100, false) = Ok (VInt I8 44) /\
  binop Relaxed Mul (VFlt 3, false) (VInt I8 100, true) = Ok (VFlt 300) /\
  store Strict (VFlt 1) (VInt Int 9007199254740993, true) = Ok (VFlt 9007199254740992).
Proof. vm_compute. repeat split; reflexivity. Qed.
(* comparisons: strict accepts same-type operands and a constant against any numeric kind *)
Example C04_nonvacuous_compare :
  compare_op Strict CLt (VInt I8 (-1), false) (VInt Int 300, true) = Ok (VBool true) /\
  compare_op Strict CEq (VStr [97]%N, false) (VStr [97]%N, false) = Ok (VBool true) /\
  compare_op Strict CGe (VInt U16 5, false) (VFlt 5, true) = Ok (VBool true) /\
  compare_op Strict CLt (VInt I8 (-1), false) (VInt U16 5, false) = Err ETypeMismatch /\
  compare_op Relaxed CLt (VInt I8 (-1), false) (VInt U16 5, false) = Ok (VBool false).
Proof. vm_compute. repeat split; reflexivity. Qed.

(* a program with data flow through two variables, a constant adapting at Store, a typed argument and return,
   a comparison with a folded constant, and a branch: var x int8 = 100; var y int32 = 7;
   x = x + 28 (wraps to -128); y += 1 (fused); if x < 0 { print x } else { print y }; print f(y*2) with f's
   parameter and result declared int32 *)
Definition C04_demo_prog : list instr :=
  [ ILoad 0; IPush (VInt Int 28) true; IBin Add; IStore 0;
    IIncr 1 (VInt Int 1) true;
    ILoad 0; ICmpK CLt (VInt Int 0) true; IBranchFalse 3;
    ILoad 0; IPrint; IJump 2;
    ILoad 1; IPrint;
    ILoad 1; IPush (VInt Int 2) true; IBin Mul; IArg (KI I32); IRet (KI I32); IPrint ].
Definition C04_demo_state : state :=
  {| stack := []; vars := [VInt I8 100; VInt I32 7]; out := []; skip := 0 |}.
Example C04_nonvacuous_program :
  Forall wf_instr C04_demo_prog /\ wf_state C04_demo_state /\
  observe (run Strict C04_demo_prog C04_demo_state)
    = Ok ([VInt I8 (-128); VInt I32 16], [VInt I8 (-128); VInt I32 8]) /\
  observe (run Dynamic C04_demo_prog C04_demo_state)
    = Ok ([VInt I8 (-128); VInt I32 16], [VInt I8 (-128); VInt I32 8]).
Proof.
  split; [|split; [|split; vm_compute; reflexivity]].
  - repeat constructor; cbn [wf_instr wfv]; try exact I; unfold in_range; cbn; lia.
  - split; repeat constructor; cbn [wf_item wfv fst]; unfold in_range; cbn; lia.
Qed.
Example C04_strict_removes_programs :
  binop Strict Add (VInt I32 1, false) (VInt I64 1, false) = Err ETypeMismatch /\
  binop Relaxed Add (VInt I32 1, false) (VInt I64 1, false) = Ok (VInt I64 2) /\
  store Strict (VInt I8 0) (VInt Int 300, true) = Err ELossy /\
  store Relaxed (VInt I8 0) (VInt Int 300, true) = Ok (VInt I8 44).
Proof. exact strict_removes. Qed.
(* dynamic mode is outside the property: an assignment strict accepts changes the variable's type there *)
Example C04_dynamic_not_covered :
  store Strict (VInt I8 0) (VInt Int 5, true) = Ok (VInt I8 5) /\
  store Dynamic (VInt I8 0) (VInt Int 5, true) = Ok (VInt Int 5).
Proof. exact dynamic_differs. Qed.
