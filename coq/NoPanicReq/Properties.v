(* NoPanicReq/Properties.v — property theorems of C40 (partial: one theorem per modelled parser). *)
From Common Require Import Base.
From Coq Require Import ZArith List Bool.
From NoPanicReq Require Import Model Proofs.
Import ListNotations.
Open Scope Z_scope.

(* The full statement (not proved: only the kernels below are modelled). Kept visible. *)
Definition C40_statement (Req : Type) (serve : Req -> res unit) : Prop := forall r : Req, serve r <> Panic.

(* start/limit: whatever the query says (absent, not a number, negative, huge) and whatever the
   collection holds, validatePaging followed by the list handlers' slicing never leaves the slice *)
Theorem C40_paging_no_panic : forall (items : list Z) (has_start has_limit : bool) (sv lv : option (option Z)) (maxl maxsetting : Z),
  paging items has_start has_limit sv lv maxl maxsetting <> Panic.
Proof. exact (@paging_no_panic Z). Qed.

(* the slicing alone relies on the validation: a negative start would panic (no route reaches it:
   Session.Start is only ever written by validatePaging) *)
Theorem C40_page_slice_unvalidated_refuted : exists (items : list Z) start, page_slice items start 0 0 = Panic.
Proof. exact page_slice_unvalidated_refuted. Qed.

Theorem C40_parts_map_no_panic : forall endpoint path : str, parts_map endpoint path <> Panic.
Proof. exact parts_map_no_panic. Qed.

Theorem C40_accept_first_no_panic : forall token : str, accept_first token <> Panic.
Proof. exact accept_first_no_panic. Qed.

Theorem C40_bearer_token_no_panic : forall h : str, bearer_token h <> Panic.
Proof. exact bearer_token_no_panic. Qed.

Theorem C40_cluster_token_no_panic : forall prefix h : str, cluster_token prefix h <> Panic.
Proof. exact cluster_token_no_panic. Qed.

(* the permissions body: any list of strings (blank, signs only, unknown names) *)
Theorem C40_grant_flags_no_panic : forall (known : str -> bool) (perms : list str), grant_flags true known perms <> Panic.
Proof. exact grant_flags_no_panic. Qed.

(* before the repair the body [""] passed the validation and panicked the grant loop *)
Theorem C40_grant_flags_old_refuted : exists known perms, grant_flags false known perms = Panic.
Proof. exact grant_flags_old_refuted. Qed.

Theorem C40_name_parts_no_panic : forall full : str, name_parts full <> Panic.
Proof. exact name_parts_no_panic. Qed.

(* PATCH /admin/users/{name}: the permissions of the body, any list of strings (blank, whitespace-only, signs) *)
Theorem C40_user_perms_no_panic : forall (ok : str -> bool) (perms : list str), user_perms false ok perms <> Panic.
Proof. exact user_perms_no_panic. Qed.

(* skipping only the literally empty entry and trimming before perm[0]: the entry " " panics *)
Theorem C40_user_perms_early_trim_refuted : exists ok perms, user_perms true ok perms = Panic.
Proof. exact user_perms_early_trim_refuted. Qed.

Example C40_user_perms_nonvacuous :
  user_perms false (fun s => str_eqb s [120]%N) [[]; [32]; [43;120]; [45;120]; [120]]%N = Ok true /\
  user_perms false (fun s => str_eqb s [120]%N) [[32;120]]%N = Ok false.
Proof. vm_compute. split; reflexivity. Qed.

(* ---- non-vacuity *)
Example C40_nonvacuous :
  paging [1;2;3;4;5] true true (Some (Some 1)) (Some (Some 2)) 0 0 = Ok (Some [2;3]) /\
  paging [1;2;3] true true (Some (Some 9)) None 0 2 = Ok (Some []) /\
  paging [1;2;3] true true (Some (Some (-1))) None 0 0 = Ok None /\
  parts_map [47;116;47;123;123;110;125;125;47;114]%N [47;116;47;120;121;47]%N   (* /t/{{n}}/r  on  /t/xy/ *)
    = Ok [([116]%N, PBool true); ([110]%N, PStr [[120;121]%N]); ([114]%N, PBool false)] /\
  accept_first [116;59;113]%N = Ok [116]%N /\
  bearer_token [66;69;65;82;69;82;32;120]%N = Ok (Some [120]%N) /\ bearer_token [98;101]%N = Ok None /\
  cluster_token [67;32]%N [67;32;122]%N = Ok (Some [122]%N) /\
  grant_flags true (fun s => str_eqb s [114]%N) [[]; [32]; [45;114]; [43;114]; [32;114;32]]%N
    = Ok (Some [([114]%N, false); ([114]%N, true); ([114]%N, true)]) /\
  name_parts [97;46;98;46;99]%N = Ok ([97]%N, [99]%N) /\ name_parts [] = Ok ([], []).
Proof. vm_compute. repeat split; reflexivity. Qed.
