(* Gate/Properties.v — property theorems of C20 only; proofs live in Proofs.v. *)
From Common Require Import Base.
From Gate Require Import Model Proofs.
Open Scope N_scope.

(* Full statement: the handler is invoked only for an authenticated identity when the route says so,
   holding every required permission (or administrator) - for EVERY flag combination, every credential
   outcome, every outcome of the other request checks and every body. *)
Definition C20_statement : Prop :=
  forall f c lookup0 media_ok post_ok body,
    serve f c lookup0 media_ok post_ok body = Invoked ->
    (must_auth f = true -> authed c = true) /\
    (forall ps, perms f = Some ps ->
       authed c = true /\ (admin c = true \/ forallb (granted c) ps = true)).

(* It holds for the repaired ServeHTTP (fix 443fbd75: a route needs an authenticated caller when
   mustAuthenticate is set or permissions are named, lightweight or not). No guard on the flags. *)
Theorem C20_gate : C20_statement.
Proof. exact gate. Qed.

(* A failed authentication or permission check is final: whatever the body and the payload
   validations of the route, the handler is not invoked afterwards. *)
Theorem C20_rejected_not_invoked :
  forall f c lookup0 media_ok post_ok body,
    (must_auth f = true /\ authed c = false) \/
    (exists ps x, perms f = Some ps /\ admin c = false /\ In x ps /\ granted c x = false) ->
    serve f c lookup0 media_ok post_ok body <> Invoked.
Proof. exact rejected_not_invoked. Qed.

(* Permissions are checked against the store as it is NOW: after any history of permission changes and
   requests, a user who at that moment holds neither a required permission p nor ego.root does not reach
   the handler of a route requiring p - with a correct password or a cached token. *)
Theorem C20_revoked_not_invoked :
  forall s0 h f u tk ps p,
    perms f = Some ps -> In p ps ->
    memN p (perms_of (store_after s0 h) u) = false ->
    memN ROOT (perms_of (store_after s0 h) u) = false ->
    exists r, run_store s0 (h ++ [Request f u tk]) = run_store s0 h ++ [r] /\ r <> Invoked.
Proof. exact revoked_not_invoked. Qed.

(* Builder monotonicity, for every order of the calls (repaired LightWeight, fix 0c2c3c02): a requested
   authentication (Authentication(true) or Permissions(..)) stays in force unless a LATER
   Authentication(false) withdraws it explicitly ... *)
Theorem C20_builder_monotone :
  forall cs1 c cs2, requests_auth c = true ->
    forallb (fun c => negb (auth_false c)) cs2 = true ->
    must_auth (build (cs1 ++ c :: cs2)) = true.
Proof. exact requested_kept. Qed.

(* ... and a declaration that names permissions anywhere needs an authenticated caller whatever else
   it calls, also a later Authentication(false) or LightWeight(true). *)
Theorem C20_permissions_imply_authentication :
  forall cs, existsb is_perms cs = true -> needs_auth (build cs) = true.
Proof. exact perms_imply_auth. Qed.

(* Declarations without Authentication(false)/LightWeight(true) also satisfy the static predicate
   safe_flags that the real route table is checked against. *)
Theorem C20_builder_partial :
  forall cs, forallb (fun c => negb (withdraws c)) cs = true ->
    safe_flags (build cs) = true /\ lightweight (build cs) = false /\
    (existsb requests_auth cs = true -> must_auth (build cs) = true).
Proof. exact builder_safe. Qed.

(* ---- before the repairs (kept as replayable witnesses) *)
(* (1) LightWeight(true).Authentication(true) ran its handler for a request without credentials;
   (2) Permissions(p).Authentication(false) ran it for a WRONG password of a user who holds p;
   (3) Authentication(true).LightWeight(true) dropped the requirement in the builder. *)
Theorem C20_old_refuted : ~ gate_statement_old.
Proof.
  intros H. destruct gate_old_refuted_lightweight as (M & W & S & A & _).
  destruct (H _ _ _ _ _ _ W S) as [H1 _]. rewrite (H1 M) in A. discriminate.
Qed.

Theorem C20_old_refuted_perms_unauth :
  exists f c l ps, wf_cred c /\ perms f = Some ps /\ serve_old f c l true true None = Invoked /\ authed c = false.
Proof.
  destruct gate_old_refuted_perms_unauth as (P & W & S & A & _).
  exists (build [Permissions [1]; Authentication false]), impostor, (fun _ => false), [1]. auto.
Qed.

Theorem C20_builder_old_refuted :
  exists cs, existsb requests_auth cs = true /\ must_auth (build_old cs) = false /\ must_auth (build cs) = true.
Proof. exists [Authentication true; LightWeight true]. exact builder_old_refuted. Qed.

Example C20_nonvacuous :
  let cs := [CanAuthenticate true; Permissions [1;2]; ValidateUsing; Authentication true; Permissions [2;3]] in
  let f := build cs in
  let alice := mkCred false true false true [] (fun p => p <=? 3) in
  let bob := mkCred false true false true [3;1] (fun _ => true) in
  safe_flags f = true /\ perms f = Some [1;2;3] /\ valid f = true /\
  serve f alice (fun _ => false) true true (Some true) = Invoked /\
  serve f alice (fun _ => false) true true (Some false) = Status 400 /\
  serve f bob (fun _ => false) true true (Some true) = Status 403 /\
  serve f nobody (fun _ => false) true true (Some true) = Status 403 /\
  (* the formerly unsafe declarations are enforced now *)
  serve (build [LightWeight true; Authentication true]) nobody (fun _ => false) true true None = Status 403 /\
  serve (build [LightWeight true; Authentication true]) alice (fun _ => false) true true None = Invoked /\
  serve (build [Permissions [1]; Authentication false]) impostor (fun _ => false) true true None = Status 403 /\
  must_auth (build [Permissions [1]; LightWeight true]) = true /\
  needs_auth (build [Permissions [1]; Authentication false; LightWeight true]) = true /\
  (* a lightweight route with nothing to enforce still skips authentication *)
  serve (build [LightWeight true]) nobody (fun _ => false) true true None = Invoked.
Proof. cbn. repeat split; reflexivity. Qed.

Example C20_revocation_nonvacuous :
  let f := build [Permissions [1]] in
  run_store [] [SetPerms 7 [LOGON; 1]; Request f 7 false; Request f 7 true; SetPerms 7 [LOGON]; Request f 7 false; Request f 7 true]
  = [Invoked; Invoked; Status 403; Status 403].
Proof. reflexivity. Qed.
