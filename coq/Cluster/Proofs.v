(* Cluster/Proofs.v *)
From Cluster Require Import Model.
Open Scope Z_scope.

Lemma has_discard n c p : has (discard n c p) n c = false.
Proof.
  unfold has, discard. induction p as [|x r IH]; [reflexivity|]. cbn [filter].
  destruct ((fst x =? n) && (snd x =? c)) eqn:E; cbn [negb]; [exact IH|].
  cbn [existsb]. rewrite E. exact IH.
Qed.

Lemma has_discard_other n c n' c' p : (n', c') <> (n, c) -> has (discard n c p) n' c' = has p n' c'.
Proof.
  intros N. unfold has, discard. induction p as [|x r IH]; [reflexivity|]. cbn [filter existsb].
  destruct ((fst x =? n) && (snd x =? c)) eqn:E; cbn [negb].
  - rewrite IH. apply andb_true_iff in E. destruct E as [E1 E2]. apply Z.eqb_eq in E1, E2.
    destruct ((fst x =? n') && (snd x =? c')) eqn:E'; [|reflexivity].
    apply andb_true_iff in E'. destruct E' as [E3 E4]. apply Z.eqb_eq in E3, E4. exfalso. apply N. congruence.
  - cbn [existsb]. rewrite IH. reflexivity.
Qed.

Lemma step_out_length s a :
  length (snd (step s a)) = match a with PurgeAt n _ => length (peers s n) | _ => O end.
Proof.
  destruct a as [n c|n c|i|i|n b|n d|m]; cbn [step]; try reflexivity.
  - cbn [purge_impl snd]. unfold broadcast. apply map_length.
  - destruct (nth_error (net s) i) as [m|]; [|reflexivity]. unfold receive. destruct (_ <? _); reflexivity.
  - unfold receive. destruct (_ <? _); reflexivity.
Qed.

Lemma receive_silent s m : snd (receive s m) = [].
Proof. unfold receive. destruct (_ <? _); reflexivity. Qed.

Lemma sends_budget : forall l s, length (sends s l) = budget s l.
Proof.
  induction l as [|a r IH]; intros s; [reflexivity|].
  cbn [sends budget]. rewrite app_length, IH, step_out_length. reflexivity.
Qed.

Lemma no_purge_no_sends : forall l s, forallb (fun a => negb (is_purge a)) l = true -> sends s l = [].
Proof.
  induction l as [|a r IH]; intros s H; [reflexivity|].
  cbn [forallb] in H. apply andb_true_iff in H. destruct H as [Ha Hr].
  cbn [sends]. rewrite (IH _ Hr), app_nil_r.
  pose proof (step_out_length s a) as L. destruct a; try discriminate Ha;
    destruct (snd (step s _)); try reflexivity; discriminate L.
Qed.

Lemma filter_length_le {A} (f : A -> bool) l : (length (filter f l) <= length l)%nat.
Proof. induction l as [|x r IH]; cbn [filter length]; [lia|]. destruct (f x); cbn [length]; lia. Qed.

Lemma filter_length_lt {A} (f : A -> bool) l x : In x l -> f x = false -> (length (filter f l) < length l)%nat.
Proof.
  induction l as [|y r IH]; [intros []|]. intros [E|H] F; cbn [filter length].
  - subst. rewrite F. pose proof (filter_length_le f r). lia.
  - specialize (IH H F). destruct (f y); cbn [length]; lia.
Qed.

Lemma peers_le s n : (length (peers s n) <= length (table s))%nat.
Proof. unfold peers. rewrite map_length. apply filter_length_le. Qed.

Lemma peers_lt s n : In n (map fst (table s)) -> (length (peers s n) < length (table s))%nat.
Proof.
  intros H. apply in_map_iff in H. destruct H as [[k b] [E H]]. cbn [fst] in E. subst k.
  unfold peers. rewrite map_length. apply (filter_length_lt _ _ (n, b)); [exact H|].
  cbn [fst snd]. rewrite Z.eqb_refl. apply andb_false_r.
Qed.

Lemma purge_reaches_peer s n c p :
  In (p, true) (table s) -> p <> n -> In (mkMsg p c origin_hops n) (snd (step s (PurgeAt n c))).
Proof.
  intros H N. cbn [step purge_impl snd]. unfold broadcast. apply in_map_iff. exists p. split; [reflexivity|].
  unfold peers. apply in_map_iff. exists (p, true). split; [reflexivity|].
  apply filter_In. split; [exact H|]. cbn [fst snd]. destruct (Z.eqb_spec p n); [contradiction|reflexivity].
Qed.

Lemma memz_false x l : memz x l = false -> ~ In x l.
Proof.
  unfold memz. intros H Hin. assert (existsb (Z.eqb x) l = true); [|congruence].
  apply existsb_exists. exists x. split; [exact Hin|apply Z.eqb_refl].
Qed.

Lemma purge_in_flight s n c p :
  In (p, true) (table s) -> p <> n -> memz p (down s) = false ->
  In (mkMsg p c origin_hops n) (net (fst (step s (PurgeAt n c)))).
Proof.
  intros H N D. cbn [step purge_impl fst net]. apply in_or_app. right.
  apply filter_In. split; [|cbn [mto]; rewrite D; reflexivity].
  exact (purge_reaches_peer s n c p H N).
Qed.

Lemma purge_discards_origin s n c : has (present (fst (step s (PurgeAt n c)))) n c = false.
Proof. cbn [step purge_impl fst present]. apply has_discard. Qed.

Lemma only_peers_addressed s n c m :
  In m (snd (step s (PurgeAt n c))) -> In (mto m, true) (table s) /\ mto m <> n /\ mcache m = c /\ mhops m = origin_hops.
Proof.
  cbn [step purge_impl snd]. unfold broadcast, peers. intros H.
  apply in_map_iff in H. destruct H as [p [E H]]. subst m. cbn [mto mcache mhops].
  apply in_map_iff in H. destruct H as [[k b] [E H]]. cbn [fst] in E. subst k.
  apply filter_In in H. destruct H as [H F]. cbn [fst snd] in F. apply andb_true_iff in F. destruct F as [F1 F2].
  subst b. split; [exact H|]. split; [|split; reflexivity].
  destruct (Z.eqb_spec p n); [discriminate|assumption].
Qed.

(* every request in flight is within the hop limit *)
Definition NetOK (s : st) : Prop := forall m, In m (net s) -> mhops m <= max_hops.

Lemma In_remove_nth {A} i (l : list A) x : In x (remove_nth i l) -> In x l.
Proof.
  unfold remove_nth. intros H. apply in_app_or in H. destruct H as [H|H].
  - rewrite <- (firstn_skipn i l). apply in_or_app. left; exact H.
  - rewrite <- (firstn_skipn (S i) l). apply in_or_app. right; exact H.
Qed.

Lemma NetOK_step s a : NetOK s -> NetOK (fst (step s a)).
Proof.
  intros I. destruct a as [n c|n c|i|i|n b|n d|m]; cbn [step]; try exact I.
  - intros m. cbn [purge_impl fst net]. intros H. apply in_app_or in H. destruct H as [H|H]; [exact (I m H)|].
    apply filter_In in H. destruct H as [H _].
    destruct (only_peers_addressed s n c m H) as [_ [_ [_ Hh]]]. rewrite Hh. unfold origin_hops, max_hops. lia.
  - destruct (nth_error (net s) i) as [m|]; [|exact I]. unfold receive.
    destruct (_ <? _); cbn [purge_impl fst net]; intros x Hx; [|rewrite app_nil_r in Hx];
      apply In_remove_nth in Hx; exact (I x Hx).
  - intros x Hx. cbn [fst net] in Hx. apply In_remove_nth in Hx. exact (I x Hx).
  - unfold receive. destruct (_ <? _); [exact I|]. cbn [purge_impl fst net]. intros x Hx.
    rewrite app_nil_r in Hx. exact (I x Hx).
Qed.

Lemma NetOK_exec l : forall s, NetOK s -> NetOK (exec s l).
Proof.
  induction l as [|a r IH]; intros s I; [exact I|]. cbn [exec fold_left]. apply IH, NetOK_step, I.
Qed.

Lemma deliver_discards s i m :
  nth_error (net s) i = Some m -> mhops m <= max_hops ->
  has (present (fst (step s (Deliver i)))) (mto m) (mcache m) = false.
Proof.
  intros H Hh. cbn [step]. rewrite H. unfold receive.
  destruct (Z.ltb_spec max_hops (mhops m)); [lia|]. cbn [purge_impl fst present]. apply has_discard.
Qed.

Lemma delivered_peer_discards ns l i m :
  nth_error (net (exec (cluster ns) l)) i = Some m ->
  has (present (fst (step (exec (cluster ns) l) (Deliver i)))) (mto m) (mcache m) = false.
Proof.
  intros H. apply deliver_discards; [exact H|].
  apply (NetOK_exec l (cluster ns)); [intros x []|]. apply nth_error_In in H. exact H.
Qed.

Lemma remove_nth_length {A} i (l : list A) x :
  nth_error l i = Some x -> length (remove_nth i l) = pred (length l).
Proof.
  intros H. assert (i < length l)%nat by (apply nth_error_Some; congruence).
  unfold remove_nth. rewrite app_length, firstn_length, skipn_length. lia.
Qed.

Lemma deliver_shrinks s i m :
  nth_error (net s) i = Some m ->
  snd (step s (Deliver i)) = [] /\ length (net (fst (step s (Deliver i)))) = pred (length (net s)).
Proof.
  intros H. cbn [step]. rewrite H. split; [apply receive_silent|].
  unfold receive. destruct (_ <? _); cbn [purge_impl fst net]; rewrite ?app_nil_r;
    apply (remove_nth_length i (net s) m H).
Qed.
