(* Arith/Model.v — executable model of Ego's integer/bool/string arithmetic typing (C03, C04).
   Transliterates, for the default setting ego.runtime.precision.error=false:
     data.KindOf ordering, data.Coerce (per target kind), data.CoerceLossless (float64 round trip),
     data.Normalize, getDiadicValues + the strict-mode kind pre-check, the add/sub/mul/div/mod/negate/
     increment opcode bodies (internal/language/bytecode/math.go), Context.checkTypeCore (store),
     strictConformanceCheck/relaxedConformanceCheck + fetchArgValue's final Coerce (argument),
     coerceByteCode (return value), and the compiler's emission for x++ / x-- / x += k / x = x + k.
   Definitions only; proofs are in Proofs.v.  Floats and complex numbers are NOT modelled (OOM). *)
From Coq Require Import List ZArith Bool.
From Common Require Import Base.
Import ListNotations.
Open Scope Z_scope.

(* ---------- kinds ---------- *)
Inductive ikind := Byte | I8 | I16 | U16 | I32 | U32 | Int | UInt | I64 | U64.
(* KF64 = float64, modelled only for values that are integers (2.0, 4.0, 1e15): enough to state how a float
   literal with an integral value adapts to an integer operand and back; every other float is outside (OOM) *)
Inductive kind := KBool | KI (k : ikind) | KF64 | KStr.

Definition all_ikinds : list ikind := [Byte; I8; I16; U16; I32; U32; Int; UInt; I64; U64].

Definition signed (k : ikind) : bool :=
  match k with I8 | I16 | I32 | Int | I64 => true | _ => false end.
(* 2^bits and 2^(bits-1) *)
Definition modulus (k : ikind) : Z :=
  match k with
  | Byte | I8 => 256 | I16 | U16 => 65536 | I32 | U32 => 4294967296
  | Int | UInt | I64 | U64 => 18446744073709551616
  end.
Definition half (k : ikind) : Z :=
  match k with
  | Byte | I8 => 128 | I16 | U16 => 32768 | I32 | U32 => 2147483648
  | Int | UInt | I64 | U64 => 9223372036854775808
  end.
Definition kmin (k : ikind) : Z := if signed k then - half k else 0.
Definition kmax (k : ikind) : Z := if signed k then half k - 1 else modulus k - 1.
Definition in_range (k : ikind) (z : Z) : Prop := kmin k <= z <= kmax k.
Definition in_rangeb (k : ikind) (z : Z) : bool := (kmin k <=? z) && (z <=? kmax k).

(* Go's integer conversion / fixed-width overflow: reduce modulo 2^bits into the kind's range *)
Definition wrap (k : ikind) (z : Z) : Z :=
  if signed k then (z + half k) mod modulus k - half k else z mod modulus k.

(* data/types.go: the iota order of the kinds, which Normalize compares *)
Definition irank (k : ikind) : Z :=
  match k with
  | Byte => 2 | I8 => 3 | I16 => 4 | U16 => 5 | I32 => 6 | U32 => 7
  | Int => 8 | UInt => 9 | I64 => 10 | U64 => 11
  end.
Definition rank (k : kind) : Z :=
  match k with KBool => 1 | KI i => irank i | KF64 => 13 | KStr => 16 end.

Definition ikind_eqb (a b : ikind) : bool := irank a =? irank b.
Definition kind_eqb (a b : kind) : bool := rank a =? rank b.

(* ---------- values ---------- *)
Inductive value := VInt (k : ikind) (z : Z) | VBool (b : bool) | VStr (s : str)
                 | VFlt (z : Z).   (* the float64 whose value is the integer z *)
Definition kind_of (v : value) : kind :=
  match v with VInt k _ => KI k | VBool _ => KBool | VStr _ => KStr | VFlt _ => KF64 end.
Definition is_numeric (v : value) : bool := match v with VInt _ _ | VFlt _ => true | _ => false end.
Definition kind_numeric (k : kind) : bool := match k with KI _ | KF64 => true | _ => false end.

Inductive err := ETypeMismatch | EInvalidType | EDivZero | ELossy | EVarType | EArgType | EOther.
(* OOM = outside the modelled fragment (string parsing, ReplaceAll, floats) *)
Inductive res (A : Type) := Ok (a : A) | Err (e : err) | OOM.
Arguments Ok {A} a. Arguments Err {A} e. Arguments OOM {A}.
Definition bind {A B} (r : res A) (f : A -> res B) : res B :=
  match r with Ok a => f a | Err e => Err e | OOM => OOM end.

Inductive mode := Strict | Relaxed | Dynamic.
Definition is_strict (m : mode) : bool := match m with Strict => true | _ => false end.

(* ---------- data.Coerce, precision.error = false ---------- *)
Definition s_true : str := [116; 114; 117; 101]%N.
Definition s_false : str := [102; 97; 108; 115; 101]%N.
Definition itoa (z : Z) : str :=
  if z <? 0 then 45%N :: digits (Z.to_N (- z)) else digits (Z.to_N z).

(* float64(z) for an integer z, as the integer it denotes: round to nearest, ties to even, 53 bits *)
Definition f64 (z : Z) : Z :=
  let a := Z.abs z in
  if a <? 9007199254740992 then z
  else
    let sh := Z.log2 a - 52 in
    let q := a / 2 ^ sh in
    let r := a mod 2 ^ sh in
    let h := 2 ^ (sh - 1) in
    let q' := if (h <? r) || ((r =? h) && Z.odd q) then q + 1 else q in
    Z.sgn z * (q' * 2 ^ sh).

Definition coerce (v : value) (k : kind) : res value :=
  match k, v with
  | KI t, VInt _ z => Ok (VInt t (wrap t z))
  | KI t, VBool b => Ok (VInt t (if b then 1 else 0))
  | KI t, VStr [] => Ok (VInt t 0)
  | KI t, VStr _ => OOM                                  (* egostrings.Atoi *)
  | KBool, VBool b => Ok (VBool b)
  | KBool, VInt _ z => Ok (VBool (negb (z =? 0)))
  | KBool, VStr _ => OOM
  | KStr, VInt _ z => Ok (VStr (itoa z))
  | KStr, VBool b => Ok (VStr (if b then s_true else s_false))
  | KStr, VStr s => Ok (VStr s)
  | KI t, VFlt z => if in_rangeb t z then Ok (VInt t z) else OOM   (* Go: out-of-range float->int is implementation specific *)
  | KBool, VFlt z => Ok (VBool (negb (z =? 0)))
  | KStr, VFlt _ => OOM                                   (* strconv.FormatFloat *)
  | KF64, VInt _ z => Ok (VFlt (f64 z))                   (* float64(int): correctly rounded, still an integer *)
  | KF64, VBool b => Ok (VFlt (if b then 1 else 0))
  | KF64, VStr _ => OOM                                   (* strconv.ParseFloat *)
  | KF64, VFlt z => Ok (VFlt z)
  end.

(* data.Float64(v): None = error or a string (strconv.ParseFloat is not modelled) *)
Definition to_f64 (v : value) : option Z :=
  match v with
  | VInt _ z => Some (f64 z)
  | VBool b => Some (if b then 1 else 0)
  | VStr _ => None
  | VFlt z => Some z
  end.

(* data.CoerceLossless *)
Definition coerce_lossless (v : value) (k : kind) : res value :=
  match coerce v k with
  | Ok c =>
      match to_f64 v, to_f64 c with
      | Some a, Some b => if a =? b then Ok c else Err ELossy
      | _, _ => OOM
      end
  | Err e => Err e
  | OOM => OOM
  end.

(* ---------- data.Normalize ---------- *)
Definition normalize (v1 : value) (c1 : bool) (v2 : value) (c2 : bool) (strict : bool)
  : res (value * value) :=
  let k1 := kind_of v1 in
  let k2 := kind_of v2 in
  if kind_eqb k1 k2 then Ok (v1, v2)
  else if xorb c1 c2 && is_numeric v1 && is_numeric v2 then
    let co := if strict then coerce_lossless else coerce in
    if c1 then bind (co v1 k2) (fun v1' => Ok (v1', v2))
    else bind (co v2 k1) (fun v2' => Ok (v1, v2'))
  else if rank k1 <? rank k2 then bind (coerce v1 k2) (fun v1' => Ok (v1', v2))
  else bind (coerce v2 k1) (fun v2' => Ok (v1, v2')).

(* ---------- the diadic opcodes ---------- *)
Inductive op := Add | Sub | Mul | Div | Mod.

(* float64 arithmetic on integral values: IEEE operations are correctly rounded, so the result is the
   rounding of the exact integer result; a quotient is modelled only when it is exact and the divisor is
   not zero (c.divZero is a run-time flag); % has no floating-point case *)
Definition flt_arith (o : op) (a b : Z) : res value :=
  match o with
  | Add => Ok (VFlt (f64 (a + b)))
  | Sub => Ok (VFlt (f64 (a - b)))
  | Mul => Ok (VFlt (f64 (a * b)))
  | Div => if b =? 0 then OOM else if Z.rem a b =? 0 then Ok (VFlt (Z.quot a b)) else OOM
  | Mod => Err EInvalidType
  end.

(* the type switch after Normalize (both operands now have the same Go type) *)
Definition arith (o : op) (v1 v2 : value) : res value :=
  match v1, v2 with
  | VInt k a, VInt _ b =>
      match o with
      | Add => Ok (VInt k (wrap k (a + b)))
      | Sub => Ok (VInt k (wrap k (a - b)))
      | Mul => Ok (VInt k (wrap k (a * b)))
      | Div => if b =? 0 then Err EDivZero else Ok (VInt k (wrap k (Z.quot a b)))
      | Mod => if b =? 0 then Err EDivZero else Ok (VInt k (wrap k (Z.rem a b)))
      end
  | VStr a, VStr b =>
      match o with
      | Add => Ok (VStr (a ++ b))
      | Sub => OOM                                         (* strings.ReplaceAll *)
      | _ => Err EInvalidType
      end
  | VBool a, VBool b =>
      match o with
      | Add => Ok (VBool (a && b))
      | Mul => Ok (VBool (a || b))
      | _ => Err EInvalidType
      end
  | VFlt a, VFlt b => flt_arith o a b
  | _, _ => Err EOther                                     (* not reachable after Normalize *)
  end.

(* add/subtract/multiply/divide/moduloByteCode on two stack items (value, is-constant) *)
Definition binop (m : mode) (o : op) (x y : value * bool) : res value :=
  let '(v1, c1) := x in
  let '(v2, c2) := y in
  if is_strict m && negb (c1 || c2) && negb (kind_eqb (kind_of v1) (kind_of v2))
  then Err ETypeMismatch
  else bind (normalize v1 c1 v2 c2 (is_strict m)) (fun p => arith o (fst p) (snd p)).

(* ---------- negateByteCode (operand false) ---------- *)
(* has_i8 = false is the code before the repair (no int8 case in the switch) *)
Definition negate_gen (has_i8 : bool) (x : value * bool) : res (value * bool) :=
  match x with
  | (VBool b, _) => Ok (VBool (negb b), false)
  | (VInt k z, c) =>
      if ikind_eqb k I8 && negb has_i8 then Err EInvalidType
      else Ok (VInt k (wrap k (- z)), c)
  | (VStr s, _) => Ok (VStr (rev s), false)
  | (VFlt z, _) => Ok (VFlt (- z), false)                   (* 0.0 - value, pushed as a plain value *)
  end.
Definition negate := negate_gen true.
Definition negate_old := negate_gen false.

(* ---------- boundary 1: Store = Context.checkType / checkTypeCore ---------- *)
Definition store (m : mode) (existing : value) (x : value * bool) : res value :=
  let '(v, c) := x in
  match m with
  | Dynamic => Ok v
  | _ =>
      if kind_eqb (kind_of v) (kind_of existing) then Ok v
      else match m with
           | Relaxed => coerce v (kind_of existing)
           | _ => if negb c then Err EVarType
                  else if is_numeric v && is_numeric existing
                       then coerce_lossless v (kind_of existing)
                       else Err EVarType
           end
  end.

(* ---------- incrementByteCode: variable value v, step (inc, ic) ---------- *)
Record cfg := { inc_i8 : bool;            (* Increment has an int8 case (560ece7c) *)
                inc_strict_const : bool;  (* Increment lets a constant step adapt in strict mode (6e63ab2c) *)
                inc_like_store : bool;    (* Increment stores its sum through checkType and has a bool case (8521b872) *)
                step_const : bool }.      (* x++ / x-- push the step as a constant (4a0d431a) *)
Definition cfg_now : cfg :=
  {| inc_i8 := true; inc_strict_const := true; inc_like_store := true; step_const := true |}.
Definition cfg_old : cfg :=
  {| inc_i8 := false; inc_strict_const := false; inc_like_store := false; step_const := false |}.

(* the type switch on the variable's (normalized) value *)
Definition incr_sum (g : cfg) (v1 v2 : value) : res value :=
  match v1, v2 with
  | VInt k a, VInt _ b =>
      if ikind_eqb k I8 && negb (inc_i8 g) then Err EInvalidType
      else Ok (VInt k (wrap k (a + b)))
  | VStr a, VStr b => Ok (VStr (a ++ b))
  | VFlt a, VFlt b => flt_arith Add a b
  | VBool a, VBool b => if inc_like_store g then Ok (VBool (a && b)) else Err EInvalidType
  | VBool _, _ => if inc_like_store g then Err EOther else Err EInvalidType
  | _, _ => Err EOther                                     (* not reachable: both operands have one kind here *)
  end.

Definition increment (g : cfg) (m : mode) (v : value) (step : value * bool) : res value :=
  let '(inc, ic) := step in
  let strict := is_strict m in
  bind (if negb strict || (inc_strict_const g && ic) then normalize v false inc ic strict
        else if kind_eqb (kind_of v) (kind_of inc) then Ok (v, inc) else Err ETypeMismatch)
       (fun p =>
          bind (incr_sum g (fst p) (snd p))
               (fun s => if inc_like_store g then store m v (s, false) else Ok s)).

(* ---------- boundary 3: argument = requiredTypeByteCodeWithConst + fetchArgValue's Coerce ---------- *)
(* tnum = data.IsNumeric(<type descriptor>): before the repair only byte, int, int32, int64 *)
Definition tnum_old (k : kind) : bool :=
  match k with KI Byte | KI Int | KI I32 | KI I64 | KF64 => true | _ => false end.
Definition argument_gen (tnum : kind -> bool) (m : mode) (t : kind) (x : value * bool) : res value :=
  let '(v, c) := x in
  if is_strict m then
    if kind_eqb (kind_of v) t then Ok v
    else if c && is_numeric v && tnum t then coerce_lossless v t
    else Err EArgType
  else if kind_eqb (kind_of v) t then Ok v else coerce v t.
Definition argument := argument_gen kind_numeric.
Definition argument_old := argument_gen tnum_old.

(* ---------- boundary 4: return value = coerceByteCode ---------- *)
Definition retval_gen (tnum : kind -> bool) (m : mode) (t : kind) (x : value * bool) : res value :=
  let '(v, c) := x in
  if is_strict m then
    if negb c then (if kind_eqb (kind_of v) t then Ok v else Err ETypeMismatch)
    else if is_numeric v && tnum t then coerce_lossless v t
    else coerce v t
  else coerce v t.
Definition retval := retval_gen kind_numeric.
Definition retval_old := retval_gen tnum_old.

(* ---------- statement forms on a variable x of value xv ---------- *)
Inductive form := PostInc | PostDec | AddAssign (k : Z) | SubAssign (k : Z) | AssignAdd (k : Z) | AssignSub (k : Z).
Definition form_op (f : form) : op :=
  match f with PostInc | AddAssign _ | AssignAdd _ => Add | _ => Sub end.
(* integer literals are constants of kind int; the step of ++/-- is the Go int 1 *)
Definition form_step (g : cfg) (f : form) : value * bool :=
  match f with
  | PostInc | PostDec => (VInt Int 1, step_const g)
  | AddAssign k | SubAssign k | AssignAdd k | AssignSub k => (VInt Int k, true)
  end.
(* opt = the optimizer fused Load x; Push k; Add; Store x into Increment [x, k] *)
Definition exec_form (g : cfg) (m : mode) (opt : bool) (f : form) (xv : value) : res value :=
  match form_op f, opt with
  | Add, true => increment g m xv (form_step g f)
  | o, _ => bind (binop m o (xv, false) (form_step g f)) (fun r => store m xv (r, false))
  end.

(* ---------- comparison helpers used by the generated correspondence files ---------- *)
Definition value_eqb (a b : value) : bool :=
  match a, b with
  | VInt k x, VInt k' y => ikind_eqb k k' && (x =? y)
  | VBool x, VBool y => Bool.eqb x y
  | VStr x, VStr y => str_eqb x y
  | VFlt x, VFlt y => x =? y
  | _, _ => false
  end.
Definition err_code (e : err) : Z :=
  match e with ETypeMismatch => 1 | EInvalidType => 2 | EDivZero => 3 | ELossy => 4
             | EVarType => 5 | EArgType => 6 | EOther => 7 end.
(* 0 = agree, 1 = disagree, 2 = the model does not cover this input *)
Definition cmp_res (model observed : res value) : Z :=
  match model, observed with
  | OOM, _ => 2
  | Ok a, Ok b => if value_eqb a b then 0 else 1
  | Err a, Err b => if err_code a =? err_code b then 0 else 1
  | _, _ => 1
  end.
Definition cmp_res2 (model : res (value * bool)) (observed : res (value * bool)) : Z :=
  match model, observed with
  | OOM, _ => 2
  | Ok (a, c), Ok (b, d) => if value_eqb a b && Bool.eqb c d then 0 else 1
  | Err a, Err b => if err_code a =? err_code b then 0 else 1
  | _, _ => 1
  end.
(* indices of the cases whose comparison gives code c *)
Fixpoint idx_where (c : Z) (i : Z) (l : list Z) : list Z :=
  match l with
  | [] => []
  | x :: r => if x =? c then i :: idx_where c (i + 1) r else idx_where c (i + 1) r
  end.
