(* Gate/Properties.v — property theorems of C20 only; proofs live in Proofs.v. *)
From Common Require Import Base.
From Gate Require Import Model Proofs.
Open Scope N_scope.

(* Full statement: the handler is invoked only for an authenticated identity when the route says so,
   holding every required permission (or administrator). *)
Definition C20_statement : Prop := gate_statement.

(* It fails for ServeHTTP as coded: (1) a lightweight route that must authenticate
   (LightWeight(true).Authentication(true)) runs its handler for a request without credentials;
   (2) a route with required permissions whose authentication flag was cleared afterwards
   (Permissions(p).Authentication(false)) runs its handler for a WRONG password of a user who holds p. *)
Theorem C20_refuted : ~ C20_statement.
Proof.
  intros H. destruct gate_refuted_lightweight as (M & W & S & A).
  destruct (H _ _ _ _ _ _ W S) as [H1 _]. rewrite (H1 M) in A. discriminate.
Qed.

Theorem C20_refuted_perms_unauth :
  exists f c l ps, wf_cred c /\ perms f = Some ps /\ serve f c l true true None = Invoked /\ authed c = false.
Proof.
  destruct gate_refuted_perms_unauth as (P & W & S & A).
  exists (build [Permissions [1]; Authentication false]), impostor, (fun _ => false), [1]. auto.
Qed.

(* For every flag combination that satisfies the decidable predicate safe_flags (not lightweight with
   a requirement; permissions imply must-authenticate), every credential outcome, every outcome of
   the other request checks and every body (absent, valid or invalid for the route's payload
   validations): handler invoked -> authenticated when required, and authenticated with all required
   permissions or administrator when permissions are required. *)
Theorem C20_gate_partial :
  forall f c lookup0 media_ok post_ok body,
    safe_flags f = true -> wf_cred c -> serve f c lookup0 media_ok post_ok body = Invoked ->
    (must_auth f = true -> authed c = true) /\
    (forall ps, perms f = Some ps ->
       authed c = true /\ (admin c = true \/ forallb (granted c) ps = true)).
Proof. exact gate. Qed.

(* A failed authentication or permission check is final on a non-lightweight route: whatever the
   body and the payload validations of the route, the handler is not invoked afterwards. *)
Theorem C20_rejected_not_invoked :
  forall f c lookup0 media_ok post_ok body,
    lightweight f = false ->
    (must_auth f = true /\ authed c = false) \/
    (exists ps x, perms f = Some ps /\ admin c = false /\ In x ps /\ granted c x = false) ->
    serve f c lookup0 media_ok post_ok body <> Invoked.
Proof. exact rejected_not_invoked. Qed.

(* Permissions are checked against the store as it is NOW: after any history of permission changes and
   requests, a user who at that moment holds neither a required permission p nor ego.root does not reach
   the handler of a (non-lightweight) route requiring p - with a correct password or a cached token -
   however the user's permissions looked earlier in the history. *)
Theorem C20_revoked_not_invoked :
  forall s0 h f u tk ps p,
    lightweight f = false -> perms f = Some ps -> In p ps ->
    memN p (perms_of (store_after s0 h) u) = false ->
    memN ROOT (perms_of (store_after s0 h) u) = false ->
    exists r, run_store s0 (h ++ [Request f u tk]) = run_store s0 h ++ [r] /\ r <> Invoked.
Proof. exact revoked_not_invoked. Qed.

Example C20_revocation_nonvacuous :
  let f := build [Permissions [1]] in
  run_store [] [SetPerms 7 [LOGON; 1]; Request f 7 false; Request f 7 true; SetPerms 7 [LOGON]; Request f 7 false; Request f 7 true]
  = [Invoked; Invoked; Status 403; Status 403].
Proof. reflexivity. Qed.

(* Builder: a declaration that never calls Authentication(false) or LightWeight(true) yields safe
   flags, and must-authenticate whenever Authentication(true) or Permissions(..) was called -
   whatever the order of the calls. *)
Theorem C20_builder_partial :
  forall cs, forallb (fun c => negb (withdraws c)) cs = true ->
    safe_flags (build cs) = true /\ lightweight (build cs) = false /\
    (existsb requests_auth cs = true -> must_auth (build cs) = true).
Proof. exact builder_safe. Qed.

(* the unguarded monotonicity claim fails: Authentication(true).LightWeight(true) drops the requirement *)
Theorem C20_builder_refuted :
  exists cs, existsb requests_auth cs = true /\ must_auth (build cs) = false.
Proof. exists [Authentication true; LightWeight true]. exact builder_refuted. Qed.

Example C20_nonvacuous :
  let f := build [CanAuthenticate true; Permissions [1;2]; ValidateUsing; Authentication true; Permissions [2;3]] in
  let alice := mkCred false true false true [] (fun p => p <=? 3) in
  let bob := mkCred false true false true [3;1] (fun _ => true) in
  safe_flags f = true /\ perms f = Some [1;2;3] /\ wf_cred alice /\
  valid f = true /\
  serve f alice (fun _ => false) true true (Some true) = Invoked /\
  serve f alice (fun _ => false) true true (Some false) = Status 400 /\
  serve f bob (fun _ => false) true true (Some true) = Status 403 /\
  serve f nobody (fun _ => false) true true (Some true) = Status 403 /\
  forallb (fun c => negb (withdraws c)) [CanAuthenticate true; Permissions [1;2]; Authentication true; Permissions [2;3]] = true.
Proof. cbn. repeat split; try reflexivity; intros H; try discriminate; auto. Qed.
