From Coq Require Import List Arith Bool Lia.
Import ListNotations.
From Ledger Require Import Model.

(* declarative big-step semantics: one run of a skeleton *)
Inductive exec : stmt -> st -> res -> Prop :=
| ESkip s : exec Skip s (Cont s)
| EStepC s : exec Step s (Cont s)
| EStepP s : exec Step s (Panicked s)
| ERet s : exec Ret s (Returned s)
| ESpawn g k s : exec (Spawn g k) s (Cont (mkSt (live s ++ [(g, k)]) (defers s)))
| EDefer c s : exec (DeferClose c) s (Cont (mkSt (live s) (c :: defers s)))
| EClose c s : exec (Close c) s (Cont (mkSt (close_chan c (live s)) (defers s)))
| ERecv c s l : remove_sender c (live s) = Some l -> exec (Recv c) s (Cont (mkSt l (defers s)))
| ESeqC a b s s' r : exec a s (Cont s') -> exec b s' r -> exec (Seq a b) s r
| ESeqR a b s s' : exec a s (Returned s') -> exec (Seq a b) s (Returned s')
| ESeqP a b s s' : exec a s (Panicked s') -> exec (Seq a b) s (Panicked s')
| EBranchL a b s r : exec a s r -> exec (Branch a b) s r
| EBranchR a b s r : exec b s r -> exec (Branch a b) s r.

Lemma kind_eqb_eq a b : kind_eqb a b = true -> a = b.
Proof. destruct a, b; cbn; intro H; try discriminate; try reflexivity; apply Nat.eqb_eq in H; congruence. Qed.
Lemma kind_eqb_refl a : kind_eqb a a = true.
Proof. destruct a; cbn; auto using Nat.eqb_refl. Qed.
Lemma list_eqb_eq {A} (eqb : A -> A -> bool) (Heq : forall x y, eqb x y = true -> x = y) :
  forall a b, list_eqb eqb a b = true -> a = b.
Proof.
  induction a as [|x a IH]; destruct b as [|y b]; cbn; intro H; try discriminate; [reflexivity|].
  apply andb_prop in H. destruct H as [H1 H2]. f_equal; auto.
Qed.
Lemma list_eqb_refl {A} (eqb : A -> A -> bool) (Hr : forall x, eqb x x = true) : forall a, list_eqb eqb a a = true.
Proof. induction a as [|x a IH]; cbn; [reflexivity|]. rewrite Hr, IH. reflexivity. Qed.
Lemma entry_eqb_eq a b : entry_eqb a b = true -> a = b.
Proof.
  destruct a as [g k], b as [g' k']. unfold entry_eqb. cbn. intro H. apply andb_prop in H. destruct H as [H1 H2].
  apply Nat.eqb_eq in H1. apply kind_eqb_eq in H2. congruence.
Qed.
Lemma entry_eqb_refl a : entry_eqb a a = true.
Proof. destruct a. unfold entry_eqb. cbn. rewrite Nat.eqb_refl, kind_eqb_refl. reflexivity. Qed.
Lemma st_eqb_eq a b : st_eqb a b = true -> a = b.
Proof.
  destruct a as [l d], b as [l' d']. unfold st_eqb. cbn. intro H. apply andb_prop in H. destruct H as [H1 H2].
  apply (list_eqb_eq _ entry_eqb_eq) in H1. apply (list_eqb_eq Nat.eqb (fun x y => proj1 (Nat.eqb_eq x y))) in H2. congruence.
Qed.
Lemma st_eqb_refl a : st_eqb a a = true.
Proof.
  unfold st_eqb. rewrite (list_eqb_refl _ entry_eqb_refl), (list_eqb_refl _ Nat.eqb_refl). reflexivity.
Qed.
Lemma res_eqb_eq a b : res_eqb a b = true -> a = b.
Proof. destruct a, b; cbn; intro H; try discriminate; apply st_eqb_eq in H; congruence. Qed.
Lemma res_eqb_refl a : res_eqb a a = true.
Proof. destruct a; cbn; apply st_eqb_refl. Qed.

Lemma dedup_In : forall l r, In r (dedup l) <-> In r l.
Proof.
  induction l as [|x t IH]; intro r; cbn [dedup]; [tauto|].
  destruct (existsb (res_eqb x) t) eqn:E.
  - rewrite IH. split; [intro; right; assumption|].
    intros [<-|H]; [|assumption].
    apply existsb_exists in E. destruct E as [y [Hy Hxy]]. apply res_eqb_eq in Hxy. subst. assumption.
  - cbn [In]. rewrite IH. tauto.
Qed.

Lemma exec_results : forall p s r, exec p s r -> In r (results p s).
Proof.
  induction 1; cbn [results]; auto using in_eq, in_cons.
  - rewrite H. apply in_eq.
  - apply dedup_In, in_flat_map. exists (Cont s'). split; assumption.
  - apply dedup_In, in_flat_map. exists (Returned s'). split; [assumption | apply in_eq].
  - apply dedup_In, in_flat_map. exists (Panicked s'). split; [assumption | apply in_eq].
  - apply dedup_In, in_or_app. left. assumption.
  - apply dedup_In, in_or_app. right. assumption.
Qed.

Lemma results_exec : forall p s r, In r (results p s) -> exec p s r.
Proof.
  induction p as [| | |g k|c|c|c|a IHa b IHb|a IHa b IHb]; intros s r Hin; cbn [results] in Hin.
  - destruct Hin as [<-|[]]. constructor.
  - destruct Hin as [<-|[<-|[]]]; constructor.
  - destruct Hin as [<-|[]]. constructor.
  - destruct Hin as [<-|[]]. constructor.
  - destruct Hin as [<-|[]]. constructor.
  - destruct Hin as [<-|[]]. constructor.
  - destruct (remove_sender c (live s)) as [l|] eqn:E; [|destruct Hin].
    destruct Hin as [<-|[]]. constructor. assumption.
  - apply dedup_In, in_flat_map in Hin. destruct Hin as [r1 [H1 H2]].
    apply IHa in H1. destruct r1 as [s'|s'|s'].
    + eapply ESeqC; eauto.
    + destruct H2 as [<-|[]]. eapply ESeqR; eauto.
    + destruct H2 as [<-|[]]. eapply ESeqP; eauto.
  - apply dedup_In, in_app_or in Hin. destruct Hin as [H|H]; [apply EBranchL|apply EBranchR]; auto.
Qed.

Lemma neutral_paths : forall p, neutral p = true -> forall r, exec p st0 r -> leftover r = [].
Proof.
  intros p Hn r He. apply exec_results in He. unfold neutral, leftovers in Hn.
  rewrite forallb_forall in Hn. specialize (Hn (leftover r) (in_map _ _ _ He)).
  destruct (leftover r); [reflexivity|discriminate].
Qed.

(* ---------------------------------------------------------------- trees *)
Section NodeInd.
  Variable P : node -> Prop.
  Hypothesis HN : forall h f p kids, Forall P kids -> P (Node h f p kids).
  Fixpoint node_ind' (n : node) : P n :=
    match n with
    | Node h f p kids =>
        HN h f p kids ((fix go (l : list node) : Forall P l :=
                          match l with [] => Forall_nil P | k :: r => Forall_cons k (node_ind' k) (go r) end) kids)
    end.
End NodeInd.

Lemma nth_leftovers_nil : forall p i, neutral p = true -> nth i (leftovers p) [] = [].
Proof.
  intros p i Hn. unfold neutral in Hn. rewrite forallb_forall in Hn.
  destruct (Nat.lt_ge_cases i (length (leftovers p))) as [Hlt|Hge].
  - specialize (Hn _ (nth_In _ [] Hlt)). destruct (nth i (leftovers p) []); [reflexivity|discriminate].
  - apply nth_overflow. assumption.
Qed.

Lemma skeleton_neutral : forall fns f, forallb neutral fns = true -> neutral (skeleton fns f) = true.
Proof.
  intros fns f H. unfold skeleton. rewrite forallb_forall in H.
  destruct (Nat.lt_ge_cases f (length fns)) as [Hlt|Hge].
  - apply H, nth_In, Hlt.
  - rewrite nth_overflow by assumption. reflexivity.
Qed.

Lemma tree_left_nil : forall fns, forallb neutral fns = true -> forall n, left fns n = [].
Proof.
  intros fns Hf n. induction n as [h f p kids IH] using node_ind'.
  cbn [left]. destruct h; try reflexivity;
    (rewrite nth_leftovers_nil by (apply skeleton_neutral; assumption); cbn [app];
     induction IH as [|k r Hk _ IHr]; cbn [flat_map]; [reflexivity|rewrite Hk, IHr; reflexivity]).
Qed.

Lemma runs_left_nil : forall fns, forallb neutral fns = true -> forall runs, flat_map (left fns) runs = [].
Proof.
  intros fns Hf runs. induction runs as [|n r IH]; cbn [flat_map]; [reflexivity|].
  rewrite tree_left_nil by assumption. assumption.
Qed.

Lemma modelled_neutral : forallb neutral modelled_fns = true.
Proof. vm_compute. reflexivity. Qed.

(* the old RunFromAddress: each plain execution (normal exit) leaves its watcher behind *)
Definition plain_run_old : node := Node Sync 0 0 [].
Lemma old_one : left old_fns plain_run_old <> [].
Proof. vm_compute. discriminate. Qed.

Lemma old_grows : forall n, length (flat_map (left old_fns) (repeat plain_run_old n)) = n.
Proof.
  induction n as [|n IH]; [reflexivity|].
  cbn [repeat flat_map]. rewrite app_length, IH. vm_compute. reflexivity.
Qed.
