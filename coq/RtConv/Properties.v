(* RtConv/Properties.v — property theorems of C11 only. *)
From RtConv Require Import Model Proofs.
Open Scope Z_scope.

(* Full statement (not provable: the Go library functions are outside the model): every mirrored runtime function
   returns what the Go function returns.  With [wrapper f = from_native . f . to_native] this reduces to the
   round trip below plus the same law on the result side. *)
Definition C11_statement : Prop :=
  forall (f : gv -> gv) (arg : ev) (g : gv), to_native arg = Ok g -> exists r, from_native (f g) = Ok r /\ wrapper f arg = Ok r.

(* values of the modelled types survive Ego -> Go -> Ego unchanged (scalars of every kind incl. float bit patterns,
   arrays of int, int16, uint16, int32, int64, bool, byte, float32, float64, string with in-range elements) *)
Theorem C11_conv_roundtrip :
  forall v,
    match v with
    | EScalar _ => True
    | EArray k elems => kmem k to_native_kinds = true /\ forallb (has_kind k) elems = true
    end ->
    exists g, to_native v = Ok g /\ from_native g = Ok v.
Proof. exact conv_roundtrip. Qed.

(* hence a pass-through wrapper returns exactly what the Go function returns whenever the result is representable *)
Theorem C11_wrapper_returns_go :
  forall (f : gv -> gv) v g r,
    to_native v = Ok g -> from_native (f g) = Ok r -> wrapper f v = Ok r.
Proof. intros f v g r H1 H2. unfold wrapper. rewrite H1. exact H2. Qed.

(* repaired argument conversion: a successful conversion passes every argument unchanged, so a failing argument
   anywhere in the list fails the call *)
Theorem C11_args_all_or_error :
  forall params args l, to_native_args true params args = Ok l ->
    forall i k a, nth_error params i = Some k -> nth_error args i = Some a -> coerce k a = Ok a /\ nth_error l i = Some a.
Proof. intros params args l H. exact (args_new_ok params args l H). Qed.

(* the code before the repair called the function although the first argument could not be converted *)
Theorem C11_args_old_refuted :
  exists params args l, coerce (hd KInt params) (hd (VBool true) args) = Err /\ to_native_args false params args = Ok l.
Proof. exists [KInt64; KInt], [VStr [97%N]; VInt KInt 10]. eexists. split; reflexivity. Qed.

(* result kinds that Go can hand back but the conversion refuses (asymmetry, recorded in docs): []uint32 *)
Theorem C11_uint32_result_refused : forall l, from_native (GSlice KUInt32 l) = Err.
Proof. reflexivity. Qed.

(* multi-value results are popped in declaration order (value first, error second) *)
Theorem C11_multi_return_order : forall (A : Type) (l st : list A), push_multi l st = l ++ st.
Proof. intros. apply push_multi_order. Qed.

(* Roman numerals: parse (format n) = n on the whole documented range *)
Theorem C11_roman_roundtrip :
  forall n : Z, 1 <= n <= 3999 -> exists s, itor n = Some s /\ rtoi s = Some (Z.to_N n).
Proof. exact roman_roundtrip. Qed.

(* base64 wrappers: Ego's glue is data.String / []byte(text) / string(b); the codec is Go's *)
Section Base64.
  Variable enc : list N -> str.
  Variable dec : str -> option (list N).
  Hypothesis dec_enc : forall b, dec (enc b) = Some b.
  Definition b64_encode (text : str) : str := enc text.
  Definition b64_decode (s : str) : option str * bool := match dec s with Some b => (Some b, false) | None => (None, true) end.
  Theorem C11_base64_roundtrip : forall text, b64_decode (b64_encode text) = (Some text, false).
  Proof. intros. unfold b64_decode, b64_encode. rewrite dec_enc. reflexivity. Qed.
End Base64.

(* sort wrappers: the glue converts the Ego array to keys, lets Go sort, and stores the result in the same array *)
Section SortGlue.
  Variable key : sv -> Z.
  Variable gosort : list sv -> list sv.
  Definition le (a b : sv) : Prop := key a <= key b.
  Hypothesis gosort_sorted : forall l, StronglySorted le (gosort l).
  Hypothesis gosort_perm : forall l, Permutation l (gosort l).
  Definition ego_sort (v : ev) : res ev :=
    match v with
    | EArray k elems => if forallb (has_kind k) elems then Ok (EArray k (gosort elems)) else Err
    | _ => Err
    end.
  Theorem C11_sort_sorted_perm :
    forall k elems, forallb (has_kind k) elems = true ->
      exists out, ego_sort (EArray k elems) = Ok (EArray k out) /\ StronglySorted le out /\ Permutation elems out.
  Proof. intros k elems H. exists (gosort elems). cbn [ego_sort]. rewrite H. auto. Qed.
End SortGlue.

(* stability is what the stable wrappers' glue must preserve: whichever Go sort function the wrapper of a stable entry
   reaches (regenerated table, obligation [table_ok]) is a stable one, so equal keys keep their input order *)
Section StableGlue.
  Variable key : sv -> Z.
  Variable gorun : gosortfn -> list sv -> list sv.          (* what Go's sort.X does to the slice under the adapted comparator *)
  Hypothesis go_sorted : forall f l, StronglySorted (fun a b => key a <= key b) (gorun f l).
  Hypothesis go_perm : forall f l, Permutation l (gorun f l).
  Hypothesis go_stable : forall f l, go_is_stable f = true -> keep_order key l (gorun f l).
  Theorem C11_stable_wrapper_stable :
    forall tbl name reached f l,
      table_ok tbl = true -> In (name, reached) tbl -> ego_stable_name name = true -> In f reached ->
      keep_order key l (gorun f l) /\ StronglySorted (fun a b => key a <= key b) (gorun f l) /\ Permutation l (gorun f l).
  Proof.
    intros tbl name reached f l Ht Hin Hn Hf. unfold table_ok in Ht. rewrite forallb_forall in Ht.
    specialize (Ht _ Hin). unfold row_ok in Ht. cbn [fst snd] in Ht. rewrite Hn in Ht.
    apply andb_true_iff in Ht as [_ Ht]. rewrite forallb_forall in Ht.
    repeat split; [apply go_stable; apply Ht; exact Hf | apply go_sorted | apply go_perm].
  Qed.
End StableGlue.

(* the obligation is not vacuous: today's table passes, the table of a wrapper that hands sort.Slice to the stable entry does not *)
Example C11_table_ok_discriminates :
  table_ok [(name_SliceStable, [GoSliceStable]); (name_Stable, [GoSliceStable]); ([83;108;105;99;101]%N, [GoSlice])] = true /\
  table_ok [(name_SliceStable, [GoSlice])] = false /\ table_ok [(name_Stable, [])] = false.
Proof. repeat split; reflexivity. Qed.

Example C11_nonvacuous :
  (exists g, to_native (EArray KInt16 [VInt KInt16 (-32768); VInt KInt16 32767]) = Ok g /\
             from_native g = Ok (EArray KInt16 [VInt KInt16 (-32768); VInt KInt16 32767])) /\
  to_native (EArray KInt16 [VInt KInt16 40000]) = Err /\
  itor 1994 = Some [77;67;77;88;67;73;86]%N /\ rtoi [32;109;99;109;120;99;105;118;32]%N = Some 1994%N /\
  to_native_args true [KInt64; KInt] [VStr [97%N]; VInt KInt 10] = Err.
Proof. repeat split; try reflexivity. eexists; split; reflexivity. Qed.
