"""C30 The resource store behaves like a keyed record set (internal/resources over SQLite)."""
import json
import os
import re
import vf

GROUP = "Store"
PKG = "internal/resources"
THEOREMS = ["C30_refines_table", "C30_refines_table_state", "C30_old_refuted_badcol", "C30_old_refuted_nilfirst",
            "C30_old_refuted_reopen_key"]
# (the extended operation set - SetPrimaryKey, Sort, ReadOne, UpdateOne, DeleteOne, reopen - is inside C30_refines_table)
META = {
    "group": "Store",
    "technique": "Coq refinement proof (all histories) of an executable model of the resources handle - filter "
                 "constructors, where/and and bind-parameter generation, statement texts, keyed table semantics - "
                 "against a keyed in-memory table; byte-for-byte comparison of every SQL statement and bound "
                 "argument that reaches the SQLite driver with the model's, vm_compute correspondence of all "
                 "results, and an independent in-memory-table oracle on the real results",
    "text": "C30_refines_table / C30_refines_table_state: for every schema in which a column is found again by its own "
            "field name and SQL name (schema_ok, computable) and every history of create, create-if, insert, read, update "
            "and delete with equality and comparison filters - including nil filters anywhere in the list and filters "
            "naming an unknown column - plus SetPrimaryKey, Sort, ReadOne, UpdateOne, DeleteOne and close-and-reopen of "
            "the handle, the handle returns exactly the results (rows in the requested order, counts, errors) of a keyed "
            "in-memory table and leaves the same table and handle state behind, for every reading of the generated "
            "where clause that treats `where c (and c)*` as the conjunction of its conditions and every ORDER BY that "
            "sorts ascending by the listed columns with ties in table order. The pinned code was refuted and repaired: "
            "C30_old_refuted_badcol (a filter on an unknown column made Delete/Update/Read apply to every row) and "
            "C30_old_refuted_nilfirst (a nil filter in front of a real one produced malformed SQL, reachable from "
            "ReadAllPermissions) by 1e0c750d; C30_old_refuted_reopen_key (CreateIf on an existing table left the handle "
            "without a key column, so ReadOne/UpdateOne/DeleteOne answered not-found for records that are there) by "
            "704512eb. The model's statement texts (incl. ORDER BY and the primary-key column of CREATE TABLE) and bound "
            "arguments are compared byte for byte with what reaches the driver on every run. "
            "partial: what SQLite does with the generated text (clause parsing and ORDER BY as hypotheses; comparison "
            "and primary-key semantics as the model's val_cmp / keys_unique, validated only by the correspondence run on "
            "type-correct values); a handle that is reopened and never calls Create/CreateIf/SetPrimaryKey has no key "
            "(modelled, part of the spec); float columns, Nullable/SetSQLType/SetSQLName, Postgres and concurrent use of "
            "one handle are not modelled",
    "note": "Trusted: Coq kernel; hand-written model tied to the code by the correspondence; SQLite (modernc) for the "
            "meaning of the statements; the recording driver wrapper in harness/C30/c30_test.go (database/sql falls "
            "back to Prepare+Exec/Query through it); props/C30.py generator, encodings and the Python table oracle.",
}

COLS = ["ID", "Name", "Age", "Active", "Tags", "Raw"]
ZERO_UUID = "00000000-0000-0000-0000-000000000000"
UUIDS = ["11111111-1111-1111-1111-111111111111", "22222222-2222-2222-2222-222222222222",
         "33333333-3333-3333-3333-333333333333", "0a0b0c0d-0000-4000-8000-00000000000f", ZERO_UUID]
NAMES = ["Tom", "Mark", "O'Brien", "tom", "", "Zoë", 'x" OR "1"="1', "Ann", "x' OR '1'='1", "Tom "]
AGES = [-5, 0, 1, 62, 63, 64, 1 << 40]
TAGS = [[], ["a"], ["a", "b"], ["root", "logon"]]
RAWS = ["{}", '{"x":1}', "[1,2]", ""]
BADCOLS = ["Nmae", "user", "", "Name ", "na", "Names", "i d", "ïd"]
CMPS = ["eq", "ne", "lt", "gt"]


# ----------------------------------------------------------------------------- generation

def tags_json(t):
    return json.dumps(t, separators=(",", ":"))


def gen_rec(rng):
    return {"ID": rng.choice(UUIDS), "Name": rng.choice(NAMES), "Age": rng.choice(AGES),
            "Active": rng.random() < 0.5, "Tags": rng.choice(TAGS), "Raw": rng.choice(RAWS)}


def spell(rng, col):
    return rng.choice([col, col.lower(), col.upper(), col.swapcase()])


def gen_filter(rng, bad, stored=()):
    """a filter on a random column; 60% of the constants are the value some stored record has in that column
    (so eq/ne/lt/gt are exercised AT stored values, including the zero value of every field type)."""
    if bad and rng.random() < 0.5:
        return {"col": rng.choice(BADCOLS), "cmp": rng.choice(CMPS), "kind": "s", "val": rng.choice(NAMES)}
    col = rng.choice(COLS + ["Name", "Age", "ID", "ID"])
    cmp_ = rng.choice(["eq", "eq", "ne", "lt", "gt"])
    rec = rng.choice(stored) if stored and rng.random() < 0.6 else None
    if col == "ID":
        return {"col": spell(rng, col), "cmp": cmp_, "kind": rng.choice("uus"), "val": rec["ID"] if rec else rng.choice(UUIDS)}
    if col == "Name":
        return {"col": spell(rng, col), "cmp": cmp_, "kind": "s", "val": rec["Name"] if rec else rng.choice(NAMES + ["N", "a"])}
    if col == "Age":
        return {"col": spell(rng, col), "cmp": cmp_, "kind": "i", "val": rec["Age"] if rec else rng.choice(AGES + [2, 100])}
    if col == "Active":
        return {"col": spell(rng, col), "cmp": cmp_, "kind": "b", "val": rec["Active"] if rec else rng.random() < 0.5}
    if col == "Tags":
        return {"col": spell(rng, col), "cmp": cmp_, "kind": "s", "val": tags_json(rec["Tags"] if rec else rng.choice(TAGS))}
    return {"col": spell(rng, col), "cmp": cmp_, "kind": "s", "val": rec["Raw"] if rec else rng.choice(RAWS)}


def gen_filters(rng, bad, stored=()):
    n = rng.choice([0, 1, 1, 1, 2, 2, 3])
    out = []
    for _ in range(n):
        out.append(None if rng.random() < 0.2 else gen_filter(rng, bad, stored))
    return out


def zero_rec(rng):
    """every field at its zero / boundary value with probability 1/2 each"""
    r = gen_rec(rng)
    for k, z in (("ID", ZERO_UUID), ("Name", ""), ("Age", 0), ("Active", False), ("Tags", []), ("Raw", "")):
        if rng.random() < 0.5:
            r[k] = z
    return r


def gen_history(rng, bad):
    ops = []
    stored = []
    r = rng.random()
    if r < 0.85:
        ops.append({"op": "createif"})
    elif r < 0.95:
        ops.append({"op": "create"})

    def ins():
        rec = zero_rec(rng) if rng.random() < 0.3 else gen_rec(rng)
        stored.append(rec)
        return {"op": "insert", "rec": rec}
    for _ in range(rng.randint(2, 5)):
        ops.append(ins())
    hk = 0 if ops and ops[0]["op"] in ("create", "createif") else None       # generator's idea of the flagged key column

    def keyarg():
        c = COLS[hk if hk is not None else 0]
        rec = rng.choice(stored) if stored and rng.random() < 0.8 else gen_rec(rng)
        v = tags_json(rec[c]) if c == "Tags" else rec[c]
        kind = {"ID": rng.choice("us"), "Name": "s", "Age": "i", "Active": "b", "Tags": "s", "Raw": "s"}[c]
        return {"kind": kind, "val": v}
    for _ in range(rng.randint(3, 10)):
        k = rng.choices(["insert", "read", "update", "delete", "create", "createif",
                         "readone", "updateone", "deleteone", "sort", "setkey", "reopen"],
                        [3, 6, 3, 2, 0.3, 0.3, 2.5, 1.5, 1, 1.5, 0.6, 0.6])[0]
        if k == "insert":
            ops.append(ins())
        elif k == "update":
            rec = zero_rec(rng) if rng.random() < 0.3 else gen_rec(rng)
            ops.append({"op": k, "rec": rec, "filters": gen_filters(rng, bad, stored)})
            stored.append(rec)
        elif k in ("read", "delete"):
            ops.append({"op": k, "filters": gen_filters(rng, bad, stored)})
        elif k in ("readone", "deleteone"):
            ops.append({"op": k, "key": keyarg()})
        elif k == "updateone":
            rec = dict(rng.choice(stored)) if stored and rng.random() < 0.7 else gen_rec(rng)
            rec.update({"Age": rng.choice(AGES), "Active": rng.random() < 0.5})
            ops.append({"op": k, "rec": rec})
            stored.append(rec)
        elif k == "sort":
            ops.append({"op": k, "names": [spell(rng, c) for c in rng.sample(COLS, rng.choice([0, 1, 1, 2, 2, 3]))] +
                        (["nope"] if bad and rng.random() < 0.3 else [])})
        elif k == "setkey":
            n = rng.choice(COLS + ["ID", "Name", "nope"])
            hk = COLS.index(n) if n in COLS else None
            ops.append({"op": k, "name": spell(rng, n)})
        elif k == "reopen":
            hk = None
            ops.append({"op": k})
        else:
            if hk is None:
                hk = 0
            ops.append({"op": k})
    ops.append({"op": "read", "filters": []})
    return ops


def F(col, cmp_, kind, val):
    return {"col": col, "cmp": cmp_, "kind": kind, "val": val}


def corpus():
    def rec(u, n, a, act, tags=(), raw="{}"):
        return {"ID": UUIDS[u], "Name": n, "Age": a, "Active": act, "Tags": list(tags), "Raw": raw}
    base = [{"op": "createif"}, {"op": "insert", "rec": rec(0, "Tom", 63, True)},
            {"op": "insert", "rec": rec(1, "Mark", 62, False)}]
    return [
        # the two _refuted witnesses (Store/Proofs.v witness_badcol, witness_nilfirst)
        base + [{"op": "delete", "filters": [F("Nmae", "eq", "s", "Tom")]}, {"op": "read", "filters": []}],
        base + [{"op": "read", "filters": [None, F("name", "eq", "s", "Tom")]}],
        # same shapes for update / delete, nil in the middle, placeholder numbering after the SET values
        base + [{"op": "update", "rec": rec(0, "Z", 1, True), "filters": [None, F("Age", "gt", "i", 62)]},
                {"op": "delete", "filters": [None, None, F("ID", "eq", "u", UUIDS[1])]}, {"op": "read", "filters": []}],
        base + [{"op": "update", "rec": rec(2, "Z", 1, True), "filters": [F("user", "eq", "s", "Tom")]},
                {"op": "read", "filters": [F("nope", "ne", "s", "")]}, {"op": "read", "filters": []}],
        base + [{"op": "insert", "rec": rec(2, "O'Brien", -5, True, ["a", "b"], '{"x":1}')},
                {"op": "update", "rec": rec(2, "Zed", 7, False), "filters": [F("NAME", "eq", "s", "O'Brien"), None, F("active", "eq", "b", True)]},
                {"op": "update", "rec": rec(0, "All", 7, False), "filters": []},
                {"op": "update", "rec": rec(1, "Clash", 7, False), "filters": [F("id", "eq", "s", UUIDS[0])]},
                {"op": "read", "filters": [F("tags", "eq", "s", "[]")]}, {"op": "read", "filters": []}],
        # zero / boundary value of every field type, every operator with a constant equal to a stored value
        # (seeded change C30-2: a zero uuid stored as "" no longer matches the filter constant)
        [{"op": "createif"}, {"op": "insert", "rec": rec(4, "", 0, False, [], "")}, {"op": "insert", "rec": rec(0, "Tom", 63, True, ["a"], "{}")},
         {"op": "insert", "rec": rec(1, "Mark", -5, False, [], "[1,2]")}] +
        [{"op": "read", "filters": [F(c, o, k, v)]} for c, k, v in (("ID", "u", ZERO_UUID), ("id", "s", ZERO_UUID), ("Name", "s", ""),
                                                                     ("Age", "i", 0), ("Active", "b", False), ("Tags", "s", "[]"),
                                                                     ("Raw", "s", ""), ("ID", "u", UUIDS[0]), ("Age", "i", 63),
                                                                     ("Name", "s", "Tom"))
         for o in CMPS] +
        [{"op": "update", "rec": rec(4, "Nil", 1, True), "filters": [F("ID", "eq", "u", ZERO_UUID)]}, {"op": "read", "filters": []},
         {"op": "delete", "filters": [F("ID", "ne", "u", ZERO_UUID), F("Age", "gt", "i", 0)]}, {"op": "read", "filters": []},
         {"op": "delete", "filters": [F("ID", "eq", "u", ZERO_UUID)]}, {"op": "read", "filters": []}],
        # Sort / ReadOne / UpdateOne / DeleteOne, and the handle of a reopened database: no key column is flagged
        # until SetPrimaryKey or Create (seeded change C31-2 relied on exactly that)
        base + [{"op": "insert", "rec": rec(2, "Ann", 63, False)}, {"op": "sort", "names": ["AGE", "name"]},
                {"op": "read", "filters": [F("age", "gt", "i", 0)]}, {"op": "readone", "key": {"kind": "u", "val": UUIDS[1]}},
                {"op": "updateone", "rec": rec(0, "Tommy", 1, True)}, {"op": "deleteone", "key": {"kind": "s", "val": UUIDS[1]}},
                {"op": "deleteone", "key": {"kind": "u", "val": UUIDS[1]}}, {"op": "reopen"},
                {"op": "readone", "key": {"kind": "u", "val": UUIDS[0]}}, {"op": "updateone", "rec": rec(0, "X", 2, True)},
                {"op": "deleteone", "key": {"kind": "u", "val": UUIDS[0]}}, {"op": "createif"},
                {"op": "readone", "key": {"kind": "u", "val": UUIDS[0]}}, {"op": "setkey", "name": "Name"},
                {"op": "readone", "key": {"kind": "s", "val": "Tommy"}}, {"op": "updateone", "rec": rec(3, "Ann", 7, True)},
                {"op": "sort", "names": []}, {"op": "read", "filters": []}, {"op": "create"},
                {"op": "readone", "key": {"kind": "s", "val": "Ann"}}, {"op": "setkey", "name": "nope"},
                {"op": "readone", "key": {"kind": "s", "val": "Ann"}}, {"op": "read", "filters": []}],
        [{"op": "setkey", "name": "age"}, {"op": "create"}, {"op": "insert", "rec": rec(0, "Tom", 63, True)},
         {"op": "insert", "rec": rec(1, "Mark", 63, False)}, {"op": "insert", "rec": rec(1, "Mark", 62, False)},
         {"op": "readone", "key": {"kind": "i", "val": 62}}, {"op": "sort", "names": ["Name", "nope", "id"]},
         {"op": "read", "filters": []}, {"op": "updateone", "rec": rec(2, "Zed", 62, True)}, {"op": "read", "filters": []},
         {"op": "deleteone", "key": {"kind": "i", "val": 7}}, {"op": "deleteone", "key": {"kind": "i", "val": 62}},
         {"op": "read", "filters": []}],
        [{"op": "insert", "rec": rec(0, "Tom", 63, True)}, {"op": "read", "filters": []}, {"op": "create"},
         {"op": "create"}, {"op": "createif"}, {"op": "delete", "filters": []}],
    ]


# ----------------------------------------------------------------------------- Python oracle: a keyed in-memory table

def row_of(rec):
    return (rec["ID"], rec["Name"], rec["Age"], bool(rec["Active"]), tags_json(rec["Tags"]), rec["Raw"])


def resolve(filters):
    """None = unknown column; else list of (col index, cmp, value)."""
    out = []
    for f in filters or []:
        if f is None:
            continue
        idx = [i for i, c in enumerate(COLS) if c.lower() == f["col"].lower()]
        if not idx or any(ord(ch) > 127 for ch in f["col"]):
            return None
        out.append((idx[0], f["cmp"], f["val"]))
    return out


def key(v):
    if isinstance(v, str):
        return (1, v.encode("utf8"))
    return (0, int(v))


def holds(cmp_, a, b):
    a, b = key(a), key(b)
    return {"eq": a == b, "ne": a != b, "lt": a < b, "gt": a > b}[cmp_]


def matches(sfs, row):
    return all(holds(c, row[i], v) for i, c, v in sfs)


def colidx(name):
    if any(ord(ch) > 127 for ch in name):
        return None
    idx = [i for i, c in enumerate(COLS) if c.lower() == name.lower()]
    return idx[0] if idx else None


def keyval(k):
    """value of a readone/deleteone key as it is stored (a uuid is stored as its text)"""
    return k["val"]


def sort_rows(rows, order):
    return sorted(rows, key=lambda r: tuple(key(r[c]) for c in order)) if order else list(rows)


def proj(row, order):
    return tuple(key(row[c]) for c in order)


def oracle(ops):
    """a keyed in-memory table + the handle's key column flag and sort order.
    answers: "ok" | "err" | ("count", n) | ("rows", rows in model order, order) | ("one", candidates in model order, order)"""
    tbl, tkey, hkey, order = None, 0, None, []
    out = []

    def unique(t):
        ks = [key(x[tkey]) for x in t]
        return len(set(ks)) == len(ks)

    def create():
        nonlocal tbl, tkey, hkey
        hkey = 0 if hkey is None else hkey          # SetDefaultPrimaryKey: no "id"/"name" field name -> column 0
        if tbl is None:
            tbl, tkey = [], hkey
            return "ok"
        return "err"
    for o in ops:
        k = o["op"]
        if k == "create":
            out.append(create())
        elif k == "createif":
            if tbl is not None:
                hkey = 0 if hkey is None else hkey  # 704512eb: CreateIf flags the default key column too
                out.append("ok")
            else:
                out.append(create())
        elif k == "setkey":
            hkey = colidx(o["name"])
            out.append("ok")
        elif k == "sort":
            order = [colidx(n) for n in o["names"] if colidx(n) is not None]
            out.append("ok")
        elif k == "reopen":
            hkey, order = None, []
            out.append("ok")
        elif k in ("readone", "deleteone", "updateone") and hkey is None:
            out.append("err")
        elif tbl is None:
            out.append("err")
        elif k == "insert":
            r = row_of(o["rec"])
            if any(key(x[tkey]) == key(r[tkey]) for x in tbl):
                out.append("err")
            else:
                tbl.append(r)
                out.append("ok")
        elif k == "readone":
            cands = sort_rows([x for x in tbl if key(x[hkey]) == key(keyval(o["key"]))], order)
            out.append(("one", cands, list(order)) if cands else "err")
        elif k == "deleteone":
            n = sum(1 for x in tbl if key(x[hkey]) == key(keyval(o["key"])))
            tbl = [x for x in tbl if key(x[hkey]) != key(keyval(o["key"]))]
            out.append("ok" if n else "err")
        elif k == "updateone":
            nr = row_of(o["rec"])
            t2 = [nr if key(x[hkey]) == key(nr[hkey]) else x for x in tbl]
            if unique(t2):
                tbl = t2
                out.append("ok")
            else:
                out.append("err")
        else:
            sfs = resolve(o.get("filters"))
            if sfs is None:
                out.append("err")
            elif k == "read":
                out.append(("rows", sort_rows([x for x in tbl if matches(sfs, x)], order), list(order)))
            elif k == "delete":
                out.append(("count", sum(1 for x in tbl if matches(sfs, x))))
                tbl = [x for x in tbl if not matches(sfs, x)]
            elif k == "update":
                nr = row_of(o["rec"])
                t2 = [nr if matches(sfs, x) else x for x in tbl]
                if unique(t2):
                    tbl = t2
                    out.append("ok")
                else:
                    out.append("err")
    return out


def real_res(o):
    if o["res"] == "rows":
        return ("rows", [row_of(r) for r in o["rows"]])       # in the order returned
    if o["res"] == "count":
        return ("count", o["count"])
    return o["res"]


def agree(got, want):
    """real answer vs table answer; row order matters only as far as ORDER BY determines it"""
    if isinstance(want, str) or want[0] == "count":
        return got == want
    if not (isinstance(got, tuple) and got[0] == "rows"):
        return False
    rows, order = got[1], want[2]
    if want[0] == "rows":
        return sorted(rows) == sorted(want[1]) and [proj(r, order) for r in rows] == [proj(r, order) for r in want[1]]
    return len(rows) == 1 and rows[0] in want[1] and proj(rows[0], order) == proj(want[1][0], order)


def show(w):
    if isinstance(w, tuple) and w[0] in ("rows", "one"):
        return json.dumps([w[0], w[1][:6]] + ([{"order": w[2]}] if len(w) > 2 and w[2] else []))[:300]
    return json.dumps(w)[:300]


def coq_mode(got, want):
    """0 = compare as multiset, 1 = exact order, 2 = the order / the row picked is not determined: skip"""
    if isinstance(want, tuple) and want[0] == "rows" and want[2]:
        ps = [proj(r, want[2]) for r in want[1]]
        return 1 if len(set(ps)) == len(ps) else 0
    if isinstance(want, tuple) and want[0] == "one":
        first = proj(want[1][0], want[2])
        return 1 if sum(1 for r in want[1] if proj(r, want[2]) == first) == 1 and (want[2] or len(want[1]) == 1) else 2
    return 0


# ----------------------------------------------------------------------------- Coq encodings

STRTAB = {}


def cstr(s):
    """each distinct string is defined once in the generated file (parsing long list literals is the slow part)."""
    if s not in STRTAB:
        STRTAB[s] = "s%d" % len(STRTAB)
    return STRTAB[s]


def cval(v):
    if isinstance(v, bool):
        return "(VB %s)" % ("true" if v else "false")
    if isinstance(v, int):
        return "(VI (%d)%%Z)" % v
    return "(VS %s)" % cstr(v)


def crow(t):
    return "[" + ";".join(cval(x) for x in t) + "]"


def cfilter(f):
    if f is None:
        return "FNil"
    return "(FBy %s %s %s)" % (cstr(f["col"]), {"eq": "OpEq", "ne": "OpNe", "lt": "OpLt", "gt": "OpGt"}[f["cmp"]],
                               cval(f["val"]))


def cop(o):
    k = o["op"]
    fs = "[" + ";".join(cfilter(f) for f in o.get("filters") or []) + "]"
    if k == "create":
        return "OCreate"
    if k == "createif":
        return "OCreateIf"
    if k == "insert":
        return "(OInsert %s)" % crow(row_of(o["rec"]))
    if k == "read":
        return "(ORead %s)" % fs
    if k == "update":
        return "(OUpdate %s %s)" % (crow(row_of(o["rec"])), fs)
    if k == "setkey":
        return "(OSetKey %s)" % cstr(o["name"])
    if k == "sort":
        return "(OSort [%s])" % ";".join(cstr(n) for n in o["names"])
    if k == "readone":
        return "(OReadOne %s)" % cval(o["key"]["val"])
    if k == "deleteone":
        return "(ODeleteOne %s)" % cval(o["key"]["val"])
    if k == "updateone":
        return "(OUpdateOne %s)" % crow(row_of(o["rec"]))
    if k == "reopen":
        return "OReopen"
    return "(ODelete %s)" % fs


def cres(r):
    if r == "ok":
        return "ROk"
    if r == "err":
        return "RErr"
    if r[0] == "count":
        return "(RCount %d%%N)" % r[1]
    return "(RRows [" + ";".join(crow(x) for x in r[1]) + "])"


def carg(a):
    if "s" in a:
        return cval(a["s"])
    if "i" in a:
        return cval(int(a["i"]))
    if "b" in a:
        return cval(bool(a["b"]))
    return "(VS [0])"


def cstmt(s):
    args = "None" if s["prep_err"] else "(Some [" + ";".join(carg(a) for a in s["args"]) + "])"
    return "(%s, %s)" % (cstr(s["sql"]), args)


PRELUDE = """From Store Require Import Model.
From Common Require Import Base.
Open Scope N_scope.
Definition expect := (nat * res * list (str * option (list val)))%type.   (* compare mode, result, statements *)
Definition stmt_ok (s : stmt) (e : str * option (list val)) : bool :=
  str_eqb (stmt_text demo_cols demo_tbl s) (fst e) &&
  match snd e with None => true | Some a => vals_eqb (stmt_args s) a end.
Fixpoint stmts_ok (ss : list stmt) (es : list (str * option (list val))) : bool :=
  match ss, es with [], [] => true | s :: ss', e :: es' => stmt_ok s e && stmts_ok ss' es' | _, _ => false end.
Fixpoint rows_exact (a b : list row) : bool :=
  match a, b with [], [] => true | x :: a', y :: b' => row_eqb x y && rows_exact a' b' | _, _ => false end.
Definition res_cmp (mode : nat) (x y : res) : bool :=
  match mode, x, y with
  | 2%nat, RRows _, RRows _ => true
  | 1%nat, RRows a, RRows b => rows_exact a b
  | _, _, _ => res_eqb x y
  end.
Fixpoint trace_ok (tr : list (res * list stmt)) (ex : list expect) : bool :=
  match tr, ex with
  | [], [] => true
  | (x, ss) :: tr', (m, y, es) :: ex' => res_cmp m x y && stmts_ok ss es && trace_ok tr' ex'
  | _, _ => false
  end.
Fixpoint res_ok (tr : list (res * list stmt)) (ex : list expect) : bool :=
  match tr, ex with
  | [], [] => true
  | (x, _) :: tr', (m, y, _) :: ex' => res_cmp m x y && res_ok tr' ex'
  | _, _ => false
  end.
Definition case := (list op * list expect)%type.
Fixpoint bad (f : case -> bool) (i : nat) (l : list case) : list nat :=
  match l with [] => [] | c :: r => (if f c then [] else [i]) ++ bad f (S i) r end.
Definition full_ok (c : case) := trace_ok (trace_from wsem_ref osem_ref demo_cols st0 (fst c)) (snd c).
Definition results_ok (c : case) := res_ok (trace_from wsem_ref osem_ref demo_cols st0 (fst c)) (snd c).
Definition wf_ok (c : case) := history_wf demo_cols (fst c).
"""


def classify(ops, i):
    """signature class of a disagreement at op i (for known-finding keys and replays)."""
    if ops[i]["op"] in ("readone", "updateone", "deleteone"):
        return "keyed-op"
    fs = ops[i].get("filters") or []
    real = [f for f in fs if f is not None]
    if any(resolve([f]) is None for f in real):
        return "unknown-column"
    if fs and fs[0] is None and real:
        return "nil-before-filter"
    return "table-mismatch"


def run(ck):
    quick = ck.tier == "quick"
    ck.cov["rule"] = ("histories over verifRec{ID uuid; Name string; Age int; Active bool; Tags []string; Raw json.RawMessage} "
                      "on a fresh SQLite file each: create/createif, 2-5 inserts (4 uuids so keys collide), then 3-9 of "
                      "insert/read/update/delete/readone/updateone/deleteone/sort/setkey/reopen with 0-3 filters (20% nil per slot, eq/ne/lt/gt, 60% of the constants equal to a "
                      "stored value of that column, 30% of the records with zero/boundary fields - zero uuid, '', 0, false, [], "
                      "empty raw json -, column names in mixed "
                      "case, type-correct values incl. quotes and non-ASCII), 25% of the histories also use unknown column "
                      "names; fixed corpus first. distinct_nontrivial = distinct (op, per-slot filter pattern, result "
                      "class, row count) tuples observed on the real code with at least one non-nil filter")
    ck.assume("SQLite parses `where c (and c)*` as the conjunction of its conditions and the empty clause as no condition "
              "(Section hypotheses wsem_empty / wsem_where of Store/Proofs.v; satisfied by wsem_ref)",
              "SQLite compares bound values with stored ones as val_cmp (integers numerically, TEXT by memcmp, bool as 0/1) "
              "and enforces the primary key as keys_unique with statement-level rollback - validated by the correspondence "
              "run for type-correct filter values only",
              "column names are ASCII (strings.EqualFold modelled by ASCII case folding)",
              "SQLite's ORDER BY c1, c2 returns the selected rows ascending by val_cmp on those columns (Section hypothesis "
              "osem_sorts: ties in table order; the correspondence compares tied rows only as a multiset)")
    ck.trusted("harness/C30/c30_test.go (in-package overlay; recording driver wrapper around modernc sqlite)",
               "props/C30.py generator, encodings, Python keyed-table oracle",
               "correspondence evaluated by vm_compute in a generated cases file")
    ck.coq_stage(GROUP, theorems=THEOREMS)

    ok, binp = vf.go_test_build(ck.work, PKG, {PKG + "/zz_verif_c30_test.go": os.path.join(vf.HARNESS, "C30", "c30_test.go")},
                                "c30.test")
    if not ok:
        ck.violation("harness-build", "harness for internal/resources does not build:\n" + binp[-1500:],
                     replay={"log": binp[-3000:]}, found_input=False)
        return
    hs = corpus()
    n = 150 if quick else 2500
    while len(hs) < n:
        hs.append(gen_history(ck.rng, ck.rng.random() < 0.25))
    if ck.replay_file:
        rp = json.load(open(ck.replay_file))["replay"]
        hs = rp.get("histories") or hs[:6]
    inp = os.path.join(ck.work, "in.jsonl")
    outp = os.path.join(ck.work, "out.jsonl")
    with open(inp, "w") as f:
        for i, h in enumerate(hs):
            f.write(json.dumps({"id": i, "ops": h}) + "\n")
    rc, log = vf.run_bin(binp, "^TestVerifC30$", {"VERIF_IN": inp, "VERIF_OUT": outp})
    if rc != 0:
        ck.violation("harness-run", "harness failed:\n" + log[-1500:], replay={"log": log[-3000:]}, found_input=False)
        return
    outs = {}
    for line in open(outp):
        d = json.loads(line)
        outs[d["id"]] = d
    if len(outs) != len(hs):
        ck.violation("harness-run", "harness answered %d of %d histories" % (len(outs), len(hs)), replay={}, found_input=False)
        return

    # ---- property oracle on the implementation: a keyed in-memory table
    nontriv = set()
    nops = 0
    dist = {"histories": len(hs), "ops": 0, "zero_uuid_records": 0, "filters_on_zero_uuid": 0, "nil_filters": 0, "unknown_column_filters": 0, "nil_before_filter_ops": 0,
            "key_collisions": 0, "reads_with_rows": 0, "errors": 0, "keyed_ops": 0, "ordered_reads": 0, "reopens": 0}
    oracle_bad = set()
    wants = {}
    for i, h in enumerate(hs):
        want = oracle(h)
        got = [real_res(o) for o in outs[i]["out"]]
        for j, o in enumerate(h):
            nops += 1
            fs = o.get("filters") or []
            dist["nil_filters"] += sum(1 for f in fs if f is None)
            dist["zero_uuid_records"] += o["op"] in ("insert", "update") and o["rec"]["ID"] == ZERO_UUID
            dist["filters_on_zero_uuid"] += sum(1 for f in fs if f is not None and f["val"] == ZERO_UUID)
            dist["unknown_column_filters"] += sum(1 for f in fs if f is not None and resolve([f]) is None)
            if fs and fs[0] is None and any(f is not None for f in fs):
                dist["nil_before_filter_ops"] += 1
            if got[j] == "err":
                dist["errors"] += 1
                if o["op"] in ("insert", "update", "updateone") and want[j] == "err" and resolve(o.get("filters")) is not None:
                    dist["key_collisions"] += 1
            if isinstance(got[j], tuple) and got[j][0] == "rows" and got[j][1]:
                dist["reads_with_rows"] += 1
            dist["keyed_ops"] += o["op"] in ("readone", "updateone", "deleteone")
            dist["ordered_reads"] += o["op"] in ("read", "readone") and isinstance(want[j], tuple) and bool(want[j][2])
            dist["reopens"] += o["op"] == "reopen"
            if o["op"] in ("readone", "updateone", "deleteone"):
                nontriv.add((o["op"], got[j] if isinstance(got[j], str) else got[j][0]))
            if any(f is not None for f in fs):
                pat = tuple("nil" if f is None else ("bad" if resolve([f]) is None else f["cmp"]) for f in fs)
                cls = got[j] if isinstance(got[j], str) else (got[j][0], len(got[j][1]) if got[j][0] == "rows" else got[j][1])
                nontriv.add((o["op"], pat, cls))
            if outs[i]["out"][j]["herr"]:
                ck.violation("handle-error-state", "the shared handle's Err became set after op %d of history %d (the model "
                             "assumes value-receiver constructors never touch it)" % (j, i), replay={"histories": [h]})
        wants[i] = want
        if not all(agree(g, w) for g, w in zip(got, want)):
            j = next(k for k in range(len(h)) if not agree(got[k], want[k]))
            oracle_bad.add(i)
            sig = classify(h, j)
            ck.violation(sig, "history %d op %d (%s %s): real store answered %s, a keyed in-memory table answers %s" % (
                i, j, h[j]["op"], json.dumps(h[j].get("filters") or h[j].get("key") or h[j].get("name") or h[j].get("names")),
                json.dumps(got[j])[:300], show(want[j])),
                replay={"histories": [h[:j + 1]], "op_index": j,
                        "statements": outs[i]["out"][j]["stmts"]})
    dist["ops"] = nops
    ck.cov["evaluations"] = nops
    ck.cov["distinct_nontrivial"] = len(nontriv)
    ck.cov["input_distribution"] = dist
    for i in (0, 1, 4):
        if i < len(hs):
            j = min(len(hs[i]) - 1, 3)
            ck.sample({"history": i, "op": hs[i][j], "statements": [s["sql"] for s in outs[i]["out"][j]["stmts"]],
                       "result": outs[i]["out"][j]["res"], "rows": len(outs[i]["out"][j]["rows"]), "count": outs[i]["out"][j]["count"]})

    # ---- correspondence: model (vm_compute) vs implementation: results, statement texts, bound arguments
    if getattr(ck, "coq_broken", None):
        if not oracle_bad:
            grp, log = ck.coq_broken
            ck.violation("proof-broken", "Coq development %s no longer checks (C30_refines_table):\n%s" % (grp, log[-1200:]),
                         replay={"broken": "coq/" + grp, "log": log[-3000:]}, found_input=False)
        return
    STRTAB.clear()
    cs = []
    for i, h in enumerate(hs):
        ex = []
        for j, o in enumerate(h):
            oo = outs[i]["out"][j]
            g = real_res(oo)
            ex.append("(%d%%nat, %s, [%s])" % (coq_mode(g, wants[i][j]), cres(g), ";".join(cstmt(s) for s in oo["stmts"])))
        cs.append("([%s],\n  [%s])" % (";".join(cop(o) for o in h), ";".join(ex)))
    lines = [PRELUDE] + ["Definition %s : str := %s." % (nm, vf.vstr(st)) for st, nm in STRTAB.items()]
    lines.append("Definition cases : list case := [")
    lines.append(";\n".join(cs))
    lines.append("].")
    okc, res = vf.coq_eval(GROUP, ck.work, "cases30", "\n".join(lines),
                           {"full": "bad full_ok 0 cases", "resonly": "bad results_ok 0 cases", "wf": "bad wf_ok 0 cases"},
                           timeout=1500)
    if not okc:
        ck.violation("correspondence-eval", "model evaluation failed:\n" + str(res)[-1500:], replay={"log": str(res)[-3000:]},
                     found_input=False)
        return
    ck.cov["traces_validated_against_impl"] = len(hs) - len(res["full"])
    if res["wf"]:
        ck.violation("generator", "generated histories outside history_wf: %s" % res["wf"][:5], replay={}, found_input=False)
    for i in res["full"]:
        if i in oracle_bad:
            continue            # a failing input for this history was already reported
        kind = "results" if i in res["resonly"] else "statement text / bound arguments"
        j = None
        ck.violation("corr-" + ("results" if i in res["resonly"] else "sql"),
                     "model and implementation disagree on history %d (%s); the oracle found no wrong answer in it" % (i, kind),
                     replay={"histories": [hs[i]], "observed": [[s for s in o["stmts"]] for o in outs[i]["out"]]},
                     found_input=False)
