(* Opt/Properties.v — C02 Performance settings never change program behaviour (optimizer part). *)
From Coq Require Import List ZArith NArith Bool Arith.
From Common Require Import Base.
From Arith Require Import Model.
From Opt Require Import Generic Model Proofs.
Import ListNotations.
Open Scope nat_scope.

(* the full statement over the model: optimizing with the whole table never changes the behaviour *)
Definition C02_statement : Prop :=
  forall code code', optimize fx_now (proved_rules ++ observed_rules) code = Some code' -> equiv fx_now code' code.

(* every rule of the proved set, for every operand substitution the matcher accepts, every stack, symbol
   table and type-checking mode: pattern and replacement are straight-line and give the same state or the
   same failure (class, line, output) *)
Theorem C02_rules_sound : Forall (rule_sound fx_now) proved_rules.
Proof. exact proved_rules_sound. Qed.

(* generic: a table of sound rules, applied by the engine (branch-target protection, Patch, back-up and
   retry) any number of times, preserves the result of the program for every fuel, state and mode *)
Theorem C02_optimize_sound : forall fx rules code code',
  Forall (rule_sound fx) rules -> optimize fx rules code = Some code' -> equiv fx code' code.
Proof. exact optimize_sound. Qed.

Theorem C02_optimize_sound_partial : forall code code',
  optimize fx_now proved_rules code = Some code' -> equiv fx_now code' code.
Proof. intros code code'. apply optimize_sound. exact proved_rules_sound. Qed.

(* one rewrite anywhere in a program with branches (the generic lemma, instantiated) *)
Theorem C02_rewrite_sound : forall fx r code idx code',
  rule_sound fx r -> try_rule fx r code idx = Rewritten code' -> equiv fx code' code.
Proof. exact try_rule_sound. Qed.

(* ---- the three defects, on the model of the code before the repairs ---- *)
Definition st_of (vs : list (str * slot)) : st := {| stk := []; vars := vs; line := 0; out := [] |}.
Definition x_ : str := [120%N].

(* y = y + 1 on a bool in strict mode: rejected unoptimized, accepted (and retyped) by the old Increment *)
Theorem C02_old_increment_refuted :
  exists win rep m s, instance fx_old r_increment win rep /\ gblock fx_old m win s <> gblock fx_old m rep s.
Proof.
  exists [(Load, nm x_); (Push, OC (VInt Int 1)); (OAdd, ONil); (Store, nm x_)],
         [(Increment, OL2 (nm x_) (OC (VInt Int 1)))], Strict, (st_of [(x_, SVal (VBool true))]).
  split.
  - split; [reflexivity|]. eexists _, _. repeat split; reflexivity.
  - vm_compute. discriminate.
Qed.

(* f := func(){...}: the folded CreateAndStore stores the literal without its captured scope *)
Theorem C02_old_literal_refuted :
  exists win rep m s, instance fx_old r_collapse_cas win rep /\ gblock fx_old m win s <> gblock fx_old m rep s.
Proof.
  exists [(Push, OFn 7 true); (CreateAndStore, nm x_)], [(CreateAndStore, OL2 (nm x_) (OFn 7 true))], Dynamic, (st_of []).
  split.
  - split; [reflexivity|]. eexists _, _. repeat split; reflexivity.
  - vm_compute. discriminate.
Qed.
(* after the repair the matcher refuses that window *)
Example C02_literal_not_matched :
  try_rule fx_now r_collapse_cas [(Push, OFn 7 true); (CreateAndStore, nm x_)] 0 = NoMatch.
Proof. reflexivity. Qed.

(* int8(100) * 2 (typed value pushed by const folding, literal): folded to int 200, computed as int8 -56 *)
Theorem C02_old_fold_refuted :
  exists win rep m s, instance fx_old (fold_rule OMul) win rep /\ gblock fx_old m win s <> gblock fx_old m rep s.
Proof.
  exists [(Push, OV (VInt I8 100)); (Push, OC (VInt Int 2)); (OMul, ONil)], [(Push, OV (VInt Int 200))], Dynamic, (st_of []).
  split.
  - split; [reflexivity|]. eexists _, _. repeat split; reflexivity.
  - vm_compute. discriminate.
Qed.
Example C02_fold_not_matched :
  try_rule fx_now (fold_rule OMul) [(Push, OV (VInt I8 100)); (Push, OC (VInt Int 2)); (OMul, ONil)] 0 = NoMatch.
Proof. reflexivity. Qed.

(* "Unnecessary stack marker for constant store" has no MustBeString guard: on hand-built bytecode whose
   CreateAndStore already carries [name, value] the replacement leaves the pushed constant on the stack
   (never produced by the compiler: observed only) *)
Theorem C02_marker_const_handbuilt_refuted :
  exists win rep m s, instance fx_now r_marker_const win rep /\ gblock fx_now m win s <> gblock fx_now m rep s.
Proof.
  exists [(Push, OM L_let); (Push, OC (VInt Int 1)); (CreateAndStore, OL2 (nm x_) (OC (VInt Int 2))); (DropToMarker, OM L_let)],
         [(Push, OC (VInt Int 1)); (CreateAndStore, OL2 (nm x_) (OC (VInt Int 2)))], Dynamic, (st_of []).
  split.
  - split; [reflexivity|]. eexists _, _. repeat split; reflexivity.
  - vm_compute. discriminate.
Qed.

(* ---- non-vacuity: a loop with a branch back over a fused increment ---- *)
Definition demo : list instr :=
  [ (Push, OC (VInt Int 0)); (CreateAndStore, nm x_);
    (Load, nm x_); (Push, OC (VInt Int 3)); (LessThan, ONil); (BranchFalse, OV (VInt Int 15));
    (Load, nm x_); (Print, ONil);
    (Push, OM L_let); (Load, nm x_); (Push, OC (VInt Int 1)); (OAdd, ONil); (Store, nm x_); (DropToMarker, OM L_let);
    (Branch, OV (VInt Int 2)) ].
Example C02_nonvacuous_optimize :
  exists code', optimize fx_now proved_rules demo = Some code' /\ length code' = 10 /\
    (forall m, match grun fx_now m 10 code' code' init_st with
               | Done _ _ s => out s = [VInt Int 2; VInt Int 1; VInt Int 0] | _ => False end) /\
    (forall m, grun fx_now m 10 demo demo init_st = grun fx_now m 10 code' code' init_st).
Proof.
  eexists. split; [vm_compute; reflexivity|]. split; [reflexivity|].
  split; intros m; destruct m; vm_compute; reflexivity.
Qed.
Example C02_nonvacuous_rule : instance fx_now r_increment
  [(Load, nm x_); (Push, OC (VInt Int 1)); (OAdd, ONil); (Store, nm x_)] [(Increment, OL2 (nm x_) (OC (VInt Int 1)))].
Proof. split; [reflexivity|]. eexists _, _. repeat split; reflexivity. Qed.
