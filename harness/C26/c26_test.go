//go:build verif

package util

// Overlaid into /repo/internal/util by /verif/check C26.  VERIF_IN is a JSON document:
//   {"lex": [[rootHex, pathHex], ...],
//    "layouts": [{"base": "/abs/real/dir", "root": "<abs>", "entries": [{"p": "<abs>", "k": "d|f|l", "t": "<link target>"}],
//                 "paths": [pathHex, ...]}]}
// VERIF_OUT receives {"lex": [resultHex...], "layouts": [[{"r": resultHex, "t": touchedHex|"" , "how": "exists|created|none"}...]]}.
// For every layout the tree is created under base (which must not exist), SandboxJoin is called on
// every path, and the place the kernel really reaches through the result is observed: the real path
// if it exists, otherwise the location where os.WriteFile(result) makes a new file appear.

import (
	"encoding/hex"
	"encoding/json"
	"os"
	"path/filepath"
	"sort"
	"testing"
)

type c26Entry struct {
	P string `json:"p"`
	K string `json:"k"`
	T string `json:"t"`
}

type c26Layout struct {
	Base    string     `json:"base"`
	Root    string     `json:"root"`
	Entries []c26Entry `json:"entries"`
	Paths   []string   `json:"paths"`
}

type c26In struct {
	Lex     [][2]string `json:"lex"`
	Layouts []c26Layout `json:"layouts"`
}

type c26Obs struct {
	R   string `json:"r"`
	T   string `json:"t"`
	How string `json:"how"`
}

func c26Files(base string) map[string]bool {
	res := map[string]bool{}
	_ = filepath.Walk(base, func(p string, info os.FileInfo, err error) error {
		if err == nil && info.Mode().IsRegular() {
			res[p] = true
		}

		return nil
	})

	return res
}

func c26Build(t *testing.T, l c26Layout) {
	if err := os.MkdirAll(l.Base, 0o755); err != nil {
		t.Fatal(err)
	}

	for _, e := range l.Entries {
		var err error

		switch e.K {
		case "d":
			err = os.MkdirAll(e.P, 0o755)
		case "f":
			err = os.WriteFile(e.P, []byte("data"), 0o644)
		case "l":
			err = os.Symlink(e.T, e.P)
		}

		if err != nil {
			t.Fatalf("layout entry %v: %v", e, err)
		}
	}
}

func TestVerifC26(t *testing.T) {
	raw, err := os.ReadFile(os.Getenv("VERIF_IN"))
	if err != nil {
		t.Fatal(err)
	}

	var in c26In
	if err := json.Unmarshal(raw, &in); err != nil {
		t.Fatal(err)
	}

	out := struct {
		Lex     []string   `json:"lex"`
		Layouts [][]c26Obs `json:"layouts"`
	}{}

	for _, c := range in.Lex {
		r, _ := hex.DecodeString(c[0])
		p, _ := hex.DecodeString(c[1])
		out.Lex = append(out.Lex, hex.EncodeToString([]byte(SandboxJoin(string(r), string(p)))))
	}

	for _, l := range in.Layouts {
		c26Build(t, l)

		obs := []c26Obs{}

		for _, ph := range l.Paths {
			pb, _ := hex.DecodeString(ph)
			r := SandboxJoin(l.Root, string(pb))
			o := c26Obs{R: hex.EncodeToString([]byte(r)), How: "none"}

			if real, err := filepath.EvalSymlinks(r); err == nil {
				o.T, o.How = hex.EncodeToString([]byte(real)), "exists"
			} else {
				before := c26Files(l.Base)
				if err := os.WriteFile(r, []byte("probe"), 0o644); err == nil {
					after := c26Files(l.Base)
					created := []string{}

					for f := range after {
						if !before[f] {
							created = append(created, f)
						}
					}

					sort.Strings(created)

					if len(created) > 0 {
						o.T, o.How = hex.EncodeToString([]byte(created[0])), "created"
						_ = os.Remove(created[0])
					}
				}
			}

			obs = append(obs, o)
		}

		out.Layouts = append(out.Layouts, obs)
		_ = os.RemoveAll(l.Base)
	}

	b, _ := json.Marshal(out)
	if err := os.WriteFile(os.Getenv("VERIF_OUT"), b, 0o644); err != nil {
		t.Fatal(err)
	}
}
