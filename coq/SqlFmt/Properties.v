(* SqlFmt/Properties.v — C16: SQL reformatting preserves statements (expression fragment, token level). *)
From Common Require Import Base.
From Coq Require Import Ascii String.
From SqlFmt Require Import PrecClimb PrecClimbProofs Model Proofs LexProofs WfText Model2 Proofs2.
Open Scope N_scope.

(* The property for the modelled fragment, at full strength: for the real tier table and the real keyword table,
   whatever the parser accepts is read back, from the text the printer writes, as the same tree. *)
Definition C16_statement (fixed : bool) (kws : list str) : Prop :=
  forall ts a, sparse sql_tbl ts = Some a ->
               exists ts', lex (render fixed kws a) = LOk ts' /\ sparse sql_tbl ts' = Some a.

(* every tree the parser returns is read back from the printer's token list as the same tree — for every tier
   table without a repeated operator and every quoting table that covers the fragment's keywords *)
Theorem C16_reparse : forall kws tbl ts a,
  covers kws = true -> wf_table str_eqb tbl = true ->
  sparse tbl ts = Some a -> sparse tbl (sprint kws a) = Some a.
Proof. exact sql_reparse. Qed.

Theorem C16_idempotent : forall kws tbl ts a,
  covers kws = true -> wf_table str_eqb tbl = true -> sparse tbl ts = Some a ->
  option_map (sprint kws) (sparse tbl (sprint kws a)) = Some (sprint kws a).
Proof. intros kws tbl ts a Hc Ht Hp. rewrite (sql_reparse kws tbl ts a Hc Ht Hp). reflexivity. Qed.

(* exactly which trees survive: those whose operators nest the way the tiers allow (tighter on the right of a
   binary operator, same-or-tighter on its left, anything inside parentheses) and whose names are printable *)
Theorem C16_wf_roundtrip : forall kws tbl a,
  wf_table str_eqb tbl = true -> WF tbl (atom_ok kws) tbl a -> sparse tbl (sprint kws a) = Some a.
Proof. exact sql_parse_print. Qed.

Theorem C16_parse_wf : forall tbl ts a, sparse tbl ts = Some a -> WF tbl (fun _ => True) tbl a.
Proof. exact sql_parse_wf. Qed.

(* quoting: lex (quote s) = [TString s] / [TIdent s quoted] for every s *)
Theorem C16_quote_string : forall s, lex (quote 39 s) = LOk [(3, s, false)].
Proof. exact lex_quote_string. Qed.
Theorem C16_quote_ident : forall s, lex (quote 34 s) = LOk [(1, s, true)].
Proof. exact lex_quote_ident. Qed.

(* TEXT level: the text the (repaired) printer writes lexes to exactly the token list of the token printer, for every
   tree with eokb = true (operators of the real tiers, digit-string numbers, any name, any string, a minus applied to
   a tree starting with a minus only where that is directly another minus) *)
Theorem C16_text_lex : forall kws a, eokb a = true -> lex (render true kws a) = LOk (sprint kws a).
Proof. exact lex_render_text. Qed.

(* hence the statement of the property for text: what the parser returned is read back from the printed TEXT *)
Theorem C16_reparse_text : forall kws ts a,
  covers kws = true -> sparse sql_tbl ts = Some a -> eokb a = true ->
  exists ts', lex (render true kws a) = LOk ts' /\ sparse sql_tbl ts' = Some a.
Proof. exact sql_reparse_text. Qed.

(* every parser result whose numbers are digit strings satisfies eokb ... *)
Theorem C16_parse_eok : forall ts a, sparse sql_tbl ts = Some a -> num_atoms_ok a -> eokb a = true.
Proof. exact parse_eok. Qed.

(* ... so C16_statement holds for the repaired printer on every accepted token list of the fragment whose numbers are
   digit strings: the printed TEXT lexes, and parses back to the same tree *)
Theorem C16_statement_text : forall kws ts a,
  covers kws = true -> sparse sql_tbl ts = Some a -> num_atoms_ok a ->
  exists ts', lex (render true kws a) = LOk ts' /\ sparse sql_tbl ts' = Some a.
Proof. exact sql_statement_text. Qed.

(* the pinned tables pass the computable checks *)
Theorem C16_tables_ok : wf_table str_eqb sql_tbl = true /\ covers kws_pinned = true.
Proof. split; vm_compute; reflexivity. Qed.

(* ---- the tree before the fixes violated the property *)
(* no keyword quoting (kws = []): the column "null" is written bare and read back as the NULL literal *)
Theorem C16_old_keyword_refuted : exists ts a,
  sparse sql_tbl ts = Some a /\ sparse sql_tbl (sprint [] a) <> Some a.
Proof. exists [(1, L "null", true)], (EAtom (ACol (L "null"))). split; [vm_compute; reflexivity|vm_compute; discriminate]. Qed.

(* "- -1" written flush is "--1", a comment: the text no longer lexes to the printed tokens *)
Theorem C16_old_minus_refuted : exists ts a,
  sparse sql_tbl ts = Some a /\ lex (render false kws_pinned a) <> LOk (sprint kws_pinned a)
  /\ lex (render true kws_pinned a) = LOk (sprint kws_pinned a).
Proof.
  exists [(7, L "-", false); (7, L "-", false); (2, L "1", false)],
         (EUn (L "-") (EUn (L "-") (EAtom (ANum (L "1"))))).
  split; [vm_compute; reflexivity|split; [vm_compute; discriminate|vm_compute; reflexivity]].
Qed.

(* non-vacuity *)
Definition ex_toks : list stok :=
  [(1, L "not", false); (1, L "Select", true); (7, L "+", false); (7, L "-", false); (2, L "2", false);
   (7, L "*", false); (6, L "(", false); (1, L "b", false); (1, L "or", false); (3, L "it's", false);
   (6, L ")", false); (7, L "<=", false); (1, L "NULL", false)].
Example C16_reparse_ex :
  exists a, sparse sql_tbl ex_toks = Some a /\ sparse sql_tbl (sprint kws_pinned a) = Some a
            /\ lex (render true kws_pinned a) = LOk (sprint kws_pinned a).
Proof. eexists. repeat split; vm_compute; reflexivity. Qed.
Example C16_wf_ex : WF sql_tbl (atom_ok kws_pinned) sql_tbl
                       (EBin (L "+") (EAtom (ACol (L "a"))) (EBin (L "*") (EAtom (ANum (L "2"))) (EAtom (ACol (L "c"))))).
Proof.
  do 5 apply WF_skip. apply WF_bin; [left; reflexivity| |].
  - do 4 apply WF_skip. apply WF_atom. reflexivity.
  - apply WF_bin; [left; reflexivity| |].
    + do 3 apply WF_skip. apply WF_atom. reflexivity.
    + do 2 apply WF_skip. apply WF_atom. reflexivity.
Qed.
Example C16_text_ex :
  exists a, sparse sql_tbl ex_toks = Some a /\ eokb a = true.
Proof. eexists. split; vm_compute; reflexivity. Qed.
Example C16_statement_text_ex :
  exists a, sparse sql_tbl ex_toks = Some a /\ num_atoms_ok a.
Proof. eexists. split; [vm_compute; reflexivity|]. cbn. repeat split. Qed.
Example C16_quote_ex : lex (quote 39 (L "it's")) = LOk [(3, L "it's", false)].
Proof. vm_compute. reflexivity. Qed.

(* ---- second expression type (Model2.v): IS [NOT] NULL / ISNULL / NOTNULL, x IS [NOT] y, [NOT] LIKE-family,
   [NOT] BETWEEN lo AND hi (bounds at the bit-operator tier, one above AND), [NOT] IN (list), calls f(args), tuples *)
Theorem C16_tbl2_ok : wf_table str_eqb tbl2 = true.
Proof. exact tbl2_ok. Qed.

(* every tree the extended parser returns is read back from its print (fused token lists; fuel bound: the generic
   |tbl2| + (|tbl2|+2)*|tokens| of PrecClimb.parse) *)
Theorem C16_reparse2 : forall kws ts e,
  covers kws = true -> parse2f ts = Some e -> parse2f (print2f kws e) = Some e.
Proof. exact reparse2. Qed.

(* every canonical tree nested as the extended tiers allow is read back from its print *)
Theorem C16_roundtrip2 : forall kws e,
  WF tbl2 (atom_ok kws) tbl2 (enc e) -> dec (enc e) = Some e -> parse2f (print2f kws e) = Some e.
Proof. exact roundtrip2. Qed.

(* non-vacuity: real-vocabulary tokens of
   f(a, 2) NOT BETWEEN 1 AND x + 2 AND b IS NOT NULL OR c NOT LIKE 'p' AND d IN (1, 2) AND e ISNULL *)
Definition ex2_toks : list stok :=
  [(1, L "f", false); (6, L "(", false); (1, L "a", false); (6, L ",", false); (2, L "2", false); (6, L ")", false);
   (1, L "not", false); (1, L "between", false); (2, L "1", false); (1, L "and", false); (1, L "x", false);
   (7, L "+", false); (2, L "2", false); (1, L "AND", false); (1, L "b", false); (1, L "is", false);
   (1, L "not", false); (1, L "null", false); (1, L "or", false); (1, L "c", false); (1, L "NOT", false);
   (1, L "like", false); (3, L "p", false); (1, L "and", false); (1, L "d", false); (1, L "in", false);
   (6, L "(", false); (2, L "1", false); (6, L ",", false); (2, L "2", false); (6, L ")", false);
   (1, L "and", false); (1, L "e", false); (1, L "isnull", false)].
Example C16_reparse2_ex :
  exists e, parse2 ex2_toks = Some e /\ parse2f (print2f kws_pinned e) = Some e /\
            parse2 (print2 kws_pinned e) = Some e /\
            match e with X2Bin _ (X2Bin _ (X2Between (X2Call _ _) _ _ true) (X2IsNull _ true)) _ => True | _ => False end.
Proof. eexists. repeat split; vm_compute; reflexivity. Qed.
