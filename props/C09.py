"""C09 Finished executions leave nothing running (goroutine ledger; bytecode/run.go, rest/exchange.go, services/child.go)."""
import json
import os
import re
import vf

GROUP = "Ledger"
META = {
    "group": "Ledger",
    "technique": "Coq proof over a ledger model of interpreter-started goroutines (skeletons of every function containing a go statement, regenerated from the Go source by a go/ast translator on every run and re-checked by coqc) + goroutine-count observation of repeated real executions in one process",
    "text": "Every function under internal/language/bytecode, internal/runtime and internal/server/services that contains a go statement is abstracted (go/ast, every run) to a loop-free skeleton of spawn / defer close / close / receive / return / may-panic steps; Coq decides by the proved-complete path enumeration (C09_results_are_all_paths) that on every path, including early returns and Go panics, the goroutines it started are released (C09_site_paths_neutral), and C09_ledger_empty_at_exit / C09_repeated_executions_do_not_grow lift this by induction to every execution tree (any nesting of callbacks, rest calls, child requests, go statements, any exit of each) and any number of repetitions; C09_old_refuted keeps the GORTNS-1 leak as a witness. The classification of each goroutine's stop rule (selects on a done channel / sends one buffered result that is received before return / user-program launcher) is syntactic, and real executions (normal, runtime error, panic, sort and fmt callbacks, service requests, child processes, rest calls) are only observed through runtime.NumGoroutine. partial: the Go runtime's behaviour (a closed channel releases the select, process exit releases Wait), goroutines started outside the three directories, and a Go panic between a result-sending goroutine's start and its join are observed or assumed, not proved",
    "note": "Trusted: Coq kernel; the go/ast translator harness/C09/sites_test.go (skeleton extraction and stop-rule classification); harness/C09/c09_test.go goroutine counting with a settle loop; hand-written skeletons in coq/Ledger/Model.v are only examples - the obligation is checked on the regenerated ones.",
}

DIRS = ["internal/language/bytecode", "internal/runtime", "internal/server/services"]
# documented one-time process-wide workers inside DIRS: (file, function) -> why.  None exist in this tree.
PROCESS_WIDE = {}


# ----------------------------------------------------------------------------- program generator

def _ints(rng, n):
    return ", ".join(str(rng.randint(-50, 99)) for _ in range(n))


def gen_program(rng):
    """Returns (source, tags). Every goroutine the program starts is joined or ends on its own at once."""
    tags = []
    pre = []
    body = []
    imports = set()
    feats = rng.sample(["sort", "sortstable", "gowg", "gochan", "try", "defer", "loop", "stringer", "sorterr", "nestedsort",
                        "gosort"], rng.randint(1, 4))
    for f in feats:
        tags.append(f)
        k = rng.randint(3, 9)
        if f == "sort":
            body.append("a%d := []int{%s}\n sort.Slice(a%d, func(i int, j int) bool { return a%d[i] < a%d[j] })\n fmt.Println(a%d)"
                        % (k, _ints(rng, k), k, k, k, k))
        elif f == "sortstable":
            body.append("b%d := []int{%s}\n sort.SliceStable(b%d, func(i int, j int) bool { return b%d[i] > b%d[j] })\n fmt.Println(b%d)"
                        % (k, _ints(rng, k), k, k, k, k))
        elif f == "nestedsort":
            body.append("c%d := []int{%s}\n d%d := []int{3, 1, 2}\n sort.Slice(c%d, func(i int, j int) bool {\n  sort.Slice(d%d, func(p int, q int) bool { return d%d[p] < d%d[q] })\n  return c%d[i] < c%d[j]\n })\n fmt.Println(c%d, d%d)"
                        % (k, _ints(rng, k), k, k, k, k, k, k, k, k, k))
        elif f == "sorterr":
            body.append("e%d := []int{%s}\n try {\n  sort.Slice(e%d, func(i int, j int) bool {\n   z := 0\n   return e%d[i] / z < 1\n  })\n } catch (err) {\n  fmt.Println(\"sort failed\")\n }"
                        % (k, _ints(rng, k), k, k))
        elif f == "gowg":
            imports.add("sync")
            body.append("var wg%d sync.WaitGroup\n for i := 0; i < %d; i = i + 1 {\n  wg%d.Add(1)\n  go func(n int) {\n   defer wg%d.Done()\n   x := n * 2\n   x = x + 1\n  }(i)\n }\n wg%d.Wait()\n fmt.Println(\"joined\")"
                        % (k, rng.randint(1, 4), k, k, k))
        elif f == "gochan":
            body.append("ch%d := make(chan, %d)\n go func(c chan) {\n  c <- %d\n }(ch%d)\n r%d := <-ch%d\n fmt.Println(r%d)"
                        % (k, rng.randint(1, 3), rng.randint(0, 99), k, k, k, k))
        elif f == "gosort":
            body.append("g%d := make(chan, 1)\n go func(c chan) {\n  s := []int{%s}\n  sort.Slice(s, func(i int, j int) bool { return s[i] < s[j] })\n  c <- s[0]\n }(g%d)\n fmt.Println(<-g%d)"
                        % (k, _ints(rng, k), k, k))
        elif f == "try":
            body.append("try {\n  q := 0\n  fmt.Println(%d / q)\n } catch (e) {\n  fmt.Println(\"caught\")\n }" % rng.randint(1, 9))
        elif f == "defer":
            pre.append("func guarded%d() {\n defer func() {\n  r := recover()\n  fmt.Println(\"recovered\", r)\n }()\n panic(\"inner %d\")\n}"
                       % (k, k))
            body.append("guarded%d()" % k)
        elif f == "loop":
            body.append("t%d := 0\n for i := 0; i < %d; i = i + 1 {\n  t%d = t%d + i * %d\n }\n fmt.Println(t%d)"
                        % (k, rng.randint(1, 40), k, k, rng.randint(1, 7), k))
        elif f == "stringer":
            pre.append("type Thing%d struct {\n v int\n}\nfunc (t Thing%d) String() string {\n return \"thing\"\n}" % (k, k))
            body.append("th%d := Thing%d{v: %d}\n fmt.Println(th%d)" % (k, k, rng.randint(0, 9), k))
    ex = rng.choice(["ok", "ok", "error", "index", "panic", "sortpanic", "calldepth"])
    tags.append("exit:" + ex)
    if ex == "error":
        body.append("zz := 0\n fmt.Println(7 / zz)")
    elif ex == "index":
        body.append("ix := []int{1, 2}\n fmt.Println(ix[5])")
    elif ex == "panic":
        body.append("panic(\"boom %d\")" % rng.randint(0, 99))
    elif ex == "sortpanic":
        body.append("sp := []int{4, 2, 9, 1}\n sort.Slice(sp, func(i int, j int) bool {\n  panic(\"in comparator\")\n  return false\n })")
    elif ex == "calldepth":
        pre.append("func deep(n int) int {\n if n == 0 {\n  w := 0\n  return 5 / w\n }\n return deep(n - 1) + 1\n}")
        body.append("fmt.Println(deep(%d))" % rng.randint(1, 6))
    src = "".join('import "%s"\n' % i for i in sorted(imports)) + "\n".join(pre) + "\nfunc main() {\n " + "\n ".join(body) + "\n}\n"
    return src, tags


SERVICES = [
    ("ok", '@endpoint get path="/services/verif%d"\nimport "http"\nimport "sort"\nfunc handler( req http.Request, w *http.ResponseWriter ) {\n a := []int{5, 3, 9, 1}\n sort.Slice(a, func(i int, j int) bool { return a[i] < a[j] })\n w.WriteHeader(200)\n w.Write([]byte("sorted"))\n}\n'),
    ("error", '@endpoint get path="/services/verif%d"\nimport "http"\nfunc handler( req http.Request, w *http.ResponseWriter ) {\n v := 10 / 0\n w.WriteHeader(200)\n w.Write(v)\n}\n'),
    ("panic", '@endpoint get path="/services/verif%d"\nimport "http"\nfunc handler( req http.Request, w *http.ResponseWriter ) {\n panic("handler gave up")\n}\n'),
    ("go", '@endpoint get path="/services/verif%d"\nimport "http"\nfunc handler( req http.Request, w *http.ResponseWriter ) {\n c := make(chan, 1)\n go func(x chan) {\n  x <- 4\n }(c)\n r := <-c\n w.WriteHeader(200)\n w.Write([]byte("ok"))\n}\n'),
]


# ----------------------------------------------------------------------------- skeleton -> Coq

def coq_stmt(j):
    t = j[0]
    if t == "skip":
        return "Skip"
    if t == "step":
        return "Step"
    if t == "ret":
        return "Ret"
    if t == "spawn":
        k = {"wait": "(WaitClose %d)" % j[3], "send": "(SendOnce %d)" % j[3], "user": "UserGo"}.get(j[2], "Unknown")
        return "(Spawn %d %s)" % (j[1], k)
    if t == "defer":
        return "(DeferClose %d)" % j[1]
    if t == "close":
        return "(Close %d)" % j[1]
    if t == "recv":
        return "(Recv %d)" % j[1]
    if t == "seq":
        return "(Seq %s %s)" % (coq_stmt(j[1]), coq_stmt(j[2]))
    if t == "branch":
        return "(Branch %s %s)" % (coq_stmt(j[1]), coq_stmt(j[2]))
    raise ValueError("unknown skeleton node %r" % (j,))


def count_go_statements():
    """Independent count of go statements (regex over the same files) to cross-check the go/ast listing."""
    n, where = 0, []
    for d in DIRS:
        for root, _, files in os.walk(os.path.join(vf.REPO, d)):
            for fn in files:
                if fn.endswith(".go") and not fn.endswith("_test.go"):
                    p = os.path.join(root, fn)
                    for i, line in enumerate(open(p, errors="replace"), 1):
                        if re.match(r"\s*go\s+(func\b|[A-Za-z_][\w.]*\s*\()", line):
                            n += 1
                            where.append("%s:%d" % (os.path.relpath(p, vf.REPO), i))
    return n, where


def run(ck):
    quick = ck.tier == "quick"
    ck.cov["rule"] = ("cases = generated Ego programs (sort/SliceStable comparators, nested sorts, fmt String() callbacks, "
                      "goroutines joined by WaitGroup/channel, try/catch, defer+recover; exits: normal, runtime error, index "
                      "error, unrecovered panic, panic inside a comparator, error deep in a call chain), service requests "
                      "through ServiceHandler, runChildProcess/runChildViaPipe on real processes, rest.Exchange; each repeated in "
                      "one process. distinct_nontrivial = distinct cases that reached an exit (not a compile error) in every "
                      "repetition, each execution starting at least the SIGINT watcher goroutine")
    ck.assume("Go runtime: closing a channel releases every goroutine whose blocking points all select on it; a goroutine that "
              "sends one value on a buffered channel and returns ends once its blocking call (cmd.Wait, Accept/conn I/O) returns",
              "function calls inside a watcher goroutine's select cases (ui.Say, ui.Log) do not block",
              "a Go panic between the start of a result-sending goroutine and its join (runChildProcess / runChildViaPipe) is "
              "outside the model: the goroutine then ends with the child process / listener, later than the request",
              "goroutines started by packages outside %s (caches, router, auth, oauth, ui log rollover) are one-time "
              "process-wide workers and are not listed" % ", ".join(DIRS))
    ck.trusted("harness/C09/sites_test.go (go/ast skeleton extraction, stop-rule classification), harness/C09/c09_test.go "
               "(runtime.NumGoroutine with settle loop), props/C09.py generator")
    theorems = ["C09_results_are_all_paths", "C09_site_paths_neutral", "C09_ledger_empty_at_exit",
                "C09_ledger_empty_at_exit_modelled", "C09_repeated_executions_do_not_grow", "C09_old_refuted"]
    ck.coq_stage(GROUP, theorems=theorems)

    pkg = "internal/server/services"
    ok, binp = vf.go_test_build(ck.work, pkg, {
        pkg + "/zz_verif_c09_test.go": os.path.join(vf.HARNESS, "C09", "c09_test.go"),
        pkg + "/zz_verif_c09_sites_test.go": os.path.join(vf.HARNESS, "C09", "sites_test.go")}, "c09.test")
    if not ok:
        ck.violation("harness-build", "harness for %s does not build:\n%s" % (pkg, binp[-1500:]),
                     replay={"log": binp[-3000:]}, found_input=False)
        return

    # ------------------------------------------------------------------ translator obligation (every run)
    broken = []          # (signature, text, replay)
    sites_out = os.path.join(ck.work, "sites.json")
    rc, log = vf.run_bin(binp, "^TestVerifC09Sites$", {"VERIF_SRC": vf.REPO, "VERIF_DIRS": ",".join(DIRS),
                                                        "VERIF_OUT": sites_out})
    fns = []
    if rc != 0 or not os.path.exists(sites_out):
        broken.append(("translator-run", "go/ast translator failed:\n" + log[-1200:], {"log": log[-3000:]}))
    else:
        tr = json.load(open(sites_out))
        fns = tr["functions"]
        n_re, where = count_go_statements()
        listed = sum(len(f["sites"]) for f in fns)
        ck.cov["go_statements"] = {"go_ast": tr["go_stmts"], "regex_count": n_re, "classified": listed, "files": tr["files"]}
        ck.add_obligations(1, 1 if (n_re == tr["go_stmts"] == listed) else 0)
        if not (n_re == tr["go_stmts"] == listed):
            broken.append(("site-count", "go statement listing disagrees: go/ast %d, classified %d, regex %d (%s)" % (
                tr["go_stmts"], listed, n_re, ", ".join(where)), {"regex_sites": where, "functions": fns}))
        for f in fns:
            key = (f["file"], f["func"])
            for s in f["sites"]:
                ck.add_obligations(1, 0)
                if s["kind"] in ("wait", "send", "user") or key in PROCESS_WIDE:
                    ck.cov["discharged"] += 1
                else:
                    broken.append(("site-unmodelled:%s:%s" % (f["file"], f["func"]),
                                   "go statement at %s:%d (func %s) is neither a modelled interpreter-started site, the user-program "
                                   "launcher, nor a documented process-wide worker: %s" % (f["file"], s["line"], f["func"], s["why"]),
                                   {"site": s, "function": f}))
        if not getattr(ck, "coq_broken", None):
            checked = [f for f in fns if (f["file"], f["func"]) not in PROCESS_WIDE]
            lines = ["From Coq Require Import List Arith Bool.", "Import ListNotations.",
                     "From Ledger Require Import Model Proofs Properties.",
                     "Definition gen_fns : list stmt := ["]
            lines.append(";\n".join(coq_stmt(f["skel"]) for f in checked))
            lines.append("""].
Definition BAD : list nat :=
  Eval vm_compute in map fst (filter (fun p => negb (neutral (snd p))) (combine (seq 0 (length gen_fns)) gen_fns)).
Definition NRES : list nat := Eval vm_compute in map (fun p => length (results p st0)) gen_fns.
Definition WIT : list (list (list entry)) := Eval vm_compute in map (fun p => filter (fun l => negb (is_nil l)) (leftovers p)) gen_fns.
Eval vm_compute in BAD.
Eval vm_compute in NRES.
Eval vm_compute in WIT.
""")
            rc, out = vf.coq_run(GROUP, ck.work, "gen_sites", "\n".join(lines))
            lists = re.findall(r"=\s*(\[[^\]]*\]|nil)\s*(?:%\w+)?\s*:\s*list nat", out, re.S)
            if rc != 0 or len(lists) < 2:
                broken.append(("obligation-eval", "generated skeleton file does not check:\n" + out[-1500:], {"log": out[-3000:]}))
            else:
                bad = [int(x) for x in re.findall(r"\d+", lists[0])]
                nres = [int(x) for x in re.findall(r"\d+", lists[1])]
                ck.cov["skeleton_exit_states"] = {"%s:%s" % (f["file"], f["func"]): n for f, n in zip(checked, nres)}
                ck.add_obligations(len(checked), len(checked) - len(bad))
                for i in bad:
                    f = checked[i]
                    broken.append(("site-leak:%s:%s" % (f["file"], f["func"]),
                                   "the regenerated skeleton of %s (%s) has an exit path on which a goroutine it started is not "
                                   "released (theorem C09_ledger_empty_at_exit no longer applies: neutral = false)" % (f["func"], f["file"]),
                                   {"function": f, "coq_output": out[-1500:]}))
                if not bad:
                    # the general theorem instantiated on the regenerated table (re-checked by coqc)
                    inst = "\n".join(lines[:-1]) + """].
Lemma gen_neutral : forallb neutral gen_fns = true. Proof. vm_compute. reflexivity. Qed.
Theorem gen_ledger_empty_at_exit : forall n : node, left gen_fns n = [].
Proof. exact (C09_ledger_empty_at_exit gen_fns gen_neutral). Qed.
Theorem gen_no_growth : forall runs : list node, flat_map (left gen_fns) runs = [].
Proof. exact (C09_repeated_executions_do_not_grow gen_fns gen_neutral). Qed.
"""
                    rc2, out2 = vf.coq_run(GROUP, ck.work, "gen_inst", inst)
                    ck.add_obligations(2, 2 if rc2 == 0 else 0)
                    if rc2 != 0:
                        broken.append(("obligation-inst", "instantiating C09_ledger_empty_at_exit on the regenerated table failed:\n"
                                       + out2[-1200:], {"log": out2[-3000:]}))
        for f in fns[:4]:
            ck.sample({"function": "%s:%s" % (f["file"], f["func"]), "sites": f["sites"]})

    # ------------------------------------------------------------------ runtime observation / oracle
    def observe(cases):
        inp = os.path.join(ck.work, "in.json")
        outp = os.path.join(ck.work, "out.json")
        if os.path.exists(outp):
            os.remove(outp)
        json.dump(cases, open(inp, "w"))
        rc, log = vf.run_bin(binp, "^TestVerifC09$", {"VERIF_IN": inp, "VERIF_OUT": outp}, timeout=900)
        if rc != 0 or not os.path.exists(outp):
            return None, log
        return {r["id"]: r for r in json.load(open(outp))}, log

    def make_cases(nprog, reps, first_id=1):
        cases, cid = [], first_id
        corpus = [
            ("func main() {\n fmt.Println(1 + 2)\n}\n", ["plain", "exit:ok"]),
            ("func main() {\n a := []int{5, 3, 9, 1, 7, 2, 8, 6, 4, 0, 11, 15, 13, 12}\n sort.Slice(a, func(i int, j int) bool { return a[i] < a[j] })\n fmt.Println(a)\n}\n", ["sort", "exit:ok"]),
            ("func main() {\n panic(\"boom\")\n}\n", ["exit:panic"]),
            ("func main() {\n z := 0\n fmt.Println(1 / z)\n}\n", ["exit:error"]),
        ]
        for src, tags in corpus:
            cases.append({"id": cid, "kind": "prog", "src": src, "reps": reps, "tags": tags})
            cid += 1
        for _ in range(nprog):
            src, tags = gen_program(ck.rng)
            cases.append({"id": cid, "kind": "prog", "src": src, "reps": reps, "tags": tags})
            cid += 1
        for name, tmpl in SERVICES:
            cases.append({"id": cid, "kind": "service", "src": tmpl % cid, "reps": reps, "tags": ["service:" + name]})
            cid += 1
        for mode in ["ok", "fail", "timeout", "oktimeout", "nostart"]:
            cases.append({"id": cid, "kind": "childproc", "mode": mode, "reps": 3 if mode == "timeout" else reps,
                          "tags": ["childproc:" + mode]})
            cid += 1
        cases.append({"id": cid, "kind": "childpipe", "reps": 3, "tags": ["childpipe"]})
        cid += 1
        for mode, r in [("ok", reps), ("down", reps), ("slow", 1)]:
            cases.append({"id": cid, "kind": "rest", "mode": mode, "reps": r, "tags": ["rest:" + mode]})
            cid += 1
        return cases

    if ck.replay_file:
        rp = json.load(open(ck.replay_file))["replay"]
        cases = [dict(rp["case"], id=1)] if "case" in rp else make_cases(2, 4)
    else:
        cases = make_cases(16 if quick else 300, 5 if quick else 12)
        if broken:
            # failing-input search: a broken obligation is followed by a larger observation run
            cases += make_cases(60 if quick else 300, 10, first_id=len(cases) + 1)
    res, log = observe(cases)
    if res is None:
        ck.violation("harness-run", "harness failed:\n" + log[-1500:], replay={"log": log[-3000:]}, found_input=False)
        return
    evals, nontriv, classes, leaks = 0, set(), {}, []
    for cs in cases:
        r = res.get(cs["id"])
        if r is None:
            continue
        evals += r["runs"]
        for k, v in r["class"].items():
            classes[k] = classes.get(k, 0) + v
        if r["runs"] > 0 and "compile" not in r["class"] and "setup" not in r["class"]:
            nontriv.add(json.dumps([cs["kind"], cs.get("src", ""), cs.get("mode", "")]))
        if r["after"] > r["before"]:
            leaks.append((cs, r))
    for cs, r in leaks:
        sig = "goroutine-growth:" + (cs["kind"] if cs["kind"] != "prog" else "prog")
        ck.violation(sig, "%d repeated %s executions (%s) left %d more live goroutines than before (before=%d after=%d); exits %s\n%s" % (
            r["runs"], cs["kind"], ",".join(cs.get("tags", [])), r["after"] - r["before"], r["before"], r["after"], r["class"],
            (cs.get("src") or cs.get("mode") or "")[:300]),
            replay={"case": {k: cs[k] for k in cs if k != "id"}, "before": r["before"], "after": r["after"],
                    "goroutine_stacks": r.get("stacks", "")[-6000:]})
    ck.cov["evaluations"] = evals
    ck.cov["distinct_nontrivial"] = len(nontriv)
    ck.cov["traces_validated_against_impl"] = len(cases)
    tagc = {}
    for cs in cases:
        for t in cs.get("tags", []):
            tagc[t] = tagc.get(t, 0) + 1
    ck.cov["input_distribution"] = {"cases": len(cases), "exit_classes_observed": classes, "features": tagc,
                                    "cases_with_growth": len(leaks)}
    for cs in cases[4:7]:
        r = res.get(cs["id"], {})
        ck.sample({"kind": cs["kind"], "tags": cs.get("tags"), "src": cs.get("src", "")[:400], "before": r.get("before"),
                   "after": r.get("after"), "class": r.get("class")})

    # ------------------------------------------------------------------ report broken obligations / proofs
    found = bool(leaks)
    for sig, text, rp in broken:
        if found:
            break       # the observation run already exhibits a concrete failing execution
        ck.violation(sig, text, replay=rp, found_input=False)
    if getattr(ck, "coq_broken", None) and not found and not broken:
        grp, clog = ck.coq_broken
        ck.violation("proof-broken", "Coq development %s no longer checks (theorems %s):\n%s" % (grp, ", ".join(theorems), clog[-1200:]),
                     replay={"broken": "coq/%s" % grp, "log": clog[-3000:]}, found_input=False)
