(* Cache/Proofs.v — lemmas about the cache state machine of Model.v *)
From Cache Require Import Model.
Open Scope Z_scope.

(* ---------- association lists *)
Section AssocFacts.
  Context {V : Type}.
  Implicit Types m : list (Z * V).

  Lemma lookup_remove_eq k m : lookup k (remove k m) = None.
  Proof.
    induction m as [|[k' v] r IH]; cbn [remove lookup]; [reflexivity|].
    destruct (Z.eqb_spec k' k) as [E|N]; [exact IH|].
    cbn [lookup]. destruct (Z.eqb_spec k' k); [contradiction|exact IH].
  Qed.

  Lemma lookup_remove_neq k k' m : k' <> k -> lookup k (remove k' m) = lookup k m.
  Proof.
    intros N. induction m as [|[k2 v] r IH]; cbn [remove lookup]; [reflexivity|].
    destruct (Z.eqb_spec k2 k') as [E|N2].
    - subst. destruct (Z.eqb_spec k' k); [contradiction|exact IH].
    - cbn [lookup]. destruct (Z.eqb_spec k2 k); [reflexivity|exact IH].
  Qed.

  Lemma lookup_insert_eq k v m : lookup k (insert k v m) = Some v.
  Proof. unfold insert. cbn [lookup]. rewrite Z.eqb_refl. reflexivity. Qed.

  Lemma lookup_insert_neq k k' v m : k' <> k -> lookup k (insert k' v m) = lookup k m.
  Proof.
    intros N. unfold insert. cbn [lookup]. destruct (Z.eqb_spec k' k); [contradiction|].
    apply lookup_remove_neq; assumption.
  Qed.

  Lemma length_remove_le k m : (length (remove k m) <= length m)%nat.
  Proof.
    induction m as [|[k' v] r IH]; cbn [remove length]; [lia|].
    destruct (k' =? k); cbn [length]; lia.
  Qed.

  Lemma remove_absent k m : lookup k m = None -> remove k m = m.
  Proof.
    induction m as [|[k' v] r IH]; cbn [remove lookup]; [reflexivity|].
    destruct (k' =? k); [discriminate|]. intros H. rewrite IH; auto.
  Qed.

  Lemma lookup_In k v m : lookup k m = Some v -> In (k, v) m.
  Proof.
    induction m as [|[k' v'] r IH]; cbn [lookup]; [discriminate|].
    destruct (Z.eqb_spec k' k); intros H.
    - inversion H; subst. left; reflexivity.
    - right; auto.
  Qed.

  Lemma remove_keys k m x : In x (map fst (remove k m)) -> In x (map fst m) /\ x <> k.
  Proof.
    induction m as [|[k' v] r IH]; cbn [remove map]; [intros []|].
    destruct (Z.eqb_spec k' k).
    - intros H. destruct (IH H). split; [right|]; assumption.
    - cbn [map fst In]. intros [E|H]; [subst; split; [left; reflexivity|assumption]|].
      destruct (IH H). split; [right|]; assumption.
  Qed.

  Lemma NoDup_remove k m : NoDup (map fst m) -> NoDup (map fst (remove k m)).
  Proof.
    induction m as [|[k' v] r IH]; cbn [remove map]; [auto|].
    intros H. inversion H as [|? ? Hn Hd]; subst.
    destruct (k' =? k); [auto|]. cbn [map fst]. constructor; [|auto].
    intros Hin. apply remove_keys in Hin. destruct Hin; contradiction.
  Qed.

  Lemma NoDup_insert k v m : NoDup (map fst m) -> NoDup (map fst (insert k v m)).
  Proof.
    intros H. unfold insert. cbn [map fst]. constructor.
    - intros Hin. apply remove_keys in Hin. destruct Hin; congruence.
    - apply NoDup_remove; assumption.
  Qed.

  Lemma NoDup_filter (f : Z * V -> bool) m : NoDup (map fst m) -> NoDup (map fst (filter f m)).
  Proof.
    induction m as [|x r IH]; cbn [filter map]; [auto|].
    intros H. inversion H as [|? ? Hn Hd]; subst.
    destruct (f x); [|auto]. cbn [map]. constructor; [|auto].
    intros Hin. apply Hn. apply in_map_iff in Hin. destruct Hin as [y [E Hy]].
    apply filter_In in Hy. destruct Hy as [Hy _]. apply in_map_iff. exists y; auto.
  Qed.

  Lemma lookup_filter (f : Z * V -> bool) k m :
    NoDup (map fst m) ->
    lookup k (filter f m) = match lookup k m with Some v => if f (k, v) then Some v else None | None => None end.
  Proof.
    induction m as [|[k' v] r IH]; cbn [filter lookup map]; [reflexivity|].
    intros H. inversion H as [|? ? Hn Hd]; subst. cbn [fst] in Hn.
    destruct (Z.eqb_spec k' k) as [E|N].
    - subst. destruct (f (k, v)) eqn:F.
      + cbn [lookup]. rewrite Z.eqb_refl. reflexivity.
      + rewrite IH by assumption.
        destruct (lookup k r) eqn:L; [|reflexivity].
        exfalso. apply Hn. apply lookup_In in L. apply in_map_iff. exists (k, v0); auto.
    - destruct (f (k', v)); [cbn [lookup]; destruct (Z.eqb_spec k' k); [contradiction|]|]; auto.
  Qed.
End AssocFacts.

(* ---------- one step, seen at one cache class *)
Definition cache_at (s : st) (id : Z) : option cache := lookup id (caches s).

Definition add_in (keep : bool) (s : st) (id k v : Z) : cache :=
  let c := match cache_at s id with
           | Some c => mkCache (cmax c) (cttl c) (remove k (citems c))
           | None => new_cache keep s id
           end in
  if cmax c <=? Z.of_nat (length (citems c)) then c
  else mkCache (cmax c) (cttl c) (insert k (mkItem v (now s + cttl c)) (citems c)).

Lemma cache_at_step keep s o id :
  cache_at (fst (step keep s o)) id =
  match o with
  | Add i k v => if i =? id then Some (add_in keep s id k v) else cache_at s id
  | Find i k =>
      if i =? id then
        match cache_at s id with
        | Some c => match lookup k (citems c) with
                    | Some it => Some (mkCache (cmax c) (cttl c)
                                         (insert k (mkItem (idata it) (now s + cttl c)) (citems c)))
                    | None => Some c
                    end
        | None => None
        end
      else cache_at s id
  | Delete i k =>
      if i =? id then
        match cache_at s id with
        | Some c => match lookup k (citems c) with
                    | Some it => Some (mkCache (cmax c) (cttl c) (remove k (citems c)))
                    | None => Some c
                    end
        | None => None
        end
      else cache_at s id
  | Purge i | PurgeLocal i => if i =? id then None else cache_at s id
  | SetExp i d =>
      if i =? id then
        Some (let c := match cache_at s id with Some c => c | None => new_cache keep s id end in
              mkCache (cmax c) d (citems c))
      else cache_at s id
  | SetExpBad _ | Advance _ => cache_at s id
  | Sweep i =>
      if i =? id then
        match cache_at s id with
        | Some c => Some (mkCache (cmax c) (cttl c)
                            (filter (fun kv => negb (expired (now s) (snd kv))) (citems c)))
        | None => None
        end
      else cache_at s id
  end.
Proof.
  unfold cache_at, add_in, cache_at.
  destruct o as [i k v|i k|i k|i|i|i d|i|i|d]; cbn [step]; try reflexivity.
  - destruct (Z.eqb_spec i id) as [E|N].
    + subst. destruct (lookup id (caches s)) as [c|]; cbn [cmax citems cttl];
        match goal with |- context [if ?b then _ else _] => destruct b end;
        cbn [fst caches set_caches]; rewrite lookup_insert_eq; reflexivity.
    + match goal with |- context [if ?b then (_, _) else _] => destruct b end;
        cbn [fst caches set_caches]; rewrite lookup_insert_neq by assumption; reflexivity.
  - destruct (Z.eqb_spec i id) as [E|N].
    + subst. destruct (lookup id (caches s)) as [c|] eqn:L; [|cbn; rewrite L; reflexivity].
      destruct (lookup k (citems c)); cbn [fst caches set_caches];
        [rewrite lookup_insert_eq; reflexivity|exact L].
    + destruct (lookup i (caches s)) as [c|]; [|reflexivity].
      destruct (lookup k (citems c)); cbn [fst caches set_caches];
        [rewrite lookup_insert_neq by assumption|]; reflexivity.
  - destruct (Z.eqb_spec i id) as [E|N].
    + subst. destruct (lookup id (caches s)) as [c|] eqn:L; [|cbn; rewrite L; reflexivity].
      destruct (lookup k (citems c)); cbn [fst caches set_caches];
        [rewrite lookup_insert_eq; reflexivity|exact L].
    + destruct (lookup i (caches s)) as [c|]; [|reflexivity].
      destruct (lookup k (citems c)); cbn [fst caches set_caches];
        [rewrite lookup_insert_neq by assumption|]; reflexivity.
  - cbn [fst caches set_caches]. destruct (Z.eqb_spec i id) as [E|N];
      [subst; apply lookup_remove_eq|apply lookup_remove_neq; assumption].
  - cbn [fst caches set_caches]. destruct (Z.eqb_spec i id) as [E|N];
      [subst; apply lookup_remove_eq|apply lookup_remove_neq; assumption].
  - cbn [fst caches]. destruct (Z.eqb_spec i id) as [E|N];
      [subst; rewrite lookup_insert_eq; reflexivity|apply lookup_insert_neq; assumption].
  - destruct (Z.eqb_spec i id) as [E|N].
    + subst. destruct (lookup id (caches s)) as [c|] eqn:L; cbn [fst caches set_caches];
        [rewrite lookup_insert_eq; reflexivity|exact L].
    + destruct (lookup i (caches s)) as [c|]; cbn [fst caches set_caches];
        [rewrite lookup_insert_neq by assumption|]; reflexivity.
Qed.

Lemma now_step keep s o :
  now (fst (step keep s o)) = match o with Advance d => now s + Z.max 0 d | _ => now s end.
Proof.
  destruct o as [i k v|i k|i k|i|i|i d|i|i|d]; cbn [step]; try reflexivity.
  - match goal with |- context [if ?b then (_, _) else _] => destruct b end; reflexivity.
  - destruct (lookup i (caches s)) as [c|]; [|reflexivity]. destruct (lookup k (citems c)); reflexivity.
  - destruct (lookup i (caches s)) as [c|]; [|reflexivity]. destruct (lookup k (citems c)); reflexivity.
  - destruct (lookup i (caches s)) as [c|]; reflexivity.
Qed.

Lemma defaults_step keep s o :
  dmax (fst (step keep s o)) = dmax s /\ dttl (fst (step keep s o)) = dttl s.
Proof.
  destruct o as [i k v|i k|i k|i|i|i d|i|i|d]; cbn [step]; try (split; reflexivity).
  - match goal with |- context [if ?b then (_, _) else _] => destruct b end; split; reflexivity.
  - destruct (lookup i (caches s)) as [c|]; [|split; reflexivity]. destruct (lookup k (citems c)); split; reflexivity.
  - destruct (lookup i (caches s)) as [c|]; [|split; reflexivity]. destruct (lookup k (citems c)); split; reflexivity.
  - destruct (lookup i (caches s)) as [c|]; split; reflexivity.
Qed.

Lemma cfg_step keep s o :
  cfg (fst (step keep s o)) =
  match o with SetExp i d => if keep then insert i d (cfg s) else cfg s | _ => cfg s end.
Proof.
  destruct o as [i k v|i k|i k|i|i|i d|i|i|d]; cbn [step]; try reflexivity.
  - match goal with |- context [if ?b then (_, _) else _] => destruct b end; reflexivity.
  - destruct (lookup i (caches s)) as [c|]; [|reflexivity]. destruct (lookup k (citems c)); reflexivity.
  - destruct (lookup i (caches s)) as [c|]; [|reflexivity]. destruct (lookup k (citems c)); reflexivity.
  - destruct (lookup i (caches s)) as [c|]; reflexivity.
Qed.

Lemma exec_app keep s h1 h2 : exec keep s (h1 ++ h2) = exec keep (exec keep s h1) h2.
Proof. unfold exec. apply fold_left_app. Qed.
Lemma exec_cons keep s o h : exec keep s (o :: h) = exec keep (fst (step keep s o)) h.
Proof. reflexivity. Qed.

Lemma item_of_cache s id k :
  item_of s id k = match cache_at s id with Some c => lookup k (citems c) | None => None end.
Proof. reflexivity. Qed.

(* ---------- invariants of reachable states *)
Definition InvND (s : st) : Prop :=
  forall id c, cache_at s id = Some c -> NoDup (map fst (citems c)).
Definition InvB (s : st) : Prop :=
  forall id c, cache_at s id = Some c -> Z.of_nat (length (citems c)) <= cmax c /\ cmax c = dmax s.

Lemma InvND_init a b : InvND (init a b).
Proof. intros id c H. discriminate H. Qed.
Lemma InvB_init a b : InvB (init a b).
Proof. intros id c H. discriminate H. Qed.

Lemma add_in_nodup keep s id k v :
  InvND s -> NoDup (map fst (citems (add_in keep s id k v))).
Proof.
  intros I. unfold add_in. destruct (cache_at s id) as [c|] eqn:L.
  - cbn [cmax citems cttl]. destruct (_ <=? _); cbn [citems].
    + apply NoDup_remove, (I id c L).
    + apply NoDup_insert, NoDup_remove, (I id c L).
  - cbn [new_cache cmax citems cttl]. destruct (_ <=? _); cbn [citems]; [constructor|].
    apply NoDup_insert. constructor.
Qed.

Lemma InvND_step keep s o : InvND s -> InvND (fst (step keep s o)).
Proof.
  intros I id c. rewrite cache_at_step.
  destruct o as [i k v|i k|i k|i|i|i d|i|i|d]; try (apply I);
    destruct (Z.eqb_spec i id) as [E|N]; try (apply I); subst.
  - intros H. injection H as <-. apply add_in_nodup; assumption.
  - destruct (cache_at s id) as [c0|] eqn:L; [|discriminate].
    destruct (lookup k (citems c0)); intros H; injection H as <-; cbn [citems].
    + apply NoDup_insert, (I id c0 L).
    + apply (I id c0 L).
  - destruct (cache_at s id) as [c0|] eqn:L; [|discriminate].
    destruct (lookup k (citems c0)); intros H; injection H as <-; cbn [citems].
    + apply NoDup_remove, (I id c0 L).
    + apply (I id c0 L).
  - discriminate.
  - discriminate.
  - intros H. injection H as <-. cbn [citems].
    destruct (cache_at s id) as [c0|] eqn:L; [apply (I id c0 L)|constructor].
  - destruct (cache_at s id) as [c0|] eqn:L; [|discriminate].
    intros H; injection H as <-; cbn [citems]. apply NoDup_filter, (I id c0 L).
Qed.

Lemma InvND_exec keep h : forall s, InvND s -> InvND (exec keep s h).
Proof.
  induction h as [|o r IH]; intros s I; [exact I|].
  rewrite exec_cons. apply IH, InvND_step, I.
Qed.

Lemma filter_length_le {A} (f : A -> bool) l : (length (filter f l) <= length l)%nat.
Proof. induction l as [|x r IH]; cbn [filter length]; [lia|]. destruct (f x); cbn [length]; lia. Qed.

Lemma InvB_step keep s o : 0 <= dmax s -> InvB s -> InvB (fst (step keep s o)).
Proof.
  intros D I id c. destruct (defaults_step keep s o) as [-> _]. rewrite cache_at_step.
  destruct o as [i k v|i k|i k|i|i|i d|i|i|d]; try (apply I);
    destruct (Z.eqb_spec i id) as [E|N]; try (apply I); subst.
  - intros H. injection H as <-. unfold add_in.
    destruct (cache_at s id) as [c0|] eqn:L.
    + destruct (I id c0 L) as [Hb Hm]. cbn [cmax citems cttl].
      pose proof (length_remove_le k (citems c0)) as Hr.
      destruct (Z.leb_spec (cmax c0) (Z.of_nat (length (remove k (citems c0))))); cbn [cmax citems].
      * split; [lia|assumption].
      * unfold insert. cbn [length].
        pose proof (length_remove_le k (remove k (citems c0))). split; [lia|assumption].
    + cbn [new_cache cmax citems cttl length].
      destruct (Z.leb_spec (dmax s) (Z.of_nat 0)); unfold new_cache, insert; cbn [cmax citems remove length]; split; lia.
  - destruct (cache_at s id) as [c0|] eqn:L; [|discriminate]. destruct (I id c0 L) as [Hb Hm].
    destruct (lookup k (citems c0)) eqn:Lk; intros H; injection H as <-; cbn [citems cmax]; [|split; assumption].
    split; [|assumption]. unfold insert. cbn [length].
    assert (length (remove k (citems c0)) < length (citems c0))%nat; [|lia].
    clear -Lk. induction (citems c0) as [|[k' v'] r IH]; cbn [lookup remove length] in *; [discriminate|].
    destruct (k' =? k).
    + pose proof (length_remove_le k r). lia.
    + cbn [length]. specialize (IH Lk). lia.
  - destruct (cache_at s id) as [c0|] eqn:L; [|discriminate]. destruct (I id c0 L) as [Hb Hm].
    destruct (lookup k (citems c0)); intros H; injection H as <-; cbn [citems cmax]; [|split; assumption].
    pose proof (length_remove_le k (citems c0)). split; [lia|assumption].
  - discriminate.
  - discriminate.
  - intros H. injection H as <-. cbn [citems cmax].
    destruct (cache_at s id) as [c0|] eqn:L; [apply (I id c0 L)|].
    cbn [new_cache cmax citems length]. split; lia.
  - destruct (cache_at s id) as [c0|] eqn:L; [|discriminate]. destruct (I id c0 L) as [Hb Hm].
    intros H; injection H as <-; cbn [citems cmax].
    pose proof (filter_length_le (fun kv : Z * item => negb (expired (now s) (snd kv))) (citems c0)).
    split; [lia|assumption].
Qed.

Lemma InvB_exec keep h : forall s, 0 <= dmax s -> InvB s -> InvB (exec keep s h) /\ dmax (exec keep s h) = dmax s.
Proof.
  induction h as [|o r IH]; intros s D I; [split; [exact I|reflexivity]|].
  rewrite exec_cons. destruct (defaults_step keep s o) as [Hd _].
  destruct (IH (fst (step keep s o))) as [I' D']; [rewrite Hd; assumption|apply InvB_step; assumption|].
  split; [exact I'|]. rewrite D'. exact Hd.
Qed.

(* ---------- soundness of Find: only the latest stored value, never after delete / purge *)
Lemma peek_cache s id k :
  peek s id k = match cache_at s id with Some c => option_map idata (lookup k (citems c)) | None => None end.
Proof. unfold peek. rewrite item_of_cache. destruct (cache_at s id); reflexivity. Qed.

Lemma same_true i k id key : same i k id key = true <-> i = id /\ k = key.
Proof. unfold same. rewrite andb_true_iff, !Z.eqb_eq. reflexivity. Qed.

Lemma peek_step_sound keep s o id k v :
  InvND s ->
  peek (fst (step keep s o)) id k = Some v ->
  match o with
  | Add i k' v' => if same i k' id k then v = v' else peek s id k = Some v
  | Delete i k' => if same i k' id k then False else peek s id k = Some v
  | Purge i | PurgeLocal i => if i =? id then False else peek s id k = Some v
  | _ => peek s id k = Some v
  end.
Proof.
  intros I. rewrite !peek_cache, cache_at_step.
  destruct o as [i k' v'|i k'|i k'|i|i|i d|i|i|d]; try (intros H; exact H); unfold same;
    destruct (Z.eqb_spec i id) as [E|N]; cbn [andb]; try (intros H; exact H); subst.
  - unfold add_in. destruct (Z.eqb_spec k' k) as [Ek|Nk].
    + subst. destruct (cache_at s id) as [c|]; cbn [cmax citems cttl new_cache];
        destruct (_ <=? _); cbn [citems]; rewrite ?lookup_remove_eq, ?lookup_insert_eq; cbn;
        intros H; congruence.
    + destruct (cache_at s id) as [c|]; cbn [cmax citems cttl new_cache];
        destruct (_ <=? _); cbn [citems];
        rewrite ?lookup_insert_neq, ?lookup_remove_neq by assumption; cbn; intros H; congruence.
  - destruct (cache_at s id) as [c|]; [|intros H; exact H].
    destruct (lookup k' (citems c)) as [it|] eqn:L; [|intros H; exact H]. cbn [citems].
    destruct (Z.eqb_spec k' k) as [Ek|Nk].
    + subst. rewrite lookup_insert_eq, L. cbn. intros H; exact H.
    + rewrite lookup_insert_neq by assumption. intros H; exact H.
  - destruct (Z.eqb_spec k' k) as [Ek|Nk].
    + subst. destruct (cache_at s id) as [c|]; [|discriminate].
      destruct (lookup k (citems c)) as [it|] eqn:L; cbn [citems].
      * rewrite lookup_remove_eq. discriminate.
      * rewrite L. discriminate.
    + destruct (cache_at s id) as [c|]; [|intros H; exact H].
      destruct (lookup k' (citems c)) as [it|] eqn:L; [|intros H; exact H]. cbn [citems].
      rewrite lookup_remove_neq by assumption. intros H; exact H.
  - discriminate.
  - discriminate.
  - destruct (cache_at s id) as [c|]; cbn [citems new_cache]; intros H; [exact H|discriminate H].
  - destruct (cache_at s id) as [c|] eqn:L; [|intros H; exact H]. cbn [citems].
    rewrite lookup_filter by (apply (I id c L)).
    destruct (lookup k (citems c)) as [it|]; [|discriminate].
    destruct (negb _); [intros H; exact H|discriminate].
Qed.

Lemma find_result_peek keep s id k : find_result keep s id k = peek s id k.
Proof.
  unfold find_result, peek, item_of. cbn [step].
  destruct (lookup id (caches s)) as [c|]; [|reflexivity].
  destruct (lookup k (citems c)); reflexivity.
Qed.

Lemma sound_exec keep id k h : forall s acc,
  InvND s ->
  (forall v, peek s id k = Some v -> acc = Some v) ->
  forall v, peek (exec keep s h) id k = Some v -> fold_left (upd_store id k) h acc = Some v.
Proof.
  induction h as [|o r IH]; intros s acc I A v; [exact (A v)|].
  rewrite exec_cons. cbn [fold_left]. apply IH; [apply InvND_step; assumption|].
  intros w Hw. pose proof (peek_step_sound keep s o id k w I Hw) as P.
  destruct o as [i k' v'|i k'|i k'|i|i|i d|i|i|d]; cbn [upd_store]; try (apply A; exact P).
  - destruct (same i k' id k); [congruence|apply A; exact P].
  - destruct (same i k' id k); [contradiction|apply A; exact P].
  - destruct (i =? id); [contradiction|apply A; exact P].
  - destruct (i =? id); [contradiction|apply A; exact P].
Qed.

Lemma find_latest_sound keep a b h id k v :
  find_result keep (exec keep (init a b) h) id k = Some v -> last_store id k h = Some v.
Proof.
  rewrite find_result_peek. apply sound_exec; [apply InvND_init|]. intros w H. discriminate H.
Qed.

Lemma last_store_none_stays id k h :
  (forall o, In o h -> is_add_of id k o = false) -> fold_left (upd_store id k) h None = None.
Proof.
  induction h as [|o r IH]; intros H; [reflexivity|]. cbn [fold_left].
  assert (upd_store id k None o = None) as ->.
  { specialize (H o (or_introl eq_refl)). destruct o; cbn [upd_store is_add_of] in *; try reflexivity.
    - rewrite H. reflexivity.
    - destruct (same _ _ _ _); reflexivity.
    - destruct (_ =? _); reflexivity.
    - destruct (_ =? _); reflexivity. }
  apply IH. intros o' Ho'. apply H. right; assumption.
Qed.

Lemma never_after_delete keep a b h1 h2 id k :
  (forall o, In o h2 -> is_add_of id k o = false) ->
  find_result keep (exec keep (init a b) (h1 ++ Delete id k :: h2)) id k = None.
Proof.
  intros H. destruct (find_result _ _ _ _) as [v|] eqn:F; [|reflexivity].
  apply find_latest_sound in F. unfold last_store in F.
  rewrite fold_left_app in F. cbn [fold_left upd_store] in F.
  unfold same in F. rewrite !Z.eqb_refl in F. cbn [andb] in F.
  rewrite last_store_none_stays in F by assumption. discriminate.
Qed.

Lemma never_after_purge keep a b h1 h2 id k o :
  o = Purge id \/ o = PurgeLocal id ->
  (forall o, In o h2 -> is_add_of id k o = false) ->
  find_result keep (exec keep (init a b) (h1 ++ o :: h2)) id k = None.
Proof.
  intros Ho H. destruct (find_result _ _ _ _) as [v|] eqn:F; [|reflexivity].
  apply find_latest_sound in F. unfold last_store in F.
  rewrite fold_left_app in F. cbn [fold_left] in F.
  assert (upd_store id k (fold_left (upd_store id k) h1 None) o = None) as E
    by (destruct Ho; subst; cbn [upd_store]; rewrite Z.eqb_refl; reflexivity).
  rewrite E, last_store_none_stays in F by assumption. discriminate.
Qed.

(* ---------- completeness of Find: a stored entry that survives is returned *)
Lemma survives_exec keep id k v ttl : forall h s idle c,
  InvND s ->
  cache_at s id = Some c -> cttl c = ttl ->
  lookup k (citems c) = Some (mkItem v (now s - idle + ttl)) ->
  survives id k ttl idle h = true ->
  peek (exec keep s h) id k = Some v.
Proof.
  induction h as [|o r IH]; intros s idle c I C T L S.
  - cbn [exec fold_left]. rewrite peek_cache, C, L. reflexivity.
  - rewrite exec_cons. pose proof (InvND_step keep s o I) as I'.
    pose proof (cache_at_step keep s o id) as CS. pose proof (now_step keep s o) as NS.
    destruct o as [i k' v'|i k'|i k'|i|i|i d|i|i|d]; cbn [survives] in S; unfold same in S.
    + (* Add *)
      destruct (Z.eqb_spec i id) as [E|N]; cbn [andb] in S.
      * subst i. destruct (Z.eqb_spec k' k) as [Ek|Nk]; [discriminate|].
        unfold add_in in CS. rewrite C in CS. cbn [cmax citems cttl] in CS.
        destruct (_ <=? _) in CS; eapply IH; try exact CS; try exact S; try assumption; cbn [citems cttl];
          rewrite NS, ?lookup_insert_neq, ?lookup_remove_neq by assumption; exact L.
      * eapply IH; try exact S; try assumption; [rewrite CS; exact C|exact T|rewrite NS; exact L].
    + (* Find *)
      destruct (Z.eqb_spec i id) as [E|N]; cbn [andb] in S.
      * subst i. rewrite C in CS. destruct (Z.eqb_spec k' k) as [Ek|Nk].
        -- subst k'. rewrite L in CS. eapply IH; try exact CS; try exact S; try assumption; cbn [citems cttl idata].
           rewrite lookup_insert_eq, NS, T. f_equal. f_equal. lia.
        -- destruct (lookup k' (citems c)); eapply IH; try exact CS; try exact S; try assumption; cbn [citems cttl];
             rewrite NS, ?lookup_insert_neq by assumption; exact L.
      * eapply IH; try exact S; try assumption; [rewrite CS; exact C|exact T|rewrite NS; exact L].
    + (* Delete *)
      destruct (Z.eqb_spec i id) as [E|N]; cbn [andb] in S.
      * subst i. rewrite C in CS. destruct (Z.eqb_spec k' k) as [Ek|Nk]; [discriminate|].
        destruct (lookup k' (citems c)); eapply IH; try exact CS; try exact S; try assumption; cbn [citems cttl];
          rewrite NS, ?lookup_remove_neq by assumption; exact L.
      * eapply IH; try exact S; try assumption; [rewrite CS; exact C|exact T|rewrite NS; exact L].
    + destruct (Z.eqb_spec i id) as [E|N]; [discriminate|].
      eapply IH; try exact S; try assumption; [rewrite CS; exact C|exact T|rewrite NS; exact L].
    + destruct (Z.eqb_spec i id) as [E|N]; [discriminate|].
      eapply IH; try exact S; try assumption; [rewrite CS; exact C|exact T|rewrite NS; exact L].
    + destruct (Z.eqb_spec i id) as [E|N]; [discriminate|].
      eapply IH; try exact S; try assumption; [rewrite CS; exact C|exact T|rewrite NS; exact L].
    + eapply IH; try exact S; try assumption; [rewrite CS; exact C|exact T|rewrite NS; exact L].
    + (* Sweep *)
      destruct (Z.eqb_spec i id) as [E|N]; cbn [andb] in S.
      * subst i. rewrite C in CS. destruct (Z.ltb_spec ttl idle) as [Hlt|Hge]; [discriminate|].
        eapply IH; try exact CS; try exact S; try assumption; cbn [citems cttl].
        rewrite lookup_filter by (apply (I id c C)). rewrite L, NS. cbn [snd]. unfold expired. cbn [iexp].
        destruct (Z.ltb_spec (now s - idle + ttl) (now s)); [lia|reflexivity].
      * eapply IH; try exact S; try assumption; [rewrite CS; exact C|exact T|rewrite NS; exact L].
    + (* Advance *)
      eapply IH; try exact S; try assumption; [rewrite CS; exact C|exact T|].
      rewrite NS, L. f_equal. f_equal. lia.
Qed.

Lemma find_latest_complete keep a b h1 h2 id k v :
  let s1 := exec keep (init a b) h1 in
  room s1 id k = true ->
  survives id k (ttl_of keep s1 id) 0 h2 = true ->
  find_result keep (exec keep (init a b) (h1 ++ Add id k v :: h2)) id k = Some v.
Proof.
  intros s1 R S. rewrite find_result_peek, exec_app, exec_cons. fold s1.
  assert (InvND s1) as I1 by (apply InvND_exec, InvND_init).
  pose proof (cache_at_step keep s1 (Add id k v) id) as CS. cbv beta iota in CS. rewrite Z.eqb_refl in CS.
  unfold room in R. unfold ttl_of in S. fold (cache_at s1 id) in R, S.
  eapply survives_exec; try exact CS; try exact S; [apply InvND_step; assumption| |].
  - unfold add_in. destruct (cache_at s1 id) as [c|]; cbn [cmax citems cttl new_cache] in *.
    + destruct (_ <=? _); reflexivity.
    + destruct (_ <=? _); reflexivity.
  - rewrite now_step. unfold add_in.
    destruct (cache_at s1 id) as [c|]; cbn [cmax citems cttl new_cache length] in *.
    + destruct (Z.leb_spec (cmax c) (Z.of_nat (length (remove k (citems c))))); [lia|].
      cbn [citems]. rewrite lookup_insert_eq. f_equal. f_equal. lia.
    + destruct (Z.leb_spec (dmax s1) (Z.of_nat 0)); [lia|].
      cbn [citems]. rewrite lookup_insert_eq. f_equal. f_equal. lia.
Qed.

(* ---------- the eviction listener *)
Definition notifs (id k : Z) (l : list (Z * Z * Z)) : list (Z * Z * Z) :=
  filter (fun e => same (fst (fst e)) (snd (fst e)) id k) l.

Lemma notif_count_notifs id k l : notif_count id k l = length (notifs id k l).
Proof. reflexivity. Qed.

Lemma notifs_other_id i id k (f : Z * item -> bool) m :
  i <> id -> notifs id k (map (fun kv => (i, fst kv, idata (snd kv))) (filter f m)) = [].
Proof.
  intros N. induction m as [|x r IH]; [reflexivity|]. cbn [filter]. destruct (f x); [|exact IH].
  cbn [map notifs filter fst snd]. unfold same. destruct (Z.eqb_spec i id); [contradiction|]. exact IH.
Qed.

Lemma notifs_absent id k (f : Z * item -> bool) m :
  lookup k m = None -> notifs id k (map (fun kv => (id, fst kv, idata (snd kv))) (filter f m)) = [].
Proof.
  induction m as [|[k' it] r IH]; [reflexivity|]. cbn [lookup filter].
  destruct (Z.eqb_spec k' k) as [E|N]; [discriminate|]. intros L.
  destruct (f (k', it)); [|exact (IH L)].
  cbn [map notifs filter fst snd]. unfold same. destruct (Z.eqb_spec k' k); [contradiction|].
  rewrite andb_false_r. exact (IH L).
Qed.

Lemma notifs_sweep id k (f : Z * item -> bool) m :
  NoDup (map fst m) ->
  notifs id k (map (fun kv => (id, fst kv, idata (snd kv))) (filter f m)) =
  match lookup k m with Some it => if f (k, it) then [(id, k, idata it)] else [] | None => [] end.
Proof.
  induction m as [|[k' it] r IH]; [reflexivity|]. cbn [map fst]. intros H.
  inversion H as [|? ? Hn Hd]; subst. cbn [lookup filter].
  destruct (Z.eqb_spec k' k) as [E|N].
  - subst k'. assert (lookup k r = None) as Lr.
    { destruct (lookup k r) eqn:L; [|reflexivity]. exfalso. apply Hn.
      apply lookup_In in L. apply in_map_iff. exists (k, i); auto. }
    destruct (f (k, it)); [|apply notifs_absent; assumption].
    cbn [map notifs filter fst snd]. unfold same. rewrite !Z.eqb_refl. cbn [andb].
    f_equal. exact (notifs_absent id k f r Lr).
  - destruct (f (k', it)); [|exact (IH Hd)].
    cbn [map notifs filter fst snd]. unfold same. destruct (Z.eqb_spec k' k); [contradiction|].
    rewrite andb_false_r. exact (IH Hd).
Qed.

Lemma evict_once_step keep s o id k :
  InvND s ->
  notifs id k (oevict (snd (step keep s o))) =
    (if removed_by s o id k then match peek s id k with Some v => [(id, k, v)] | None => [] end else [])
  /\ (removed_by s o id k = true -> peek s id k <> None /\ peek (fst (step keep s o)) id k = None).
Proof.
  intros I.
  destruct o as [i k' v'|i k'|i k'|i|i|i d|i|i|d]; cbn [removed_by].
  - split; [|discriminate]. cbn [step]. destruct (_ <=? _); reflexivity.
  - split; [|discriminate]. cbn [step].
    destruct (lookup i (caches s)) as [c|]; [destruct (lookup k' (citems c))|]; reflexivity.
  - (* Delete *)
    rewrite (peek_cache (fst _)), cache_at_step. unfold peek. rewrite item_of_cache. cbn [step].
    unfold same. destruct (Z.eqb_spec i id) as [E|N]; cbn [andb].
    + subst i. fold (cache_at s id). destruct (cache_at s id) as [c|] eqn:C; [|split; [reflexivity|discriminate]].
      destruct (Z.eqb_spec k' k) as [Ek|Nk].
      * subst k'. destruct (lookup k (citems c)) as [it|] eqn:L; cbn [snd oevict out0 notifs filter fst option_map].
        -- unfold same. rewrite !Z.eqb_refl. cbn [andb]. split; [reflexivity|].
           intros _. cbn [citems]. rewrite lookup_remove_eq. split; [discriminate|reflexivity].
        -- split; [reflexivity|discriminate].
      * split; [|destruct (lookup k (citems c)); discriminate].
        destruct (lookup k' (citems c)) as [it'|]; cbn [snd oevict out0 notifs filter fst];
          [unfold same; destruct (Z.eqb_spec k' k); [contradiction|]; rewrite andb_false_r|];
          destruct (lookup k (citems c)); reflexivity.
    + assert (forall x : option item, (match x with Some _ => false | None => false end) = false) as F
        by (intros [x|]; reflexivity).
      rewrite F. split; [|discriminate].
      destruct (lookup i (caches s)) as [c|]; [destruct (lookup k' (citems c))|];
        cbn [snd oevict out0 notifs filter fst]; unfold same;
        try (destruct (Z.eqb_spec i id); [contradiction|]; cbn [andb]); reflexivity.
  - split; [reflexivity|discriminate].
  - split; [reflexivity|discriminate].
  - split; [reflexivity|discriminate].
  - split; [reflexivity|discriminate].
  - (* Sweep *)
    rewrite (peek_cache (fst _)), cache_at_step. unfold peek. rewrite item_of_cache. cbn [step].
    destruct (Z.eqb_spec i id) as [E|N]; cbn [andb].
    + subst i. fold (cache_at s id). destruct (cache_at s id) as [c|] eqn:C; [|split; [reflexivity|discriminate]].
      cbn [snd oevict]. rewrite notifs_sweep by (apply (I id c C)). cbn [citems].
      rewrite lookup_filter by (apply (I id c C)).
      destruct (lookup k (citems c)) as [it|] eqn:L; [|split; [reflexivity|discriminate]].
      cbn [snd option_map]. destruct (expired (now s) it); cbn [negb]; split;
        try reflexivity; try discriminate. intros _. split; [discriminate|reflexivity].
    + assert (forall x : option item, (match x with Some _ => false | None => false end) = false) as F
        by (intros [x|]; reflexivity).
      rewrite F. split; [|discriminate].
      destruct (lookup i (caches s)) as [c|]; cbn [snd oevict out0];
        [rewrite notifs_other_id by assumption|]; reflexivity.
  - split; [reflexivity|discriminate].
Qed.

(* ---------- the configured lifetime stays in force (repaired code, keep = true) *)
Definition Life (id d : Z) (s : st) : Prop :=
  lookup id (cfg s) = Some d /\ forall c, cache_at s id = Some c -> cttl c = d.

Lemma Life_step s o id d :
  (match o with SetExp i _ => negb (i =? id) | _ => true end) = true ->
  Life id d s -> Life id d (fst (step true s o)).
Proof.
  intros G [Hc Ht]. split.
  - rewrite cfg_step. destruct o; try exact Hc.
    destruct (Z.eqb_spec id0 id); [discriminate|]. rewrite lookup_insert_neq by assumption. exact Hc.
  - intros c. rewrite cache_at_step.
    destruct o as [i k v|i k|i k|i|i|i d'|i|i|d']; try (apply Ht);
      destruct (Z.eqb_spec i id) as [E|N]; try (apply Ht); try discriminate; subst.
    + intros H. injection H as <-. unfold add_in.
      destruct (cache_at s id) as [c0|] eqn:L; cbn [cmax citems cttl new_cache].
      * destruct (_ <=? _); cbn [cttl]; apply (Ht c0 eq_refl).
      * unfold new_cache. cbn [cmax citems cttl]. rewrite Hc. destruct (_ <=? _); reflexivity.
    + destruct (cache_at s id) as [c0|] eqn:L; [|discriminate].
      destruct (lookup k (citems c0)); intros H; injection H as <-; cbn [cttl]; apply (Ht c0 eq_refl).
    + destruct (cache_at s id) as [c0|] eqn:L; [|discriminate].
      destruct (lookup k (citems c0)); intros H; injection H as <-; cbn [cttl]; apply (Ht c0 eq_refl).
    + destruct (cache_at s id) as [c0|] eqn:L; [|discriminate].
      intros H; injection H as <-; cbn [cttl]; apply (Ht c0 eq_refl).
Qed.

Lemma Life_exec id d h : forall s, no_setexp id h = true -> Life id d s -> Life id d (exec true s h).
Proof.
  induction h as [|o r IH]; intros s G L; [exact L|].
  cbn [no_setexp forallb] in G. apply andb_true_iff in G. destruct G as [G1 G2].
  rewrite exec_cons. apply IH; [exact G2|]. apply Life_step; assumption.
Qed.

Lemma lifetime_persists a b h1 h2 id d k v it :
  no_setexp id h2 = true ->
  let s := exec true (init a b) (h1 ++ SetExp id d :: h2 ++ [Add id k v]) in
  item_of s id k = Some it -> iexp it = now s + d.
Proof.
  intros G s. subst s. rewrite exec_app, exec_cons, exec_app. cbn [exec fold_left].
  set (s1 := exec true (init a b) h1).
  set (s2 := exec true (fst (step true s1 (SetExp id d))) h2).
  assert (Life id d s2) as [Hc Ht].
  { apply Life_exec; [exact G|]. split.
    - rewrite cfg_step. apply lookup_insert_eq.
    - intros c. rewrite cache_at_step, Z.eqb_refl. intros H. injection H as <-. reflexivity. }
  rewrite item_of_cache, cache_at_step, Z.eqb_refl, now_step. unfold add_in.
  destruct (cache_at s2 id) as [c0|] eqn:L; cbn [cmax citems cttl new_cache].
  - rewrite (Ht c0 eq_refl). destruct (_ <=? _); cbn [citems].
    + rewrite lookup_remove_eq. discriminate.
    + rewrite lookup_insert_eq. intros H. injection H as <-. reflexivity.
  - unfold new_cache. cbn [cmax citems cttl]. rewrite Hc. destruct (_ <=? _); cbn [citems lookup]; [discriminate|].
    rewrite lookup_insert_eq. intros H. injection H as <-. reflexivity.
Qed.
