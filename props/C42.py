"""C42 Concurrent service requests do not see each other (internal/server/services/service.go, cache.go)."""
import os
import re
import vf

GROUP = "SvcIso"
META = {
    "group": GROUP,
    "technique": "Coq proof that the request's own symbols win over anything merged from the service cache, for every cache content (= every interleaving) + correspondence and concurrent-batch oracle on the real ServiceHandler",
    "text": "C42_own_values: for every request and EVERY content of the service cache (empty, or the symbol table of any other request — hence every order and interleaving of requests), each symbol the request itself defines (its read-only symbols such as user/body/parameters and its URL values) has the request's own value in the table the service runs with; C42_no_foreign_readonly: no read-only symbol is ever taken from the cache. The model of table construction (fill, URL values, merge of cached symbols, URL values again) is compared with the real ServiceHandler on sequential and concurrent batches over two echo services, and the cached tables are dumped on every run to re-check that every request-dependent name is read-only or a URL value. partial: the per-request runtime table, the shared compiled bytecode and the Go scheduler are observed (concurrent batches, responses compared with the serial expectation), not modelled; services with package-level state are outside the property.",
    "note": "Trusted: Coq kernel; the hand-written model of ServiceHandler's table construction and symbols.Merge, tied to the code by the correspondence run; the echo services' coverage of request data (URL values bare and through the request object, user, body, query parameter, a local variable).",
}
FIELDS = ["parts", "bare", "q", "user", "body", "mine", "sub"]


def hx(s):
    return s.encode().hex() or "-"


def run(ck):
    quick = ck.tier == "quick"
    ck.cov["rule"] = ("histories of batches (size 1 = served alone, 2-6 = served concurrently) of requests to two echo services "
                      "(/services/verif/{{id}} and /services/verif2/{{id}}/{{sub}}) with distinct random id/query/user/body per request; "
                      "each history runs in a fresh process (empty service cache). distinct_nontrivial = requests served when the "
                      "cache already held another request's table")
    ck.assume("a service keeping no package-level state; symbol names are compared as the code compares them (exact)",
              "the Go scheduler: concurrency is exercised by real goroutines, not enumerated")
    ck.trusted("harness/C42/c42_test.go (overlay in internal/server/services), props/C42.py")
    ck.coq_stage(GROUP, theorems=["C42_own_values", "C42_no_foreign_readonly", "C42_old_refuted"])
    ok, binp = vf.go_test_build(ck.work, "internal/server/services",
                                {"internal/server/services/zz_verif_c42_test.go": os.path.join(vf.HARNESS, "C42", "c42_test.go")},
                                "c42.test")
    if not ok:
        ck.violation("harness-build", "harness for internal/server/services does not build:\n" + binp[-1500:],
                     replay={"log": binp[-3000:]}, found_input=False)
        return
    nh = 12 if quick else 80
    hists = []
    if ck.replay_file:
        import json
        hists = [json.load(open(ck.replay_file))["replay"]["history"]]
    corpus = [[[("a1", 0)], [("b2", 0)], [("c3", 0), ("d4", 0), ("e5", 0)]],
              [[("a1", 1), ("b2", 1), ("c3", 0)], [("d4", 1)], [("e5", 0)]],
              [[("a1", 2)], [("b2", 2)], [(c + "9", 2) for c in "cdefghijklmnopqrstuvwxyzABCD"], [(c + "8", 2) for c in "cdefghijklmnopqrstuvwxyzABCD"]],
              [[("a1", 1)], [("", 1)], [("c3", 1)]],
              # response buffers must not be shared between requests in flight: large concurrent batches on every service
              [[("a1", 0)], [(c + "7", 0) for c in "abcdefghijklmnopqrstuvwxyzABCDEF"], [(c + "6", 0) for c in "abcdefghijklmnopqrstuvwxyzABCDEF"],
               [("b1", 1)], [(c + "5", 1) for c in "abcdefghijklmnopqrstuvwxyzABCDEF"], [(c + "4", 1) for c in "abcdefghijklmnopqrstuvwxyzABCDEF"]]]
    if not hists:
        for h in corpus:
            hists.append([[{"id": (i or "e") + "x%d" % k, "q": "q" + i, "user": ("u" + i) if i else "", "body": "b" + i, "svc": s} for k, (i, s) in enumerate(b)] for b in h])
        while len(hists) < nh:
            h = []
            n = 0
            for _ in range(ck.rng.randint(2, 5)):
                size = 1 if ck.rng.random() < 0.5 else ck.rng.randint(2, 6)
                b = []
                for _ in range(size):
                    n += 1
                    tag = "%s%d" % (ck.rng.choice("abcdefgh"), ck.rng.randint(0, 999))
                    svc = ck.rng.randint(0, 2)
                    user = "u" + tag + "n%d" % n
                    if svc == 1 and ck.rng.random() < 0.3:
                        user = ""        # an optional URL part left empty: must not inherit another request's value
                    b.append({"id": "i" + tag + "n%d" % n, "q": "q" + tag + "n%d" % n, "user": user,
                              "body": "b" + tag + "n%d" % n, "svc": svc})
                h.append(b)
            hists.append(h)
    total, nontriv, mism_cases = 0, 0, []
    names_dump = {}
    for hi, h in enumerate(hists):
        inp, outp = os.path.join(ck.work, "in%d.txt" % hi), os.path.join(ck.work, "out%d.txt" % hi)
        flat = []
        with open(inp, "w") as f:
            for b in h:
                f.write("B %d\n" % len(b))
                for r in b:
                    f.write("R %s %s %s %s %d\n" % (hx(r["id"]), hx(r["q"]), hx(r["user"]), hx(r["body"]), r["svc"]))
                    flat.append(r)
        rc, log = vf.run_bin(binp, "^TestVerifC42$", {"VERIF_IN": inp, "VERIF_OUT": outp}, cwd=ck.work)
        if rc != 0:
            sig = "service-go-panic" if "panic:" in log else "harness-run"
            ck.violation(sig, "harness run failed on history %d:\n%s" % (hi, log[-1500:]), replay={"history": h, "log": log[-3000:]},
                         found_input=(sig == "service-go-panic"))
            continue
        resp = {}
        for line in open(outp):
            f = line.split()
            if f[0] == "R":
                resp[int(f[1])] = (int(f[2]), bytes.fromhex(f[3]).decode(errors="replace") if len(f) > 3 else "")
            elif f[0] == "N":
                names_dump.setdefault(int(f[1]), set()).add(bytes.fromhex(f[2]).decode())
        seen_svc = set()
        idx = 0
        for b in h:
            for r in b:
                total += 1
                if r["svc"] in seen_svc:
                    nontriv += 1
                st, body = resp.get(idx, (None, ""))
                got = dict(kv.split("=", 1) for kv in body.strip().split("|") if "=" in kv)
                want = {"parts": r["id"], "bare": r["id"], "user": r["user"], "body": r["body"],
                        "mine": r["user"] if r["svc"] == 1 else r["id"]}
                if r["svc"] == 1:
                    want["sub"] = r["user"]
                if r["svc"] == 2:
                    want["pk"] = "<%s>%s" % (r["user"], r["user"])
                bad = [k for k, v in want.items() if got.get(k) != v]
                if st != 200 or bad or r["q"] not in got.get("q", ""):
                    other = [x for x in flat if x is not r and any(x[k] and x[k] != r[k] and x[k] in body for k in ("id", "user", "body", "q"))]
                    ck.violation("request-sees-foreign-value" if other else "response-wrong",
                                 "request %s (svc %d, batch of %d) answered status %s %r; fields %s differ from its own values%s" % (
                                     r["id"], r["svc"], len(b), st, body.strip()[:200], bad,
                                     (" and carry values of request %s" % other[0]["id"]) if other else ""),
                                 replay={"history": h, "request": r, "response": body})
                mism_cases.append((r, got, h, idx))
                idx += 1
            for r in b:
                seen_svc.add(r["svc"])
        if hi < 2:
            ck.sample({"history": [[(r["id"], r["svc"]) for r in b] for b in h],
                       "responses": [resp.get(i, (None, ""))[1].strip() for i in range(min(3, len(flat)))]})
    ck.cov["evaluations"] = total
    ck.cov["distinct_nontrivial"] = nontriv
    ck.cov["input_distribution"] = {"histories": len(hists), "requests": total,
                                    "concurrent_batches": sum(1 for h in hists for b in h if len(b) > 1),
                                    "cached_table_names": {str(k): sorted(v) for k, v in names_dump.items()}}
    if getattr(ck, "coq_broken", None):
        return
    # ---- correspondence: model's table for each request given the table cached by the first request of its service
    ids = {}

    def nid(s):
        return ids.setdefault(s, len(ids) + 100)

    def req_term(r):
        parts = [(1, nid(r["id"]))] + ([(2, nid(r["user"] or "<empty>"))] if r["svc"] == 1 else []) + [(3, 1)]
        consts = [(10, nid(r["user"])), (11, nid(r["body"])), (12, nid(r["q"]))]
        return "{| consts := [%s]; parts := [%s] |}" % (";".join("(%d,%d)" % c for c in consts), ";".join("(%d,%d)" % p for p in parts))
    cs = []
    for r, got, h, idx in mism_cases:
        first = next(x for b in h for x in b if x["svc"] == r["svc"])
        cache = "None" if first is r else "cache_after None %s" % req_term(first)
        obs_bare = nid(got.get("bare", "?"))
        obs_sub = nid(got.get("sub", "?") or "<empty>") if r["svc"] == 1 else 0
        cs.append("((%s), %s, %d, %d)" % (cache, req_term(r), obs_bare, obs_sub))
    part_keys = {0: {"services", "verif", "id"}, 1: {"services", "verif2", "id", "sub"}, 2: {"services", "verif3", "id"}}
    dumped = []
    for svc, names in sorted(names_dump.items()):
        for n in sorted(names):
            dumped.append("(%s, %s)" % ("true" if n.startswith("_") else "false", "true" if n in part_keys[svc] else "false"))
    prelude = "\n".join([
        "From SvcIso Require Import Model.", "Open Scope N_scope.",
        "Definition g (t : table) (k : N) : N := match get t {| ro := false; nid := k |} with Some v => v | None => 0 end.",
        "Definition cases : list (option table * request * N * N) := [%s]." % ";\n".join(cs),
        "Fixpoint idx (i : nat) (l : list (option table * request * N * N)) : list nat := match l with [] => [] | (c, r, b, s) :: rest =>",
        "  (if (g (seen c r) 1 =? b) && ((s =? 0) || (g (seen c r) 2 =? s)) then [] else [i]) ++ idx (S i) rest end.",
        "Definition dumped : list (bool * bool) := [%s]." % ";".join(dumped)])
    ok, r = vf.coq_eval(GROUP, ck.work, "cases", prelude, {
        "MISM": "idx 0 cases", "OBL": "if forallb (fun p : bool * bool => fst p || snd p) dumped then [1%nat] else [0%nat]"})
    if not ok:
        ck.violation("correspondence-eval", "model evaluation failed:\n" + r[-1500:], replay={"log": r[-3000:]}, found_input=False)
        return
    ck.add_obligations(1, 1 if r["OBL"] == [1] else 0)
    ck.cov["traces_validated_against_impl"] = len(cs)
    if ck.viol:
        return
    if r["OBL"] != [1]:
        extra = {svc: sorted(n for n in names if not n.startswith("_") and n not in part_keys[svc]) for svc, names in names_dump.items()}
        ck.violation("request-local-name-not-readonly", "the table cached with a service holds request-dependent scalar symbols that are neither "
                     "read-only nor URL values: %s (they are merged into every later request)" % extra,
                     replay={"obligation": "every scalar name of the cached request table is read-only or a URL value", "names": extra}, found_input=False)
    for i in r["MISM"][:3]:
        rq, got, h, _ = mism_cases[i]
        ck.violation("corr-seen", "model and ServiceHandler disagree on the URL values request %s sees: real bare=%r sub=%r" % (rq["id"], got.get("bare"), got.get("sub")),
                     replay={"history": h, "request": rq, "correspondence": "SvcIso.seen vs ServiceHandler"}, found_input=False)
