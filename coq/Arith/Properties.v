(* Arith/Properties.v — property theorems of C03 only; proofs live in Proofs.v. *)
From Coq Require Import ZArith List.
From Arith Require Import Model Spec Proofs.
Open Scope Z_scope.

(* The full statement of C03 over the integer kinds: every diadic operation yields the documented
   result, every increment/compound-assignment form yields the documented result (hence they agree),
   and unary minus is total. *)
Definition C03_statement : Prop :=
  (forall m o k1 c1 v1 k2 c2 v2, in_range k1 v1 -> in_range k2 v2 ->
     binop m o (VInt k1 v1, c1) (VInt k2 v2, c2) = doc_binop m o k1 c1 v1 k2 c2 v2) /\
  (forall m opt f k v, in_range k v -> in_range Int (form_step_value f) ->
     exec_form cfg_now m opt f (VInt k v) = doc_form m f k v) /\
  (forall k c v, negate (VInt k v, c) = Ok (VInt k (wrap k (- v)), c)).

(* add/sub/mul/div/mod on any two integer operands (10 kinds x constness x 3 modes x all in-range
   values): constant adaptation (lossless in strict), promotion / rejection, wrap-around, x/0 *)
Theorem C03_binop_matches_doc :
  forall m o k1 c1 v1 k2 c2 v2, in_range k1 v1 -> in_range k2 v2 ->
    binop m o (VInt k1 v1, c1) (VInt k2 v2, c2) = doc_binop m o k1 c1 v1 k2 c2 v2.
Proof. exact binop_matches_doc. Qed.

(* x++, x--, x += k, x -= k, x = x + k, x = x - k, unoptimized (Load/Push/op/Store) or fused
   (Increment), in every mode, for every integer kind: the documented result *)
Theorem C03_forms_match_doc :
  forall m opt f k v, in_range k v -> in_range Int (form_step_value f) ->
    exec_form cfg_now m opt f (VInt k v) = doc_form m f k v.
Proof. exact forms_match_doc. Qed.

(* ... hence the forms agree with one another in value and kind, whatever the optimizer did *)
Theorem C03_incr_forms_agree :
  forall m o1 o2 k v s, in_range k v -> in_range Int s ->
    exec_form cfg_now m o1 (AddAssign s) (VInt k v) = exec_form cfg_now m o2 (AssignAdd s) (VInt k v) /\
    exec_form cfg_now m o1 (SubAssign s) (VInt k v) = exec_form cfg_now m o2 (AssignSub s) (VInt k v) /\
    exec_form cfg_now m o1 PostInc (VInt k v) = exec_form cfg_now m o2 (AddAssign 1) (VInt k v) /\
    exec_form cfg_now m o1 PostDec (VInt k v) = exec_form cfg_now m o2 (SubAssign 1) (VInt k v).
Proof. exact incr_forms_agree. Qed.

(* ... and the variable keeps its type, with a value of that type *)
Theorem C03_form_keeps_kind :
  forall m opt f k v r, in_range k v -> in_range Int (form_step_value f) ->
    exec_form cfg_now m opt f (VInt k v) = Ok r -> exists z, r = VInt k z /\ in_range k z.
Proof. exact form_keeps_kind. Qed.

(* the fused Increment instruction is exactly Load/Push/Add/Store: same value, same kind, same error,
   for ALL variable values (integer, bool, string), all steps (constant or not) and all modes - the
   code as of tucats/ego 8521b872 (before it the sum bypassed Store's conformance check) *)
Theorem C03_increment_is_add_store :
  forall m v step,
    increment cfg_now m v step = bind (binop m Add (v, false) step) (fun r => store m v (r, false)).
Proof. intros. apply increment_is_add_store; reflexivity. Qed.

(* unary minus works on every integer kind and keeps kind and constness; the result wraps like Go *)
Theorem C03_negate_total :
  forall k c v, negate (VInt k v, c) = Ok (VInt k (wrap k (- v)), c).
Proof. exact negate_total. Qed.

Theorem C03_full : C03_statement.
Proof. repeat split; [exact binop_matches_doc|exact forms_match_doc|exact negate_total]. Qed.

(* strict-mode constant adaptation is decided by a float64 round trip in the code; over all 64-bit
   integers that test is exactly "the constant fits the target kind" *)
Theorem C03_lossless_is_range_check :
  forall k t z, in_range k z ->
    coerce_lossless (VInt k z) (KI t) = if in_rangeb t z then Ok (VInt t z) else Err ELossy.
Proof. intros k t z H. apply lossless_int. apply (in_range_in64 k). exact H. Qed.

(* the code before the repairs violated the statement: replayable witnesses *)
Theorem C03_old_refuted_negate_int8 : negate_old (VInt I8 5, false) = Err EInvalidType.
Proof. exact old_negate_int8. Qed.
Theorem C03_old_refuted_postinc_dynamic :
  exec_form cfg_old Dynamic false PostInc (VInt I32 5) = Ok (VInt Int 6) /\
  exec_form cfg_old Dynamic false (AddAssign 1) (VInt I32 5) = Ok (VInt I32 6).
Proof. exact old_postinc_int32_dynamic. Qed.
Theorem C03_old_refuted_postinc_strict :
  exec_form cfg_old Strict false PostInc (VInt I32 5) = Err ETypeMismatch /\
  exec_form cfg_old Strict false (AddAssign 1) (VInt I32 5) = Ok (VInt I32 6).
Proof. exact old_postinc_int32_strict. Qed.
Theorem C03_old_refuted_increment_int8 :
  exec_form cfg_old Relaxed true (AssignAdd 1) (VInt I8 5) = Err EInvalidType /\
  exec_form cfg_old Relaxed false (AssignAdd 1) (VInt I8 5) = Ok (VInt I8 6).
Proof. exact old_increment_int8. Qed.
Theorem C03_old_refuted_increment_strict :
  exec_form cfg_old Strict true (AssignAdd 1) (VInt I32 5) = Err ETypeMismatch /\
  exec_form cfg_old Strict false (AssignAdd 1) (VInt I32 5) = Ok (VInt I32 6).
Proof. exact old_increment_strict_const. Qed.
Theorem C03_old_refuted_const_narrow_kinds :
  argument_old Strict (KI I16) (VInt Int 4, true) = Err EArgType /\
  retval_old Strict (KI I16) (VInt Int 70000, true) = Ok (VInt I16 4464).
Proof. exact old_argument_int16. Qed.

(* non-vacuity: the hypotheses hold on concrete non-trivial cells *)
Example C03_nonvacuous_binop :
  in_range I8 (-128) /\ in_range I64 9223372036854775807 /\
  binop Strict Mul (VInt I8 (-128), false) (VInt Int (-1), true) = Ok (VInt I8 (-128)) /\
  binop Strict Add (VInt I8 5, false) (VInt Int 300, true) = Err ELossy /\
  binop Relaxed Add (VInt I8 5, false) (VInt Int 300, true) = Ok (VInt I8 49) /\
  binop Dynamic Add (VInt U32 4294967295, false) (VInt I64 9223372036854775807, false) = Ok (VInt I64 (-9223372032559808514)).
Proof. vm_compute. repeat split; congruence. Qed.
Example C03_nonvacuous_forms :
  in_range I8 127 /\ in_range Int 1 /\
  exec_form cfg_now Strict true PostInc (VInt I8 127) = Ok (VInt I8 (-128)) /\
  exec_form cfg_now Dynamic false (SubAssign 300) (VInt Byte 3) = Ok (VInt Byte 215) /\
  exec_form cfg_now Strict true (AssignAdd 300) (VInt Byte 3) = Err ELossy.
Proof. vm_compute. repeat split; congruence. Qed.
Example C03_nonvacuous_increment :
  increment cfg_now Relaxed (VInt I8 100) (VInt I64 100, false) = Ok (VInt I8 (-56)) /\
  increment cfg_now Dynamic (VInt I8 100) (VInt I64 100, false) = Ok (VInt I64 200) /\
  increment cfg_now Strict (VBool false) (VInt Byte 1, true) = Err EVarType /\
  increment cfg_old Relaxed (VInt I16 100) (VInt I64 100, false) = Ok (VInt I64 200).
Proof. vm_compute. repeat split; reflexivity. Qed.
Example C03_nonvacuous_negate :
  negate (VInt I8 (-128), true) = Ok (VInt I8 (-128), true) /\ negate (VInt U16 5, false) = Ok (VInt U16 65531, false).
Proof. vm_compute. split; reflexivity. Qed.
