//go:build verif

package commands

// Overlaid into /repo/internal/commands by /verif/check C32 / C20. Runs the REAL route declarations
// (defineStaticRoutes + defineNativeAdminHandlers, the same calls setupServerRouter makes) and dumps
// endpoint, method and gate flags of every route, one per line:
//   ROUTE <hex endpoint> <method> <mustAuth> <canAuth> <lightweight> <n perms> <hex perm>...

import (
	"bufio"
	"encoding/hex"
	"fmt"
	"os"
	"testing"

	"github.com/tucats/ego/internal/cli/settings"
	"github.com/tucats/ego/internal/defs"
)

func b2i(b bool) int {
	if b {
		return 1
	}

	return 0
}

func TestVerifRouteTable(t *testing.T) {
	// optional OAuth authorization-server routes are part of the table when enabled
	if os.Getenv("VERIF_OAUTH_AS") == "1" {
		settings.SetDefault(defs.OAuthASEnabledSetting, "true")
	}

	r := defineStaticRoutes()
	defineNativeAdminHandlers(r)

	out, err := os.Create(os.Getenv("VERIF_OUT"))
	if err != nil {
		t.Fatal(err)
	}
	defer out.Close()

	w := bufio.NewWriter(out)
	defer w.Flush()

	for _, x := range r.VerifRoutes() {
		fmt.Fprintf(w, "ROUTE %s %s %d %d %d %d", hex.EncodeToString([]byte(x.Endpoint)), x.Method,
			b2i(x.MustAuth), b2i(x.CanAuth), b2i(x.Lightweight), len(x.Perms))
		for _, p := range x.Perms {
			fmt.Fprintf(w, " %s", hex.EncodeToString([]byte(p)))
		}

		fmt.Fprintln(w)
	}
}
