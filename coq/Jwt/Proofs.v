(* Jwt/Proofs.v — lemmas for C22 *)
From Common Require Import Base.
From Jwt Require Import Model.
Open Scope Z_scope.

(* ---- result cache as association list *)
Lemma lookup_cons c id e id' :
  lookup ((id, e) :: c) id' = if Nat.eqb id id' then Some e else lookup c id'.
Proof. unfold lookup. cbn [find fst snd]. destruct (Nat.eqb id id'); reflexivity. Qed.

Lemma lookup_evict_same c id : lookup (evict c id) id = None.
Proof.
  unfold lookup, evict. induction c as [|[k e] c IH]; [reflexivity|].
  cbn [filter fst]. destruct (Nat.eqb k id) eqn:Hk; cbn [negb]; [exact IH|].
  cbn [find fst]. rewrite Hk. exact IH.
Qed.

Lemma lookup_evict_some c id id' e : lookup (evict c id) id' = Some e -> lookup c id' = Some e.
Proof.
  unfold lookup, evict. induction c as [|[k x] c IH]; [discriminate|].
  cbn [filter fst]. destruct (Nat.eqb k id) eqn:Hk; cbn [negb].
  - intros H. specialize (IH H). cbn [find fst]. destruct (Nat.eqb k id') eqn:Hk'; [|exact IH].
    apply Nat.eqb_eq in Hk. apply Nat.eqb_eq in Hk'. subst.
    pose proof (lookup_evict_same c id') as Hn. unfold lookup, evict in Hn. rewrite Hn in H. discriminate.
  - cbn [find fst]. destruct (Nat.eqb k id'); [auto|exact IH].
Qed.

(* ---- key selection: what it leaves alone, and what a selected key means *)
Definition frame (s s' : state) : Prop :=
  now s' = now s /\ cache s' = cache s /\ revoked s' = revoked s /\ published s' = published s.

(* the cached key set is either untouched or replaced by the usable keys published right now *)
Definition keys_step (s s' : state) : Prop :=
  (jwks s' = jwks s /\ fetched_at s' = fetched_at s) \/
  (jwks s' = usable (published s) /\ fetched_at s' = now s).

Lemma frame_refl s : frame s s. Proof. repeat split. Qed.

Lemma refresh_spec s s' : refresh s = Some s' ->
  frame s s' /\ jwks s' = usable (published s) /\ fetched_at s' = now s /\ jwks s' <> [].
Proof.
  unfold refresh. destruct (usable (published s)) as [|k ks] eqn:Hu; [discriminate|].
  intros H. inversion H; subst s'. cbn. repeat split; try reflexivity. discriminate.
Qed.

Lemma refresh_find_spec s kid s' r : refresh_find s kid = (s', r) ->
  frame s s' /\ keys_step s s' /\
  (forall m, r = Some m -> find_kid (jwks s') kid = Some m /\ fetched_at s' = now s').
Proof.
  unfold refresh_find. destruct (refresh s) as [s1|] eqn:Hr; intros H; inversion H; subst.
  - destruct (refresh_spec _ _ Hr) as [Hf [Hj [Ht _]]]. split; [exact Hf|]. split; [right; auto|].
    intros m Hm. split; [exact Hm|]. destruct Hf as [Hn _]. congruence.
  - split; [apply frame_refl|]. split; [left; auto|]. intros m Hm. discriminate.
Qed.

Lemma key_by_id_spec cfg s kid s' r : 0 < c_ttl cfg -> key_by_id cfg s kid = (s', r) ->
  frame s s' /\ keys_step s s' /\
  (forall m, r = Some m -> find_kid (jwks s') kid = Some m /\ now s' - fetched_at s' < c_ttl cfg).
Proof.
  intros Httl. unfold key_by_id. destruct (is_fresh cfg s) eqn:Hfr.
  - destruct (find_kid (jwks s) kid) as [m|] eqn:Hk.
    + intros H. inversion H; subst. split; [apply frame_refl|]. split; [left; auto|].
      intros m' Hm. inversion Hm; subst. split; [exact Hk|].
      unfold is_fresh in Hfr. apply andb_true_iff in Hfr. destruct Hfr as [_ Ha]. lia.
    + destruct (limited s).
      * intros H. inversion H; subst. split; [apply frame_refl|]. split; [left; auto|]. intros m Hm. discriminate.
      * intros H. apply refresh_find_spec in H. destruct H as [Hf [Hks Hm]].
        split; [exact Hf|]. split; [exact Hks|].
        intros m Hs. destruct (Hm m Hs) as [A B]. split; [exact A|]. lia.
  - intros H. apply refresh_find_spec in H. destruct H as [Hf [Hks Hm]].
    split; [exact Hf|]. split; [exact Hks|].
    intros m Hs. destruct (Hm m Hs) as [A B]. split; [exact A|]. lia.
Qed.

Lemma first_key_spec s s' r : first_key s = (s', r) ->
  frame s s' /\ keys_step s s' /\ (forall m, r = Some m -> exists k rest, jwks s' = (k, m) :: rest).
Proof.
  unfold first_key. destruct (jwks s) as [|[k m] rest] eqn:Hj.
  - destruct (refresh s) as [s1|] eqn:Hr; intros H; inversion H; subst.
    + destruct (refresh_spec _ _ Hr) as [Hf [Hj' [Ht _]]]. split; [exact Hf|]. split; [right; auto|].
      intros m Hm. destruct (jwks s') as [|[k m'] rest]; [discriminate|]. inversion Hm; subst. eauto.
    + split; [apply frame_refl|]. split; [left; auto|]. intros m Hm. discriminate.
  - intros H. inversion H; subst. split; [apply frame_refl|]. split; [left; auto|].
    intros m' Hm. inversion Hm; subst. eauto.
Qed.

Definition key_sel (cfg : config) (s' : state) (t : token) (m : nat) : Prop :=
  if is_nil (t_kid t) then exists k r, jwks s' = (k, m) :: r
  else find_kid (jwks s') (t_kid t) = Some m /\ now s' - fetched_at s' < c_ttl cfg.

Lemma select_key_spec cfg s t s' r : 0 < c_ttl cfg -> select_key cfg s t = (s', r) ->
  frame s s' /\ keys_step s s' /\ (forall m, r = Some m -> alg_allowed (t_alg t) = true /\ key_sel cfg s' t m).
Proof.
  intros Httl. unfold select_key, key_sel. destruct (alg_allowed (t_alg t)); cbn [negb].
  - destruct (is_nil (t_kid t)).
    + intros H. apply first_key_spec in H. destruct H as [A [B C]]. split; [exact A|]. split; [exact B|].
      intros m Hm. split; [reflexivity|]. apply C, Hm.
    + intros H. apply key_by_id_spec in H; [|exact Httl]. destruct H as [A [B C]]. split; [exact A|]. split; [exact B|].
      intros m Hm. split; [reflexivity|]. apply C, Hm.
  - intros H. inversion H; subst. split; [apply frame_refl|]. split; [left; auto|]. intros m Hm. discriminate.
Qed.

Lemma lib_verdict_spec cfg s t s' v : 0 < c_ttl cfg -> lib_verdict cfg s t = (s', v) ->
  frame s s' /\ keys_step s s' /\
  (forall e, v = Some e ->
     alg_allowed (t_alg t) = true /\ key_sel cfg s' t (t_signer t) /\ t_sig_valid t = true /\
     claims_pass cfg (now s) t = true /\ t_exp t = Some e).
Proof.
  intros Httl. unfold lib_verdict. destruct (select_key cfg s t) as [s1 k] eqn:Hs.
  intros H. inversion H; subst. clear H. apply select_key_spec in Hs; [|exact Httl].
  destruct Hs as [A [B C]]. split; [exact A|]. split; [exact B|].
  intros e He. destruct k as [m|]; [|discriminate].
  destruct (Nat.eqb m (t_signer t)) eqn:Hm; [|discriminate]. destruct (t_sig_valid t); [|discriminate].
  destruct (claims_pass cfg (now s) t) eqn:Hc; [|discriminate]. cbn [andb] in He.
  apply Nat.eqb_eq in Hm. subst m. destruct (C _ eq_refl) as [Ha Hk]. auto.
Qed.

(* ---- invariant: every cached entry mirrors a token whose claim checks passed *)
Definition static_ok (cfg : config) (t : token) : bool := alg_allowed (t_alg t) && iss_ok cfg t && aud_ok cfg t.

Definition entry_ok (cfg : config) (nw : Z) (t : token) (e : entry) : Prop :=
  static_ok cfg t = true /\ t_exp t = Some (e_exp e) /\ nbf_ok nw t = true /\
  e_jti e = t_jti t /\ e_user e = user_of t /\ is_nil (user_of t) = false.

Definition Inv (cfg : config) (toks : nat -> token) (s : state) : Prop :=
  forall id e, lookup (cache s) id = Some e -> entry_ok cfg (now s) (toks id) e.

Lemma Inv_init cfg toks t0 d : Inv cfg toks (init t0 d).
Proof. intros id e H. discriminate H. Qed.

Lemma claims_pass_fields cfg nw t : claims_pass cfg nw t = true ->
  exp_ok nw t = true /\ nbf_ok nw t = true /\ aud_ok cfg t = true /\ iss_ok cfg t = true.
Proof.
  unfold claims_pass. destruct (exp_ok nw t), (nbf_ok nw t), (aud_ok cfg t), (iss_ok cfg t); cbn; intros H;
    try discriminate; auto.
Qed.

Lemma Inv_sub cfg toks s s' :
  now s' = now s -> (forall id e, lookup (cache s') id = Some e -> lookup (cache s) id = Some e) ->
  Inv cfg toks s -> Inv cfg toks s'.
Proof. intros Hn Hsub HI id e H. rewrite Hn. apply (HI id e). apply Hsub, H. Qed.

Lemma Inv_miss fixed cfg toks s c id : 0 < c_ttl cfg ->
  (forall i e, lookup c i = Some e -> lookup (cache s) i = Some e) ->
  Inv cfg toks s -> Inv cfg toks (fst (validate_miss fixed cfg s c id (toks id))).
Proof.
  intros Httl Hsub HI. unfold validate_miss.
  destruct (lib_verdict cfg s (toks id)) as [s1 v] eqn:Hv.
  apply lib_verdict_spec in Hv; [|exact Httl]. destruct Hv as [[Hn _] [_ Hsome]].
  assert (Hbase : Inv cfg toks (set_cache s1 c)).
  { apply (Inv_sub cfg toks s); [exact Hn|exact Hsub|exact HI]. }
  destruct v as [e|]; [|exact Hbase].
  destruct (fixed && is_revoked (revoked s) (t_jti (toks id))); [exact Hbase|].
  destruct (is_nil (user_of (toks id))) eqn:Hu; [exact Hbase|].
  cbn [fst]. intros id' e' H. cbn [set_cache cache now] in *. rewrite lookup_cons in H.
  destruct (Nat.eqb id id') eqn:Hid.
  - apply Nat.eqb_eq in Hid. subst id'. inversion H; subst e'. clear H.
    destruct (Hsome e eq_refl) as [Ha [_ [_ [Hc He]]]]. apply claims_pass_fields in Hc.
    destruct Hc as [_ [Hnb [Hau His]]]. unfold entry_ok, static_ok. cbn [e_user e_exp e_jti].
    rewrite Ha, His, Hau, Hn. auto 10.
  - apply lookup_evict_some in H. rewrite Hn. apply (HI id' e'). apply Hsub, H.
Qed.

Lemma Inv_validate fixed cfg toks s id : 0 < c_ttl cfg ->
  Inv cfg toks s -> Inv cfg toks (fst (validate fixed cfg s id (toks id))).
Proof.
  intros Httl HI. unfold validate.
  destruct (lookup (cache s) id) as [e|] eqn:Hl.
  - destruct (now s <? e_exp e).
    + destruct (is_revoked (revoked s) (e_jti e)); [|exact HI].
      apply (Inv_sub cfg toks s); [reflexivity| |exact HI]. intros i x. apply lookup_evict_some.
    + apply Inv_miss; [exact Httl| |exact HI]. intros i x. apply lookup_evict_some.
  - apply Inv_miss; [exact Httl|auto|exact HI].
Qed.

Lemma nbf_mono t a b : a <= b -> nbf_ok a t = true -> nbf_ok b t = true.
Proof. unfold nbf_ok. destruct (t_nbf t); [|auto]. intros. lia. Qed.

Lemma Inv_step fixed cfg toks s o : 0 < c_ttl cfg ->
  Inv cfg toks s -> Inv cfg toks (fst (step fixed cfg toks s o)).
Proof.
  intros Httl HI. destruct o as [id|j|d|id| |doc]; cbn [step].
  - pose proof (Inv_validate fixed cfg toks s id Httl HI) as H.
    destruct (validate fixed cfg s id (toks id)). exact H.
  - cbn [fst]. intros id e H. apply (HI id e H).
  - cbn [fst]. intros id e H. cbn [cache now] in *. destruct (HI id e H) as [A [B [C D]]].
    split; [exact A|]. split; [exact B|]. split; [|exact D].
    apply (nbf_mono _ (now s)); [lia|exact C].
  - cbn [fst]. apply (Inv_sub cfg toks s); [reflexivity| |exact HI]. intros i e. apply lookup_evict_some.
  - cbn [fst]. intros id e H. discriminate H.
  - cbn [fst]. intros id e H. apply (HI id e H).
Qed.

Lemma Inv_run fixed cfg toks h : 0 < c_ttl cfg ->
  forall s, Inv cfg toks s -> Inv cfg toks (run fixed cfg toks h s).
Proof.
  intros Httl. unfold run. induction h as [|o h IH]; intros s HI; [exact HI|]. cbn [fold_left].
  apply IH, Inv_step; assumption.
Qed.

(* ---- soundness of acceptance (repaired code) *)
Lemma claims_ok_intro cfg nw rv t :
  alg_allowed (t_alg t) = true -> iss_ok cfg t = true -> aud_ok cfg t = true -> exp_ok nw t = true ->
  nbf_ok nw t = true -> is_revoked rv (t_jti t) = false -> claims_ok cfg nw rv t = true.
Proof. unfold claims_ok. intros -> -> -> -> -> ->. reflexivity. Qed.

Lemma accept_sound_inv cfg toks s id : 0 < c_ttl cfg ->
  Inv cfg toks s -> accepted (validate true cfg s id (toks id)) = true ->
  claims_ok cfg (now s) (revoked s) (toks id) = true /\
  (hit s id \/ key_now cfg (fst (validate true cfg s id (toks id))) (toks id)).
Proof.
  intros Httl HI. unfold validate.
  assert (Hmiss : forall c, accepted (validate_miss true cfg s c id (toks id)) = true ->
     claims_ok cfg (now s) (revoked s) (toks id) = true /\
     key_now cfg (fst (validate_miss true cfg s c id (toks id))) (toks id)).
  { intros c. unfold validate_miss.
    destruct (lib_verdict cfg s (toks id)) as [s1 v] eqn:Hv.
    apply lib_verdict_spec in Hv; [|exact Httl]. destruct Hv as [[Hn _] [_ Hsome]].
    destruct v as [e|]; [|discriminate]. cbn [andb].
    destruct (is_revoked (revoked s) (t_jti (toks id))) eqn:Hr; [discriminate|].
    destruct (is_nil (user_of (toks id))); [discriminate|]. intros _.
    destruct (Hsome e eq_refl) as [Ha [Hk [Hsv [Hc He]]]]. apply claims_pass_fields in Hc.
    destruct Hc as [Hex [Hnb [Hau His]]].
    split; [apply claims_ok_intro; assumption|].
    unfold key_now. split; [exact Hsv|]. cbn [fst]. unfold key_sel in Hk.
    cbn [set_cache jwks now fetched_at]. exact Hk. }
  destruct (lookup (cache s) id) as [e|] eqn:Hl.
  - destruct (Z.ltb_spec (now s) (e_exp e)) as [Hlt|Hge].
    + destruct (is_revoked (revoked s) (e_jti e)) eqn:Hr; [discriminate|]. intros _.
      destruct (HI id e Hl) as [Hs [He [Hn [Hj _]]]]. unfold static_ok in Hs.
      destruct (alg_allowed (t_alg (toks id))) eqn:Ha, (iss_ok cfg (toks id)) eqn:Hi, (aud_ok cfg (toks id)) eqn:Hu;
        cbn in Hs; try discriminate.
      split.
      * apply claims_ok_intro; auto.
        -- unfold exp_ok. rewrite He. apply Z.ltb_lt. exact Hlt.
        -- rewrite <- Hj. exact Hr.
      * left. exists e. auto.
    + intros H. destruct (Hmiss _ H) as [A B]. split; [exact A|right; exact B].
  - intros H. destruct (Hmiss _ H) as [A B]. split; [exact A|right; exact B].
Qed.

Lemma claims_ok_fields cfg nw rv t :
  claims_ok cfg nw rv t = true ->
  alg_allowed (t_alg t) = true /\ iss_ok cfg t = true /\ aud_ok cfg t = true /\
  (exists e, t_exp t = Some e /\ nw < e) /\ nbf_ok nw t = true /\ is_revoked rv (t_jti t) = false.
Proof.
  unfold claims_ok. intros H.
  destruct (alg_allowed (t_alg t)), (iss_ok cfg t), (aud_ok cfg t), (exp_ok nw t) eqn:He, (nbf_ok nw t),
    (is_revoked rv (t_jti t)); cbn in H; try discriminate.
  repeat split; try reflexivity. unfold exp_ok in He. destruct (t_exp t) as [e|]; [|discriminate].
  exists e. split; [reflexivity|lia].
Qed.

Lemma accept_sound cfg toks t0 d0 h id : 0 < c_ttl cfg ->
  let s := run true cfg toks h (init t0 d0) in
  let r := validate true cfg s id (toks id) in
  accepted r = true ->
  let t := toks id in
  (alg_allowed (t_alg t) = true /\ iss_ok cfg t = true /\ aud_ok cfg t = true /\
   (exists e, t_exp t = Some e /\ now s < e) /\ nbf_ok (now s) t = true /\
   is_revoked (revoked s) (t_jti t) = false) /\
  (hit s id \/ key_now cfg (fst r) t).
Proof.
  intros Httl s r H t. destruct (accept_sound_inv cfg toks s id Httl) as [A B]; [|exact H|].
  - apply Inv_run; [exact Httl|apply Inv_init].
  - split; [apply claims_ok_fields; exact A|exact B].
Qed.

(* ---- the cached key set is always what the IdP published at the most recent successful fetch *)
Lemma run_app fixed cfg toks h1 h2 s :
  run fixed cfg toks (h1 ++ h2) s = run fixed cfg toks h2 (run fixed cfg toks h1 s).
Proof. unfold run. apply fold_left_app. Qed.

Lemma validate_miss_keys fixed cfg s c id t : 0 < c_ttl cfg ->
  let s' := fst (validate_miss fixed cfg s c id t) in
  keys_step s s' /\ published s' = published s /\ now s' = now s.
Proof.
  intros Httl. unfold validate_miss. destruct (lib_verdict cfg s t) as [s1 v] eqn:Hv.
  apply lib_verdict_spec in Hv; [|exact Httl]. destruct Hv as [[Hn [_ [_ Hp]]] [Hk _]].
  assert (H : forall c', keys_step s (set_cache s1 c') /\ published (set_cache s1 c') = published s /\
                         now (set_cache s1 c') = now s).
  { intros c'. cbn [set_cache published now]. split; [|auto]. destruct Hk as [[A B]|[A B]]; [left|right]; cbn; auto. }
  destruct v as [e|]; [|apply H].
  destruct (fixed && is_revoked (revoked s) (t_jti t)); [apply H|].
  destruct (is_nil (user_of t)); apply H.
Qed.

Lemma step_keys fixed cfg toks s o : 0 < c_ttl cfg ->
  let s' := fst (step fixed cfg toks s o) in
  (jwks s' = jwks s /\ fetched_at s' = fetched_at s) \/
  (jwks s' = usable (published s') /\ fetched_at s' = now s').
Proof.
  intros Httl. destruct o as [id|j|d|id| |doc]; cbn [step]; try (left; cbn; auto; fail).
  unfold validate.
  assert (Hm : forall c, let s' := fst (validate_miss fixed cfg s c id (toks id)) in
     (jwks s' = jwks s /\ fetched_at s' = fetched_at s) \/
     (jwks s' = usable (published s') /\ fetched_at s' = now s')).
  { intros c. destruct (validate_miss_keys fixed cfg s c id (toks id) Httl) as [[H|[A B]] [Hp Hn]]; [left; exact H|].
    right. cbv zeta. rewrite Hp, Hn. auto. }
  destruct (lookup (cache s) id) as [e|].
  - destruct (now s <? e_exp e).
    + destruct (is_revoked (revoked s) (e_jti e)); cbn; left; auto.
    + specialize (Hm (evict (cache s) id)). destruct (validate_miss fixed cfg s (evict (cache s) id) id (toks id)). exact Hm.
  - specialize (Hm (cache s)). destruct (validate_miss fixed cfg s (cache s) id (toks id)). exact Hm.
Qed.

Lemma keys_from_last_fetch fixed cfg toks t0 d0 h : 0 < c_ttl cfg ->
  let s := run fixed cfg toks h (init t0 d0) in
  jwks s = [] \/
  exists h1 h2, h = h1 ++ h2 /\
    jwks s = usable (published (run fixed cfg toks h1 (init t0 d0))) /\
    fetched_at s = now (run fixed cfg toks h1 (init t0 d0)).
Proof.
  intros Httl. induction h as [|o h IH] using rev_ind.
  - left. reflexivity.
  - cbv zeta. rewrite run_app.
    set (s := run fixed cfg toks h (init t0 d0)) in *.
    assert (Hone : run fixed cfg toks [o] s = fst (step fixed cfg toks s o)) by reflexivity.
    rewrite Hone.
    destruct (step_keys fixed cfg toks s o Httl) as [[A B]|[A B]].
    + cbv zeta in IH. destruct IH as [IH|[h1 [h2 [E [J F]]]]].
      * left. rewrite A. exact IH.
      * right. exists h1, (h2 ++ [o]). split; [rewrite E, app_assoc; reflexivity|].
        rewrite A, B. auto.
    + right. exists (h ++ [o]), []. split; [rewrite app_nil_r; reflexivity|].
      rewrite run_app. fold s. rewrite Hone. auto.
Qed.

(* ---- revocation is effective for every later request, whatever the caches hold *)
Lemma revoked_step fixed cfg toks s o j : In j (revoked s) -> In j (revoked (fst (step fixed cfg toks s o))).
Proof.
  intros H. destruct o as [id|k|d|id| |doc]; cbn [step]; try (cbn [fst revoked set_cache]; auto; right; exact H).
  unfold validate.
  assert (Hm : forall c, In j (revoked (fst (validate_miss fixed cfg s c id (toks id))))).
  { intros c. unfold validate_miss. destruct (lib_verdict cfg s (toks id)) as [s1 v] eqn:Hv.
    assert (Hr : revoked s1 = revoked s).
    { unfold lib_verdict in Hv. destruct (select_key cfg s (toks id)) as [s2 k] eqn:Hs. inversion Hv; subst.
      unfold select_key in Hs. destruct (negb (alg_allowed (t_alg (toks id)))); [inversion Hs; reflexivity|].
      destruct (is_nil (t_kid (toks id))).
      - unfold first_key in Hs. destruct (jwks s) as [|[k0 m0] r0]; [|inversion Hs; reflexivity].
        unfold refresh in Hs. destruct (usable (published s)); inversion Hs; reflexivity.
      - unfold key_by_id, refresh_find, refresh in Hs.
        destruct (is_fresh cfg s).
        + destruct (find_kid (jwks s) (t_kid (toks id))); [inversion Hs; reflexivity|].
          destruct (limited s); [inversion Hs; reflexivity|].
          cbn [published set_miss] in Hs. destruct (usable (published s)); inversion Hs; reflexivity.
        + destruct (usable (published s)); inversion Hs; reflexivity. }
    destruct v as [e|]; [|cbn; rewrite Hr; exact H].
    destruct (fixed && is_revoked (revoked s) (t_jti (toks id))); [cbn; rewrite Hr; exact H|].
    destruct (is_nil (user_of (toks id))); cbn; rewrite Hr; exact H. }
  destruct (lookup (cache s) id) as [e|].
  - destruct (now s <? e_exp e).
    + destruct (is_revoked (revoked s) (e_jti e)); cbn [fst revoked set_cache]; exact H.
    + specialize (Hm (evict (cache s) id)). destruct (validate_miss fixed cfg s (evict (cache s) id) id (toks id)). exact Hm.
  - specialize (Hm (cache s)). destruct (validate_miss fixed cfg s (cache s) id (toks id)). exact Hm.
Qed.

Lemma revoked_run fixed cfg toks h : forall s j, In j (revoked s) -> In j (revoked (run fixed cfg toks h s)).
Proof.
  unfold run. induction h as [|o h IH]; intros s j H; [exact H|]. cbn [fold_left]. apply IH, revoked_step, H.
Qed.

Lemma revoke_in_run fixed cfg toks j h : forall s, In (Revoke j) h -> In j (revoked (run fixed cfg toks h s)).
Proof.
  induction h as [|o h IH]; intros s H; [destruct H|]. destruct H as [H|H].
  - subst o. unfold run. cbn [fold_left step fst]. apply (revoked_run fixed cfg toks h). left. reflexivity.
  - unfold run. cbn [fold_left]. apply IH, H.
Qed.

Lemma is_revoked_in rv j : j <> [] -> In j rv -> is_revoked rv j = true.
Proof.
  intros Hne Hin. unfold is_revoked. destruct j as [|c j]; [congruence|]. cbn [is_nil negb andb].
  apply existsb_exists. exists (c :: j). split; [exact Hin|]. apply str_eqb_eq. reflexivity.
Qed.

Lemma revocation_effective cfg toks s0 h1 h2 j id : 0 < c_ttl cfg ->
  Inv cfg toks s0 -> j <> [] -> t_jti (toks id) = j -> In (Revoke j) h1 ->
  accepted (validate true cfg (run true cfg toks (h1 ++ h2) s0) id (toks id)) = false.
Proof.
  intros Httl HI Hne Hj Hin.
  destruct (accepted (validate true cfg (run true cfg toks (h1 ++ h2) s0) id (toks id))) eqn:Ha; [|reflexivity].
  exfalso. apply accept_sound_inv in Ha; [|exact Httl|apply Inv_run; assumption].
  destruct Ha as [Ha _]. apply claims_ok_fields in Ha. destruct Ha as [_ [_ [_ [_ [_ Hr]]]]].
  rewrite Hj in Hr. rewrite is_revoked_in in Hr; [discriminate|exact Hne|].
  rewrite run_app. apply revoked_run. apply revoke_in_run. exact Hin.
Qed.

(* ---- completeness: claims fine, not revoked, a user, and either a live cache entry or a key selection
        that yields the signing material: accepted as that user *)
Lemma accept_complete fixed cfg toks s id :
  Inv cfg toks s -> claims_ok cfg (now s) (revoked s) (toks id) = true -> is_nil (user_of (toks id)) = false ->
  (hit s id \/ (snd (select_key cfg s (toks id)) = Some (t_signer (toks id)) /\ t_sig_valid (toks id) = true)) ->
  snd (validate fixed cfg s id (toks id)) = Accept (user_of (toks id)).
Proof.
  intros HI Hg Hu Hk.
  destruct (claims_ok_fields _ _ _ _ Hg) as [Ha [Hi [Hau [[e0 [He0 Hlt0]] [Hnb Hr]]]]].
  assert (Hmiss : forall c, snd (select_key cfg s (toks id)) = Some (t_signer (toks id)) ->
                            t_sig_valid (toks id) = true ->
                            snd (validate_miss fixed cfg s c id (toks id)) = Accept (user_of (toks id))).
  { intros c Hsel Hsv. unfold validate_miss, lib_verdict.
    destruct (select_key cfg s (toks id)) as [s1 k]. cbn [snd] in Hsel. subst k.
    rewrite Nat.eqb_refl, Hsv. unfold claims_pass, exp_ok. rewrite He0, Hnb, Hau, Hi.
    destruct (Z.ltb_spec (now s) e0); [|lia]. cbn [andb]. rewrite Hr, andb_false_r, Hu. reflexivity. }
  unfold validate. destruct (lookup (cache s) id) as [e|] eqn:Hl.
  - destruct (HI id e Hl) as [_ [He [_ [Hj [Hus _]]]]].
    assert (e_exp e = e0) by congruence. subst e0.
    destruct (Z.ltb_spec (now s) (e_exp e)); [|lia].
    rewrite Hj, Hr. cbn [snd]. rewrite Hus. reflexivity.
  - destruct Hk as [[e [Hl' _]]|[Hsel Hsv]]; [congruence|]. apply Hmiss; assumption.
Qed.

Lemma accept_complete_run fixed cfg toks t0 d0 h id : 0 < c_ttl cfg ->
  let s := run fixed cfg toks h (init t0 d0) in
  claims_ok cfg (now s) (revoked s) (toks id) = true -> is_nil (user_of (toks id)) = false ->
  (hit s id \/ (snd (select_key cfg s (toks id)) = Some (t_signer (toks id)) /\ t_sig_valid (toks id) = true)) ->
  snd (validate fixed cfg s id (toks id)) = Accept (user_of (toks id)).
Proof. intros Httl. apply accept_complete. apply Inv_run; [exact Httl|apply Inv_init]. Qed.

(* ---- the code before the repair: a revoked token that was never presented before is accepted *)
Definition demo_tok : token :=
  mkT RS256 [107]%N 1 true [105]%N [[97]%N] (Some 1000) None [106]%N [117]%N [].
Definition demo_cfg : config := mkC [105]%N [97]%N 3600.
Definition demo_doc : list jwk := [mkK [120]%N 9 false; mkK [107]%N 1 true].
Definition demo_doc2 : list jwk := [mkK [107]%N 2 true].     (* kid reused for other material: key 1 withdrawn *)

Lemma refuted_current :
  exists cfg toks d0 h id, 0 < c_ttl cfg /\
    In (Revoke (t_jti (toks id))) h /\ t_jti (toks id) <> [] /\
    accepted (validate false cfg (run false cfg toks h (init 0 d0)) id (toks id)) = true.
Proof.
  exists demo_cfg, (fun _ => demo_tok), demo_doc, [Revoke [106]%N], 0%nat.
  split; [reflexivity|]. split; [left; reflexivity|]. split; [discriminate|]. vm_compute. reflexivity.
Qed.
