(* SqlFmt/Proofs2.v — round trip for the second expression type (fused token lists). *)
From Common Require Import Base.
From Coq Require Import Ascii String.
From SqlFmt Require Import PrecClimb PrecClimbProofs Model Proofs Model2.
Open Scope N_scope.

Lemma tbl2_ok : wf_table str_eqb tbl2 = true.
Proof. vm_compute. reflexivity. Qed.

Fixpoint gsize (g : sexpr) : nat :=
  match g with
  | EAtom _ => 1
  | EUn _ x => S (gsize x)
  | EBin _ x y => S (gsize x + gsize y)
  | EParen x => S (gsize x)
  end.

Lemma like_of_enc s op neg : like_of s = Some (op, neg) -> (if neg then S_NOT_ op else op) = s.
Proof.
  unfold like_of. destruct (existsb (str_eqb s) like_ops) eqn:E.
  - intros H. inversion H; subst. reflexivity.
  - destruct (find (fun op0 => str_eqb s (S_NOT_ op0)) like_ops) as [w|] eqn:F; [|discriminate].
    intros H. inversion H; subst. apply find_some in F as [_ F]. apply str_eqb_eq in F. symmetry. exact F.
Qed.

Lemma dec_enc_size : forall n g e, (gsize g < n)%nat -> dec g = Some e -> enc e = g.
Proof.
  induction n as [|n IH]; intros g e Hn Hd; [lia|].
  destruct g as [a|s x|s x y|x]; cbn [dec gsize] in *.
  - inversion Hd; subst. reflexivity.
  - destruct (dec x) as [a|] eqn:Ex; [|discriminate]. cbn in Hd. inversion Hd; subst. cbn [enc].
    rewrite (IH x a); [reflexivity|lia|exact Ex].
  - destruct (str_eqb s S_BAND) eqn:E1; [discriminate|].
    destruct (str_eqb s S_BETWEEN || str_eqb s S_NOTBETWEEN) eqn:E2.
    { destruct y as [?|? ?|b lo hi|?]; try discriminate.
      destruct (str_eqb b S_BAND) eqn:Eb; [|discriminate]. apply str_eqb_eq in Eb. subst b.
      cbn [gsize] in Hn.
      destruct (dec x) as [a|] eqn:Ex; [|discriminate].
      destruct (dec lo) as [l|] eqn:El; [|discriminate].
      destruct (dec hi) as [h|] eqn:Eh; [|discriminate].
      cbn in Hd. inversion Hd; subst. cbn [enc].
      rewrite (IH x a), (IH lo l), (IH hi h); try lia; try assumption.
      destruct (str_eqb s S_NOTBETWEEN) eqn:E3.
      - apply str_eqb_eq in E3. subst s. reflexivity.
      - rewrite orb_false_r in E2. apply str_eqb_eq in E2. subst s. reflexivity. }
    destruct ((str_eqb s S_IS || str_eqb s S_ISNOT) && is_null_atom y) eqn:E3.
    { apply andb_true_iff in E3 as [E3 En]. destruct y as [[| | | |]|? ?|? ? ?|?]; try discriminate En.
      destruct (dec x) as [a|] eqn:Ex; [|discriminate]. cbn in Hd. inversion Hd; subst. cbn [enc].
      rewrite (IH x a); [|lia|exact Ex].
      destruct (str_eqb s S_ISNOT) eqn:E4.
      - apply str_eqb_eq in E4. subst s. reflexivity.
      - rewrite orb_false_r in E3. apply str_eqb_eq in E3. subst s. reflexivity. }
    destruct (str_eqb s S_IN || str_eqb s S_NOTIN) eqn:E4.
    { destruct y as [?|? ?|? ? ?|items]; try discriminate. cbn [gsize] in Hn.
      destruct (dec x) as [a|] eqn:Ex; [|discriminate].
      destruct (dec items) as [i|] eqn:Ei; [|discriminate].
      cbn in Hd. inversion Hd; subst. cbn [enc].
      rewrite (IH x a), (IH items i); try lia; try assumption.
      destruct (str_eqb s S_NOTIN) eqn:E5.
      - apply str_eqb_eq in E5. subst s. reflexivity.
      - rewrite orb_false_r in E4. apply str_eqb_eq in E4. subst s. reflexivity. }
    destruct (str_eqb s S_CALL) eqn:E5.
    { apply str_eqb_eq in E5. subst s.
      destruct x as [[?|?|f| |?]|? ?|? ? ?|?]; try discriminate.
      destruct y as [?|? ?|? ? ?|args]; try discriminate. cbn [gsize] in Hn.
      destruct (dec args) as [a|] eqn:Ea; [|discriminate]. cbn in Hd. inversion Hd; subst. cbn [enc].
      rewrite (IH args a); [reflexivity|lia|exact Ea]. }
    destruct (like_of s) as [[op neg]|] eqn:E6.
    { destruct (dec x) as [a|] eqn:Ex; [|discriminate].
      destruct (dec y) as [p|] eqn:Ey; [|discriminate].
      cbn in Hd. inversion Hd; subst. cbn [enc].
      rewrite (IH x a), (IH y p); try lia; try assumption.
      rewrite (like_of_enc s op neg E6). reflexivity. }
    destruct (dec x) as [a|] eqn:Ex; [|discriminate].
    destruct (dec y) as [b|] eqn:Ey; [|discriminate].
    cbn in Hd. inversion Hd; subst. cbn [enc].
    rewrite (IH x a), (IH y b); try lia; try assumption. reflexivity.
  - destruct (dec x) as [a|] eqn:Ex; [|discriminate]. cbn in Hd. inversion Hd; subst. cbn [enc].
    rewrite (IH x a); [reflexivity|lia|exact Ex].
Qed.

Lemma dec_enc g e : dec g = Some e -> enc e = g.
Proof. apply (dec_enc_size (S (gsize g))). lia. Qed.

(* whatever the extended parser returns is read back from the printed (fused) token list *)
Theorem reparse2 kws ts e : covers kws = true -> parse2f ts = Some e -> parse2f (print2f kws e) = Some e.
Proof.
  unfold parse2f, print2f. intros Hc Hp.
  destruct (sparse tbl2 ts) as [g|] eqn:Eg; [|discriminate].
  rewrite (dec_enc g e Hp).
  rewrite (sql_reparse kws tbl2 ts g Hc tbl2_ok Eg). exact Hp.
Qed.

(* every canonical tree that is nested as the extended tiers allow is read back from its print *)
Theorem roundtrip2 kws e :
  WF tbl2 (atom_ok kws) tbl2 (enc e) -> dec (enc e) = Some e -> parse2f (print2f kws e) = Some e.
Proof.
  unfold parse2f, print2f. intros Hw Hd. rewrite (sql_parse_print kws tbl2 (enc e) tbl2_ok Hw). exact Hd.
Qed.
