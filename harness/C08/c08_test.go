//go:build verif

package services

// Overlaid into /repo/internal/server/services by /verif/check C08; built with -race.
//
// VERIF_IN : JSON [{"id","src","seed","every"}]      VERIF_OUT: JSON [{"id","class","out"}]
// Every program is compiled and run the way `ego run file` does it, in this process, with the
// GOMAXPROCS given in the environment and the dispatch-loop yield hook seeded per program. Standard
// output of the program is captured through file descriptor 1. Before each program a marker line
// "=== VERIF PROG <id>" is written to stderr so that race-detector reports can be attributed.

import (
	"encoding/json"
	"fmt"
	"os"
	"sync"
	"syscall"
	"testing"
	"time"

	"github.com/tucats/ego/internal/builtins"
	"github.com/tucats/ego/internal/defs"
	"github.com/tucats/ego/internal/errors"
	"github.com/tucats/ego/internal/language/bytecode"
	"github.com/tucats/ego/internal/language/compiler"
	"github.com/tucats/ego/internal/language/symbols"
	"github.com/tucats/ego/internal/language/tokenizer"
)

type verifC08Case struct {
	ID    int    `json:"id"`
	Src   string `json:"src"`
	Seed  uint64 `json:"seed"`
	Every uint64 `json:"every"`
}

type verifC08Result struct {
	ID    int    `json:"id"`
	Class string `json:"class"`
	Out   string `json:"out"`
	Err   string `json:"err"`
}

func verifC08Run(src string) (class string, errText string) {
	defer func() {
		if r := recover(); r != nil {
			class, errText = "gopanic", fmt.Sprint(r)
		}
	}()

	symbolTable := symbols.NewSymbolTable("file verif.ego").Shared(true)
	symbolTable.SetAlways(defs.ModeVariable, "run")
	symbolTable.SetAlways(defs.TypeCheckingVariable, defs.NoTypeEnforcement)
	builtins.AddBuiltins(symbolTable.Root())

	comp := compiler.New("run").SetRoot(&symbols.RootSymbolTable).SetExtensionsEnabled(true)
	_ = comp.AutoImport(true, symbolTable)
	comp.Fragment(true)

	tk := tokenizer.New(src+"\n@entrypoint main", true)

	bc, err := comp.Compile("main 'verif.ego'", tk)
	if err != nil {
		return "compile", err.Error()
	}

	tk.Close()

	ctx := bytecode.NewContext(symbolTable, bc)
	err = ctx.Run()
	_, _ = comp.Close()

	if err != nil && !errors.Equals(err, errors.ErrStop) {
		return "error", err.Error()
	}

	return "ok", ""
}

func TestVerifC08(t *testing.T) {
	raw, err := os.ReadFile(os.Getenv("VERIF_IN"))
	if err != nil {
		t.Fatal(err)
	}

	var cases []verifC08Case
	if err := json.Unmarshal(raw, &cases); err != nil {
		t.Fatal(err)
	}

	results := make([]verifC08Result, 0, len(cases))
	capPath := os.Getenv("VERIF_OUT") + ".cap"

	for _, cs := range cases {
		fmt.Fprintf(os.Stderr, "=== VERIF PROG %d\n", cs.ID)
		bytecode.VerifSetYield(cs.Seed, cs.Every)

		capFile, cerr := os.Create(capPath)
		if cerr != nil {
			t.Fatal(cerr)
		}

		saved, _ := syscall.Dup(1)
		_ = syscall.Dup2(int(capFile.Fd()), 1)

		r := verifC08Result{ID: cs.ID}

		// a program that deadlocks must not hang the check
		var wg sync.WaitGroup

		done := make(chan struct{})

		wg.Add(1)

		go func() {
			defer wg.Done()

			r.Class, r.Err = verifC08Run(cs.Src)

			close(done)
		}()

		select {
		case <-done:
			wg.Wait()
		case <-time.After(60 * time.Second):
			r.Class = "timeout"
		}

		_ = syscall.Dup2(saved, 1)
		_ = syscall.Close(saved)
		capFile.Close()

		captured, _ := os.ReadFile(capPath)
		r.Out = string(captured)
		results = append(results, r)

		if r.Class == "timeout" {
			break
		}
	}

	fmt.Fprintf(os.Stderr, "=== VERIF END\n")

	out, _ := json.Marshal(results)
	if err := os.WriteFile(os.Getenv("VERIF_OUT"), out, 0o644); err != nil {
		t.Fatal(err)
	}
}
