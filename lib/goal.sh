#!/bin/sh
# usage: goal.sh <group> <file.v> <line>   — print the proof state after <line> (development aid only)
G=$1; F=$2; L=$3
D=/verif/coq/$G
T=$(mktemp -d)
head -n "$L" "$D/$F" > "$T/g.v"
echo "Show." >> "$T/g.v"
(cd "$T" && coqc -Q /verif/coq/Common Common -Q "$D" "$G" g.v 2>&1 | head -${4:-60})
rm -rf "$T"
