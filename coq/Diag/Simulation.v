(* Diag/Simulation.v — the debug flag commutes with every instruction except the line marker; whole-run
   equality of the debugger-with-continue loop and the plain run. *)
From Coq Require Import ZArith NArith List Bool Lia.
Import ListNotations.
From VM Require Import Model.
From Diag Require Import Model.
Open Scope nat_scope.

Definition sd (b : bool) (c : ctx) : ctx := set_debug c b.
Definition mapR (b : bool) (r : R) : R := let '(g, c, e) := r in (g, sd b c, e).
Definition mapC (b : bool) (r : ctx * option err) : ctx * option err := let '(c, e) := r in (sd b c, e).

Lemma frame_pop_sd : forall b c, frame_pop (sd b c) = mapC b (frame_pop c).
Proof.
  intros b c. unfold frame_pop.
  change (c_fp (sd b c)) with (c_fp c). change (c_stack (sd b c)) with (c_stack c).
  change (c_result (sd b c)) with (c_result c). change (c_trys (sd b c)) with (c_trys c).
  destruct (trunc (c_fp c) (c_stack c)) as [|[v|l|fr] rest]; try reflexivity.
  destruct (firstn (length (c_stack c) - c_fp c) (c_stack c)); [|reflexivity].
  destruct (c_result c); reflexivity.
Qed.

Lemma unwind_to_try_sd : forall b fuel c, unwind_to_try fuel (sd b c) = mapC b (unwind_to_try fuel c).
Proof.
  intros b fuel. induction fuel as [|f IH]; intros c; [reflexivity|].
  cbn [unwind_to_try]. change (c_stack (sd b c)) with (c_stack c).
  destruct (c_stack c) as [|[v|l|fr] r] eqn:E; try reflexivity.
  - apply (IH (set_stack c r)).
  - destruct (N.eqb l L_try); [reflexivity|]. apply (IH (set_stack c r)).
  - change (set_stack (sd b c) (ItF fr :: r)) with (sd b (set_stack c (ItF fr :: r))).
    rewrite frame_pop_sd. destruct (frame_pop (set_stack c (ItF fr :: r))) as [c' [e|]]; cbn [mapC]; [reflexivity|].
    apply IH.
Qed.

Lemma handle_catch_sd : forall b c e, handle_catch (sd b c) e = mapC b (handle_catch c e).
Proof.
  intros b c e. unfold handle_catch, handle_catch_gen.
  destruct e as [e|]; [|reflexivity].
  destruct e; try reflexivity; cbn [andb];
  change (c_running (sd b c)) with (c_running c); change (c_trys (sd b c)) with (c_trys c);
  change (c_stack (sd b c)) with (c_stack c);
  (destruct (negb (c_running c)); [reflexivity|]);
  (destruct (find_live (c_trys c)); [|reflexivity]);
  rewrite unwind_to_try_sd; destruct (unwind_to_try _ c) as [c' [e'|]]; reflexivity.
Qed.

Section Child.
  Variable child : glob -> ctx -> glob * option err.

  Lemma invoke_list_sd : forall b pk ds g c,
    invoke_list child pk g (sd b c) ds = mapR b (invoke_list child pk g c ds).
  Proof.
    intros b pk ds. induction ds as [|d r IH]; intros g c; [reflexivity|].
    cbn [invoke_list].
    change (child_ctx (sd b c) d) with (child_ctx c d). change (c_panic (sd b c)) with (c_panic c).
    destruct (child _ (child_ctx c d)) as [g1 e].
    destruct pk.
    - change (set_panic (sd b c) (hd None (g_anc g1))) with (sd b (set_panic c (hd None (g_anc g1)))).
      rewrite IH. destruct (invoke_list child true _ _ r) as [[g3 c3] e3]. reflexivity.
    - rewrite IH. destruct (invoke_list child false _ c r) as [[g3 c3] e3]. reflexivity.
  Qed.

  Lemma run_defers_op_sd : forall b g c, run_defers_op child g (sd b c) = mapR b (run_defers_op child g c).
  Proof.
    intros b g c. unfold run_defers_op, invoke_deferred. change (c_defers (sd b c)) with (c_defers c).
    destruct (c_defers c) as [|d r]; [reflexivity|].
    rewrite invoke_list_sd. destruct (invoke_list child false g c _) as [[g1 c1] e]. reflexivity.
  Qed.

  Lemma do_return_sd : forall b g c k, do_return g (sd b c) k = mapR b (do_return g c k).
  Proof.
    intros b g c k. unfold do_return, pop.
    change (c_stack (sd b c)) with (c_stack c). change (c_fp (sd b c)) with (c_fp c).
    destruct k as [| |[|[|n]]].
    - (* RNone *)
      cbn [set_result set_stack c_fp c_stack sd set_debug].
      destruct (Nat.ltb 0 (c_fp c)); [|reflexivity].
      match goal with |- context [frame_pop ?x] =>
        change x with (sd b (set_stack (set_result (set_stack c (trunc (c_fp c - 1) (c_stack c))) None) (trunc (c_fp c) (c_stack c)))) end.
      rewrite frame_pop_sd. destruct (frame_pop _) as [c2 e]. reflexivity.
    - (* RBool *)
      destruct (c_stack c) as [|[v|l|fr] r]; try reflexivity.
      cbn [set_result set_stack c_fp c_stack sd set_debug].
      destruct (Nat.ltb 0 (c_fp c)); [|reflexivity].
      match goal with |- context [frame_pop ?x] => change x with (sd b (set_result (set_stack c r) (Some v))) end.
      rewrite frame_pop_sd. destruct (frame_pop _) as [c2 e]. reflexivity.
    - (* RInt 0 *)
      cbn [set_result set_stack c_fp c_stack sd set_debug].
      destruct (Nat.ltb 0 (c_fp c)); [|reflexivity].
      match goal with |- context [frame_pop ?x] =>
        change x with (sd b (set_stack (set_result (set_stack c (trunc (c_fp c - 1) (c_stack c))) None) (trunc (c_fp c) (c_stack c)))) end.
      rewrite frame_pop_sd. destruct (frame_pop _) as [c2 e]. reflexivity.
    - (* RInt 1 *)
      destruct (c_stack c) as [|x r]; [reflexivity|].
      cbn [set_result set_stack c_fp c_stack sd set_debug].
      destruct (Nat.ltb 0 (c_fp c)); [|reflexivity].
      match goal with |- context [frame_pop ?x0] =>
        change x0 with (sd b (set_stack (set_result (set_stack c r) (match x with ItV v => Some v | _ => Some VNil end)) (ret1_stack (c_fp c) r))) end.
      rewrite frame_pop_sd. destruct (frame_pop _) as [c2 e]. reflexivity.
    - (* RInt >= 2 *)
      cbn [set_result set_stack c_fp c_stack sd set_debug].
      destruct (Nat.ltb 0 (c_fp c)); [|reflexivity].
      match goal with |- context [frame_pop ?x] => change x with (sd b (set_result c None)) end.
      rewrite frame_pop_sd. destruct (frame_pop _) as [c2 e]. reflexivity.
  Qed.
End Child.

Section Child2.
  Variable child : glob -> ctx -> glob * option err.

  Lemma unwind_panic_sd : forall b p fuel g c,
    unwind_panic child p fuel g (sd b c) = mapR b (unwind_panic child p fuel g c).
  Proof.
    intros b p fuel. induction fuel as [|f IH]; intros g c; [reflexivity|].
    cbn [unwind_panic]. change (c_defers (sd b c)) with (c_defers c).
    set (M := match c_defers c with [] => (g, c, None) | _ :: _ => invoke_panic_defers child g c end).
    assert (H1 : (match c_defers c with [] => (g, sd b c, None) | _ :: _ => invoke_panic_defers child g (sd b c) end)
                 = mapR b M).
    { unfold M. destruct (c_defers c); [reflexivity|]. unfold invoke_panic_defers. change (c_defers (sd b c)) with (c_defers c).
      apply invoke_list_sd. }
    rewrite H1. clear H1.
    destruct M as [[g1 c1] e].
    cbn [mapR]. destruct e as [e|]; [reflexivity|].
    change (c_panic (sd b c1)) with (c_panic c1).
    destruct (c_panic c1) as [pv|].
    - change (c_fp (sd b c1)) with (c_fp c1). destruct (Nat.eqb (c_fp c1) 0); [reflexivity|].
      change (set_stack (sd b c1) (trunc (c_fp c1) (c_stack (sd b c1)))) with (sd b (set_stack c1 (trunc (c_fp c1) (c_stack c1)))).
      rewrite frame_pop_sd. destruct (frame_pop _) as [c3 [e3|]]; cbn [mapC]; [reflexivity|]. apply IH.
    - cbn [set_defers set_stack sd set_debug c_code c_stack c_fp].
      destruct (Nat.eqb (c_fp c1) 0); [reflexivity|].
      match goal with |- context [Nat.eqb ?n 1] => destruct (Nat.eqb n 1) end.
      + match goal with |- context [frame_pop ?x] =>
          change x with (sd b (set_result (set_stack (set_defers c1 []) (trunc (c_fp c1) (c_stack c1))) (Some VNil))) end.
        rewrite frame_pop_sd. destruct (frame_pop _) as [c5 e5]. reflexivity.
      + match goal with |- context [frame_pop ?x] =>
          change x with (sd b (set_stack (set_defers c1 []) (trunc (c_fp c1) (c_stack c1)))) end.
        rewrite frame_pop_sd. destruct (frame_pop _) as [c5 e5]. reflexivity.
  Qed.

  Lemma do_call_sd : forall b p g c argc, do_call p g (sd b c) argc = mapR b (do_call p g c argc).
  Proof.
    intros b p g c argc. unfold do_call. change (c_stack (sd b c)) with (c_stack c).
    destruct (pop_values argc (c_stack c)) as [[vs st]|]; [|reflexivity].
    destruct st as [|[[z|bb| |sv|u cap]|l|fr] r]; try reflexivity.
  Qed.

  Ltac norm :=
    unfold pop, push, sd;
    cbn [c_code c_pc c_stack c_fp c_syms c_trys c_defers c_running c_panic c_result c_dsyms c_debug
         set_pc set_stack set_syms set_trys set_defers set_running set_panic set_result set_dsyms set_debug].
  Ltac dm x :=
    match x with
    | context [match ?y with _ => _ end] => dm y
    | _ => destruct x
    end.
  Ltac crunch :=
    norm;
    repeat (match goal with |- _ = mapR _ (match ?x with _ => _ end) => dm x end; norm);
    try reflexivity.

  Lemma exec_sd : forall b p g c i, is_atline i = false ->
    exec child p g (sd b c) i = mapR b (exec child p g c i).
  Proof.
    intros b p g c i Hi. destruct i; try discriminate Hi; cbn [exec].
    all: try apply run_defers_op_sd.
    all: try apply do_return_sd.
    all: try apply do_call_sd.
    all: try (crunch; fail).
    all: try (unfold pop; change (c_stack (sd b c)) with (c_stack c);
              destruct (c_stack c) as [|[[z|bb| |sv|u cap]|l|fr] r]; try reflexivity;
              change (c_syms (set_stack (sd b c) r)) with (c_syms (set_stack c r));
              destruct (sym_get g (c_syms (set_stack c r)) sv) as [v|]; [|reflexivity];
              change (push (set_stack (sd b c) r) (ItV v)) with (sd b (push (set_stack c r) (ItV v)));
              apply do_call_sd).
    all: crunch.
    all: match goal with b0 : bool |- context [if ?x then _ else _] => destruct x end; reflexivity.
  Qed.

  Lemma step_sd : forall b p g c i, is_atline i = false ->
    step child p g (sd b c) i = (let '(r, fl) := step child p g c i in (mapR b r, fl)).
  Proof.
    intros b p g c i Hi. unfold step.
    change (set_pc (sd b c) (S (c_pc (sd b c)))) with (sd b (set_pc c (S (c_pc c)))).
    rewrite exec_sd by exact Hi.
    destruct (exec child p g (set_pc c (S (c_pc c))) i) as [[g1 c1] e]. cbn [mapR].
    rewrite handle_catch_sd. destruct (handle_catch c1 e) as [c2 e2]. cbn [mapC].
    destruct e2 as [e2|]; [|reflexivity].
    destruct e2; try reflexivity.
    change (c_stack (sd b c2)) with (c_stack c2). rewrite unwind_panic_sd.
    destruct (unwind_panic child p _ g1 c2) as [[g3 c3] [e3|]]; reflexivity.
  Qed.
End Child2.

Lemma sd_sd : forall a b c, sd a (sd b c) = sd a c.
Proof. reflexivity. Qed.

Lemma set_running_true_id : forall c, c_running c = true -> set_running c true = c.
Proof. intros c H. destruct c; cbn in *; subst; reflexivity. Qed.

(* Whole-run equality: the debugger-with-continue loop over a context with the debugging flag ON ends with the
   same shared state, the same context (up to the flag) and the same outcome as the plain run of the same
   context with the flag OFF, for every program, state and fuel. *)
Theorem debug_continue_whole_run : forall fuel p g c,
  run_debug_continue fuel p g (sd true c) =
  (let '(g', c', o) := run fuel p g (sd false c) in (g', sd true c', o)).
Proof.
  induction fuel as [|f IH]; intros p g c; [reflexivity|].
  cbn [run_debug_continue run].
  change (c_running (sd true c)) with (c_running c). change (c_running (sd false c)) with (c_running c).
  destruct (c_running c) eqn:Hrun; cbn [negb]; [|reflexivity].
  change (c_code (sd true c)) with (c_code c). change (c_code (sd false c)) with (c_code c).
  change (c_pc (sd true c)) with (c_pc c). change (c_pc (sd false c)) with (c_pc c).
  destruct (nth_error (code_of p (c_code c)) (c_pc c)) as [i|]; [|reflexivity].
  set (child := fun g' c' => match run f p g' c' with
                             | (g'', _, Finished e) => (g'', e)
                             | (g'', _, OutOfFuel) => (g'', Some EOther) end).
  destruct (is_atline i) eqn:Hat.
  - (* a line marker *)
    destruct i; try discriminate Hat. unfold step. cbn [exec].
    change (c_debug (set_pc (sd true c) (S (c_pc (sd true c))))) with true.
    change (c_debug (set_pc (sd false c) (S (c_pc (sd false c))))) with false.
    cbn [andb]. destruct (Z.eqb n 0); cbn [negb].
    + (* line 0: no signal in either mode *)
      cbn [handle_catch handle_catch_gen].
      change (set_pc (sd true c) (S (c_pc (sd true c)))) with (sd true (set_pc c (S (c_pc c)))).
      change (set_pc (sd false c) (S (c_pc (sd false c)))) with (sd false (set_pc c (S (c_pc c)))).
      apply IH.
    + (* the debugger stops, `continue` resumes *)
      cbn [handle_catch handle_catch_gen andb is_atline].
      change (set_pc (sd false c) (S (c_pc (sd false c)))) with (sd false (set_pc c (S (c_pc c)))).
      rewrite <- (IH p g (set_pc c (S (c_pc c)))). f_equal.
      unfold sd, set_debug, set_pc, set_running; cbn. rewrite Hrun. reflexivity.
  - (* every other instruction commutes with the flag *)
    rewrite (step_sd child true p g c i Hat). rewrite (step_sd child false p g c i Hat).
    destruct (step child p g c i) as [[[g1 c1] e] fl]. cbn [mapR].
    destruct fl.
    + destruct e as [[]|]; reflexivity.
    + destruct e as [[]|]; apply IH.
Qed.

Corollary debug_continue_observables : forall fuel p,
  run_program_debug_continue fuel p = run_program fuel p.
Proof.
  intros fuel p. unfold run_program_debug_continue, run_program.
  change (init_ctx true) with (sd true (init_ctx false)).
  rewrite debug_continue_whole_run. change (sd false (init_ctx false)) with (init_ctx false).
  destruct (run fuel p init_glob (init_ctx false)) as [[g c] o]. reflexivity.
Qed.
