(* Shared/Model.v — C08: the shared-flag locking protocol of symbol tables across a `go` statement.
   Executable definitions only.

   A symbol table is named by its path to the root: [n; m; ...] is child n of table [m; ...]; the parent of a
   table is its tail, its ancestors-or-self are its suffixes (symbols/tables.go: parent links never change).
   The state is the set of tables whose atomic `shared` flag is true.  Table operations (symbols/get.go,
   set.go) lock the table's RW mutex iff the flag is true when the operation starts; Shared(true)
   (tables.go) stores true into the table and every ancestor. *)
From Coq Require Import List Arith Bool ZArith.
Import ListNotations.

Definition table := list nat.
Definition tbl_eqb (a b : table) : bool := if list_eq_dec Nat.eq_dec a b then true else false.

Fixpoint suffixes (t : table) : list table :=
  match t with [] => [[]] | _ :: r => t :: suffixes r end.
Definition is_suffix (u t : table) : bool := existsb (tbl_eqb u) (suffixes t).

Inductive act :=
| Read (t : table)      (* GetLocal / a Get that finds the name in t: reads t under its read lock *)
| Write (t : table)     (* Set / SetAlways / Create / Delete on table t: under its write lock *)
| Lookup (t : table)    (* a Get that falls through the boundary table t: reads t under its read lock and
                           calls t.FindNextScope(), which consults and may fill t's next-scope cache
                           (nextScope / nextScopeCached) while only that read lock is held *)
| Mark (t : table).     (* t.Shared(true): t and all its ancestors *)

Inductive tid := P | C. (* the launching goroutine after the `go` statement / the new goroutine *)
Definition tid_eqb (a b : tid) : bool := match a, b with P, P | C, C => true | _, _ => false end.

Definition flags := list table.
Definition is_shared (S : flags) (t : table) : bool := existsb (tbl_eqb t) S.
Definition mark (S : flags) (t : table) : flags := suffixes t ++ S.

(* which lock of the table's RW mutex an access holds *)
Inductive lockmode := NoLock | RLock | WLock.
Definition rmode (S : flags) (t : table) : lockmode := if is_shared S t then RLock else NoLock.
Definition wmode (S : flags) (t : table) : lockmode := if is_shared S t then WLock else NoLock.
(* two lock holders exclude each other iff both hold the mutex and one holds it for writing *)
Definition excluded (x y : lockmode) : bool :=
  match x, y with WLock, RLock | WLock, WLock | RLock, WLock => true | _, _ => false end.

(* one recorded access since the fork *)
Record access := mkAcc { a_tid : tid; a_tbl : table; a_write : bool; a_lock : lockmode }.

(* two accesses race: same table, different goroutines, one writes, and the locks they hold do not
   exclude each other (one is unlocked, or both hold only the read lock) *)
Definition conflict (x y : access) : bool :=
  tbl_eqb (a_tbl x) (a_tbl y) && negb (tid_eqb (a_tid x) (a_tid y)) &&
  (a_write x || a_write y) && negb (excluded (a_lock x) (a_lock y)).

Record state := mkState { shared : flags; hist : list access; raced : bool }.
Definition record (s : state) (a : access) : state :=
  mkState (shared s) (a :: hist s) (raced s || existsb (conflict a) (hist s)).

(* tables.go cachedNextScope / setCachedNextScope: the cache is neither consulted nor filled for a
   shared table ([pol] = false: the code as it is).  [pol] = true is the variant that caches on shared
   tables too ("the value is idempotent, no lock needed"). *)
Definition cache_written (pol : bool) (S : flags) (t : table) : bool := pol || negb (is_shared S t).

Definition step_pol (pol : bool) (s : state) (e : tid * act) : state :=
  match snd e with
  | Mark t => mkState (mark (shared s) t) (hist s) (raced s)
  | Read t => record s (mkAcc (fst e) t false (rmode (shared s) t))
  | Write t => record s (mkAcc (fst e) t true (wmode (shared s) t))
  | Lookup t =>
      let s1 := record s (mkAcc (fst e) t false (rmode (shared s) t)) in
      if cache_written pol (shared s) t
      then record s1 (mkAcc (fst e) t true (rmode (shared s) t))   (* plain field stores under the read lock *)
      else s1
  end.
Definition run_pol (pol : bool) (S0 : flags) (il : list (tid * act)) : state :=
  fold_left (step_pol pol) il (mkState S0 [] false).
Definition step := step_pol false.
Definition run := run_pol false.

(* ---- sequential observation of the same functions on one goroutine (correspondence with the real
   symbols package): after each operation, the shared flags of the tables of U and which tables of U
   had their next-scope cache filled by that operation.  A Get of a name that lives in the root walks
   every non-root ancestor-or-self; only boundary tables (list B) use the cache. *)
Inductive sop := SMark (t : table) | SGet (t : table) | SSet (t : table).
Definition is_root (t : table) : bool := match t with [] => true | _ => false end.
Definition lookup_dirty (pol : bool) (B : list table) (S : flags) (t : table) : list table :=
  filter (fun u => negb (is_root u) && existsb (tbl_eqb u) B && cache_written pol S u) (suffixes t).
Fixpoint seq_obs (pol : bool) (B U : list table) (S : flags) (ops : list sop) : list (list bool * list bool) :=
  match ops with
  | [] => []
  | o :: r =>
      let S' := match o with SMark t => mark S t | _ => S end in
      let d := match o with
               | SGet t => map (fun u => existsb (tbl_eqb u) (lookup_dirty pol B S t)) U
               | _ => map (fun _ => false) U
               end in
      (map (is_shared S') U, d) :: seq_obs pol B U S' r
  end.

(* ---- what each goroutine can reach
   common: tables both can reach (the captured scope chain of a closure, the chain above the first
   shared ancestor of the launcher's scope); own roots: tables created by that goroutine alone
   (function / block scopes pushed after the fork, the child's "Go routine" table, call frames) and
   everything below them. *)
Definition under (roots : list table) (t : table) : bool := existsb (fun r => is_suffix r t) roots.
Definition act_tbl (a : act) : table := match a with Read t | Write t | Lookup t | Mark t => t end.

Record scopes := mkScopes { common : list table; rootsP : list table; rootsC : list table }.
Definition reach (sc : scopes) (who : tid) (t : table) : bool :=
  existsb (tbl_eqb t) (common sc) || under (match who with P => rootsP sc | C => rootsC sc end) t.
Definition well_scoped (sc : scopes) (il : list (tid * act)) : bool :=
  forallb (fun e => reach sc (fst e) (act_tbl (snd e))) il.
(* no table is below an own root of both goroutines, and no common table is below an own root *)
Definition disjoint_scopes (sc : scopes) (universe : list table) : bool :=
  forallb (fun t => negb (under (rootsP sc) t && under (rootsC sc) t) &&
                    negb (existsb (tbl_eqb t) (common sc) && (under (rootsP sc) t || under (rootsC sc) t))) universe.

(* ---- the protocol of goByteCode / GoRoutine
   new code (BUG-94 repaired): the launcher marks the captured scope chain before the go statement, so at
   the fork every common table is shared.  old code: the new goroutine marked it as its first action. *)
Definition fork_state_new (S : flags) (captured : table) : flags := mark S captured.
Definition child_prologue_old (captured : table) : list act := [Mark captured].

(* GoRoutine's start-up (goroutine.go).
   Before the repair (7d20e5f5) the NEW goroutine evaluated parentCtx.symbols.FindNextScope() itself, which
   consults (cachedNextScope) and may fill (setCachedNextScope) the next-scope cache fields of the launcher's
   CURRENT scope table: a table that belongs to the launcher and is not marked shared, whose cache the
   launcher's own Get/IsConstant calls fill without any lock.
   Repaired code: goByteCode resolves that scope before the go statement (an action of the launcher before
   the fork); the new goroutine's start-up touches no table of the launcher. *)
Definition child_startup_old (launcher_scope : table) : list act := [Read launcher_scope].
Definition child_startup (launcher_scope : table) : list act := [].
Definition tag (w : tid) (l : list act) : list (tid * act) := map (fun a => (w, a)) l.

Inductive interleave {A} : list A -> list A -> list A -> Prop :=
| il_nil : interleave [] [] []
| il_l x a b c : interleave a b c -> interleave (x :: a) b (x :: c)
| il_r x a b c : interleave a b c -> interleave a (x :: b) (x :: c).

(* the property for the table layer: with the child's action list (start-up included) no schedule of
   well-scoped launcher and child bodies races *)
Definition statement_with (startup : table -> list act) : Prop :=
  forall (sc : scopes) (U : list table) (S0 : flags) (sp : table) (ilP ilC : list act) (il : list (tid * act)),
    disjoint_scopes sc U = true -> In sp U -> under (rootsP sc) sp = true ->
    (forall e, In e il -> In (act_tbl (snd e)) U) ->
    (forall t, In t (common sc) -> is_shared S0 t = true) ->
    well_scoped sc (tag P ilP) = true -> well_scoped sc (tag C ilC) = true ->
    interleave (tag P ilP) (tag C (startup sp ++ ilC)) il ->
    raced (run S0 il) = false.
Definition C08_statement : Prop := statement_with child_startup.

(* ---- second part: fully synchronized programs.  Each critical section (mutex held) or channel
   hand-off is one atomic update of the program's shared store; the generated programs only use
   commutative updates (add k to variable v). *)
Definition store := list (nat * Z).
Fixpoint add_to (v : nat) (k : Z) (s : store) : store :=
  match s with
  | [] => [(v, k)]
  | (w, x) :: r => if Nat.eqb v w then (w, (x + k)%Z) :: r else (w, x) :: add_to v k r
  end.
Fixpoint get (v : nat) (s : store) : Z :=
  match s with [] => 0%Z | (w, x) :: r => if Nat.eqb v w then x else get v r end.
Definition section := (nat * Z)%type.
Definition run_sections (l : list section) (s : store) : store := fold_left (fun st c => add_to (fst c) (snd c) st) l s.
