"""C18 Row values survive a REST round trip (tables/rows.go, parsing/generators.go CoerceToColumnType/bindTimeValue, SQLite)."""
import json
import os
import re
import vf

GROUP = "RowCodec"
META = {
    "group": "RowCodec",
    "technique": "Coq proof of write/read round trip over a Gallina model of the value path (JSON number -> float64 -> Go int, "
                 "bool <-> 0/1, bound TEXT, UTC RFC 3339 time binding) + vm_compute correspondence and a direct round-trip oracle "
                 "through the real TableCreate / InsertRows / ReadRows handlers on a SQLite file",
    "text": "Theorems over the model of the repaired code: C18_roundtrip_full - for column types int, bool, string, timestamp EVERY "
            "value of the documented type (the whole int64 range, both booleans, every string incl. quotes/Unicode/NUL/empty, every "
            "instant to the nanosecond) is read back as itself; C18_roundtrip_columns adds date columns (same day) and time columns "
            "(a time of day hh:mm:ss.fraction comes back as the same time of day); C18_current_schema_full: the same after any history "
            "of create / drop / write / read / schema-cache loss on one table name; C18_float_roundtrip: float columns, from the "
            "premises that strconv formatting/parsing round-trips and a REAL cell returns what was bound (all finite values but -0). "
            "Old code refuted and repaired on the real handlers: C18_int_refuted / C18_int_max_refuted (numbers through float64, fix "
            "4112ced4 + 6d076279), C18_old_refuted (fractional second dropped, fix 333e4229), time of day misparsed (fix c281d43a). "
            "partial: the text level of RFC 3339 / decimal floats (time.Format, the driver's parsing, strconv) is a premise observed on "
            "every run, not modelled; float32 columns, NULLs, UPDATE, PostgreSQL are not exercised",
    "note": "Trusted: Coq kernel; the hand-written model (f64 = round-to-nearest-even of an integer, to_int = amd64 conversion) tied "
            "by the correspondence run; SQLite stores INTEGER/REAL/TEXT cells exactly; time.Format/modernc parsing of RFC 3339 "
            "text are inverse on UTC instants (observed, not modelled); the overlay harness and the Python comparison.",
}
TWO53 = 1 << 53


def gen_ints(rng, n):
    out = [0, 1, -1, 42, -7, 255, 65536, 2 ** 31 - 1, 2 ** 31, -2 ** 31, -2 ** 31 - 1, 2 ** 32, TWO53 - 1, TWO53, -TWO53, 10 ** 15,
           TWO53 + 1, TWO53 + 2, TWO53 + 3, -TWO53 - 1, 2 ** 62, 2 ** 63 - 1, -2 ** 63, 2 ** 63 - 1024, 2 ** 63 - 1025, 10 ** 18 + 1]
    while len(out) < n:
        bits = rng.randint(1, 63)
        z = rng.randint(0, (1 << bits) - 1)
        out.append(-z if rng.random() < 0.4 else z)
    return out


def gen_strings(rng, n):
    out = ["", "hello", "C:\\temp\\", "tab\tand  two spaces after a value ending in a backslash", "\\", "a \\\\", "x\\\"",
           "it's \"quoted\" \\ back", "h\u00e9llo \u2603 \U0001d11e", "a\u0000b", "  pad  ", "line\nbreak\ttab",
           "3fa85f64-5717-4562-b3fc-2c963f66afa6", "{\"a\":[1,2,{\"b\":null}]}", "'; DROP TABLE c18_string; --", "$1", "%s %d",
           "NULL", "true", "42", "1e3", "2024-03-01T12:30:45Z", "\u202e\u200b", "x" * 5000, "\ufffd", "\\u0041", "\"", "'", "''"]
    alpha = ["a", "Z", "0", " ", "'", "\"", "\\", "\n", "\t", "\u00e9", "\u4e2d", "\U0001f600", "%", "$", ";", "-", "\u0000", "\u007f"]
    while len(out) < n:
        out.append("".join(rng.choice(alpha) for _ in range(rng.randint(1, 24))))
    return out


def gen_instants(rng, n):
    """(sec, nano, offset minutes)"""
    out = [(1709296245, 0, 0), (1709296245, 123456789, 0), (1709296245, 500000000, 330), (0, 0, 0), (-1, 999999999, -480),
           (-62135596800, 0, 0), (253402300799, 0, 0), (253402300799, 999999999, 0), (951782400, 1, 0), (1709296245, 120000000, 60),
           (1709296245, 1000, 0), (-2208988800, 0, 0), (2 ** 31, 0, 0)]
    while len(out) < n:
        sec = rng.randint(-62135596800 + 86400, 253402300799 - 86400)
        nano = rng.choice([0, 0, rng.randint(0, 999999999), rng.randint(0, 999) * 1000000, 999999999])
        out.append((sec, nano, rng.choice([0, 0, 60, -300, 330, 765, -720])))
    return out


def days_from_civil(y, m, d):
    """days since 1970-01-01 of the proleptic Gregorian date (any year, 0 and negatives included)"""
    y -= m <= 2
    era = y // 400
    yoe = y - era * 400
    doy = (153 * (m + (-3 if m > 2 else 9)) + 2) // 5 + d - 1
    doe = yoe * 365 + yoe // 4 - yoe // 100 + doy
    return era * 146097 + doe - 719468


def civil_from_days(z):
    z += 719468
    era = z // 146097
    doe = z - era * 146097
    yoe = (doe - doe // 1460 + doe // 36524 - doe // 146096) // 365
    y = yoe + era * 400
    doy = doe - (365 * yoe + yoe // 4 - yoe // 100)
    mp = (5 * doy + 2) // 153
    d = doy - (153 * mp + 2) // 5 + 1
    m = mp + (3 if mp < 10 else -9)
    return y + (m <= 2), m, d


def rfc3339(sec, nano, offmin):
    local = sec + offmin * 60
    y, mo, d = civil_from_days(local // 86400)
    r = local % 86400
    s = "%04d-%02d-%02dT%02d:%02d:%02d" % (y, mo, d, r // 3600, r // 60 % 60, r % 60)
    if nano:
        s += (".%09d" % nano).rstrip("0")
    if offmin == 0:
        return s + "Z"
    return s + "%s%02d:%02d" % ("+" if offmin > 0 else "-", abs(offmin) // 60, abs(offmin) % 60)


def parse_rfc3339(text):
    m = re.fullmatch(r"(\d{4})-(\d\d)-(\d\d)T(\d\d):(\d\d):(\d\d)(?:\.(\d{1,9}))?(Z|[+-]\d\d:\d\d)", text)
    if not m:
        return None
    y, mo, d, h, mi, s = (int(m.group(i)) for i in range(1, 7))
    nano = int((m.group(7) or "0").ljust(9, "0"))
    off = 0
    if m.group(8) != "Z":
        off = (1 if m.group(8)[0] == "+" else -1) * (int(m.group(8)[1:3]) * 60 + int(m.group(8)[4:6]))
    return days_from_civil(y, mo, d) * 86400 + h * 3600 + mi * 60 + s - off * 60, nano


YEAR0 = -62167219200


def gen_dates(rng, n):
    out = [0, 19783, -1, -719162, 2932896, days_from_civil(2024, 2, 29), days_from_civil(2000, 2, 29), days_from_civil(1900, 3, 1),
           days_from_civil(1969, 12, 31), days_from_civil(2038, 1, 19)]
    while len(out) < n:
        out.append(rng.randint(-719162, 2932896))
    return out


def gen_tods(rng, n):
    out = [(45045, 0), (0, 0), (86399, 0), (86399, 999999999), (45045, 500000000), (3600, 1), (43200, 0), (59, 0), (60, 0), (3599, 120000000)]
    while len(out) < n:
        out.append((rng.randint(0, 86399), rng.choice([0, 0, rng.randint(0, 999999999), rng.randint(0, 999) * 1000000])))
    return out


def tod_text(s, n):
    t = "%02d:%02d:%02d" % (s // 3600, s // 60 % 60, s % 60)
    return t + ((".%09d" % n).rstrip("0") if n else "")


def run(ck):
    quick = ck.tier == "quick"
    ck.cov["rule"] = ("one row per case through the real TableCreate/InsertRows/ReadRows handlers on a SQLite file: int (boundaries "
                      "around 2^31, 2^53, 2^63 + log-uniform), bool (literals and accepted spellings), string (quotes, backslash, NUL, "
                      "Unicode planes, SQL text, 5000 chars + random over a hostile alphabet), timestamp (RFC 3339 with offsets, "
                      "fractions of 1 ns..0.5 s, years 1..9999), float64/float32, date, time by observation; every table read once more "
                      "with all rows in one response; chains: one table name dropped and re-created with another column type "
                      "between round trips. distinct_nontrivial = "
                      "distinct (type, value) cases that were stored and read back as one row")
    ck.assume("SQLite stores INTEGER / REAL / TEXT cells exactly and returns them unchanged",
              "time.Time.Format(RFC3339Nano) and the SQLite driver's parsing of TIMESTAMP text are inverse on UTC instants of years "
              "1..9999 (observed on every run, not modelled)",
              "Go float64 -> int conversion of an out-of-range value yields -2^63 (amd64)")
    ck.trusted("harness/C18/c18_test.go (in-package overlay), props/C18.py generators, RFC 3339 rendering/parsing in Python",
               "correspondence evaluated by vm_compute in a generated cases file")
    ck.coq_stage(GROUP, theorems=["C18_roundtrip_full", "C18_roundtrip_columns", "C18_float_roundtrip", "C18_current_schema_full", "C18_roundtrip_partial", "C18_current_schema", "C18_int_refuted", "C18_int_max_refuted", "C18_old_refuted",
                                   "C18_stale_schema_refuted"])

    ok, binp = vf.go_test_build(ck.work, "internal/server/tables",
                                {"internal/server/tables/zz_verif_c18_test.go": os.path.join(vf.HARNESS, "C18", "c18_test.go")}, "c18.test")
    if not ok:
        ck.violation("harness-build", "harness for internal/server/tables does not build:\n" + binp[-1500:],
                     replay={"log": binp[-3000:]}, found_input=False)
        return
    n = 150 if quick else 1500
    cases = []            # (type, python value or raw JSON text, kind)

    def add(ty, raw, meta):
        cases.append({"id": len(cases), "type": ty, "value": raw, "meta": meta})

    ints, strs, inst = gen_ints(ck.rng, n), gen_strings(ck.rng, n), gen_instants(ck.rng, n)
    if ck.replay_file:
        rp = json.load(open(ck.replay_file))["replay"]
        ints, strs, inst = rp.get("ints", []), rp.get("strings", []), [tuple(x) for x in rp.get("instants", [])]
    for z in ints:
        add("int", str(z), ("int", z))
    for z in ints[:40]:
        if -2 ** 31 <= z < 2 ** 31:
            add("int32", str(z), ("int", z))
    for b, raw in [(True, "true"), (False, "false"), (True, "1"), (False, "0"), (True, "\"true\""), (False, "\"false\"")]:
        add("bool", raw, ("bool", b, raw))
    for s in strs:
        add("string", json.dumps(s), ("str", s))
    for sec, nano, off in inst:
        add("timestamp", json.dumps(rfc3339(sec, nano, off)), ("ts", sec, nano, off))
    import struct
    floats = ["0", "-0.0", "0.0", "1.5", "0.1", "-2.25", "3", "1e308", "1.7976931348623157e308", "-1.7976931348623157e308",
              "5e-324", "-5e-324", "2.2250738585072014e-308", "2.225073858507201e-308", "1e21", "999999999999999900000", "1e20",
              "1.0000000000000001e21", "123456789012345680000", "1e-6", "9.999999999999999e-7", "1e-7", "0.000001", "1E3", "1e+3",
              "9007199254740993", "9007199254740992.0", "4.35", "0.30000000000000004", "2.5e-5", "1.7976931348623157E+308"]
    while len(floats) < (60 if quick else 600):
        x = struct.unpack("<d", struct.pack("<Q", ck.rng.getrandbits(64)))[0]
        if x == x and abs(x) != float("inf"):
            floats.append(repr(x))
    if ck.replay_file:
        floats = rp.get("floats", [])
    for f in floats:
        add("float64", f, ("float", f))
    if not ck.replay_file:
        for f in ["1e999", "-1e999", "1.8e308"]:      # not finite as float64: the row must be refused, nothing stored
            add("float64", f, ("nofloat", f))
    for f in ["0.5", "0.1", "16777217"]:
        add("float32", f, ("float", f))
    dates, tods = gen_dates(ck.rng, n // 3), gen_tods(ck.rng, n // 3)
    if ck.replay_file:
        dates, tods = rp.get("dates", []), [tuple(x) for x in rp.get("tods", [])]
    for d in dates:
        add("date", "\"%04d-%02d-%02d\"" % civil_from_days(d), ("date", d))
    for sec, nano in tods:
        add("time", json.dumps(tod_text(sec, nano)), ("tod", sec, nano))
    if not ck.replay_file:
        add("time", "\"12:30\"", ("tod", 45000, 0))
        add("time", "\"2024-03-01T12:30:45Z\"", ("ts", 1709296245, 0, 0))

    inp, outp = os.path.join(ck.work, "in.json"), os.path.join(ck.work, "out.json")
    # chains: one table name dropped and created again with another column type between round trips (the read side must
    # coerce with the CURRENT table's column types, whatever an earlier table of that name looked like)
    chains = []

    def link(ty, raw, meta):
        return {"id": 100000 + 100 * len(chains), "type": ty, "value": raw, "meta": meta}

    def chain(*links):
        for i, l in enumerate(links):
            l["id"] += i
        chains.append(list(links))

    if not ck.replay_file or "chain" in rp:
        fixed_chains = [
            [("int", "7", ("int", 7)), ("string", "\"007\"", ("str", "007")), ("int", "12", ("int", 12))],
            [("string", "\"plain text\"", ("str", "plain text")), ("timestamp", json.dumps(rfc3339(1709296245, 5000000, 0)), ("ts", 1709296245, 5000000, 0)),
             ("string", "\"2024-03-01 is not a timestamp here\"", ("str", "2024-03-01 is not a timestamp here"))],
            [("bool", "true", ("bool", True, "true")), ("string", "\"true\"", ("str", "true")), ("bool", "false", ("bool", False, "false"))],
            [("timestamp", json.dumps(rfc3339(86400, 0, 0)), ("ts", 86400, 0, 0)), ("int", "86400", ("int", 86400)), ("string", "\"1e3\"", ("str", "1e3"))],
        ]
        if ck.replay_file:
            fixed_chains = [[(t, v, tuple(m)) for t, v, m in rp["chain"]]]
        for fc in fixed_chains:
            chain(*[link(*x) for x in fc])
        pool = [("int", lambda: (lambda z: (str(z), ("int", z)))(ck.rng.choice(ints[:24]) % TWO53)),
                ("string", lambda: (lambda t: (json.dumps(t), ("str", t)))(ck.rng.choice(strs[:40] + ["007", "1.50", "true", "0x10", " 5"]))),
                ("bool", lambda: (lambda b: ("true" if b else "false", ("bool", b, str(b))))(ck.rng.random() < 0.5)),
                ("timestamp", lambda: (lambda i: (json.dumps(rfc3339(*i)), ("ts",) + tuple(i)))(ck.rng.choice(inst[:13])))]
        for _ in range(0 if ck.replay_file else (4 if quick else 40)):
            links, prev = [], None
            for _ in range(ck.rng.randint(2, 4)):
                ty, mk = ck.rng.choice([x for x in pool if x[0] != prev])
                raw, meta = mk()
                links.append(link(ty, raw, meta))
                prev = ty
            chain(*links)

    def jcase(c):
        return '{"id":%d,"type":%s,"value":%s}' % (c["id"], json.dumps(c["type"]), c["value"])

    with open(inp, "w") as f:     # values are raw JSON text: written by hand so that the spelling is exactly ours
        f.write('{"cases":[' + ",".join(jcase(c) for c in cases) + '],"chains":[' +
                ",".join("[" + ",".join(jcase(c) for c in ch) + "]" for ch in chains) + "]}")
    rc, log = vf.run_bin(binp, "^TestVerifC18$", {"VERIF_IN": inp, "VERIF_OUT": outp})
    if rc != 0 or not os.path.exists(outp):
        ck.violation("harness-run", "harness failed:\n" + log[-1500:], replay={"log": log[-3000:]}, found_input=False)
        return
    real = json.load(open(outp))
    outs = {o["id"]: o for o in real["cases"]}

    # ---- property oracle on the real handlers
    nontriv, dist = set(), {}
    int_pairs, ts_rows, dt_rows = [], [], []
    def judge(c, o, chain_replay=None):
        meta = c["meta"]

        def report(sig, msg, replay=None, found_input=True):
            if chain_replay is not None:
                sig, msg, replay = "recreated-table:" + sig, "table dropped and created again with another column type, " + msg, chain_replay
            ck.violation(sig, msg, replay=replay, found_input=found_input)

        dist[c["type"]] = dist.get(c["type"], 0) + 1
        if o["err"] and o["insert"] == 0:
            report("harness-setup", "case %s: %s" % (c, o["err"][:300]), replay={"log": o["err"]}, found_input=False)
            return
        stored = o["insert"] == 200 and o["read"] == 200 and o["rows"] == 1
        if stored:
            nontriv.add((c["type"], c["value"]))
        back = None
        if stored and o["back"]:
            try:
                back = json.loads(o["back"])
            except ValueError:
                back = None
        if meta[0] == "int":
            z = meta[1]
            got = int(o["back"]) if stored and re.fullmatch(r"-?\d+", o["back"] or "") else None
            if c["type"] == "int" and chain_replay is None:
                int_pairs.append((z, got))
            if got != z:
                if abs(z) > TWO53 and got is not None:
                    sig = "int-max-wraps-negative" if (z > 0) != (got > 0) else "int-beyond-2^53"
                else:
                    sig = "int-roundtrip"
                report(sig, "%s column: wrote %d, read back %s (insert %d, read %d, stored cell %s)" % (
                    c["type"], z, o["back"] or "nothing", o["insert"], o["read"], o["stored"]), replay={"ints": [z]})
        elif meta[0] == "bool":
            if back is not meta[1]:
                report("bool-roundtrip", "bool column: wrote %s, read back %s (status %d/%d)" % (meta[2], o["back"], o["insert"], o["read"]),
                             replay={"log": str(c)})
        elif meta[0] == "str":
            if back != meta[1]:
                report("string-roundtrip", "string column: wrote %r, read back %r (status %d/%d, cell %s)" % (
                    meta[1][:80], (o["back"] or "")[:80], o["insert"], o["read"], o["stored"][:80]), replay={"strings": [meta[1]]})
        elif meta[0] == "ts":
            got = parse_rfc3339(back) if isinstance(back, str) else None
            if c["type"] == "timestamp" and chain_replay is None:
                ts_rows.append((meta[1], meta[2], got))
            if got != (meta[1], meta[2]):
                sig = "timestamp-subsecond-lost" if got and got[0] == meta[1] and got[1] == 0 else "timestamp-roundtrip"
                report(sig, "%s column: wrote %s (instant %d s + %d ns), read back %s" % (
                    c["type"], c["value"], meta[1], meta[2], o["back"] or "nothing"), replay={"instants": [list(meta[1:])]})
        elif meta[0] == "float":
            want = float(meta[1])
            if c["type"] == "float64" and (not isinstance(back, (int, float)) or float(back) != want):
                report("float64-roundtrip", "float64 column: wrote %s, read back %s (cell %s)" % (meta[1], o["back"], o["stored"]),
                       replay={"floats": [meta[1]]})
            if c["type"] == "float32" and (not isinstance(back, (int, float)) or abs(float(back) - want) > abs(want) * 1e-6):
                report("float32-roundtrip", "float32 column: wrote %s, read back %s" % (meta[1], o["back"]), replay={"log": str(c)})
        elif meta[0] == "nofloat":
            if o["insert"] == 200 or o["rows"]:
                report("float-overflow-stored", "float64 column: %s is no finite float64 but the row was stored (read back %s, cell %s)" % (
                    meta[1], o["back"] or "nothing", o["stored"]), replay={"floats": [meta[1]]})
        elif meta[0] == "date":
            got = parse_rfc3339(back) if isinstance(back, str) else None
            if chain_replay is None:
                dt_rows.append((0, meta[1], 0, got))
            if got != (meta[1] * 86400, 0):
                report("date-roundtrip", "date column: wrote %s (day %d), read back %s" % (c["value"], meta[1], o["back"] or "nothing"),
                       replay={"dates": [meta[1]]})
        elif meta[0] == "tod":
            got = parse_rfc3339(back) if isinstance(back, str) else None
            if chain_replay is None:
                dt_rows.append((1, meta[1], meta[2], got))
            if got != (YEAR0 + meta[1], meta[2]):
                report("time-of-day-misparsed", "time column: wrote %s, read back %s (stored cell %s)" % (
                    c["value"], o["back"] or "nothing", o["stored"]), replay={"tods": [[meta[1], meta[2]]]})

    for c in cases:
        judge(c, outs[c["id"]])

    # the same rows once more, all rows of a table in ONE response: every value must be what the single-row read gave
    # (strings: what was written)
    nall = 0
    for ty, msg in real.get("all_err", {}).items():
        ck.violation("all-rows-read", "reading all rows of the %s table failed: %s" % (ty, msg[:300]), replay={"log": msg}, found_input=False)
    for c in cases:
        o = outs[c["id"]]
        if not (o["insert"] == 200 and o["read"] == 200 and o["rows"] == 1) or c["type"] not in real.get("all", {}):
            continue
        nall += 1
        got = real["all"][c["type"]].get("case%d" % c["id"])
        want = json.dumps(c["meta"][1]) if c["meta"][0] == "str" else o["back"]
        try:
            same = got is not None and json.loads(got) == json.loads(want)
        except ValueError:
            same = False
        if not same:
            later = [x["meta"][1] for x in cases if x["type"] == c["type"] and x["meta"][0] == "str"]
            ck.violation("multi-row-read", "%s column, all rows read in one response: row case%d holds %s but the response carries %s" % (
                c["type"], c["id"], want[:80], (got or "nothing")[:80]),
                replay={"strings": later[:later.index(c["meta"][1]) + 1] if c["meta"][0] == "str" else [], "log": str(c)[:300]})
            break

    nchain, chain_flags = 0, []
    for ch, res in zip(chains, real.get("chains", [])):
        rep = {"chain": [[c["type"], c["value"], list(c["meta"])] for c in ch]}
        if len(res) != len(ch):
            ck.violation("harness-chain", "chain %s stopped early: %s" % (rep, res[-1]["err"][:300] if res else ""), replay=rep, found_input=False)
            continue
        flags = []
        for c, o in zip(ch, res):
            nchain += 1
            dist["recreated:" + c["type"]] = dist.get("recreated:" + c["type"], 0) + 1
            before = len(ck.viol)
            judge(c, o, rep)
            flags.append(1 if len(ck.viol) == before else 0)
        chain_flags.append((ch, flags))
    ck.cov["evaluations"] = len(cases) + nall + nchain
    ck.cov["distinct_nontrivial"] = len(nontriv)
    ck.cov["input_distribution"] = dict(dist, ints_beyond_2_53=sum(1 for z in ints if abs(z) > TWO53),
                                        instants_with_fraction=sum(1 for i in inst if i[1]), instants_with_offset=sum(1 for i in inst if i[2]))
    for c in cases[:2] + [c for c in cases if c["type"] == "timestamp"][:2] + [c for c in cases if c["type"] == "string"][2:4]:
        ck.sample({"type": c["type"], "wrote": c["value"][:80], "read_back": outs[c["id"]]["back"][:80], "cell": outs[c["id"]]["stored"][:80]})

    # ---- correspondence: model vs real (ints incl. the defective range; instants)
    if getattr(ck, "coq_broken", None):
        if not [v for v in ck.viol if vf.match_known(ck.known, ck.pid, v["signature"]) is None]:
            grp, log = ck.coq_broken
            ck.violation("proof-broken", "Coq development %s no longer checks:\n%s" % (grp, log[-1200:]),
                         replay={"broken": "coq/%s" % grp, "log": log[-3000:]}, found_input=False)
        return
    ip = [(z, g) for z, g in int_pairs if g is not None]
    tp = [(s, nn, g) for s, nn, g in ts_rows if g is not None]
    pre = ["From RowCodec Require Import Model.", "Open Scope Z_scope.",
           "Definition icases : list (Z * Z) := [%s]." % ";".join("(%s,%s)" % (("(%d)" % a), ("(%d)" % b)) for a, b in ip),
           "Definition tcases : list (Z * Z * (Z * Z)) := [%s]." % ";".join(
               "((%d),%d,((%d),%d))" % (s, nn, g[0], g[1]) for s, nn, g in tp)]
    TY = {"int": "TInt", "string": "TStr", "bool": "TBool", "timestamp": "TTs"}

    def vval(meta):
        if meta[0] == "int":
            return "VInt (%d)" % meta[1]
        if meta[0] == "bool":
            return "VBool %s" % ("true" if meta[1] else "false")
        if meta[0] == "str":
            return "VStr %s" % vf.vrunes(meta[1])
        return "VTs (%d) %d" % (meta[1], meta[2])

    mchains = [(ch, fl) for ch, fl in chain_flags if all(c["type"] in TY for c in ch)]
    pre.append("Definition chains : list (list top * list Z) := [%s]." % ";\n".join(
        "([%s], %s)" % ("; ".join(("TDrop; " if i else "") + "TCreate %s; TWrite (%s); TRead" % (TY[c["type"]], vval(c["meta"]))
                                  for i, c in enumerate(ch)), vf.vZ(fl)) for ch, fl in mchains))
    pre.append("Fixpoint zl_eqb (a b : list Z) : bool := match a, b with [], [] => true | x :: a', y :: b' => (x =? y) && zl_eqb a' b' "
               "| _, _ => false end.")
    pre.append("Fixpoint bad_chains (p : bool) (l : list (list top * list Z)) (i : nat) : list nat := match l with [] => [] | (h, w) :: r => "
               "if zl_eqb (chain_reads p tinit None h) w then bad_chains p r (S i) else i :: bad_chains p r (S i) end.")
    dp = [(k, a, b, g) for k, a, b, g in dt_rows if g is not None]
    pre.append("Definition dcases : list (Z * Z * Z * (Z * Z)) := [%s]." % ";".join(
        "(%d,(%d),%d,((%d),%d))" % (k, a, b, g[0], g[1]) for k, a, b, g in dp))
    pre.append("Definition bad_dt (i : nat) (c : Z * Z * Z * (Z * Z)) : list nat := let '(k, a, b, (ws, wn)) := c in "
               "let v := if k =? 0 then CVDate a else CVTod a b in "
               "match instant_of v with Ok i0 => match roundtrip_n true true TTs i0, roundtrip_col (if k =? 0 then ColDate else ColTime) v with "
               "| Ok (VTs s n), Ok v' => if (s =? ws) && (n =? wn) then [] else [i] | _, _ => [i] end | Rejected => [i] end.")
    pre.append("Fixpoint idxd (i : nat) (l : list (Z * Z * Z * (Z * Z))) : list nat := match l with [] => [] | x :: r => bad_dt i x ++ idxd (S i) r end.")
    ok, res = vf.coq_eval(GROUP, ck.work, "cases", "\n".join(pre),
                          {"ints": "bad_ints_n true icases 0", "intsold": "bad_ints icases 0", "ts": "bad_ts true tcases 0", "tsold": "bad_ts false tcases 0",
                           "chains": "bad_chains true chains 0", "dt": "idxd 0 dcases", "chainsold": "bad_chains false chains 0"})
    if not ok:
        ck.violation("correspondence-eval", "model evaluation failed:\n" + res[-1500:], replay={"log": res[-3000:]}, found_input=False)
        return
    ck.cov["traces_validated_against_impl"] = len(ip) + len(tp) - len(res["ints"]) - len(res["ts"])
    ck.cov["input_distribution"]["instants_where_old_model_differs"] = len(res["tsold"])
    ck.cov["input_distribution"]["ints_where_float64_decoding_model_differs"] = len(res["intsold"])
    ck.cov["traces_validated_against_impl"] += len(mchains) - len(res["chains"])
    ck.cov["input_distribution"]["chains"] = len(chains)
    ck.cov["input_distribution"]["chains_where_stale_cache_model_differs"] = len(res["chainsold"])
    if not any(v["signature"].startswith("recreated-table") for v in ck.viol):
        for i in res["chains"]:
            ck.violation("corr-chain", "model and implementation disagree on the chain %s: real per-step 'read back what was written' flags %s" % (
                [(c["type"], c["value"]) for c in mchains[i][0]], mchains[i][1]),
                replay={"chain": [[c["type"], c["value"], list(c["meta"])] for c in mchains[i][0]]}, found_input=False)
    ck.cov["traces_validated_against_impl"] += len(dp) - len(res["dt"])
    if not any(v["signature"] in ("date-roundtrip", "time-of-day-misparsed") for v in ck.viol):
        for i in res["dt"]:
            ck.violation("corr-date-time", "model and implementation disagree on the %s value %s: real instant read back %s" % (
                "time-of-day" if dp[i][0] else "date", dp[i][1:3], dp[i][3]),
                replay={"tods": [[dp[i][1], dp[i][2]]]} if dp[i][0] else {"dates": [dp[i][1]]}, found_input=False)
    for i in res["ints"]:
        ck.violation("corr-int", "model and implementation disagree on int %d: real read back %d" % ip[i], replay={"ints": [ip[i][0]]},
                     found_input=False)
    if not any(v["signature"].startswith("timestamp") for v in ck.viol):
        for i in res["ts"]:
            ck.violation("corr-timestamp", "model and implementation disagree on instant %s: real read back %s" % (tp[i][:2], tp[i][2]),
                         replay={"instants": [[tp[i][0], tp[i][1], 0]]}, found_input=False)
