(* Jwt/Model.v — C22: JWT bearer tokens in resource-server mode (executable definitions only).

   Go code modelled: internal/server/oauth/oauth.go ValidateJWT (result cache, expiry re-check,
   revocation check), jwt.go parseAndValidateJWT / selectVerificationKey (allowed algorithms, key
   selection, golang-jwt claim validation: exp required and now < exp, nbf, iss, aud), jwks.go
   keyByID / refreshJWKS / allKeys (the cached key set: when it is re-fetched — empty or older than
   the TTL, or an unknown kid unless a miss-triggered refresh happened less than 30 s ago — and that a
   successful fetch REPLACES it by the usable keys of the published document), the user extraction
   with ego.server.oauth.user.claim = "sub", and tokens.IsIDBlacklisted / tokens.Blacklist as a
   growing set of revoked token IDs.

   Cryptography is an oracle: key material is a number; a token carries the material that signed it
   (t_signer) and whether the signature bytes are intact (t_sig_valid); verification with the selected
   key succeeds iff the selected material is t_signer and t_sig_valid. *)
From Common Require Import Base.
Open Scope Z_scope.

Inductive alg := RS256 | RS384 | RS512 | ES256 | ES384 | ES512 | HS256 | PS256 | EdDSA | NoneAlg.

(* jwt.go selectVerificationKey: only *SigningMethodRSA and *SigningMethodECDSA pass the type switch *)
Definition alg_allowed (a : alg) : bool :=
  match a with RS256 | RS384 | RS512 | ES256 | ES384 | ES512 => true | _ => false end.

(* one entry of the IdP's JWKS document; k_usable = use is "" or "sig", kty RSA/EC, parses *)
Record jwk := mkK { k_kid : str; k_mat : nat; k_usable : bool }.
Definition keyset := list (str * nat).
Definition usable (doc : list jwk) : keyset := map (fun k => (k_kid k, k_mat k)) (filter k_usable doc).
Fixpoint find_kid (ks : keyset) (kid : str) : option nat :=
  match ks with [] => None | (k, m) :: r => if str_eqb k kid then Some m else find_kid r kid end.

Record token := mkT {
  t_alg : alg; t_kid : str; t_signer : nat; t_sig_valid : bool;
  t_iss : str; t_aud : list str; t_exp : option Z; t_nbf : option Z;
  t_jti : str; t_sub : str; t_client : str }.

(* iss/aud "" = not checked (jwt.go adds the option only when set); c_ttl = JWKS cache TTL in seconds *)
Record config := mkC { c_iss : str; c_aud : str; c_ttl : Z }.

Definition is_nil (s : str) : bool := match s with [] => true | _ => false end.
Definition client_prefix : str := [99; 108; 105; 101; 110; 116; 58]%N.   (* "client:" *)

(* oauth.go step 5 with UserClaim = "sub" *)
Definition user_of (t : token) : str :=
  if negb (is_nil (t_sub t)) then t_sub t
  else if negb (is_nil (t_client t)) then client_prefix ++ t_client t else [].

Definition iss_ok (c : config) (t : token) : bool := is_nil (c_iss c) || str_eqb (t_iss t) (c_iss c).
Definition aud_ok (c : config) (t : token) : bool := is_nil (c_aud c) || existsb (str_eqb (c_aud c)) (t_aud t).
Definition exp_ok (now : Z) (t : token) : bool := match t_exp t with Some e => now <? e | None => false end.
Definition nbf_ok (now : Z) (t : token) : bool := match t_nbf t with Some n => n <=? now | None => true end.

Record entry := mkE { e_user : str; e_exp : Z; e_jti : str }.
Record state := mkS {
  now : Z; cache : list (nat * entry); revoked : list str;
  published : list jwk;                  (* what the IdP serves now *)
  jwks : keyset; fetched_at : Z;         (* jwksCache.keys / fetchedAt (meaningless while keys = []) *)
  miss_last : option Z }.                (* missRefresh.last *)

Definition set_cache (s : state) (c : list (nat * entry)) : state :=
  mkS (now s) c (revoked s) (published s) (jwks s) (fetched_at s) (miss_last s).
Definition set_keys (s : state) (ks : keyset) : state :=
  mkS (now s) (cache s) (revoked s) (published s) ks (now s) (miss_last s).
Definition set_miss (s : state) : state :=
  mkS (now s) (cache s) (revoked s) (published s) (jwks s) (fetched_at s) (Some (now s)).

(* refreshJWKS: a document without usable keys is an error and leaves the cache alone *)
Definition refresh (s : state) : option state :=
  match usable (published s) with [] => None | ks => Some (set_keys s ks) end.
Definition refresh_find (s : state) (kid : str) : state * option nat :=
  match refresh s with None => (s, None) | Some s' => (s', find_kid (jwks s') kid) end.
Definition limited (s : state) : bool :=
  match miss_last s with Some l => now s - l <? 30 | None => false end.
Definition is_fresh (cfg : config) (s : state) : bool :=
  negb (match jwks s with [] => true | _ => false end) && (now s - fetched_at s <? c_ttl cfg).

(* jwks.go keyByID (kid <> "") *)
Definition key_by_id (cfg : config) (s : state) (kid : str) : state * option nat :=
  if is_fresh cfg s then
    match find_kid (jwks s) kid with
    | Some m => (s, Some m)
    | None => if limited s then (s, None) else refresh_find (set_miss s) kid
    end
  else refresh_find s kid.

(* jwt.go selectVerificationKey without kid: first cached key, fetching only when there is none *)
Definition first_key (s : state) : state * option nat :=
  match jwks s with
  | (_, m) :: _ => (s, Some m)
  | [] => match refresh s with
          | None => (s, None)
          | Some s' => (s', match jwks s' with (_, m) :: _ => Some m | [] => None end)
          end
  end.

Definition select_key (cfg : config) (s : state) (t : token) : state * option nat :=
  if negb (alg_allowed (t_alg t)) then (s, None)
  else if is_nil (t_kid t) then first_key s else key_by_id cfg s (t_kid t).

Definition claims_pass (c : config) (nw : Z) (t : token) : bool :=
  exp_ok nw t && nbf_ok nw t && aud_ok c t && iss_ok c t.

(* parseAndValidateJWT: key selection (may re-fetch the JWKS), signature, claims; Some exp = verified *)
Definition lib_verdict (c : config) (s : state) (t : token) : state * option Z :=
  let '(s', k) := select_key c s t in
  (s', match k with
       | Some m => if Nat.eqb m (t_signer t) && t_sig_valid t && claims_pass c (now s) t then t_exp t else None
       | None => None
       end).

Inductive outcome := Accept (user : str) | Revoked | Rejected.

Definition lookup (c : list (nat * entry)) (id : nat) : option entry :=
  match find (fun x => Nat.eqb (fst x) id) c with Some x => Some (snd x) | None => None end.
Definition evict (c : list (nat * entry)) (id : nat) : list (nat * entry) :=
  filter (fun x => negb (Nat.eqb (fst x) id)) c.
Definition is_revoked (rv : list str) (jti : str) : bool := negb (is_nil jti) && existsb (str_eqb jti) rv.

(* the cache-miss part of ValidateJWT (c = the result cache after a stale entry was dropped);
   fixed = repaired code (revocation consulted before caching) *)
Definition validate_miss (fixed : bool) (cfg : config) (s : state) (c : list (nat * entry)) (id : nat) (t : token)
  : state * outcome :=
  let '(s1, v) := lib_verdict cfg s t in
  match v with
  | None => (set_cache s1 c, Rejected)
  | Some e =>
      if fixed && is_revoked (revoked s) (t_jti t) then (set_cache s1 c, Revoked)
      else if is_nil (user_of t) then (set_cache s1 c, Rejected)
      else (set_cache s1 ((id, mkE (user_of t) e (t_jti t)) :: evict c id), Accept (user_of t))
  end.

Definition validate (fixed : bool) (cfg : config) (s : state) (id : nat) (t : token) : state * outcome :=
  match lookup (cache s) id with
  | Some e =>
      if now s <? e_exp e then
        if is_revoked (revoked s) (e_jti e)
        then (set_cache s (evict (cache s) id), Revoked)
        else (s, Accept (e_user e))
      else validate_miss fixed cfg s (evict (cache s) id) id t
  | None => validate_miss fixed cfg s (cache s) id t
  end.

Inductive op := Validate (id : nat) | Revoke (jti : str) | Advance (d : Z) | Evict (id : nat) | Purge
              | Rotate (doc : list jwk).      (* the IdP publishes a new JWKS document *)

Definition step (fixed : bool) (cfg : config) (toks : nat -> token) (s : state) (o : op) : state * option outcome :=
  match o with
  | Validate id => let '(s', r) := validate fixed cfg s id (toks id) in (s', Some r)
  | Revoke j => (mkS (now s) (cache s) (j :: revoked s) (published s) (jwks s) (fetched_at s) (miss_last s), None)
  | Advance d => (mkS (now s + Z.max 0 d) (cache s) (revoked s) (published s) (jwks s) (fetched_at s) (miss_last s), None)
  | Evict id => (set_cache s (evict (cache s) id), None)
  | Purge => (set_cache s [], None)
  | Rotate doc => (mkS (now s) (cache s) (revoked s) doc (jwks s) (fetched_at s) (miss_last s), None)
  end.

Definition run (fixed : bool) (cfg : config) (toks : nat -> token) (h : list op) (s : state) : state :=
  fold_left (fun s o => fst (step fixed cfg toks s o)) h s.

(* outcomes of all Validate ops of a history, in order (compared with the real code by the tie) *)
Fixpoint outcomes (fixed : bool) (cfg : config) (toks : nat -> token) (h : list op) (s : state) : list outcome :=
  match h with
  | [] => []
  | o :: r => let '(s', x) := step fixed cfg toks s o in
              match x with Some y => y :: outcomes fixed cfg toks r s' | None => outcomes fixed cfg toks r s' end
  end.

(* server start: nothing cached, no keys fetched yet; the IdP serves doc0 *)
Definition init (t0 : Z) (doc0 : list jwk) : state := mkS t0 [] [] doc0 [] 0 None.

(* the claim clauses of the property, as a decidable predicate on the token's own fields *)
Definition claims_ok (cfg : config) (nw : Z) (rv : list str) (t : token) : bool :=
  alg_allowed (t_alg t) && iss_ok cfg t && aud_ok cfg t && exp_ok nw t && nbf_ok nw t
  && negb (is_revoked rv (t_jti t)).

(* the key clause, on the state the validation leaves behind: the signature is intact and the signing
   material is what the cached key set holds for the token's kid (first key when there is no kid); with a
   kid, that key set was fetched less than the TTL ago *)
Definition key_now (cfg : config) (s2 : state) (t : token) : Prop :=
  t_sig_valid t = true /\
  if is_nil (t_kid t) then exists k r, jwks s2 = (k, t_signer t) :: r
  else find_kid (jwks s2) (t_kid t) = Some (t_signer t) /\ now s2 - fetched_at s2 < c_ttl cfg.

(* a result-cache hit: the signature is not verified again *)
Definition hit (s : state) (id : nat) : Prop := exists e, lookup (cache s) id = Some e /\ now s < e_exp e.

Definition accepted (r : state * outcome) : bool := match snd r with Accept _ => true | _ => false end.

(* observable codes for the tie *)
Definition outcome_code (o : outcome) : N := match o with Accept _ => 1 | Revoked => 2 | Rejected => 0 end.
Definition outcome_user (o : outcome) : str := match o with Accept u => u | _ => [] end.
Definition tok_table (tbl : list token) (dflt : token) (id : nat) : token := nth id tbl dflt.
