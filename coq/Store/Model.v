(* Store/Model.v — C30: the struct-backed resource store (internal/resources) over SQLite.
   Executable definitions only.  Strings are UTF-8 byte lists.

   Transliterated Go (tree after fixes 1e0c750d and 704512eb; the pinned behaviour is kept as *_old / step_nokey):
     filters.go   newFilter (column lookup by strings.EqualFold over r.Columns, first match; the exported
                  constructors have VALUE receivers so r.Err never reaches the shared handle), Filter.Generate
     generators.go readRowSQL / createTableSQL / doesTableExistSQL / insertSQL / updateSQL / deleteRowSQL
     read.go generateReadSQL, delete.go Delete, update.go Update: the loop over filters (nil skipped,
                  where/and rule, bind-parameter numbering), insert.go, create.go Create / CreateIf,
     modifiers.go SetDefaultPrimaryKey (exact names "id", "name", else column 0).
   SQLite is external: what a generated where-clause MEANS is the Section variable [wsem] (Engine); the
   statement texts themselves are modelled and compared byte for byte with the texts that reach the driver. *)
From Common Require Import Base.
From Coq Require Import String Ascii.
Open Scope N_scope.

Definition L (s : string) : str := List.map N_of_ascii (list_ascii_of_string s).

(* ---- values and rows *)
Inductive val := VS (s : str) | VI (z : Z) | VB (b : bool).
Definition row := list val.
Definition dflt : val := VI 0%Z.

Inductive cmpop := OpEq | OpNe | OpLt | OpGt.

Fixpoint str_cmp (a b : str) : comparison :=
  match a, b with
  | [], [] => Eq
  | [], _ :: _ => Lt
  | _ :: _, [] => Gt
  | x :: a', y :: b' => match N.compare x y with Eq => str_cmp a' b' | c => c end
  end.

Definition b2z (b : bool) : Z := if b then 1%Z else 0%Z.

(* SQLite comparison: INTEGER storage class sorts before TEXT; TEXT by memcmp (BINARY collation);
   a Go bool is bound and stored as the integer 0/1 *)
Definition val_cmp (a b : val) : comparison :=
  match a, b with
  | VS x, VS y => str_cmp x y
  | VS _, _ => Gt
  | _, VS _ => Lt
  | VI x, VI y => Z.compare x y
  | VI x, VB y => Z.compare x (b2z y)
  | VB x, VI y => Z.compare (b2z x) y
  | VB x, VB y => Z.compare (b2z x) (b2z y)
  end.

Definition op_holds (o : cmpop) (c : comparison) : bool :=
  match o, c with
  | OpEq, Eq => true
  | OpNe, Eq => false
  | OpNe, _ => true
  | OpLt, Lt => true
  | OpGt, Gt => true
  | _, _ => false
  end.

Definition cmp_val (o : cmpop) (a b : val) : bool := op_holds o (val_cmp a b).

(* ---- schema *)
Record column := mkcol { cname : str; csql : str; ctype : str }.

Definition lower (c : N) : N := if (65 <=? c) && (c <=? 90) then c + 32 else c.
(* strings.EqualFold on ASCII names *)
Definition eqfold (a b : str) : bool := str_eqb (List.map lower a) (List.map lower b).

Fixpoint find_col_from (i : nat) (cols : list column) (name : str) : option nat :=
  match cols with
  | [] => None
  | c :: r => if eqfold (cname c) name then Some i else find_col_from (S i) r name
  end.
Definition find_col := find_col_from 0.

Fixpoint find_exact_from (i : nat) (cols : list column) (name : str) : option nat :=
  match cols with
  | [] => None
  | c :: r => if str_eqb (cname c) name then Some i else find_exact_from (S i) r name
  end.

(* SetDefaultPrimaryKey with no column marked beforehand *)
Definition key_index (cols : list column) : nat :=
  match find_exact_from 0 cols (L "id") with
  | Some i => i
  | None => match find_exact_from 0 cols (L "name") with Some i => i | None => O end
  end.

(* ---- SQL text *)
Definition sql_ident (s : str) : str :=
  [34] ++ flat_map (fun c => if c =? 34 then [34; 34] else [c]) s ++ [34].

Fixpoint join (sep : str) (l : list str) : str :=
  match l with
  | [] => []
  | [x] => x
  | x :: r => x ++ sep ++ join sep r
  end.

Definition op_text (o : cmpop) : str :=
  match o with OpEq => L " = " | OpNe => L " <> " | OpLt => L " < " | OpGt => L " > " end.

Definition placeholder (k : N) : str := [36] ++ digits k.

Inductive wtok := TWhere | TAnd | TCond (ci : nat) (o : cmpop) (k : N).

Definition col_sql (cols : list column) (ci : nat) : str :=
  match nth_error cols ci with Some c => csql c | None => [] end.

Definition tok_text (cols : list column) (t : wtok) : str :=
  match t with
  | TWhere => L " where "
  | TAnd => L " and "
  | TCond ci o k => sql_ident (col_sql cols ci) ++ op_text o ++ placeholder k
  end.

Definition where_text (cols : list column) (w : list wtok) : str := flat_map (tok_text cols) w.

Fixpoint numbered {A} (i : nat) (l : list A) : list (nat * A) :=
  match l with [] => [] | x :: r => (i, x) :: numbered (S i) r end.

Definition read_row_sql (cols : list column) (tbl : str) : str :=
  L "select " ++ join (L ",") (List.map (fun c => sql_ident (csql c)) cols) ++ L " from " ++ sql_ident tbl ++ L " ".

Definition create_sql (cols : list column) (tbl : str) : str :=
  L "create table " ++ sql_ident tbl ++ L " (" ++
  join (L ",") (List.map (fun ic => sql_ident (csql (snd ic)) ++ L " " ++ ctype (snd ic) ++
                                  (if Nat.eqb (fst ic) (key_index cols) then L " primary key" else []))
                         (numbered 0 cols)) ++ L ")".

(* createTableSQL with the Primary flag on column k *)
Definition create_sql_k (cols : list column) (tbl : str) (k : nat) : str :=
  L "create table " ++ sql_ident tbl ++ L " (" ++
  join (L ",") (List.map (fun ic => sql_ident (csql (snd ic)) ++ L " " ++ ctype (snd ic) ++
                                  (if Nat.eqb (fst ic) k then L " primary key" else []))
                         (numbered 0 cols)) ++ L ")".

(* OrderBy(): " order by " + the SQL names (NOT quoted), ", " separated; nothing for an empty list *)
Definition order_text (cols : list column) (ord : list nat) : str :=
  match ord with
  | [] => []
  | _ => L " order by " ++ join (L ", ") (List.map (col_sql cols) ord)
  end.

Definition exists_sql (tbl : str) : str := L "select * from " ++ sql_ident tbl ++ L " where 1=0".

Definition insert_sql (cols : list column) (tbl : str) : str :=
  L "insert into " ++ sql_ident tbl ++ L "(" ++ join (L ", ") (List.map (fun c => sql_ident (csql c)) cols) ++
  L ") values(" ++ join (L ", ") (List.map (fun ic => placeholder (N.of_nat (S (fst ic)))) (numbered 0 cols)) ++ L ")".

Definition update_sql (cols : list column) (tbl : str) : str :=
  L "update " ++ sql_ident tbl ++ L " set " ++
  join (L ", ") (List.map (fun ic => sql_ident (csql (snd ic)) ++ L " = " ++ placeholder (N.of_nat (S (fst ic))))
                          (numbered 0 cols)).

Definition delete_sql (tbl : str) : str := L "delete from " ++ sql_ident tbl ++ L " ".

(* ---- statements that reach the driver *)
Inductive stmt :=
| SCreateTbl (k : nat)                                      (* k = the column flagged Primary *)
| SExists
| SInsert (args : list val)
| SSelect (w : list wtok) (args : list val) (ord : list nat) (* ord = r.OrderList *)
| SUpdate (w : list wtok) (args : list val)
| SDelete (w : list wtok) (args : list val).

Definition stmt_text (cols : list column) (tbl : str) (s : stmt) : str :=
  match s with
  | SCreateTbl k => create_sql_k cols tbl k
  | SExists => exists_sql tbl
  | SInsert _ => insert_sql cols tbl
  | SSelect w _ ord => read_row_sql cols tbl ++ where_text cols w ++ order_text cols ord
  | SUpdate w _ => update_sql cols tbl ++ where_text cols w
  | SDelete w _ => delete_sql tbl ++ where_text cols w
  end.

Definition stmt_args (s : stmt) : list val :=
  match s with
  | SCreateTbl _ | SExists => []
  | SInsert a | SSelect _ a _ | SUpdate _ a | SDelete _ a => a
  end.

(* ---- histories *)
Inductive fspec := FNil | FBy (name : str) (o : cmpop) (v : val).
Inductive op :=
| OCreate | OCreateIf
| OInsert (r : row)
| ORead (fs : list fspec)
| OUpdate (r : row) (fs : list fspec)
| ODelete (fs : list fspec)
| OSetKey (name : str)            (* SetPrimaryKey *)
| OSort (names : list str)        (* Sort *)
| OReadOne (v : val) | OUpdateOne (r : row) | ODeleteOne (v : val)
| OReopen.                        (* Close + Open: a fresh handle on the same database *)
Inductive res := RErr | ROk | RCount (n : N) | RRows (rs : list row).

(* what the filter constructors hand back: nil, the invalid-filter marker, or a filter *)
Inductive mfilter := MNil | MInvalid | MOk (ci : nat) (o : cmpop) (v : val).

Definition new_filter (cols : list column) (f : fspec) : mfilter :=
  match f with
  | FNil => MNil
  | FBy n o v => match find_col cols n with Some ci => MOk ci o v | None => MInvalid end
  end.

(* before 1e0c750d: unknown column -> r.Err set on a copy of the handle (lost), nil filter returned *)
Definition new_filter_old (cols : list column) (f : fspec) : mfilter :=
  match f with
  | FNil => MNil
  | FBy n o v => match find_col cols n with Some ci => MOk ci o v | None => MNil end
  end.

(* the loop over filters in generateReadSQL / Update / Delete.  nargs = len(args) before the loop
   (0, or the number of columns for Update); the first clause WRITTEN gets the where.
   None = the operation returns ErrInvalidFilter before anything reaches the database *)
Fixpoint build_where (fs : list mfilter) (nclauses nargs : nat) : option (list wtok * list val) :=
  match fs with
  | [] => Some ([], [])
  | MNil :: r => build_where r nclauses nargs
  | MInvalid :: _ => None
  | MOk ci o v :: r =>
      match build_where r (S nclauses) (S nargs) with
      | None => None
      | Some (t, a) => Some ((if Nat.eqb nclauses 0 then TWhere else TAnd) :: TCond ci o (N.of_nat (S nargs)) :: t, v :: a)
      end
  end.

(* before 1e0c750d: where/and chosen by the POSITION of the filter in the argument list *)
Fixpoint build_where_old (fs : list mfilter) (index nargs : nat) : list wtok * list val :=
  match fs with
  | [] => ([], [])
  | MOk ci o v :: r =>
      let '(t, a) := build_where_old r (S index) (S nargs) in
      ((if Nat.eqb index 0 then TWhere else TAnd) :: TCond ci o (N.of_nat (S nargs)) :: t, v :: a)
  | _ :: r => build_where_old r (S index) nargs
  end.

Definition cond := (nat * cmpop * N)%type.

(* "(and <cond>)*" *)
Fixpoint chain (toks : list wtok) : option (list cond) :=
  match toks with
  | [] => Some []
  | TAnd :: TCond ci o k :: r => option_map (cons (ci, o, k)) (chain r)
  | _ => None
  end.

Definition cond_holds (args : list val) (r : row) (c : cond) : bool :=
  let '(ci, o, k) := c in cmp_val o (nth ci r dflt) (nth (N.to_nat k - 1) args dflt).
Definition row_matches (cs : list cond) (args : list val) (r : row) : bool := forallb (cond_holds args r) cs.

Definition key_eqb (ki : nat) (a b : row) : bool :=
  match val_cmp (nth ki a dflt) (nth ki b dflt) with Eq => true | _ => false end.
Fixpoint keys_unique (ki : nat) (t : list row) : bool :=
  match t with
  | [] => true
  | r :: rest => negb (existsb (key_eqb ki r) rest) && keys_unique ki rest
  end.

Definition db := option (list row).

(* ---- ordering (ORDER BY c1, c2, ... ascending) *)
Fixpoint ord_cmp (ord : list nat) (a b : row) : comparison :=
  match ord with
  | [] => Eq
  | c :: r => match val_cmp (nth c a dflt) (nth c b dflt) with Eq => ord_cmp r a b | x => x end
  end.
Fixpoint insert_sorted (ord : list nat) (x : row) (l : list row) : list row :=
  match l with
  | [] => [x]
  | y :: r => match ord_cmp ord x y with Lt => x :: y :: r | _ => y :: insert_sorted ord x r end
  end.
(* the rows in ascending order of the listed columns; rows that tie keep their table order *)
Definition sort_rows (ord : list nat) (l : list row) : list row :=
  fold_left (fun acc x => insert_sorted ord x acc) l [].

(* Sort(names...): for each name every column it matches (EqualFold), in column order *)
Fixpoint cols_matching_from (i : nat) (cols : list column) (name : str) : list nat :=
  match cols with
  | [] => []
  | c :: r => (if eqfold name (cname c) then [i] else []) ++ cols_matching_from (S i) r name
  end.
Definition order_list (cols : list column) (names : list str) : list nat :=
  flat_map (cols_matching_from 0 cols) names.

Definition col_name (cols : list column) (ci : nat) : str :=
  match nth_error cols ci with Some c => cname c | None => [] end.
(* the column ReadOne / DeleteOne filter on: Equals(PrimaryKey(), key) looks the field NAME up again *)
Definition key_lookup (cols : list column) (k : nat) : option nat := find_col cols (col_name cols k).
(* the column UpdateOne filters on: Equals(r.Columns[keyIndex].SQLName, ...) looks the SQL name up as a field name *)
Definition upd_lookup (cols : list column) (k : nat) : option nat := find_col cols (col_sql cols k).

(* the handle: which column is flagged Primary (None until Create or SetPrimaryKey), OrderList;
   the database: the table and the column its primary-key constraint was created on *)
Record st := mkst { sdb : db; stk : nat; shk : option nat; sord : list nat }.
Definition st0 : st := mkst None O None [].

Section Engine.
  (* SQLite's reading of the where-clause token sequence: None = syntax error *)
  Variable wsem : list wtok -> option (list cond).
  (* SQLite's ORDER BY over the selected rows *)
  Variable osem : list nat -> list row -> list row.
  Variable cols : list column.

  Definition ncols := List.length cols.
  Definition ki := key_index cols.

  (* k = column of the table's primary-key constraint *)
  Definition exec (k : nat) (d : db) (s : stmt) : db * res :=
    match s, d with
    | SCreateTbl _, None => (Some [], ROk)
    | SCreateTbl _, Some _ => (d, RErr)
    | SExists, None => (d, RErr)
    | SExists, Some _ => (d, ROk)
    | _, None => (d, RErr)
    | SInsert a, Some t =>
        if existsb (key_eqb k a) t then (d, RErr) else (Some (t ++ [a]), ROk)
    | SSelect w a ord, Some t =>
        match wsem w with
        | None => (d, RErr)
        | Some cs => (d, RRows (osem ord (filter (row_matches cs a) t)))
        end
    | SDelete w a, Some t =>
        match wsem w with
        | None => (d, RErr)
        | Some cs => (Some (filter (fun r => negb (row_matches cs a r)) t),
                      RCount (N.of_nat (List.length (filter (row_matches cs a) t))))
        end
    | SUpdate w a, Some t =>
        match wsem w with
        | None => (d, RErr)
        | Some cs =>
            let nr := firstn ncols a in
            let t' := List.map (fun r => if row_matches cs a r then nr else r) t in
            if keys_unique k t' then (Some t', ROk) else (d, RErr)
        end
    end.

  Definition run_stmt (s : st) (q : stmt) : st * res :=
    let '(d', x) := exec (stk s) (sdb s) q in (mkst d' (stk s) (shk s) (sord s), x).

  (* Create(): SetDefaultPrimaryKey (before the statement runs), then CREATE TABLE *)
  Definition do_create (s : st) : st * res * list stmt :=
    let k := match shk s with Some k => k | None => ki end in
    match sdb s with
    | None => (mkst (Some []) k (Some k) (sord s), ROk, [SCreateTbl k])
    | Some _ => (mkst (sdb s) (stk s) (Some k) (sord s), RErr, [SCreateTbl k])
    end.

  (* filtered statement through the loop over filters; mk builds the statement *)
  Definition filtered (fl : mfilter -> mfilter) (s : st) (ms : list mfilter) (nargs : nat)
             (mk : list wtok -> list val -> stmt) : st * res * list stmt :=
    match build_where ms 0 nargs with
    | None => (s, RErr, [])
    | Some (w, a) => let q := mk w a in let '(s', x) := run_stmt s q in (s', x, [q])
    end.

  (* one operation on the handle: new state, result, statements that reached the driver *)
  Definition step (s : st) (o : op) : st * res * list stmt :=
    match o with
    | OCreate => do_create s
    | OCreateIf =>
        (* 704512eb: SetDefaultPrimaryKey first, also when the table is already there *)
        let k := match shk s with Some k => k | None => ki end in
        match sdb s with
        | Some _ => (mkst (sdb s) (stk s) (Some k) (sord s), ROk, [SExists])
        | None => let '(s', x, q) := do_create s in (s', x, SExists :: q)
        end
    | OInsert r => let q := SInsert r in let '(s', x) := run_stmt s q in (s', x, [q])
    | ORead fs => filtered id s (List.map (new_filter cols) fs) 0 (fun w a => SSelect w a (sord s))
    | OUpdate r fs => filtered id s (List.map (new_filter cols) fs) (List.length r) (fun w a => SUpdate w (r ++ a))
    | ODelete fs => filtered id s (List.map (new_filter cols) fs) 0 (fun w a => SDelete w a)
    | OSetKey n => (mkst (sdb s) (stk s) (find_col cols n) (sord s), ROk, [])
    | OSort ns => (mkst (sdb s) (stk s) (shk s) (order_list cols ns), ROk, [])
    | OReadOne v =>
        match shk s with
        | None => (s, RErr, [])
        | Some k =>
            let '(s', x, q) := filtered id s [new_filter cols (FBy (col_name cols k) OpEq v)] 0
                                        (fun w a => SSelect w a (sord s)) in
            (s', match x with RRows (r :: _) => RRows [r] | _ => RErr end, q)
        end
    | ODeleteOne v =>
        match shk s with
        | None => (s, RErr, [])
        | Some k =>
            let '(s', x, q) := filtered id s [new_filter cols (FBy (col_name cols k) OpEq v)] 0
                                        (fun w a => SDelete w a) in
            (s', match x with RCount 0 => RErr | RCount _ => ROk | _ => RErr end, q)
        end
    | OUpdateOne r =>
        match shk s with
        | None => (s, RErr, [])
        | Some k =>
            match nth_error r k with
            | None => (s, RErr, [])
            | Some v => filtered id s [new_filter cols (FBy (col_sql cols k) OpEq v)] (List.length r)
                                 (fun w a => SUpdate w (r ++ a))
            end
        end
    | OReopen => (mkst (sdb s) (stk s) None [], ROk, [])
    end.

  Definition step_old (s : st) (o : op) : st * res * list stmt :=
    match o with
    | ORead fs =>
        let '(w, a) := build_where_old (List.map (new_filter_old cols) fs) 0 0 in
        let q := SSelect w a (sord s) in let '(s', x) := run_stmt s q in (s', x, [q])
    | OUpdate r fs =>
        let '(w, a) := build_where_old (List.map (new_filter_old cols) fs) 0 (List.length r) in
        let q := SUpdate w (r ++ a) in let '(s', x) := run_stmt s q in (s', x, [q])
    | ODelete fs =>
        let '(w, a) := build_where_old (List.map (new_filter_old cols) fs) 0 0 in
        let q := SDelete w a in let '(s', x) := run_stmt s q in (s', x, [q])
    | _ => step s o
    end.

  (* before 704512eb: CreateIf on an existing table left the handle without a key column *)
  Definition step_nokey (s : st) (o : op) : st * res * list stmt :=
    match o, sdb s with
    | OCreateIf, Some _ => (s, ROk, [SExists])
    | _, _ => step s o
    end.

  Fixpoint run_from (stp : st -> op -> st * res * list stmt) (s : st) (h : list op) : st * list res :=
    match h with
    | [] => (s, [])
    | o :: r => let '(s', x, _) := stp s o in let '(s'', xs) := run_from stp s' r in (s'', x :: xs)
    end.
  Definition run (h : list op) : st * list res := run_from step st0 h.
  Definition run_old (h : list op) : st * list res := run_from step_old st0 h.
  Definition run_nokey (h : list op) : st * list res := run_from step_nokey st0 h.

  Fixpoint trace_from (s : st) (h : list op) : list (res * list stmt) :=
    match h with
    | [] => []
    | o :: r => let '(s', x, ss) := step s o in (x, ss) :: trace_from s' r
    end.
End Engine.

Definition results {A} (p : A * list res) : list res := snd p.

(* the reference reading: "where c (and c)*" or nothing *)
Definition wsem_ref (toks : list wtok) : option (list cond) :=
  match toks with
  | [] => Some []
  | TWhere :: TCond ci o k :: r => option_map (cons (ci, o, k)) (chain r)
  | _ => None
  end.
Definition osem_ref : list nat -> list row -> list row := sort_rows.

(* ---- the specification: a keyed in-memory table *)
Inductive sfilter := SF (ci : nat) (o : cmpop) (v : val).

(* None = unknown column; FNil = no constraint *)
Fixpoint resolve (cols : list column) (fs : list fspec) : option (list sfilter) :=
  match fs with
  | [] => Some []
  | FNil :: r => resolve cols r
  | FBy n o v :: r =>
      match find_col cols n, resolve cols r with
      | Some ci, Some l => Some (SF ci o v :: l)
      | _, _ => None
      end
  end.

Definition sf_holds (r : row) (f : sfilter) : bool := let '(SF ci o v) := f in cmp_val o (nth ci r dflt) v.
Definition spec_matches (fs : list sfilter) (r : row) : bool := forallb (sf_holds r) fs.

(* table operations on (rows, key column) *)
Definition t_read (sfs : list sfilter) (ord : list nat) (t : list row) : list row :=
  sort_rows ord (filter (spec_matches sfs) t).
Definition t_delete (sfs : list sfilter) (t : list row) : list row * nat :=
  (filter (fun r => negb (spec_matches sfs r)) t, List.length (filter (spec_matches sfs) t)).
Definition t_update (k : nat) (sfs : list sfilter) (nr : row) (t : list row) : option (list row) :=
  let t' := List.map (fun r => if spec_matches sfs r then nr else r) t in
  if keys_unique k t' then Some t' else None.

Definition spec_step (cols : list column) (s : st) (o : op) : st * res :=
  let upd d := mkst d (stk s) (shk s) (sord s) in
  match o with
  | OCreate | OCreateIf =>
      match sdb s, o with
      | Some _, OCreateIf => (mkst (sdb s) (stk s) (Some (match shk s with Some k => k | None => key_index cols end)) (sord s), ROk)
      | Some _, _ => (mkst (sdb s) (stk s) (Some (match shk s with Some k => k | None => key_index cols end)) (sord s), RErr)
      | None, _ => let k := match shk s with Some k => k | None => key_index cols end in
                   (mkst (Some []) k (Some k) (sord s), ROk)
      end
  | OSetKey n => (mkst (sdb s) (stk s) (find_col cols n) (sord s), ROk)
  | OSort ns => (mkst (sdb s) (stk s) (shk s) (order_list cols ns), ROk)
  | OReopen => (mkst (sdb s) (stk s) None [], ROk)
  | _ =>
    match sdb s with
    | None => (s, RErr)
    | Some t =>
      match o with
      | OInsert r => if existsb (key_eqb (stk s) r) t then (s, RErr) else (upd (Some (t ++ [r])), ROk)
      | ORead fs =>
          match resolve cols fs with
          | Some sfs => (s, RRows (t_read sfs (sord s) t))
          | None => (s, RErr)
          end
      | ODelete fs =>
          match resolve cols fs with
          | Some sfs => let '(t', n) := t_delete sfs t in (upd (Some t'), RCount (N.of_nat n))
          | None => (s, RErr)
          end
      | OUpdate nr fs =>
          match resolve cols fs with
          | Some sfs => match t_update (stk s) sfs nr t with Some t' => (upd (Some t'), ROk) | None => (s, RErr) end
          | None => (s, RErr)
          end
      (* the keyed operations: on the column the HANDLE has flagged; no flag -> not found *)
      | OReadOne v =>
          match shk s with
          | None => (s, RErr)
          | Some k => match t_read [SF k OpEq v] (sord s) t with r :: _ => (s, RRows [r]) | [] => (s, RErr) end
          end
      | ODeleteOne v =>
          match shk s with
          | None => (s, RErr)
          | Some k => let '(t', n) := t_delete [SF k OpEq v] t in
                      (upd (Some t'), match n with O => RErr | _ => ROk end)
          end
      | OUpdateOne nr =>
          match shk s with
          | None => (s, RErr)
          | Some k => match t_update (stk s) [SF k OpEq (nth k nr dflt)] nr t with
                      | Some t' => (upd (Some t'), ROk) | None => (s, RErr) end
          end
      | _ => (s, RErr)
      end
    end
  end.

Fixpoint spec_from (cols : list column) (s : st) (h : list op) : st * list res :=
  match h with
  | [] => (s, [])
  | o :: r => let '(s', x) := spec_step cols s o in let '(s'', xs) := spec_from cols s' r in (s'', x :: xs)
  end.
Definition spec_run (cols : list column) (h : list op) : st * list res := spec_from cols st0 h.

(* rows written by Insert/Update have one value per column (the Go struct guarantees it) *)
Definition op_wf (n : nat) (o : op) : bool :=
  match o with
  | OInsert r | OUpdate r _ | OUpdateOne r => Nat.eqb (List.length r) n
  | _ => true
  end.
Definition history_wf (cols : list column) (h : list op) : bool := forallb (op_wf (List.length cols)) h.

(* schema condition for the keyed operations: looking a column up by its own field name, or by its SQL
   name, finds that column (field names distinct under case folding, SQL name = lower-cased field name);
   and there is at least one column (SetDefaultPrimaryKey indexes Columns[0]) *)
Definition schema_ok (cols : list column) : bool :=
  negb (Nat.eqb (List.length cols) 0) &&
  forallb (fun k => match key_lookup cols k, upd_lookup cols k with
                    | Some a, Some b => Nat.eqb a k && Nat.eqb b k
                    | _, _ => false end) (seq 0 (List.length cols)).

(* every filter of the history names an existing column (or is nil) *)
Definition op_valid (cols : list column) (o : op) : bool :=
  match o with
  | ORead fs | OUpdate _ fs | ODelete fs => match resolve cols fs with Some _ => true | None => false end
  | _ => true
  end.
(* no explicit nil filter in front of a real one *)
Definition nil_then_real (fs : list fspec) : bool :=
  match fs with
  | FNil :: r => existsb (fun f => match f with FBy _ _ _ => true | FNil => false end) r
  | _ => false
  end.

Definition demo_cols : list column :=
  [ mkcol (L "ID") (L "id") (L "TEXT"); mkcol (L "Name") (L "name") (L "TEXT"); mkcol (L "Age") (L "age") (L "integer");
    mkcol (L "Active") (L "active") (L "boolean"); mkcol (L "Tags") (L "tags") (L "TEXT"); mkcol (L "Raw") (L "raw") (L "TEXT") ].
Definition demo_tbl : str := L "verif_t".

(* multiset comparison of row lists (SQLite's row order is not part of the observable) *)
Definition val_eqb (a b : val) : bool :=
  match a, b with
  | VS x, VS y => str_eqb x y
  | VI x, VI y => Z.eqb x y
  | VB x, VB y => Bool.eqb x y
  | _, _ => false
  end.
Fixpoint row_eqb (a b : row) : bool :=
  match a, b with
  | [], [] => true
  | x :: a', y :: b' => val_eqb x y && row_eqb a' b'
  | _, _ => false
  end.
Fixpoint remove_row (r : row) (l : list row) : option (list row) :=
  match l with
  | [] => None
  | x :: l' => if row_eqb r x then Some l' else option_map (cons x) (remove_row r l')
  end.
Fixpoint rows_perm (a b : list row) : bool :=
  match a with
  | [] => match b with [] => true | _ => false end
  | r :: a' => match remove_row r b with Some b' => rows_perm a' b' | None => false end
  end.
Definition res_eqb (a b : res) : bool :=
  match a, b with
  | RErr, RErr | ROk, ROk => true
  | RCount x, RCount y => N.eqb x y
  | RRows x, RRows y => rows_perm x y
  | _, _ => false
  end.
Definition vals_eqb (a b : list val) : bool := row_eqb a b.
