//go:build verif

package resources

// Overlaid into /repo/internal/resources by /verif/check C30.  Runs operation histories on a real
// ResHandle over a fresh SQLite file per history and reports, per operation, the SQL statements
// and bound arguments that reached the driver (recorded by a thin wrapping driver) and the result.
//
// VERIF_IN : one JSON object per line {"id":n,"ops":[{"op":"create|createif|insert|read|update|delete",
//             "rec":{...},"filters":[null|{"col":"Name","cmp":"eq|ne|lt|gt","kind":"s|i|b|u","val":...}]}]}
// VERIF_OUT: one JSON object per line {"id":n,"key":"<primary key column>","out":[{"stmts":[{"sql":..,"args":[..]}],
//             "res":"ok"|"err"|"count"|"rows","count":n,"rows":[rec...],"herr":bool}]}

import (
	"bufio"
	"database/sql"
	"database/sql/driver"
	"encoding/json"
	"fmt"
	"os"
	"path/filepath"
	"sync"
	"testing"

	"github.com/google/uuid"
)

type verifRec struct {
	ID     uuid.UUID
	Name   string
	Age    int
	Active bool
	Tags   []string
	Raw    json.RawMessage
}

type verifRecJSON struct {
	ID     string   `json:"ID"`
	Name   string   `json:"Name"`
	Age    int      `json:"Age"`
	Active bool     `json:"Active"`
	Tags   []string `json:"Tags"`
	Raw    string   `json:"Raw"`
}

type verifFilter struct {
	Col  string          `json:"col"`
	Cmp  string          `json:"cmp"`
	Kind string          `json:"kind"`
	Val  json.RawMessage `json:"val"`
}

type verifOp struct {
	Op      string         `json:"op"`
	Rec     *verifRecJSON  `json:"rec"`
	Filters []*verifFilter `json:"filters"`
	Name    string         `json:"name"`  // setkey
	Names   []string       `json:"names"` // sort
	Key     *verifFilter   `json:"key"`   // readone / deleteone: kind + val
}

type verifHistory struct {
	ID  int       `json:"id"`
	Ops []verifOp `json:"ops"`
}

type verifArg struct {
	S *string `json:"s,omitempty"`
	I *int64  `json:"i,omitempty"`
	B *bool   `json:"b,omitempty"`
	X string  `json:"x,omitempty"`
}

type verifStmt struct {
	SQL     string     `json:"sql"`
	Args    []verifArg `json:"args"`
	PrepErr bool       `json:"prep_err"`
}

type verifOut struct {
	Stmts []verifStmt    `json:"stmts"`
	Res   string         `json:"res"`
	Count int64          `json:"count"`
	Rows  []verifRecJSON `json:"rows"`
	HErr  bool           `json:"herr"`
}

// ---- recording driver

var (
	verifMu  sync.Mutex
	verifLog []verifStmt
)

type verifDriver struct{ inner driver.Driver }
type verifConn struct{ driver.Conn }
type verifStmtW struct {
	driver.Stmt
	q string
}

func (d *verifDriver) Open(name string) (driver.Conn, error) {
	c, err := d.inner.Open(name)
	if err != nil {
		return nil, err
	}

	return &verifConn{c}, nil
}

func (c *verifConn) Prepare(q string) (driver.Stmt, error) {
	s, err := c.Conn.Prepare(q)
	if err != nil {
		verifRecord(q, nil, true)

		return nil, err
	}

	return &verifStmtW{s, q}, nil
}

func verifRecord(q string, args []driver.Value, prepErr bool) {
	st := verifStmt{SQL: q, Args: []verifArg{}, PrepErr: prepErr}

	for _, a := range args {
		switch v := a.(type) {
		case string:
			st.Args = append(st.Args, verifArg{S: &v})
		case int64:
			st.Args = append(st.Args, verifArg{I: &v})
		case bool:
			st.Args = append(st.Args, verifArg{B: &v})
		default:
			st.Args = append(st.Args, verifArg{X: fmt.Sprintf("%T", a)})
		}
	}

	verifMu.Lock()
	verifLog = append(verifLog, st)
	verifMu.Unlock()
}

func (s *verifStmtW) Exec(args []driver.Value) (driver.Result, error) {
	verifRecord(s.q, args, false)

	return s.Stmt.Exec(args)
}

func (s *verifStmtW) Query(args []driver.Value) (driver.Rows, error) {
	verifRecord(s.q, args, false)

	return s.Stmt.Query(args)
}

func verifTake() []verifStmt {
	verifMu.Lock()
	defer verifMu.Unlock()

	r := verifLog
	verifLog = nil

	if r == nil {
		r = []verifStmt{}
	}

	return r
}

func (j *verifRecJSON) toRec() verifRec {
	u, _ := uuid.Parse(j.ID)
	tags := j.Tags

	if tags == nil {
		tags = []string{}
	}

	return verifRec{ID: u, Name: j.Name, Age: j.Age, Active: j.Active, Tags: tags, Raw: json.RawMessage(j.Raw)}
}

func verifFromRec(r *verifRec) verifRecJSON {
	tags := r.Tags
	if tags == nil {
		tags = []string{}
	}

	return verifRecJSON{ID: r.ID.String(), Name: r.Name, Age: r.Age, Active: r.Active, Tags: tags, Raw: string(r.Raw)}
}

func verifValue(f *verifFilter) any {
	switch f.Kind {
	case "s":
		var s string

		_ = json.Unmarshal(f.Val, &s)

		return s
	case "i":
		var i int

		_ = json.Unmarshal(f.Val, &i)

		return i
	case "b":
		var b bool

		_ = json.Unmarshal(f.Val, &b)

		return b
	case "u":
		var s string

		_ = json.Unmarshal(f.Val, &s)
		u, _ := uuid.Parse(s)

		return u
	}

	return nil
}

func verifMakeFilters(r *ResHandle, fs []*verifFilter) []*Filter {
	out := []*Filter{}

	for _, f := range fs {
		if f == nil {
			out = append(out, nil)

			continue
		}

		var v any

		switch f.Kind {
		case "s":
			var s string

			_ = json.Unmarshal(f.Val, &s)
			v = s
		case "i":
			var i int

			_ = json.Unmarshal(f.Val, &i)
			v = i
		case "b":
			var b bool

			_ = json.Unmarshal(f.Val, &b)
			v = b
		case "u":
			var s string

			_ = json.Unmarshal(f.Val, &s)
			u, _ := uuid.Parse(s)
			v = u
		}

		switch f.Cmp {
		case "eq":
			out = append(out, r.Equals(f.Col, v))
		case "ne":
			out = append(out, r.NotEquals(f.Col, v))
		case "lt":
			out = append(out, r.LessThan(f.Col, v))
		case "gt":
			out = append(out, r.GreaterThan(f.Col, v))
		}
	}

	return out
}

func TestVerifC30(t *testing.T) {
	in, err := os.Open(os.Getenv("VERIF_IN"))
	if err != nil {
		t.Fatal(err)
	}
	defer in.Close()

	outf, err := os.Create(os.Getenv("VERIF_OUT"))
	if err != nil {
		t.Fatal(err)
	}
	defer outf.Close()

	w := bufio.NewWriter(outf)
	defer w.Flush()

	// the wrapped driver is the one the package itself links in
	probe, err := sql.Open("sqlite", filepath.Join(t.TempDir(), "probe.db"))
	if err != nil {
		t.Fatal(err)
	}

	sql.Register("verifrec30", &verifDriver{inner: probe.Driver()})
	probe.Close()

	dir := t.TempDir()
	sc := bufio.NewScanner(in)
	sc.Buffer(make([]byte, 1<<22), 1<<22)

	for sc.Scan() {
		var h verifHistory
		if err := json.Unmarshal(sc.Bytes(), &h); err != nil {
			t.Fatalf("bad history: %v", err)
		}

		path := filepath.Join(dir, fmt.Sprintf("h%d.db", h.ID))

		// a fresh handle on the database file, its connection swapped for one through the recording driver
		openHandle := func() *ResHandle {
			r, err := Open(verifRec{}, "verif_t", "sqlite://"+path)
			if err != nil {
				t.Fatalf("open: %v", err)
			}

			_ = r.Database.Close()

			r.Database, err = sql.Open("verifrec30", path)
			if err != nil {
				t.Fatalf("open recording db: %v", err)
			}

			r.Database.SetMaxOpenConns(1)
			verifTake()

			return r
		}

		r := openHandle()

		outs := []verifOut{}

		for _, op := range h.Ops {
			o := verifOut{Rows: []verifRecJSON{}}

			switch op.Op {
			case "create":
				o.Res = verifErr(r.Create())
			case "createif":
				o.Res = verifErr(r.CreateIf())
			case "insert":
				o.Res = verifErr(r.Insert(op.Rec.toRec()))
			case "update":
				o.Res = verifErr(r.Update(op.Rec.toRec(), verifMakeFilters(r, op.Filters)...))
			case "delete":
				n, err := r.Delete(verifMakeFilters(r, op.Filters)...)
				if err != nil {
					o.Res = "err"
				} else {
					o.Res = "count"
					o.Count = n
				}
			case "read":
				items, err := r.Read(verifMakeFilters(r, op.Filters)...)
				if err != nil {
					o.Res = "err"
				} else {
					o.Res = "rows"

					for _, it := range items {
						o.Rows = append(o.Rows, verifFromRec(it.(*verifRec)))
					}
				}
			case "setkey":
				r.SetPrimaryKey(op.Name)
				o.Res = "ok"
			case "sort":
				r.Sort(op.Names...)
				o.Res = "ok"
			case "readone":
				it, err := r.ReadOne(verifValue(op.Key))
				if err != nil {
					o.Res = "err"
				} else {
					o.Res = "rows"
					o.Rows = append(o.Rows, verifFromRec(it.(*verifRec)))
				}
			case "updateone":
				o.Res = verifErr(r.UpdateOne(op.Rec.toRec()))
			case "deleteone":
				o.Res = verifErr(r.DeleteOne(verifValue(op.Key)))
			case "reopen":
				_ = r.Database.Close()
				r = openHandle()
				o.Res = "ok"
			default:
				t.Fatalf("bad op %q", op.Op)
			}

			o.Stmts = verifTake()
			o.HErr = r.Err != nil
			outs = append(outs, o)
		}

		_ = r.Database.Close()

		for _, sfx := range []string{"", "-wal", "-shm"} {
			_ = os.Remove(path + sfx)
		}

		b, _ := json.Marshal(map[string]any{"id": h.ID, "key": r.PrimaryKey(), "out": outs})
		w.Write(b)
		w.WriteString("\n")
	}
}

func verifErr(err error) string {
	if err != nil {
		return "err"
	}

	return "ok"
}
