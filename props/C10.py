"""C10 try/catch and defer run exactly when documented (internal/language/bytecode try.go catch.go defer.go
panic.go run.go callframe.go return.go + the compiler's emission for try/defer/return)."""
import json
import os
import re

import vf
import vm_util as U

GROUP = "VM"
THEOREMS = ["C10_catch_once", "C10_uncaught_stops", "C10_defers_rev_once", "C10_defers_spent",
            "C10_panic_defers_rev_once", "C10_recover_resumes_caller", "C10_old_refuted",
            "C10_failing_defer_skips_rest_old_refuted", "C10_defers_statement_holds",
            "C10_return_leaves_frame_clean", "C10_return_marker_old_refuted",
            "C10_step_preserves_shape", "C10_catch_preserves_shape", "C10_frame_pop_shape",
            "C10_exec_preserves_shape", "C10_dispatch_preserves_shape", "C10_run_u_is_run", "C10_run_preserves_shape",
            "C10_return_preserves_shape", "C10_unwind_panic_preserves_shape", "C10_try_marker_present_partial"]
META = {
    "group": "VM",
    "technique": "Coq proofs over an executable model of the bytecode interpreter's try/catch, defer, panic/recover and "
                 "return machinery (MiniEgo VM) + vm_compute correspondence of that model with the real VM on bytecode "
                 "dumped from the real compiler + a documented-order oracle on the real outputs",
    "text": "Theorems over the MiniEgo VM model (coq/VM), for all contexts/stacks/defer lists: C10_catch_once (a catchable "
            "error in a running context with a live try entry and its try marker anywhere below values, markers and call "
            "frames of called functions is redirected to that entry's catch address exactly once: entry spent, inner "
            "entries discarded, frames above popped), C10_uncaught_stops (no live entry: the loop returns the error, "
            "nothing else runs), C10_defers_rev_once / C10_panic_defers_rev_once (RunDefers and panic unwinding start "
            "ALL deferred calls of the frame in reverse registration order, once each, whatever any of them returns -- a "
            "call that fails or recovers does not stop the others; unguarded since fix b6774d66), C10_defers_spent (a "
            "second RunDefers starts nothing, fix a4adb034), C10_recover_resumes_caller (a recovered frame is popped and the "
            "caller resumes after the call), C10_return_leaves_frame_clean (a value return leaves nothing of the function "
            "above its call frame whatever markers surrounded it, fix 030cc3b3); the behaviour before each repair is kept "
            "as C10_old_refuted, C10_failing_defer_skips_rest_old_refuted, C10_return_marker_old_refuted. The model is run by "
            "vm_compute on the bytecode the real compiler emits for generated programs and compared with the real VM; the "
            "documented order (reference function) is compared with the real outputs. Six defects were found and repaired "
            "(a4adb034, b6774d66, 030cc3b3, 74b1e8a2, 4b25dcd5 for C10; the generator now nests loops in try blocks, leaves "
            "try blocks with break/continue and returns from nested try blocks). "
            "The stack-shape hypothesis of C10_catch_once is shown to be an invariant of the model's own semantics "
            "(coq/VM/Shape.v): C10_step_preserves_shape (every completing instruction that does not move call frames -- "
            "arithmetic, load/store, scopes, branches, print, markers, Try/TryPop, Defer, Recover -- plus Call and "
            "RunDefers), C10_catch_preserves_shape (the context a catch block starts in), C10_frame_pop_shape "
            "(callFramePop inside a function). "
            "Over whole runs (coq/VM/Shape2.v): C10_exec_preserves_shape (EVERY instruction of the model, completing or "
            "failing, Return in all operand forms, Dup, entry instructions), C10_dispatch_preserves_shape (instruction + "
            "catch redirection + panic unwinding), C10_run_preserves_shape (the context any run ends in -- normally, with "
            "an error, an unhandled panic or out of fuel -- is well shaped) hold for the frame part of the shape (frames "
            "well formed, frame pointer consistent) unless an instruction pops a call frame off an empty local stack, "
            "which is flagged (underflow / run_u; the Go VM loses the shape there too). "
            "partial: the result-register clause of between_instructions is only preserved outside Return(true)-with-"
            "temporaries (never emitted by the compiler), and that compiled code keeps a try marker below every live try "
            "entry is proved only for try blocks whose body is made of value-level instructions "
            "(C10_try_marker_present_partial: Try a; Push marker; value instructions), for bodies with calls, nested try "
            "blocks or other markers it is still observed by the correspondence, not proved; selective catch lists, named/multiple results, goroutines and the "
            "symbol-table visibility rules are outside the model",
    "note": "Trusted: Coq kernel; hand-written model coq/VM/Model.v tied to the code by the per-run correspondence; "
            "harness/C10 (dumper + in-package compile/run), lib/vm_util.py (translator dump->Coq, generator, reference).",
}

# fixed regression corpus: (name, source, expected [class, ints...], signature of the known finding or None)
CORPUS = [
    ("defers-once-after-caught-return-error", """@extensions true
func f0() int {
    defer func() {
        print 11
    }()
    try {
        z1 := 0
        return 10 / z1
    } catch {
        print 12
    }
    return 7
}
func main() {
    r1 := f0()
    print r1
}
""", [0, 11, 12, 7], None),
    ("catch-from-called-function", """@extensions true
func f0() int {
    print 1
    z1 := 0
    print 5 / z1
    print 2
    return 3
}
func f1() int {
    try {
        print 4
    } catch {
        print 5
    }
    r1 := f0()
    return r1
}
func main() {
    try {
        try {
            print 6
        } catch {
            print 7
        }
        f1()
        print 8
    } catch {
        print 9
        try {
            z2 := 0
            print 1 / z2
        } catch {
            print 10
        }
    }
    print 11
}
""", [0, 6, 4, 1, 9, 10, 11], None),
    ("panic-recover-nested", """@extensions true
func f2() int {
    defer func() {
        print 21
    }()
    panic(22)
    return 23
}
func f1() int {
    defer func() {
        p1 := recover()
        if p1 != nil {
            print p1
        }
        print 24
    }()
    defer func() {
        print 25
    }()
    f2()
    print 26
    return 27
}
func main() {
    r1 := f1()
    print r1
    print 28
}
""", [0, 21, 25, 22, 24, -3, 28], None),
    ("uncaught-stops", """@extensions true
func main() {
    try {
        print 1
    } catch {
        print 2
    }
    z1 := 0
    print 1 / z1
    print 3
}
""", [1, 1], None),
    ("panic-from-try-recovered-then-error", """@extensions true
func f0() int {
    defer func() {
        p1 := recover()
        if p1 != nil {
            print p1
        }
    }()
    try {
        panic(31)
    } catch {
        print 32
    }
    return 33
}
func main() {
    try {
        r1 := f0()
        print r1
        z1 := 0
        print 1 / z1
        print 34
    } catch {
        print 35
    }
    print 36
}
""", [0, 31, -3, 35, 36], None),
    ("failing-defer-then-own-catch-then-return", """@extensions true
func f0() int {
    defer func() {
        print 11
        z1 := 0
        print 1 / z1
        print 10
    }()
    defer func() {
        print 12
    }()
    try {
        return 7
    } catch {
        print 13
    }
    return 14
}
func main() {
    r1 := f0()
    print r1
    print 15
}
""", [0, 12, 11, 13, 14, 15], None),
    ("recover-in-defer-not-registered-first", """@extensions true
func f0() int {
    defer func() {
        print 21
    }()
    defer func() {
        print 22
    }()
    defer func() {
        p1 := recover()
        if p1 != nil {
            print p1
        }
        print 23
    }()
    defer func() {
        print 24
    }()
    panic(25)
    return 20
}
func main() {
    r1 := f0()
    print r1
    print 26
}
""", [0, 24, 25, 23, 22, 21, -3, 26], None),
    ("recover-in-caller-with-earlier-cleanup", """@extensions true
func f2() int {
    defer func() {
        print 31
    }()
    panic(32)
    return 30
}
func f1() int {
    f2()
    print 33
    return 34
}
func f0() int {
    defer func() {
        print 35
    }()
    defer func() {
        p1 := recover()
        if p1 != nil {
            print p1
        }
    }()
    f1()
    print 36
    return 37
}
func main() {
    try {
        f0()
        print 38
    } catch {
        print 39
    }
}
""", [0, 31, 32, 35, 38], None),
    ("failing-defer-skips-rest", """@extensions true
func f0() int {
    defer func() {
        print 41
    }()
    defer func() {
        print 42
        z1 := 0
        print 1 / z1
    }()
    try {
        return 1
    } catch {
        print 43
    }
    return 44
}
func main() {
    r1 := f0()
    print r1
}
""", [0, 42, 41, 43, 44], None),
    ("nested-defer-function-falls-off-end", """@extensions true
func f1() {
    print 51
}
func f0() {
    if 1 == 1 {
        defer f1()
    }
    print 52
}
func f2() {
    if 1 == 1 {
        defer f1()
        print 53
    }
    try {
        if 1 == 1 {
            defer f0()
        }
        print 54
    } catch {
        print 55
    }
    print 56
}
func main() {
    f0()
    print 57
    f2()
    print 58
}
""", [0, 52, 51, 57, 53, 54, 56, 52, 51, 51, 58], None),
    ("for-loop-in-try", """@extensions true
func main() {
    try {
        for i := 0; i < 2; i = i + 1 {
            print 1
        }
        x := 0
        print 1 / x
        print 2
    } catch {
        print 3
    }
    print 4
}
""", [0, 1, 1, 3, 4], None),
    ("loop-exit-from-try", """@extensions true
func f0() int {
    for i := 0; i < 2; i = i + 1 {
        try {
            if i == 0 {
                continue
            }
            print 1
        } catch {
            print 2
        }
    }
    print 3
    x := 0
    print 1 / x
    print 4
    return 5
}
func main() {
    try {
        f0()
        print 6
    } catch {
        print 7
    }
    print 8
}
""", [0, 1, 3, 7, 8], None),
    ("return-in-nested-try", """@extensions true
func f0() int {
    try {
        try {
            return 1
        } catch {
            print 2
        }
    } catch {
        print 3
    }
    return 4
}
func main() {
    r1 := f0()
    print r1
    print 5
}
""", [0, 1, 5], None),
]


def observe(out, err):
    ints = []
    for l in out.splitlines():
        l = l.strip()
        if re.fullmatch(r"-?\d+", l):
            ints.append(int(l))
        elif l == "<nil>":
            ints.append(-3)
    cls = 0
    if err:
        cls = 2 if "panic" in err.lower() else 1
    return [cls] + ints


def build_harness(ck):
    return vf.go_test_build(ck.work, "internal/language/compiler", {
        "internal/language/compiler/zz_verif_c10_test.go": os.path.join(vf.HARNESS, "C10", "c10_test.go"),
        "internal/language/bytecode/zz_verif_dump.go": os.path.join(vf.HARNESS, "C10", "dump.go")}, "c10.test")


def run_harness(ck, binp, srcs, tag="", env=None):
    inp = os.path.join(ck.work, "in%s.json" % tag)
    outp = os.path.join(ck.work, "out%s.json" % tag)
    with open(inp, "w") as f:
        json.dump([{"id": i, "src": s} for i, s in enumerate(srcs)], f)
    e = {"VERIF_IN": inp, "VERIF_OUT": outp}
    e.update(env or {})
    rc, log = vf.run_bin(binp, "^TestVerifC10$", e)
    if rc != 0 or not os.path.exists(outp):
        return None, log
    return json.load(open(outp)), log


def model_eval(ck, terms, name, debug=False, fuel=30000):
    """terms: list of Coq program terms -> list of [class, ints...] by vm_compute, or (None, log)"""
    if not terms:
        return []
    pre = ("From Coq Require Import ZArith NArith List.\nImport ListNotations.\nFrom VM Require Import Model.\n"
           + "\n".join("Definition p%d : program := %s." % (k, t) for k, t in enumerate(terms)))
    ex = {"r%d" % k: "run_program %d p%d" % (fuel, k) for k in range(len(terms))}
    ok, out = vf.coq_eval(GROUP, ck.work, name, pre, ex, timeout=900)
    if not ok:
        return None, out
    return [out["r%d" % k] for k in range(len(terms))]


def run(ck):
    quick = ck.tier == "quick"
    ck.cov["rule"] = ("generated Ego programs (1-4 functions + main) nesting try/catch, defer (closure with/without recover, "
                      "deferred call), panic, return (plain, value, failing expression), three-clause loops with "
                      "break/continue, calls as statement and as value; every action prints an integer marker. "
                      "distinct_nontrivial = distinct programs whose real run printed >= 3 markers and that contain at "
                      "least two of {try, defer, panic, loop, call}")
    ck.assume("stack-shape invariant (try marker present below the error point, call frames saved the frame pointer of the "
              "stack below them, result register empty between instructions) is a hypothesis of C10_catch_once; compiled "
              "code is observed, not proved, to keep it",
              "symbol tables are modelled by plain parent-chain lookup (generated programs use unique names)",
              "functions abandoned by an error that unwinds to a try in a caller do not run their deferred calls (the "
              "documentation is silent; the reference follows the VM)",
              "a deferred call runs in a context of its own: an error or unrecovered panic leaving it is an error at the "
              "return point (normal path) or ends the context's run (panic path) -- reference and model follow defer.go")
    ck.trusted("harness/C10/dump.go + c10_test.go (in-package overlay: real compiler, real VM, fd 1 captured)",
               "lib/vm_util.py: translator dump -> Coq term, generator, reference semantics; props/C10.py comparison",
               "correspondence evaluated by vm_compute in generated case files")
    ck.coq_stage(GROUP, theorems=THEOREMS)

    ok, binp = build_harness(ck)
    if not ok:
        ck.violation("harness-build", "harness for internal/language/compiler does not build:\n" + binp[-1500:],
                     replay={"log": binp[-3000:]}, found_input=False)
        return

    # ---------------------------------------------------------------- inputs
    progs, srcs, expect, sigs, names = [], [], [], [], []
    if ck.replay_file:
        rp = json.load(open(ck.replay_file))["replay"]
        srcs.append(rp["src"])
        progs.append(rp.get("prog"))
        expect.append(rp.get("expected"))
        sigs.append(None)
        names.append("replay")
    else:
        for name, src, exp, sig in CORPUS:
            progs.append(None)
            srcs.append(src)
            expect.append(exp)
            sigs.append(sig)
            names.append(name)
        n = 100 if quick else 1500
        for i in range(n):
            p = U.gen_program(ck.rng)
            progs.append(p)
            srcs.append(U.render(p))
            expect.append(None)
            sigs.append(None)
            names.append("gen%d" % i)

    res, log = run_harness(ck, binp, srcs)
    if res is None:
        ck.violation("harness-run", "harness failed:\n" + log[-1500:], replay={"log": log[-3000:]}, found_input=False)
        return

    # ---------------------------------------------------------------- property oracle on the real outputs
    real, nontriv, skipped_undoc, ncompile_err, nskiprest = [], set(), 0, 0, 0
    feat = {"try": 0, "defer": 0, "panic(": 0, "for ": 0, "recover()": 0, "return 1 /": 0}
    shapes = {"failing_deferred_call": sum(1 for p in progs if p and U.has_failing_defer(p)),
              "defer_heavy_recover_not_first": sum(1 for sx in srcs if sx.count("defer") >= 2 and "recover()" in sx and "panic(" in sx),
              "function_without_result_falls_off_end": sum(1 for p in progs if p and any(f.get("final") is None for f in p["funs"])),
              "nested_named_defer_no_toplevel_decl": sum(1 for p in progs if p and any(
                  f.get("final") is None and all(x[0] in ("print", "ifc", "call", "try") for x in f["body"])
                  and any(x[0] == "ifc" and any(y[0] == "defer_call" for y in x[2]) for x in f["body"]) for f in p["funs"])),
              "return_in_try_with_defers": sum(1 for sx in srcs if re.search(r"defer[\s\S]*try \{\s*(print \d+\s*)?(z\d+ := 0\s*)?return", sx) is not None)}
    oracle_viol = False
    oracle_bad = set()
    for i, r in enumerate(res):
        if r["compile_err"]:
            ncompile_err += 1
            real.append(None)
            ck.violation("generated-program-rejected", "the compiler rejects a generated program: %s" % r["compile_err"],
                         replay={"src": srcs[i]}, found_input=False)
            continue
        o = observe(r["out"], r["err"])
        real.append(o)
        for k in feat:
            if k in srcs[i]:
                feat[k] += 1
        if len(o) >= 4 and sum(1 for k in ("try", "defer", "panic(", "for ", "f1()") if k in srcs[i]) >= 2:
            nontriv.add(srcs[i])
        want = expect[i]
        sig = sigs[i]
        if want is None and progs[i] is not None:
            cls, tr = U.ref_trace(progs[i])
            if cls == 3:
                skipped_undoc += 1
                continue
            want = [cls] + tr
        if want is not None and o != want:
            oracle_viol = oracle_viol or sig is None
            if sig is None:
                oracle_bad.add(i)
            ck.violation(sig or "doc-order",
                         "program %s: real trace %s (error %r) differs from the documented order %s" % (
                             names[i], o, r["err"], want),
                         replay={"src": srcs[i], "prog": progs[i], "expected": want, "real": o, "error": r["err"]})
    ck.cov["evaluations"] = len(srcs)
    ck.cov["distinct_nontrivial"] = len(nontriv)
    ck.cov["input_distribution"] = {"programs": len(srcs), "corpus": len(CORPUS) if not ck.replay_file else 0,
                                    "with_feature": feat, "shapes": shapes, "oracle_skipped_budget": skipped_undoc,
                                    "real_outcomes": {str(c): sum(1 for o in real if o and o[0] == c) for c in (0, 1, 2)}}
    for i in range(min(3, len(srcs))):
        ck.sample({"program": names[i], "real": real[i]})
    for i in range(len(CORPUS), min(len(CORPUS) + 3, len(srcs))):
        ck.sample({"program": names[i], "src": srcs[i][:600], "real": real[i]})

    # ---------------------------------------------------------------- the real binary agrees with the harness
    if not ck.replay_file:
        okb, ego = vf.build_ego()
        if not okb:
            ck.violation("ego-build", "ego binary does not build:\n" + ego[-1500:], replay={"log": ego[-3000:]}, found_input=False)
        else:
            env = vf.ego_env(ck.work)
            nb = 0
            warm = os.path.join(ck.work, "warm.ego")
            open(warm, "w").write("@extensions true\nfunc main() {\n    print 1\n}\n")
            vf.sh([ego, "run", warm], env=env, timeout=120)      # first run unpacks lib/ next to the binary
            for i in list(range(len(CORPUS))) + list(range(len(CORPUS), len(srcs), max(1, len(srcs) // 25))):
                if real[i] is None:
                    continue
                pth = os.path.join(ck.work, "p%d.ego" % i)
                open(pth, "w").write(srcs[i])
                p = __import__("subprocess").run([ego, "run", pth], env=env, capture_output=True, text=True, timeout=60)
                ob = observe(p.stdout, p.stderr if p.returncode != 0 else "")
                nb += 1
                if ob != real[i] and not (ob[1:] == real[i][1:] and (ob[0] != 0) == (real[i][0] != 0)):
                    ck.violation("binary-vs-harness", "ego run and the in-package harness disagree on %s: %s vs %s" % (
                        names[i], ob, real[i]), replay={"src": srcs[i]}, found_input=False)
            ck.cov["input_distribution"]["also_run_with_ego_binary"] = nb

    # ---------------------------------------------------------------- correspondence: model on the real bytecode
    if getattr(ck, "coq_broken", None):
        return
    terms, idx, unsup = [], [], {}
    for i, r in enumerate(res):
        if real[i] is None:
            continue
        try:
            t, _, _ = U.dump_to_coq(r["dump"])
        except U.Unsupported as e:
            unsup[str(e)] = unsup.get(str(e), 0) + 1
            continue
        terms.append(t)
        idx.append(i)
    ck.cov["input_distribution"]["outside_modelled_opcodes"] = unsup
    mres = model_eval(ck, terms, "cases")
    if isinstance(mres, tuple):
        ck.violation("correspondence-eval", "model evaluation failed:\n" + mres[1][-1500:], replay={"log": mres[1][-3000:]},
                     found_input=False)
        return
    ck.cov["traces_validated_against_impl"] = len(idx)
    if len(idx) * 10 < len(srcs) * 9:
        ck.violation("model-coverage", "only %d of %d programs lie inside the modelled opcode set: %s" % (len(idx), len(srcs), unsup),
                     replay={"unsupported": unsup}, found_input=False)
    for k, i in enumerate(idx):
        if mres[k] != real[i] and i not in oracle_bad:
            ck.violation("corr-vm", "model VM and real VM disagree on the real bytecode of %s: model %s real %s" % (
                names[i], mres[k], real[i]), replay={"src": srcs[i], "prog": progs[i], "model": mres[k], "real": real[i]},
                found_input=False)
