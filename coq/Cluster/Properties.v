(* Cluster/Properties.v — C29: cluster cache invalidation is bounded and complete.
   States are arbitrary (any table size, any reachability, any in-flight requests) unless a theorem says
   "exec (cluster ns) l" (then: any node list ns, any run l of purges, stores, deliveries in any order, drops,
   membership and reachability changes, forged requests). *)
From Cluster Require Import Model Proofs.
Open Scope Z_scope.

Definition C29_statement : Prop :=
  (* complete: a purge addresses every active peer (first hop), reachable peers get it in flight, the origin discards *)
  (forall s n c p, In (p, true) (table s) -> p <> n ->
      In (mkMsg p c origin_hops n) (snd (step s (PurgeAt n c)))
      /\ (memz p (down s) = false -> In (mkMsg p c origin_hops n) (net (fst (step s (PurgeAt n c))))))
  /\ (forall s n c, has (present (fst (step s (PurgeAt n c)))) n c = false)
  (* every delivered peer discards *)
  /\ (forall ns l i m, nth_error (net (exec (cluster ns) l)) i = Some m ->
        has (present (fst (step (exec (cluster ns) l) (Deliver i)))) (mto m) (mcache m) = false)
  (* bounded: one purge = exactly one request per active peer; a whole run sends exactly its purges' budgets *)
  /\ (forall s n c, length (snd (step s (PurgeAt n c))) = length (peers s n)
                    /\ (length (peers s n) <= length (table s))%nat)
  /\ (forall s l, length (sends s l) = budget s l)
  (* never re-broadcast: handling any request, genuine or forged, sends nothing *)
  /\ (forall s i, snd (step s (Deliver i)) = [])
  /\ (forall s m, snd (step s (Forge m)) = []).

Theorem C29_complete : forall s n c p,
  In (p, true) (table s) -> p <> n ->
  In (mkMsg p c origin_hops n) (snd (step s (PurgeAt n c)))
  /\ (memz p (down s) = false -> In (mkMsg p c origin_hops n) (net (fst (step s (PurgeAt n c))))).
Proof. intros. split; [apply purge_reaches_peer|intros; apply purge_in_flight]; assumption. Qed.

Theorem C29_origin_discards : forall s n c, has (present (fst (step s (PurgeAt n c)))) n c = false.
Proof. exact purge_discards_origin. Qed.

Theorem C29_delivered_peer_discards : forall ns l i m,
  nth_error (net (exec (cluster ns) l)) i = Some m ->
  has (present (fst (step (exec (cluster ns) l) (Deliver i)))) (mto m) (mcache m) = false.
Proof. exact delivered_peer_discards. Qed.

Theorem C29_bounded : forall s n c,
  length (snd (step s (PurgeAt n c))) = length (peers s n)
  /\ (length (peers s n) <= length (table s))%nat
  /\ (In n (map fst (table s)) -> (length (peers s n) < length (table s))%nat)
  /\ (forall m, In m (snd (step s (PurgeAt n c))) ->
        In (mto m, true) (table s) /\ mto m <> n /\ mcache m = c /\ mhops m = origin_hops).
Proof.
  intros s n c. split; [apply (step_out_length s (PurgeAt n c))|].
  split; [apply peers_le|]. split; [apply peers_lt|apply only_peers_addressed].
Qed.

Theorem C29_run_bounded : forall s l, length (sends s l) = budget s l.
Proof. intros. apply sends_budget. Qed.

Theorem C29_no_feedback : forall s l, forallb (fun a => negb (is_purge a)) l = true -> sends s l = [].
Proof. intros. apply no_purge_no_sends; assumption. Qed.

Theorem C29_no_rebroadcast : forall s,
  (forall i, snd (step s (Deliver i)) = [])
  /\ (forall m, snd (step s (Forge m)) = [])
  /\ (forall i m, nth_error (net s) i = Some m -> length (net (fst (step s (Deliver i)))) = pred (length (net s))).
Proof.
  intros s. split; [|split].
  - intros i. cbn [step]. destruct (nth_error (net s) i); [apply receive_silent|reflexivity].
  - intros m. apply receive_silent.
  - intros i m H. apply (deliver_shrinks s i m H).
Qed.

Theorem C29_holds : C29_statement.
Proof.
  repeat split.
  - apply purge_reaches_peer; assumption.
  - intros. apply purge_in_flight; assumption.
  - apply purge_discards_origin.
  - apply delivered_peer_discards.
  - apply (step_out_length s (PurgeAt n c)).
  - apply peers_le.
  - intros. apply sends_budget.
  - intros s i. apply (C29_no_rebroadcast s).
  - intros s m. apply receive_silent.
Qed.

(* the handler as it was before CLUSTER-1 (it called caches.Purge) re-broadcasts: two nodes trade flushes *)
Theorem C29_old_refuted : exists s m, snd (receive_old s m) <> [].
Proof. exists (cluster [1; 2]), (mkMsg 2 0 1 1). vm_compute. discriminate. Qed.

(* ---------- non-vacuity *)
Definition ex_run : list act :=
  [Store 2 0; Store 3 0; Store 1 0; SetDown 4 true; PurgeAt 1 0; Deliver 1; SetState 2 false; PurgeAt 3 0].

Example C29_complete_ex :
  let s := exec (cluster [1; 2; 3; 4]) (firstn 4 ex_run) in
  In (3, true) (table s) /\ 3 <> 1 /\ memz 3 (down s) = false
  /\ snd (step s (PurgeAt 1 0)) = [mkMsg 2 0 1 1; mkMsg 3 0 1 1; mkMsg 4 0 1 1]
  /\ net (fst (step s (PurgeAt 1 0))) = [mkMsg 2 0 1 1; mkMsg 3 0 1 1].
Proof. vm_compute. repeat split; auto. discriminate. Qed.

Example C29_origin_discards_ex :
  let s := exec (cluster [1; 2; 3; 4]) (firstn 4 ex_run) in
  has (present s) 1 0 = true /\ has (present (fst (step s (PurgeAt 1 0)))) 1 0 = false.
Proof. vm_compute. split; reflexivity. Qed.

Example C29_delivered_peer_discards_ex :
  let s := exec (cluster [1; 2; 3; 4]) (firstn 5 ex_run) in
  nth_error (net s) 1 = Some (mkMsg 3 0 1 1) /\ has (present s) 3 0 = true
  /\ has (present (fst (step s (Deliver 1)))) 3 0 = false /\ has (present (fst (step s (Deliver 1)))) 2 0 = true.
Proof. vm_compute. repeat split. Qed.

Example C29_bounded_ex :
  let s := exec (cluster [1; 2; 3; 4]) (firstn 7 ex_run) in
  length (snd (step s (PurgeAt 3 0))) = 2%nat /\ length (peers s 3) = 2%nat /\ In 3 (map fst (table s)).
Proof. vm_compute. repeat split; auto. Qed.

Example C29_run_bounded_ex :
  length (sends (cluster [1; 2; 3; 4]) ex_run) = 5%nat /\ budget (cluster [1; 2; 3; 4]) ex_run = 5%nat.
Proof. vm_compute. split; reflexivity. Qed.

Example C29_no_feedback_ex :
  let s := exec (cluster [1; 2; 3]) [PurgeAt 1 0; PurgeAt 2 1] in
  let l := [Deliver 3; Deliver 0; Forge (mkMsg 2 0 3 9); Deliver 1; Deliver 0; Forge (mkMsg 1 1 9 9)] in
  length (net s) = 4%nat /\ forallb (fun a => negb (is_purge a)) l = true /\ sends s l = []
  /\ net (exec s l) = [].
Proof. vm_compute. repeat split. Qed.

Example C29_no_rebroadcast_ex :
  let s := exec (cluster [1; 2; 3]) [Store 2 0; PurgeAt 1 0] in
  nth_error (net s) 0 = Some (mkMsg 2 0 1 1) /\ snd (step s (Deliver 0)) = []
  /\ length (net (fst (step s (Deliver 0)))) = 1%nat
  /\ has (present (fst (step s (Forge (mkMsg 2 0 5 7))))) 2 0 = true.
Proof. vm_compute. repeat split. Qed.

Example C29_holds_ex : C29_statement.
Proof. exact C29_holds. Qed.

Example C29_old_refuted_ex :
  snd (receive_old (cluster [1; 2]) (mkMsg 2 0 1 1)) = [mkMsg 1 0 1 2].
Proof. reflexivity. Qed.
