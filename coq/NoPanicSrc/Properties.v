(* NoPanicSrc/Properties.v — property theorems of C07 (partial: one theorem per modelled kernel). *)
From Common Require Import Base.
From Coq Require Import ZArith List Bool.
From NoPanicSrc Require Import Model Proofs.
Import ListNotations.
Open Scope Z_scope.

(* The full statement (not proved: the model covers the kernels below, not the whole interpreter):
   for every source text, compile-and-run ends in output, an Ego error or a timeout. Kept visible. *)
Definition C07_statement (run : str -> res unit) : Prop := forall src : str, run src <> Panic.

(* lexer: after every scanned token the crush table is tried over the tail window and the
   imaginary suffix is merged; for ANY crush table and ANY raw token sequence no index leaves the
   token slice *)
Theorem C07_lexer_no_panic : forall (table : list crush) (cl : classes) (raw : list tok),
  lex_post table cl raw <> Panic.
Proof. exact lex_post_no_panic. Qed.

Theorem C07_get_token_text_no_panic : forall (toks : list tok) (start e : Z), get_token_text toks start e <> Panic.
Proof. exact (@get_token_text_no_panic tok). Qed.

Theorem C07_get_tokens_no_panic : forall (toks : list tok) (p1 p2 : Z), get_tokens toks p1 p2 <> Panic.
Proof. exact (@get_tokens_no_panic tok). Qed.

Theorem C07_peek_no_panic : forall (toks : list tok) (tp off : Z), peek toks tp off <> Panic.
Proof. exact (@peek_no_panic tok). Qed.

Theorem C07_remainder_no_panic : forall (poss : list Z) (tp : Z) (src : str), remainder poss tp src <> Panic.
Proof. exact remainder_no_panic. Qed.

Theorem C07_delete_no_panic : forall (toks : list tok) (tp s e : Z), tok_delete toks tp s e <> Panic.
Proof. exact (@tok_delete_no_panic tok). Qed.

Theorem C07_insert_no_panic : forall (toks : list tok) (tp pos : Z) (ins : list tok), tok_insert toks tp pos ins <> Panic.
Proof. exact (@tok_insert_no_panic tok). Qed.

(* @test: the repaired directive never indexes an empty description; whatever Unquote answers *)
Theorem C07_test_desc_no_panic : forall (unq : str -> option str) (s : str), test_desc true unq s <> Panic.
Proof. exact test_desc_no_panic. Qed.

(* before the repair: the empty description ("@test" at end of tokens, or @test "") panicked *)
Theorem C07_test_desc_old_refuted : exists unq s, test_desc false unq s = Panic.
Proof. exact test_desc_old_refuted. Qed.

Theorem C07_rune_lit_no_panic : forall (s : str) (uq : str -> option N) (rn : str -> list N), rune_lit s uq rn <> Panic.
Proof. exact rune_lit_no_panic. Qed.

Theorem C07_radix_probe_no_panic : forall text : str, radix_probe text <> Panic.
Proof. exact radix_probe_no_panic. Qed.

Theorem C07_macro_strip_no_panic : forall (semi : tok) (toks : list tok), macro_strip true semi toks <> Panic.
Proof. exact macro_strip_no_panic. Qed.

Theorem C07_macro_strip_old_refuted : exists semi, macro_strip false semi [] = Panic.
Proof. exact macro_strip_old_refuted. Qed.

Theorem C07_pop_no_panic : forall m : vm, pop m <> Panic.
Proof. exact pop_no_panic. Qed.

Theorem C07_drop_to_marker_no_panic : forall (operand : option N) (opnil throw : bool) (m : vm),
  drop_to_marker operand opnil throw m <> Panic.
Proof. exact drop_to_marker_no_panic. Qed.

(* StackCheck: panic free for the operands the compiler emits (a count >= 0) on a stack whose
   pointer is within the slice; a negative operand can index past the stack (refuted below) *)
Theorem C07_stack_check_partial : forall (m : vm) (count : Z),
  0 <= count -> sp m <= len (stack m) -> stack_check m count <> Panic.
Proof. exact stack_check_partial. Qed.

Theorem C07_stack_check_refuted : exists m count, sp m <= len (stack m) /\ stack_check m count = Panic.
Proof. exact stack_check_refuted. Qed.

(* handleCatch: search, marker count, frame-pop truncations to ANY depths, final reslice and write
   stay inside the try stack (Go slice semantics: reslice up to capacity) *)
Theorem C07_handle_catch_no_panic : forall (s : gsl) (running : bool) (depths : list N) (underflow : bool),
  gsl_ok s -> handle_catch s running depths underflow <> Panic.
Proof. exact handle_catch_no_panic. Qed.

(* x % y and x / y: with the zero test made per kind (the code as it is) no operand kind and no divisor
   value reaches Go's integer-divide panic or a failed type assertion (operands normalised to one kind) *)
Theorem C07_modulo_no_panic : forall (k : nkind) (v2 : Z), modulo_op true k k v2 <> Panic.
Proof. exact modulo_op_no_panic. Qed.

Theorem C07_divide_no_panic : forall (k : nkind) (v2 : Z) (divzero : bool), divide_op k k v2 divzero <> Panic.
Proof. exact divide_op_no_panic. Qed.

(* why the test cannot be hoisted: "v2 == 0" on the interface value is true for int(0) only *)
Theorem C07_modulo_hoisted_refuted : exists k v2, modulo_op false k k v2 = Panic.
Proof. exact modulo_hoisted_refuted. Qed.

(* array slicing: every (first, last), byte arrays and others *)
Theorem C07_get_slice_no_panic : forall (a : earray) (first last : Z), get_slice a first last <> Panic.
Proof. exact get_slice_no_panic. Qed.

Theorem C07_get_slice_as_array_no_panic : forall (a : earray) (first last : Z), get_slice_as_array false a first last <> Panic.
Proof. exact get_slice_as_array_no_panic. Qed.

(* why the byte branch needs its own "last < first": a merged bounds test that leaves it to GetSlice panics on b[6:2] *)
Theorem C07_get_slice_as_array_merged_refuted : exists a first last, get_slice_as_array true a first last = Panic.
Proof. exact get_slice_as_array_merged_refuted. Qed.

Example C07_values_nonvacuous :
  modulo_op true KInt32 KInt32 0 = Ok ADivZero /\ modulo_op true KByte KByte 3 = Ok AValue /\
  modulo_op true KFloat64 KFloat64 0 = Ok ATypeErr /\ divide_op KInt64 KInt64 0 false = Ok ADivZero /\
  divide_op KFloat64 KFloat64 0 false = Ok AValue /\
  get_slice_as_array false {| aisbyte := true; abytes := [1;2;3;4;5;6;7]; adata := [] |} 2 6 = Ok (Some [3;4;5;6]) /\
  get_slice_as_array false {| aisbyte := true; abytes := [1;2;3;4;5;6;7]; adata := [] |} 6 2 = Ok None /\
  get_slice_as_array false {| aisbyte := false; abytes := []; adata := [1;2;3] |} 1 3 = Ok (Some [2;3]).
Proof. vm_compute. repeat split; reflexivity. Qed.

(* defer: the receiver / argument hoisting scans (findDeferCallArgsStart, findDeferCallEnd, the last-dot
   loop, make + copy of the suffix) stay inside the token slice for every token sequence and position *)
Theorem C07_hoist_receiver_no_panic : forall (toks : list tk) (start : Z), 0 <= start -> hoist_receiver true toks start <> Panic.
Proof. exact hoist_receiver_no_panic. Qed.

(* without the "argsStart >= len(Tokens)" half of the guard a chain that runs to the end of the tokens
   ("defer wg." as the last tokens of the source) indexes one past the end *)
Theorem C07_hoist_receiver_unguarded_refuted : exists toks start, 0 <= start /\ hoist_receiver false toks start = Panic.
Proof. exact hoist_receiver_unguarded_refuted. Qed.

(* sync.RWMutex / sync.Mutex driven through callRWMutexMethod / callMutexMethod from one goroutine: no
   sequence of Lock, Unlock, RLock, RUnlock, TryLock, TryRLock reaches Go's fatal "unlock of unlocked
   mutex" errors (the run ends early only by blocking) *)
Theorem C07_rwmutex_no_fatal : forall ops : list mop, ~ In MFatal (rw_run false rwm0 ops).
Proof. intros ops. apply rw_run_no_fatal. unfold rw_inv, rwm0. cbn. repeat split; discriminate || reflexivity. Qed.

Theorem C07_mutex_no_fatal : forall ops : list mop, ~ In MFatal (mx_run (false, false) ops).
Proof. intros ops. apply mx_run_no_fatal. Qed.

(* counting the reader before TryRLock and never taking it back: Lock; TryRLock (fails); Unlock; RUnlock is fatal *)
Theorem C07_rwmutex_precount_refuted : In MFatal (rw_run true rwm0 [MLock; MTryRLock; MUnlock; MRUnlock]).
Proof. exact rw_run_pre_refuted. Qed.

Example C07_defer_mutex_nonvacuous :
  hoist_receiver true [TIdent; TDot; TIdent; TDot; TIdent; TLParen; TIdent; TRParen; TOtherTok] 0 = Ok (Some (3, 8)) /\
  hoist_receiver true [TIdent; TDot] 0 = Ok None /\
  rw_run false rwm0 [MLock; MTryRLock; MUnlock; MRUnlock; MRLock; MTryLock; MRUnlock; MUnlock]
    = [MDone; MBool false; MDone; MNotLocked; MDone; MBool false; MDone; MNotLocked].
Proof. vm_compute. repeat split; reflexivity. Qed.

(* ---- non-vacuity: each kernel does real work on a concrete non-trivial input *)
Definition T (c : N) (s : str) (p : Z) : tok := {| tclass := c; tspell := s; tline := 1; tpos := p |}.
Definition demo_table : list crush :=
  [ {| csrc := [T 9 [58] 0; T 9 [61] 0]%N; cres := T 9 [58;61]%N 0; cadj := true |};
    {| csrc := [T 9 [46] 0; T 9 [46] 0; T 9 [46] 0]%N; cres := T 9 [46;46;46]%N 0; cadj := false |} ].
Definition demo_cl : classes := {| c_ident := 1; c_int := 5; c_float := 6; c_complex := 7 |}.

Example C07_lexer_nonvacuous :      (* x := 3i ...  ->  x  :=  3i  ... *)
  lex_post demo_table demo_cl [T 1 [120]%N 1; T 9 [58]%N 3; T 9 [61]%N 4; T 5 [51]%N 6; T 1 [105]%N 7;
                               T 9 [46]%N 9; T 9 [46]%N 10; T 9 [46]%N 11]
  = Ok [T 1 [120]%N 1; T 9 [58;61]%N 3; T 7 [51;105]%N 6; T 9 [46;46;46]%N 9].
Proof. vm_compute. reflexivity. Qed.

Example C07_helpers_nonvacuous :
  get_token_text [1;2;3;4] 1 9 = Ok [2;3;4] /\ get_tokens [1;2;3;4] (-3) 2 = Ok [1;2] /\
  peek [1;2;3] 1 2 = Ok (Some 3) /\ remainder [1;5;9] 1 [97;98;99;100;101;102]%N = Ok [101;102]%N /\
  tok_delete [1;2;3;4;5] 4 1 3 = Ok (EDone [1;4;5] 2) /\ tok_insert [1;2;3] 2 1 [7;8] = Ok (EDone [1;7;8;2;3] 4).
Proof. vm_compute. repeat split; reflexivity. Qed.

Example C07_compiler_nonvacuous :
  test_desc true (fun _ => None) [116;49]%N = Ok (Some [116;49]%N) /\
  test_desc true (fun _ => None) [] = Ok None /\
  test_desc true (fun s => Some s) (repeat 65%N 50) = Ok (Some (repeat 65%N 46 ++ [46;46;46]%N)) /\
  rune_lit [39;97;39]%N (fun _ => Some 97%N) (fun _ => []) = Ok (Some 1) /\
  rune_lit [39]%N (fun _ => None) (fun _ => []) = Ok None /\
  radix_probe [48;120;49]%N = Ok true /\
  macro_strip true (T 9 [59]%N 0) [T 5 [49]%N 1; T 9 [59]%N 0] = Ok [T 5 [49]%N 1] /\
  macro_strip true (T 9 [59]%N 0) [] = Ok [].
Proof. vm_compute. repeat split; reflexivity. Qed.

Example C07_vm_nonvacuous :
  (exists m', drop_to_marker (Some 7%N) false false {| stack := [VOther; VMarker 7; VOther; VMarker 3; VOther]; sp := 5; fp := 0 |}
              = Ok (DDone m') /\ sp m' = 1) /\
  stack_check {| stack := [VMarker 1; VOther; VOther]; sp := 3; fp := 0 |} 2 = Ok true /\
  0 <= 2 /\
  (let s := {| tarr := [ {| taddr := 10; tsel := false |}; {| taddr := 0; tsel := false |};
                         {| taddr := 30; tsel := true |} ]; tln := 3 |} in
   gsl_ok s /\ exists s', handle_catch s true [2%N; 1%N] false = Ok (CCaught 10 s') /\ tln s' = 1).
Proof.
  split; [eexists; split; [vm_compute; reflexivity|reflexivity]|].
  split; [vm_compute; reflexivity|]. split; [discriminate|].
  split; [unfold gsl_ok; vm_compute; split; discriminate|].
  eexists; split; [vm_compute; reflexivity|reflexivity].
Qed.
