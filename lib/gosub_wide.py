#!/usr/bin/env python3
"""C01 differential generator: small programs valid both as Go and as Ego.

gen_program(rng, idx)  -> one program (top-level decls suffixed _idx, entry prog_idx)
ego_source(p)          -> Ego text (prog_idx renamed main, package/import header)
go_batch_source(progs) -> one Go file with every program + dispatching main
run_batch(progs, wd)   -> build Go once, run Go binary and ego per program, compare

Pure stdlib, nothing happens at import.  All randomness comes from the rng given.
"""
import os
import re
import subprocess
import sys
from concurrent.futures import ThreadPoolExecutor

# --------------------------------------------------------------------------
# feature flags
# --------------------------------------------------------------------------
CLEAN_FEATURES = [
    "arith", "cmp_bool", "strings", "loops", "labels", "switch", "fallthrough",
    "slices", "maps", "structs", "methods", "closures", "variadic", "multiret",
    "defer", "recover", "panic_abort", "div_zero", "index_oob", "range_int",
]
# constructs that are inside the property text but on which ego diverges from Go
# (see KNOWN_DIVERGENCES); OFF in the default clean stream
DIVERGENT_FEATURES = [
    "lit_assign",           # x = <int literal> on a sized-int variable (dynamic mode re-types x)
    "uint64_big_literal",   # uint64 literal above MaxInt64
    "map_sized_literal",    # map[K]uint8{"a": 250}
    "map_missing_value",    # v, ok := m[missing]; print v
    "defer_runtime_abort",  # runtime error with pending defers (Go runs them, ego does not)
    "repanic",              # panic inside a deferred func recovered by an outer frame
    "slice_alias",          # write through a sub-slice is visible in the parent
    "named_results_grouped",  # func f() (x, y int)
    "min_int64_literal",    # the literal -9223372036854775808 outside a typed var declaration
    "struct_slice_copy",    # a struct variable stored in a slice must be copied
    "sized_literal_args",   # untyped constants passed to a sized-int VARIADIC parameter (f(100, 200) with xs ...uint8)
]
FEATURES = CLEAN_FEATURES + DIVERGENT_FEATURES

INT_TYPES = {
    "int8": (-2 ** 7, 2 ** 7 - 1), "int16": (-2 ** 15, 2 ** 15 - 1),
    "int32": (-2 ** 31, 2 ** 31 - 1), "int64": (-2 ** 63, 2 ** 63 - 1),
    "int": (-2 ** 63, 2 ** 63 - 1),
    "uint8": (0, 2 ** 8 - 1), "byte": (0, 2 ** 8 - 1), "uint16": (0, 2 ** 16 - 1),
    "uint32": (0, 2 ** 32 - 1), "uint64": (0, 2 ** 64 - 1),
}
_TYPE_NAMES = list(INT_TYPES)
_WORDS = ["ab", "abc", "b", "", "zeta", "Ab", "hello", "go", "ego", "x y", "10", "9"]


class _Gen:
    def __init__(self, rng, idx, feats, size):
        self.r = rng
        self.idx = idx
        self.f = set(feats)
        self.size = size
        self.decls = []      # top-level declaration text chunks
        self.body = []       # lines of prog_idx body
        self.n = 0
        self.used = set()
        self.aborted = False  # an unconditional abort has been emitted; stop adding blocks
        self.frozen = {}     # type -> [(name, value)] never-mutated variables (known values)

    # ---- helpers
    def has(self, f):
        return f in self.f

    def use(self, f):
        self.used.add(f)

    def sfx(self, name):
        return "%s_%s" % (name, self.idx)

    def fresh(self, p="v"):
        self.n += 1
        return "%s%d" % (p, self.n)

    def emit(self, line, ind=1):
        self.body.append("\t" * ind + line)

    def pr(self, tag, *vals, ind=1):
        self.emit("fmt.Println(%s)" % ", ".join(['"%s"' % tag] + list(vals)), ind)

    def pick_type(self):
        return self.r.choice(_TYPE_NAMES)

    def litval(self, T, small=False):
        lo, hi = INT_TYPES[T]
        if T == "uint64" and not self.has("uint64_big_literal"):
            hi = 2 ** 63 - 1
        elif T == "uint64" and hi > 2 ** 63:
            self.use("uint64_big_literal")
        if lo == -2 ** 63:
            if self.has("min_int64_literal"):
                self.use("min_int64_literal")  # may be emitted
            else:
                lo += 1
        r = self.r
        if small:
            c = [0, 1, 2, 3, 5, 7, 10]
            if lo < 0:
                c += [-1, -2, -3, -7]
            return r.choice(c)
        k = r.random()
        if k < 0.45:
            v = r.choice([lo, lo + 1, lo + 2, hi, hi - 1, hi - 2, hi // 2, hi // 2 + 1])
        elif k < 0.75:
            v = r.choice([0, 1, 2, 3, 7, 10, 100]) * (r.choice([1, -1]) if lo < 0 else 1)
        else:
            v = r.randint(lo, hi)
        return max(lo, min(hi, v))

    def lit(self, T, small=False):
        return str(self.litval(T, small))

    def plit(self, T, small=False, nonzero=False):
        """literal usable as a right operand (negative values parenthesised)"""
        v = self.litval(T, small)
        while nonzero and v == 0:
            v = self.litval(T, True)
        return "(%d)" % v if v < 0 else str(v)

    def freeze(self, T, value=None):
        """declare a never-mutated variable with a known value; returns name"""
        if value is None:
            value = self.litval(T)
        v = self.fresh("k")
        self.emit("var %s %s = %d" % (v, T, value))
        self.pr("k", v)
        self.frozen.setdefault(T, []).append((v, value))
        return v

    # ---- integer expressions of one type, never all-constant
    def iatom(self, T, names):
        r = self.r
        k = r.random()
        if k < 0.8 or not names:
            return r.choice(names)
        if k < 0.9 and INT_TYPES[T][0] < 0:
            return "-" + r.choice(names)
        return "(%s)" % r.choice(names)

    def idenominator(self, T):
        nz = [n for n, v in self.frozen.get(T, []) if v != 0]
        if nz and self.r.random() < 0.4:
            return self.r.choice(nz)
        return self.plit(T, small=self.r.random() < 0.7, nonzero=True)

    def iexpr(self, T, names, depth=2):
        r = self.r
        if depth <= 0 or r.random() < 0.2:
            return self.iatom(T, names)
        op = r.choice(["+", "-", "*", "+", "-", "*", "/", "%"])
        left = self.iexpr(T, names, depth - 1)
        if op in "/%":
            return "(%s %s %s)" % (left, op, self.idenominator(T))
        k = r.random()
        if k < 0.35:
            right = self.plit(T, small=r.random() < 0.5)
            if r.random() < 0.2 and not right.startswith("("):
                return "(%s %s %s)" % (right, op, left)
        else:
            right = self.iexpr(T, names, depth - 1)
        return "(%s %s %s)" % (left, op, right)

    def unparen(self, e):
        # strip one redundant outer pair of parentheses
        if e.startswith("(") and e.endswith(")"):
            d = 0
            for i, ch in enumerate(e):
                d += ch == "("
                d -= ch == ")"
                if d == 0 and i < len(e) - 1:
                    return e
            return e[1:-1]
        return e

    def bexpr(self, T, names, depth=1, strs=None):
        r = self.r
        if depth > 0 and r.random() < 0.6:
            op = r.choice(["&&", "||"])
            a = self.bexpr(T, names, depth - 1, strs)
            b = self.bexpr(T, names, depth - 1, strs)
            e = "(%s %s %s)" % (a, op, b)
            return "!" + e if r.random() < 0.2 else e
        if strs and r.random() < 0.25:
            return "%s %s %s" % (r.choice(strs), r.choice(["<", "==", "!=", ">=", ">", "<="]),
                                 r.choice(strs + ['"%s"' % r.choice(_WORDS)]))
        cmp_ = r.choice(["<", "<=", "==", "!=", ">", ">="])
        a = self.iexpr(T, names, 1)
        b = self.plit(T, small=r.random() < 0.3) if r.random() < 0.4 else self.iexpr(T, names, 1)
        return "%s %s %s" % (a, cmp_, b)

    def declare_ints(self, T, n):
        names = []
        for _ in range(n):
            v = self.fresh()
            k = self.r.random()
            if k < 0.6:
                self.emit("var %s %s = %s" % (v, T, self.lit(T)))
            elif k < 0.85 or T == "int":
                self.emit("%s := %s(%s)" % (v, T, self.lit(T)))
            else:
                self.emit("var %s %s" % (v, T))
            names.append(v)
        return names

    # ------------------------------------------------------------------
    # blocks
    # ------------------------------------------------------------------
    def blk_arith(self):
        self.use("arith")
        r = self.r
        T = self.pick_type()
        names = self.declare_ints(T, r.randint(2, 3))
        if r.random() < 0.5:
            self.freeze(T)
        self.pr(T, *names)
        for _ in range(r.randint(3, 6)):
            tgt = r.choice(names)
            k = r.random()
            if k < 0.4:
                self.emit("%s = %s" % (tgt, self.unparen(self.iexpr(T, names, 2))))
            elif k < 0.7:
                op = r.choice(["+=", "-=", "*=", "/="])
                if op == "/=":
                    rhs = self.idenominator(T)
                elif r.random() < 0.5:
                    rhs = self.lit(T, small=r.random() < 0.4)
                else:
                    rhs = self.unparen(self.iexpr(T, names, 1))
                self.emit("%s %s %s" % (tgt, op, rhs))
            elif k < 0.85:
                self.emit("%s%s" % (tgt, r.choice(["++", "--"])))
            elif k < 0.93:
                # conversion round trip through another width
                U = self.pick_type()
                w = self.fresh()
                self.emit("%s := %s(%s)" % (w, U, tgt))
                self.emit("%s = %s(%s) + %s" % (tgt, T, w, r.choice(names)))
                self.pr("conv " + U, w)
            else:
                if self.has("lit_assign") and T != "int":
                    self.use("lit_assign")
                    self.emit("%s = %s" % (tgt, self.lit(T)))
                else:
                    self.emit("%s = %s(%s)" % (tgt, T, self.lit(T)))
                self.emit("%s = %s" % (tgt, self.unparen(self.iexpr(T, names, 1))))
            self.pr(T, *names)
        if r.random() < 0.5:
            self.pr("expr", *[self.unparen(self.iexpr(T, names, 2)) for _ in range(2)])

    def blk_cmp_bool(self):
        self.use("cmp_bool")
        r = self.r
        T = self.pick_type()
        names = self.declare_ints(T, 2)
        s1, s2 = self.fresh("s"), self.fresh("s")
        self.emit('%s := "%s"' % (s1, r.choice(_WORDS)))
        self.emit('%s := "%s" + %s' % (s2, r.choice(_WORDS), s1))
        strs = [s1, s2]
        b1 = self.fresh("b")
        self.emit("%s := %s" % (b1, self.bexpr(T, names, 1, strs)))
        self.pr("cmp", names[0] + " < " + names[1], names[0] + " == " + names[1],
                "%s >= %s" % (names[0], self.plit(T)), "!" + b1, s1 + " < " + s2)
        z = self.freeze(T, r.choice([0, 0, 1, 3]))
        # short circuit must protect the division
        self.emit("if %s != 0 && %s / %s >= 0 {" % (z, names[0], z))
        self.pr("guarded-and", ind=2)
        self.emit("}")
        self.emit("if %s == 0 || %s %% %s == 0 {" % (z, names[1], z))
        self.pr("guarded-or", ind=2)
        self.emit("}")
        self.emit("if %s {" % self.bexpr(T, names, 1, strs))
        self.pr("arm1", b1, ind=2)
        self.emit("} else if %s && %s {" % (self.bexpr(T, names, 0, strs), b1))
        self.pr("arm2", ind=2)
        self.emit("} else if !%s || %s {" % (b1, self.bexpr(T, names, 0, strs)))
        self.pr("arm3", ind=2)
        self.emit("} else {")
        self.pr("arm4", ind=2)
        self.emit("}")

    def blk_strings(self):
        self.use("strings")
        r = self.r
        a, b, c = self.fresh("s"), self.fresh("s"), self.fresh("s")
        self.emit('%s := "%s"' % (a, r.choice(_WORDS)))
        self.emit('var %s string = "%s"' % (b, r.choice(_WORDS)))
        self.emit("var %s string" % c)
        self.emit('%s = %s + "%s" + %s' % (c, a, r.choice(["-", ":", " ", ""]), b))
        self.pr("str", c, "len(%s)" % c, "%s == %s" % (a, b), "%s < %s" % (a, b), '%s != ""' % c)
        n = r.randint(1, 4)
        i = self.fresh("i")
        self.emit("for %s := 0; %s < %d; %s++ {" % (i, i, n, i))
        self.emit('%s += "%s"' % (a, r.choice(["x", "ab", "-"])), 2)
        self.emit("if len(%s) > %d {" % (a, r.randint(2, 6)), 2)
        self.emit("%s = %s + %s" % (b, b, a), 3)
        self.emit("}", 2)
        self.emit("}")
        self.pr("str2", a, b, "len(%s) + len(%s)" % (a, b), '%s >= "%s"' % (b, r.choice(_WORDS)))

    def blk_loops(self):
        self.use("loops")
        r = self.r
        T = self.pick_type()
        k = r.randint(0, 4)
        if k == 0:
            acc = self.fresh("acc")
            i = self.fresh("i")
            self.emit("var %s %s = %s" % (acc, T, self.lit(T, small=True)))
            n = r.randint(3, 40)
            self.emit("for %s := 0; %s < %d; %s++ {" % (i, i, n, i))
            self.emit("if %s %% %d == %d {" % (i, r.randint(2, 5), r.randint(0, 1)), 2)
            self.emit("continue", 3)
            self.emit("}", 2)
            self.emit("%s = %s*%s + %s(%s)" % (acc, acc, self.plit(T, small=True, nonzero=True), T, i), 2)
            if r.random() < 0.5:
                self.emit("if %s > %d {" % (i, r.randint(2, n)), 2)
                self.emit("break", 3)
                self.emit("}", 2)
            self.emit("}")
            self.pr("hash " + T, acc)
        elif k == 1:
            x, c = self.fresh("x"), self.fresh("c")
            self.emit("var %s %s = %s" % (x, T, self.lit(T)))
            self.emit("%s := 0" % c)
            d = self.plit(T, small=True, nonzero=True)
            while d in ("1", "(-1)"):
                d = self.plit(T, small=True, nonzero=True)
            self.emit("for %s != 0 && %s < 70 {" % (x, c))
            self.emit("%s /= %s" % (x, d), 2)
            self.emit("%s++" % c, 2)
            self.emit("}")
            self.pr("halve " + T, x, c)
        elif k == 2 and self.has("range_int"):
            self.use("range_int")
            n, t, i = self.fresh("n"), self.fresh("t"), self.fresh("i")
            self.emit("%s := %d" % (n, r.randint(0, 6)))
            self.emit("var %s %s = %s" % (t, T, self.lit(T)))
            self.emit("for %s := range %s {" % (i, n))
            self.emit("%s += %s(%s)" % (t, T, i), 2)
            self.pr("ri", i, t, ind=2)
            self.emit("}")
        elif k == 3:
            # typed counter that wraps
            i, c = self.fresh("i"), self.fresh("c")
            lo, hi = INT_TYPES[T]
            start = hi - r.randint(0, 5) if not (T == "uint64" and not self.has("uint64_big_literal")) else 2 ** 63 - 3
            self.emit("%s := 0" % c)
            self.emit("for %s := %s(%d); %s < 12; %s++ {" % (i, T, start, c, i))
            self.emit("%s++" % c, 2)
            self.emit("if %s < %s(%d) {" % (i, T, 5 if lo == 0 else lo + 3), 2)
            self.pr("wrapped " + T, i, c, ind=3)
            self.emit("break", 3)
            self.emit("}", 2)
            self.emit("}")
            self.pr("cnt", c)
        else:
            i = self.fresh("i")
            self.emit("%s := %d" % (i, r.randint(0, 3)))
            self.emit("for {")
            self.emit("%s += %d" % (i, r.randint(1, 4)), 2)
            self.emit("if %s > %d {" % (i, r.randint(5, 20)), 2)
            self.emit("break", 3)
            self.emit("}", 2)
            self.emit("if %s %% 2 == 0 {" % i, 2)
            self.emit("continue", 3)
            self.emit("}", 2)
            self.pr("odd", i, ind=2)
            self.emit("}")
            self.pr("end", i)

    def blk_labels(self):
        self.use("labels")
        r = self.r
        lab = self.fresh("outer")
        i, j, c = self.fresh("i"), self.fresh("j"), self.fresh("c")
        n, m = r.randint(2, 5), r.randint(2, 5)
        self.emit("%s := 0" % c)
        self.emit("%s:" % lab, 0)
        self.emit("for %s := 0; %s < %d; %s++ {" % (i, i, n, i))
        inner_range = r.random() < 0.4
        if inner_range:
            xs = self.fresh("xs")
            self.body.insert(len(self.body) - 2, "\t%s := []int{%s}" % (xs, ", ".join(str(r.randint(0, 4)) for _ in range(m))))
            self.emit("for _, %s := range %s {" % (j, xs), 2)
        else:
            self.emit("for %s := 0; %s < %d; %s++ {" % (j, j, m, j), 2)
        self.emit("if %s == %d {" % (j, r.randint(0, 3)), 3)
        self.emit("continue %s" % lab, 4)
        self.emit("}", 3)
        self.emit("if %s + %s == %d {" % (i, j, r.randint(2, 7)), 3)
        self.emit("break %s" % lab, 4)
        self.emit("}", 3)
        self.emit("if %s*%s == %d {" % (i, j, r.randint(0, 4)), 3)
        self.emit(r.choice(["continue", "break"]), 4)
        self.emit("}", 3)
        self.emit("%s++" % c, 3)
        self.pr("ij", i, j, ind=3)
        self.emit("}", 2)
        self.emit("}")
        self.pr("labels", c)

    def blk_switch(self):
        self.use("switch")
        r = self.r
        T = self.pick_type()
        lo, hi = INT_TYPES[T]
        i, x = self.fresh("i"), self.fresh("x")
        self.emit("for %s := 0; %s < %d; %s++ {" % (i, i, r.randint(3, 6), i))
        self.emit("%s := %s(%s) * %s" % (x, T, i, r.choice(["1", "2", "3"])), 2)
        vals = r.sample(range(0, 12), 6)
        ft = self.has("fallthrough") and r.random() < 0.4
        if r.random() < 0.6:
            if r.random() < 0.3:
                y = self.fresh("y")
                self.emit("switch %s := %s + 1; %s {" % (y, x, y), 2)
            else:
                self.emit("switch %s {" % x, 2)
            self.emit("case %d, %d:" % (vals[0], vals[1]), 2)
            self.pr("sw a", x, ind=3)
            if ft:
                self.use("fallthrough")
                self.emit("fallthrough", 3)
            self.emit("case %d:" % vals[2], 2)
            self.pr("sw b", ind=3)
            self.emit("case %d, %d, %d:" % (vals[3], vals[4], vals[5]), 2)
            self.emit("if %s > %d {" % (i, r.randint(0, 4)), 3)
            self.emit("break", 4)
            self.emit("}", 3)
            self.pr("sw c", ind=3)
            if r.random() < 0.7:
                self.emit("default:", 2)
                self.pr("sw default", x, ind=3)
            self.emit("}", 2)
        else:
            self.emit("switch {", 2)
            self.emit("case %s > %d:" % (x, vals[0]), 2)
            self.pr("big", x, ind=3)
            self.emit("case %s == %d || %s == %d:" % (x, vals[1], x, vals[2]), 2)
            self.pr("pick", x, ind=3)
            if ft:
                self.use("fallthrough")
                self.emit("fallthrough", 3)
            self.emit("case %s %% 2 == 0:" % x, 2)
            self.pr("even", ind=3)
            self.emit("default:", 2)
            self.pr("none", ind=3)
            self.emit("}", 2)
        self.emit("}")
        s = self.fresh("s")
        self.emit('%s := "%s"' % (s, r.choice(["go", "ego", "x"])))
        self.emit("switch %s {" % s)
        self.emit('case "go", "c":')
        self.pr("lang go", ind=2)
        self.emit('case "ego":')
        self.pr("lang ego", ind=2)
        self.emit("}")

    def blk_slices(self):
        self.use("slices")
        r = self.r
        T = r.choice(_TYPE_NAMES + ["int", "int"])
        s = self.fresh("xs")
        n = r.randint(2, 5)
        if r.random() < 0.6:
            self.emit("%s := []%s{%s}" % (s, T, ", ".join(self.lit(T) for _ in range(n))))
        else:
            self.emit("%s := make([]%s, %d)" % (s, T, n))
            v = self.fresh()
            self.emit("var %s %s = %s" % (v, T, self.lit(T)))
            self.emit("%s[%d] = %s" % (s, r.randrange(n), v))
            self.emit("%s[0] += %s" % (s, v))
        a = self.fresh()
        self.emit("var %s %s = %s" % (a, T, self.lit(T)))
        self.emit("%s = append(%s, %s, %s + %s[0])" % (s, s, a, a, s))
        n += 2
        self.pr("sl", "len(%s)" % s, "%s[0]" % s, "%s[%d]" % (s, n - 1))
        i, v = self.fresh("i"), self.fresh("e")
        k = r.randint(0, 2)
        if k == 0:
            self.emit("for %s, %s := range %s {" % (i, v, s))
            self.pr("iv", i, v, ind=2)
            self.emit("%s[%s] = %s * %s" % (s, i, v, self.plit(T, small=True)), 2)
            self.emit("}")
        elif k == 1:
            self.emit("for %s := range %s {" % (i, s))
            self.emit("%s[%s]++" % (s, i), 2)
            self.emit("%s += %s[%s]" % (a, s, i), 2)
            self.emit("}")
        else:
            self.emit("for _, %s := range %s {" % (v, s))
            self.emit("%s -= %s" % (a, v), 2)
            self.emit("}")
        self.pr("sl2", a, "%s[%d]" % (s, r.randrange(n)))
        lo_ = r.randint(0, n - 1)
        hi_ = r.randint(lo_, n)
        t = self.fresh("t")
        form = r.randint(0, 2)
        if form == 0:
            self.emit("%s := %s[%d:%d]" % (t, s, lo_, hi_))
            tl = hi_ - lo_
        elif form == 1:
            self.emit("%s := %s[%d:]" % (t, s, lo_))
            tl = n - lo_
        else:
            self.emit("%s := %s[:%d]" % (t, s, hi_))
            tl = hi_
        self.pr("sub", "len(%s)" % t)
        if tl > 0:
            self.pr("sub0", "%s[0]" % t, "%s[len(%s)-1]" % (t, t))
            if self.has("slice_alias") and r.random() < 0.7:
                self.use("slice_alias")
                self.emit("%s[0] = %s" % (t, a))
                self.pr("alias", "%s[%d]" % (s, lo_ if form != 2 else 0))
        e = self.fresh("em")
        self.emit("var %s []%s" % (e, T))
        self.emit("%s = append(%s, %s...)" % (e, e, t) if False else "%s = append(%s, %s)" % (e, e, a))
        self.pr("em", "len(%s)" % e, "%s[0]" % e)

    def blk_maps(self):
        self.use("maps")
        r = self.r
        m = self.fresh("m")
        keys = r.sample(["a", "bb", "c", "dd", "e", "zz"], 4)
        VT = r.choice(["int", "int", "string", "bool", "sized"])
        if VT == "sized":
            T = r.choice([t for t in _TYPE_NAMES if t != "int"])
            if self.has("map_sized_literal") and r.random() < 0.5:
                self.use("map_sized_literal")
                self.emit('%s := map[string]%s{"%s": %s, "%s": %s}' % (m, T, keys[0], self.lit(T), keys[1], self.lit(T)))
            else:
                v1 = self.fresh()
                self.emit("var %s %s = %s" % (v1, T, self.lit(T)))
                self.emit("%s := map[string]%s{}" % (m, T))
                self.emit('%s["%s"] = %s' % (m, keys[0], v1))
                self.emit('%s["%s"] = %s + %s' % (m, keys[1], v1, v1))
            val = lambda: "%s(%s)" % (T, self.lit(T))
            VT = T
        elif VT == "int":
            self.emit('%s := map[string]int{"%s": %d, "%s": %d}' % (m, keys[0], r.randint(-9, 99), keys[1], r.randint(-9, 99)))
            val = lambda: str(r.randint(-50, 50))
        elif VT == "string":
            self.emit('%s := map[string]string{"%s": "%s", "%s": "%s"}' % (m, keys[0], r.choice(_WORDS), keys[1], r.choice(_WORDS)))
            val = lambda: '"%s"' % r.choice(_WORDS)
        else:
            self.emit("%s := make(map[string]bool)" % m)
            self.emit('%s["%s"] = true' % (m, keys[0]))
            self.emit('%s["%s"] = false' % (m, keys[1]))
            val = lambda: r.choice(["true", "false"])
        self.emit('%s["%s"] = %s' % (m, keys[2], val()))
        if r.random() < 0.5:
            self.emit('%s["%s"] = %s' % (m, keys[0], val()))
        if r.random() < 0.6:
            self.emit('delete(%s, "%s")' % (m, r.choice(keys)))
        self.pr("mlen", "len(%s)" % m)
        ks = self.fresh("ks")
        self.emit("%s := []string{%s}" % (ks, ", ".join('"%s"' % k for k in keys)))
        k_, v_, ok = self.fresh("k"), self.fresh("v"), self.fresh("ok")
        self.emit("for _, %s := range %s {" % (k_, ks))
        if self.has("map_missing_value") and r.random() < 0.6:
            self.use("map_missing_value")
            self.emit("%s, %s := %s[%s]" % (v_, ok, m, k_), 2)
            self.pr("get", k_, v_, ok, ind=2)
        elif r.random() < 0.5:
            self.emit("if %s, %s := %s[%s]; %s {" % (v_, ok, m, k_, ok), 2)
            self.pr("has", k_, v_, ind=3)
            self.emit("} else {", 2)
            self.pr("missing", k_, ind=3)
            self.emit("}", 2)
        else:
            self.emit("%s, %s := %s[%s]" % (v_, ok, m, k_), 2)
            self.emit("if %s {" % ok, 2)
            self.pr("has", k_, v_, ok, ind=3)
            self.emit("} else {", 2)
            self.pr("no", k_, ok, ind=3)
            self.emit("}", 2)
        self.emit("}")
        if VT in INT_TYPES:
            t, c = self.fresh("t"), self.fresh("c")
            self.emit("var %s %s" % (t, VT))
            self.emit("%s := 0" % c)
            kk, vv = self.fresh("k"), self.fresh("v")
            self.emit("for %s, %s := range %s {" % (kk, vv, m))
            self.emit("%s += %s" % (t, vv), 2)
            self.emit("%s += len(%s)" % (c, kk), 2)
            self.emit("}")
            self.pr("msum", t, c)
        mi = self.fresh("mi")
        self.emit("%s := map[int]string{%d: \"p\", %d: \"q\"}" % (mi, r.randint(-3, 3), r.randint(4, 9)))
        o2 = self.fresh("ok")
        self.emit("_, %s := %s[%d]" % (o2, mi, r.randint(-3, 9)))
        self.pr("mi", o2, "len(%s)" % mi)

    def _struct_type(self, nested=None):
        r = self.r
        name = self.sfx(self.fresh("S"))
        fields = []
        for fn in r.sample(["A", "B", "C", "D"], r.randint(2, 3)):
            ft = r.choice(_TYPE_NAMES + ["string", "bool", "int"])
            fields.append((fn, ft))
        if nested:
            fields.append(("In", nested))
        self.decls.append("type %s struct {\n%s\n}\n" % (name, "\n".join("\t%s %s" % f for f in fields)))
        return name, fields

    def _field_lit(self, ft, structs):
        r = self.r
        if ft in INT_TYPES:
            return self.lit(ft)
        if ft == "string":
            return '"%s"' % r.choice(_WORDS)
        if ft == "bool":
            return r.choice(["true", "false"])
        return self._struct_lit(ft, structs)

    def _struct_lit(self, name, structs):
        return "%s{%s}" % (name, ", ".join("%s: %s" % (fn, self._field_lit(ft, structs)) for fn, ft in structs[name]))

    def _mutate_field(self, target, fn, ft, ind=1):
        r = self.r
        if ft in INT_TYPES:
            k = r.random()
            if k < 0.4:
                self.emit("%s.%s %s %s" % (target, fn, r.choice(["+=", "-=", "*="]), self.lit(ft, small=r.random() < 0.5)), ind)
            elif k < 0.6:
                self.emit("%s.%s%s" % (target, fn, r.choice(["++", "--"])), ind)
            else:
                self.emit("%s.%s = %s.%s * %s + %s.%s" % (target, fn, target, fn, self.plit(ft, small=True), target, fn), ind)
        elif ft == "string":
            self.emit('%s.%s += "%s"' % (target, fn, r.choice(_WORDS)), ind)
        elif ft == "bool":
            self.emit("%s.%s = !%s.%s" % (target, fn, target, fn), ind)

    def blk_structs(self):
        self.use("structs")
        r = self.r
        structs = {}
        inner, f_in = self._struct_type()
        structs[inner] = f_in
        outer, f_out = self._struct_type(nested=inner)
        structs[outer] = f_out
        a, b = self.fresh("st"), self.fresh("st")
        self.emit("%s := %s" % (a, self._struct_lit(outer, structs)))
        scal_out = [(fn, ft) for fn, ft in f_out if ft not in structs]
        allpaths = [(fn, ft) for fn, ft in scal_out] + [("In." + fn, ft) for fn, ft in f_in]
        for fn, ft in r.sample(allpaths, min(3, len(allpaths))):
            self._mutate_field(a, fn, ft)
        self.pr("st", *["%s.%s" % (a, fn) for fn, _ in allpaths])
        self.emit("%s := %s" % (b, a))
        fn, ft = r.choice(allpaths)
        self._mutate_field(b, fn, ft)
        self.pr("copy", "%s.%s" % (a, fn), "%s.%s" % (b, fn))
        p = self.fresh("p")
        self.emit("%s := &%s" % (p, a))
        fn, ft = r.choice(allpaths)
        self._mutate_field(p, fn, ft)
        self.pr("ptr", "%s.%s" % (a, fn), "%s.%s" % (p, fn))
        z = self.fresh("z")
        self.emit("var %s %s" % (z, inner))
        self.pr("zero", *["%s.%s" % (z, fn) for fn, _ in f_in])
        # by-value / by-pointer helper functions
        fv, fp = self.sfx(self.fresh("byval")), self.sfx(self.fresh("byptr"))
        fn, ft = r.choice(f_in)
        save = self.body
        self.body = []
        self._mutate_field("s", fn, ft)
        mut = "\n".join(self.body)
        self.body = save
        self.decls.append("func %s(s %s) %s {\n%s\n\treturn s\n}\n" % (fv, inner, inner, mut))
        self.decls.append("func %s(s *%s) {\n%s\n}\n" % (fp, inner, mut))
        w = self.fresh("w")
        self.emit("%s := %s(%s.In)" % (w, fv, a))
        self.pr("byval", "%s.In.%s" % (a, fn), "%s.%s" % (w, fn))
        self.emit("%s(&%s)" % (fp, w))
        self.pr("byptr", "%s.%s" % (w, fn))
        arr = self.fresh("arr")
        if self.has("struct_slice_copy"):
            self.use("struct_slice_copy")
            second = w
        else:
            second = self._struct_lit(inner, structs)
        self.emit("%s := []%s{%s, %s}" % (arr, inner, self._struct_lit(inner, structs), second))
        self._mutate_field("%s[1]" % arr, fn, ft)
        self.pr("arr", "%s[1].%s" % (arr, fn), "%s.%s" % (w, fn), "len(%s)" % arr)
        e0 = self.fresh("e")
        self.emit("%s := %s[0]" % (e0, arr))
        self._mutate_field(e0, fn, ft)
        self.pr("elem", "%s.%s" % (e0, fn), "%s[0].%s" % (arr, fn))

    def blk_methods(self):
        self.use("methods")
        r = self.r
        T = self.pick_type()
        name = self.sfx(self.fresh("M"))
        self.decls.append("type %s struct {\n\tN %s\n\tTag string\n}\n" % (name, T))
        mul = self.plit(T, small=True, nonzero=True)
        self.decls.append("func (m %s) Peek(d %s) %s {\n\tm.N += d\n\treturn m.N * %s\n}\n" % (name, T, T, mul))
        self.decls.append("func (m *%s) Bump(d %s) %s {\n\tm.N += d\n\tm.Tag += \"+\"\n\treturn m.N\n}\n" % (name, T, T))
        self.decls.append("func (m %s) Desc() string {\n\tif m.N > %s {\n\t\treturn m.Tag + \" hi\"\n\t}\n\treturn m.Tag + \" lo\"\n}\n" % (name, self.lit(T)))
        self.decls.append("func (m *%s) Twice(d %s) %s {\n\tm.Bump(d)\n\treturn m.Bump(d) + m.Peek(d)\n}\n" % (name, T, T))
        a = self.fresh("m")
        self.emit('%s := %s{N: %s, Tag: "%s"}' % (a, name, self.lit(T), r.choice(_WORDS)))
        d = self.fresh("d")
        self.emit("var %s %s = %s" % (d, T, self.lit(T)))
        self.pr("peek", "%s.Peek(%s)" % (a, d), "%s.N" % a)
        self.pr("bump", "%s.Bump(%s)" % (a, d), "%s.N" % a, "%s.Desc()" % a)
        p = self.fresh("p")
        self.emit("%s := &%s" % (p, a))
        self.pr("twice", "%s.Twice(%s)" % (p, self.lit(T, small=True)), "%s.N" % a, "%s.Tag" % a, "%s.Desc()" % p)
        c = self.fresh("m")
        self.emit("%s := %s" % (c, a))
        self.emit("%s.Bump(%s)" % (c, d))
        self.pr("indep", "%s.N" % a, "%s.N" % c, "%s.Tag" % c)

    def blk_closures(self):
        self.use("closures")
        r = self.r
        T = self.pick_type()
        k = r.randint(0, 2)
        if k == 0:
            mk = self.sfx(self.fresh("counter"))
            self.decls.append("func %s(start %s, step %s) func() %s {\n\tc := start\n\treturn func() %s {\n\t\tc += step\n\t\treturn c\n\t}\n}\n" % (mk, T, T, T, T))
            c1, c2 = self.fresh("c"), self.fresh("c")
            self.emit("%s := %s(%s, %s)" % (c1, mk, self.lit(T), self.lit(T, small=True)))
            self.emit("%s := %s(%s, %s)" % (c2, mk, self.lit(T), self.lit(T)))
            self.emit("%s()" % c1)
            self.pr("ctr", "%s()" % c1, "%s()" % c2, "%s()" % c1, "%s()" % c2)
        elif k == 1:
            tot, add = self.fresh("tot"), self.fresh("add")
            self.emit("var %s %s = %s" % (tot, T, self.lit(T)))
            cnt = self.fresh("n")
            self.emit("%s := 0" % cnt)
            self.emit("%s := func(d %s) %s {" % (add, T, T))
            self.emit("%s += d" % tot, 2)
            self.emit("%s++" % cnt, 2)
            self.emit("return %s" % tot, 2)
            self.emit("}")
            self.emit("%s(%s)" % (add, self.lit(T)))
            self.pr("clo", "%s(%s)" % (add, self.lit(T, small=True)), tot, cnt)
            self.emit("%s = %s" % (tot, "%s(%s)" % (T, self.lit(T))))
            self.pr("clo2", "%s(1)" % add, cnt)
        else:
            ap = self.sfx(self.fresh("apply"))
            self.decls.append("func %s(f func(%s) %s, x %s, n int) %s {\n\tfor i := 0; i < n; i++ {\n\t\tx = f(x)\n\t}\n\treturn x\n}\n" % (ap, T, T, T, T))
            kv = self.fresh("k")
            self.emit("var %s %s = %s" % (kv, T, self.lit(T, small=True)))
            self.pr("apply", "%s(func(v %s) %s { return v*%s + %s }, %s, %d)" % (ap, T, T, self.plit(T, small=True), kv, self.lit(T), r.randint(1, 5)))
            fs = self.fresh("fs")
            self.emit("%s := []func() int{}" % fs)
            i = self.fresh("i")
            self.emit("for %s := 0; %s < 3; %s++ {" % (i, i, i))
            self.emit("%s = append(%s, func() int { return %s * %d })" % (fs, fs, i, r.randint(2, 9)), 2)
            self.emit("}")
            f = self.fresh("f")
            self.emit("for _, %s := range %s {" % (f, fs))
            self.pr("fs", "%s()" % f, ind=2)
            self.emit("}")

    def blk_variadic(self):
        self.use("variadic")
        r = self.r
        T = self.pick_type()
        f = self.sfx(self.fresh("vsum"))
        self.decls.append("func %s(tag string, xs ...%s) %s {\n\tvar t %s\n\tfor i, x := range xs {\n\t\tt += x * %s(i+1)\n\t}\n\tfmt.Println(tag, len(xs), t)\n\treturn t\n}\n" % (f, T, T, T, T))
        s = self.fresh("xs")
        self.emit("%s := []%s{%s}" % (s, T, ", ".join(self.lit(T) for _ in range(r.randint(1, 4)))))
        self.emit('%s("none")' % f)
        if T == "int" or self.has("sized_literal_args"):
            if T != "int":
                self.use("sized_literal_args")
            args = [self.lit(T) for _ in range(r.randint(1, 3))]
        else:
            args = ["%s(%s)" % (T, self.lit(T)) for _ in range(r.randint(1, 3))]
        self.pr("var", '%s("lits", %s)' % (f, ", ".join(args)))
        self.pr("spread", '%s("spread", %s...)' % (f, s))
        if r.random() < 0.5:
            self.pr("sub", '%s("sub", %s[1:]...)' % (f, s))

    def blk_multiret(self):
        self.use("multiret")
        r = self.r
        T = self.pick_type()
        f = self.sfx(self.fresh("dm"))
        if self.has("named_results_grouped") and r.random() < 0.5:
            self.use("named_results_grouped")
            self.decls.append("func %s(a %s, b %s) (q, m %s) {\n\tq = a / b\n\tm = a %% b\n\treturn\n}\n" % (f, T, T, T))
            q, m = self.fresh("q"), self.fresh("m")
            self.emit("%s, %s := %s(%s, %s)" % (q, m, f, self.lit(T), self.plit(T, nonzero=True)))
            self.pr("dm", q, m)
            return
        named = r.random() < 0.4
        if named:
            self.decls.append("func %s(a %s, b %s) (q %s, m %s, ok bool) {\n\tif b == 0 {\n\t\treturn\n\t}\n\tq = a / b\n\tm = a %% b\n\tok = true\n\treturn\n}\n" % (f, T, T, T, T))
        else:
            self.decls.append("func %s(a %s, b %s) (%s, %s, bool) {\n\tif b == 0 {\n\t\treturn 0, 0, false\n\t}\n\treturn a / b, a %% b, true\n}\n" % (f, T, T, T, T))
        q, m, ok = self.fresh("q"), self.fresh("m"), self.fresh("ok")
        self.emit("%s, %s, %s := %s(%s, %s)" % (q, m, ok, f, self.lit(T), self.lit(T, small=r.random() < 0.6)))
        self.pr("dm", q, m, ok)
        self.emit("%s, %s = %s, %s" % (q, m, m, q))
        self.emit("%s, _, %s = %s(%s, %s)" % (q, ok, f, m, q))
        self.pr("dm2", q, m, ok)
        g = self.sfx(self.fresh("sw"))
        self.decls.append("func %s(a string, b int) (int, string) {\n\treturn b + len(a), a + a\n}\n" % g)
        x, y = self.fresh("x"), self.fresh("y")
        self.emit('%s, %s := %s("%s", %d)' % (x, y, g, r.choice(_WORDS), r.randint(-5, 5)))
        self.pr("sw", x, y)

    def blk_defer(self):
        self.use("defer")
        r = self.r
        f = self.sfx(self.fresh("df"))
        T = self.pick_type()
        L = ["func %s(n int) (res %s) {" % (f, T)]
        L.append("\tx := n")
        L.append('\tdefer fmt.Println("d-arg", x)')
        L.append("\tdefer func() {")
        L.append('\t\tfmt.Println("d-clo", x, res)')
        if r.random() < 0.6:
            L.append("\t\tres *= %s" % self.plit(T, small=True))
        L.append("\t}()")
        L.append("\tfor i := 0; i < n; i++ {")
        L.append('\t\tdefer fmt.Println("d-loop", i)')
        L.append("\t}")
        L.append("\tx = x * 10")
        L.append("\tif n > %d {" % r.randint(0, 3))
        L.append('\t\tfmt.Println("early")')
        L.append("\t\treturn %s" % self.lit(T))
        L.append("\t}")
        L.append('\tfmt.Println("body", x)')
        L.append("\treturn %s(x) + %s" % (T, self.lit(T, small=True)))
        L.append("}\n")
        self.decls.append("\n".join(L))
        for _ in range(2):
            self.pr("df", "%s(%d)" % (f, r.randint(0, 4)))

    def blk_recover(self):
        self.use("recover")
        r = self.r
        f, g = self.sfx(self.fresh("safe")), self.sfx(self.fresh("risky"))
        msg = r.choice(["boom", "bad value", "E42", "x"])
        lim = r.randint(0, 3)
        self.decls.append('func %s(n int) int {\n\tdefer fmt.Println("risky done", n)\n\tif n > %d {\n\t\tpanic("%s")\n\t}\n\treturn n * 2\n}\n' % (g, lim, msg))
        L = ["func %s(n int) (r int, failed bool) {" % f]
        L.append("\tdefer func() {")
        k = r.randint(0, 2)
        if k == 0:
            L.append("\t\tif e := recover(); e != nil {")
            L.append('\t\t\tfmt.Println("recovered", e)')
            L.append("\t\t\tr = -1")
            L.append("\t\t\tfailed = true")
            L.append("\t\t}")
        elif k == 1:
            L.append("\t\te := recover()")
            L.append('\t\tfmt.Println("rec nil?", e == nil)')
            L.append("\t\tfailed = e != nil")
        else:
            L.append("\t\te := recover()")
            L.append('\t\tfmt.Println("rec", e != nil)')
            L.append("\t\tif e != nil {")
            L.append("\t\t\tr = 99")
            L.append("\t\t}")
        L.append("\t}()")
        L.append('\tdefer fmt.Println("safe deferred")')
        L.append("\tr = %s(n) + 1" % g)
        L.append('\tfmt.Println("safe normal", r)')
        L.append("\treturn r, false")
        L.append("}\n")
        self.decls.append("\n".join(L))
        i, a, b = self.fresh("i"), self.fresh("a"), self.fresh("b")
        self.emit("for %s := %d; %s < %d; %s++ {" % (i, lim - 1, i, lim + 2, i))
        self.emit("%s, %s := %s(%s)" % (a, b, f, i), 2)
        self.pr("safe", i, a, b, ind=2)
        self.emit("}")
        if self.has("repanic") and r.random() < 0.5:
            self.use("repanic")
            h = self.sfx(self.fresh("again"))
            self.decls.append('func %s() {\n\tdefer func() {\n\t\tfmt.Println("first", recover())\n\t\tpanic("second")\n\t}()\n\tpanic("first")\n}\n' % h)
            self.emit("func() {")
            self.emit('defer func() {', 2)
            self.pr("outer", "recover()", ind=3)
            self.emit("}()", 2)
            self.emit("%s()" % h, 2)
            self.emit("}()")

    # ---- aborting blocks (program ends here in Go)
    def blk_abort(self):
        r = self.r
        kinds = [k for k in ("panic_abort", "div_zero", "index_oob") if self.has(k)]
        if not kinds:
            return
        kind = r.choice(kinds)
        self.use(kind)
        with_defer = False
        if kind != "panic_abort" and self.has("defer_runtime_abort") and r.random() < 0.6:
            self.use("defer_runtime_abort")
            with_defer = True
        in_func = with_defer or r.random() < 0.5
        T = self.pick_type()
        if kind == "panic_abort":
            stmts = ['panic("%s")' % r.choice(["fatal", "stop here", "E1"])]
            with_defer = r.random() < 0.5
            in_func = in_func or with_defer
        elif kind == "div_zero":
            z, a = self.fresh("z"), self.fresh("a")
            op = r.choice(["/", "%", "/="])
            stmts = ["var %s %s = %s" % (a, T, self.lit(T)), "var %s %s" % (z, T)]
            if op == "/=":
                stmts += ["%s /= %s" % (a, z), 'fmt.Println("unreachable", %s)' % a]
            else:
                stmts += ['fmt.Println("unreachable", %s %s %s)' % (a, op, z)]
        else:
            s, i = self.fresh("xs"), self.fresh("i")
            n = r.randint(1, 4)
            stmts = ["%s := []%s{%s}" % (s, T, ", ".join(self.lit(T) for _ in range(n))),
                     "%s := %d" % (i, r.choice([n, n + 1, n + 7, -1]))]
            k = r.randint(0, 1)
            if k == 0:
                stmts += ['fmt.Println("unreachable", %s[%s])' % (s, i)]
            else:
                stmts += ["%s[%s] = %s[0]" % (s, i, s), 'fmt.Println("unreachable", %s[0])' % s]
        self.pr("before abort")
        if in_func:
            f = self.sfx(self.fresh("fail"))
            L = ["func %s() {" % f]
            if with_defer:
                L.append('\tdefer fmt.Println("deferred in fail")')
            L.append('\tfmt.Println("in fail")')
            L += ["\t" + s for s in stmts]
            L.append("}\n")
            self.decls.append("\n".join(L))
            self.emit("%s()" % f)
        else:
            for s in stmts:
                self.emit(s)
        self.pr("after abort")
        self.aborted = True

    # ------------------------------------------------------------------
    def build(self):
        r = self.r
        table = [
            ("arith", self.blk_arith, 4), ("cmp_bool", self.blk_cmp_bool, 2), ("strings", self.blk_strings, 1),
            ("loops", self.blk_loops, 2), ("labels", self.blk_labels, 1), ("switch", self.blk_switch, 2),
            ("slices", self.blk_slices, 2), ("maps", self.blk_maps, 2), ("structs", self.blk_structs, 2),
            ("methods", self.blk_methods, 2), ("closures", self.blk_closures, 2), ("variadic", self.blk_variadic, 1),
            ("multiret", self.blk_multiret, 1), ("defer", self.blk_defer, 1), ("recover", self.blk_recover, 2),
        ]
        avail = [(f, b, w) for f, b, w in table if self.has(f)]
        nblocks = self.size if self.size else r.randint(1, 3)
        will_abort = r.random() < 0.3
        for _ in range(nblocks):
            if not avail:
                break
            tot = sum(w for _, _, w in avail)
            x = r.random() * tot
            for f, b, w in avail:
                x -= w
                if x < 0:
                    b()
                    break
        if will_abort:
            self.blk_abort()
        if not self.body:
            self.pr("empty")
        self.pr("done")
        text = "".join(d + "\n" for d in self.decls)
        text += "func prog_%s() {\n%s\n}\n" % (self.idx, "\n".join(self.body))
        return text


def gen_program(rng, idx, features=None, size=None):
    """features=None -> clean set; size = number of blocks (None: random 1..3)"""
    feats = CLEAN_FEATURES if features is None else features
    g = _Gen(rng, idx, feats, size)
    text = g.build()
    return {"id": idx, "go_funcs": text, "features": sorted(g.used)}


def from_template(text, idx):
    """hand-written snippet: '@' marks the suffix position, entry is `func prog@()`"""
    return {"id": idx, "go_funcs": text.replace("@", "_%s" % idx), "features": []}


# --------------------------------------------------------------------------
# sources
# --------------------------------------------------------------------------
def ego_source(p):
    body = re.sub(r"\bprog_%s\b" % re.escape(str(p["id"])), "main", p["go_funcs"])
    return 'package main\n\nimport "fmt"\n\n' + body.rstrip("\n") + "\n"


def go_batch_source(progs):
    out = ['package main\n\nimport (\n\t"fmt"\n\t"os"\n)\n']
    for p in progs:
        out.append("// ---- program %s\n" % p["id"])
        out.append(p["go_funcs"].rstrip("\n") + "\n")
    out.append('func main() {\n\tif len(os.Args) < 2 {\n\t\tfmt.Println("usage: batch ID")\n\t\tos.Exit(3)\n\t}\n\tswitch os.Args[1] {')
    for p in progs:
        out.append('\tcase "%s":\n\t\tprog_%s()' % (p["id"], p["id"]))
    out.append('\tdefault:\n\t\tfmt.Println("unknown program")\n\t\tos.Exit(3)\n\t}\n}\n')
    return "\n".join(out)


# --------------------------------------------------------------------------
# runner
# --------------------------------------------------------------------------
def _first_error_line(text):
    for ln in text.splitlines():
        if ln.startswith("Error:"):
            return ln
    return ""


def strip_panic_trace(out):
    """ego writes `panic: <msg>\\nCall frames:\\n  at: ...` to STDOUT for an unhandled
    panic() (Go writes its trace to stderr).  Remove that trailing diagnostic block."""
    i = out.rfind("panic: ")
    while i > 0 and out[i - 1] != "\n":
        i = out.rfind("panic: ", 0, i)
    if i < 0:
        return out
    tail = out[i:]
    nl = tail.find("\n")
    if nl >= 0 and tail[nl + 1:].startswith("Call frames:"):
        return out[:i]
    return out


def run_batch(progs, workdir, ego="/verif/.build/bin/ego", ego_args=(), go_timeout=600, run_timeout=20,
              jobs=4, strip_trace=True, go_bin=None):
    """Build all programs into one Go binary, run it and ego once per program.
    go_bin: reuse an already built batch binary (same progs) instead of rebuilding."""
    workdir = os.path.abspath(workdir)
    gosrc, egosrc = os.path.join(workdir, "go"), os.path.join(workdir, "ego")
    home, tmp = os.path.join(workdir, "home"), os.path.join(workdir, "tmp")
    for d in (gosrc, egosrc, home, tmp):
        os.makedirs(d, exist_ok=True)
    binp = go_bin or os.path.join(workdir, "batch.bin")
    if not go_bin:
        with open(os.path.join(gosrc, "go.mod"), "w") as f:
            f.write("module difft\n\ngo 1.26\n")
        with open(os.path.join(gosrc, "main.go"), "w") as f:
            f.write(go_batch_source(progs))
        env = dict(os.environ)
        env.update({"GOFLAGS": "-mod=mod", "GOPROXY": "off"})
        env.pop("GOSUMDB", None)
        env.pop("GOTOOLCHAIN", None)
        try:
            r = subprocess.run(["go", "build", "-o", binp, "."], cwd=gosrc, env=env,
                               stdout=subprocess.PIPE, stderr=subprocess.STDOUT, timeout=go_timeout)
        except subprocess.TimeoutExpired:
            raise RuntimeError("go build timed out after %ss" % go_timeout)
        if r.returncode != 0:
            raise RuntimeError("go build failed:\n" + r.stdout.decode("utf-8", "replace"))
    # one private HOME/TMPDIR per worker thread: concurrent ego processes sharing a TMPDIR race on creating ego-system.db
    import threading
    _envs, _elock = {}, threading.Lock()

    def _env_for_thread():
        tid = threading.get_ident()
        with _elock:
            if tid not in _envs:
                h, t = os.path.join(workdir, "home%d" % len(_envs)), os.path.join(workdir, "tmp%d" % len(_envs))
                os.makedirs(h, exist_ok=True)
                os.makedirs(t, exist_ok=True)
                e = dict(os.environ)
                e.update({"HOME": h, "TMPDIR": t, "EGO_PATH": os.path.dirname(os.path.abspath(ego))})
                _envs[tid] = (e, t)
            return _envs[tid]

    def one(p):
        eenv, tmp = _env_for_thread()
        pid = str(p["id"])
        res = {"id": p["id"]}
        try:
            g = subprocess.run([binp, pid], stdout=subprocess.PIPE, stderr=subprocess.PIPE, timeout=run_timeout)
            res["go_out"] = g.stdout.decode("utf-8", "replace")
            res["go_abort"] = g.returncode != 0
            res["go_err"] = g.stderr.decode("utf-8", "replace").split("\n")[0][:300]
        except subprocess.TimeoutExpired:
            res.update(go_out="", go_abort=True, go_err="TIMEOUT")
        src = os.path.join(egosrc, "p%s.ego" % pid)
        with open(src, "w") as f:
            f.write(ego_source(p))
        try:
            e = subprocess.run([ego, "run"] + list(ego_args) + [src], stdout=subprocess.PIPE,
                               stderr=subprocess.PIPE, timeout=run_timeout, env=eenv, cwd=tmp)
            so = e.stdout.decode("utf-8", "replace")
            se = e.stderr.decode("utf-8", "replace")
            errline = _first_error_line(se)
            if not errline:
                errline = _first_error_line(so)
                if errline:  # Error: line on stdout is a diagnostic, not program output
                    so = "".join(l for l in so.splitlines(True) if not l.startswith("Error:"))
            res["ego_out_raw"] = so
            abort = e.returncode != 0 or bool(errline)
            if abort and strip_trace:
                so = strip_panic_trace(so)
            res["ego_out"] = so
            res["ego_abort"] = abort
            res["ego_rc"] = e.returncode
            res["ego_err"] = errline or (se.strip()[:300] if e.returncode != 0 else "")
        except subprocess.TimeoutExpired:
            res.update(ego_out="", ego_out_raw="", ego_abort=True, ego_rc=-1, ego_err="TIMEOUT")
        res["agree"] = (res["go_out"] == res["ego_out"]) and (res["go_abort"] == res["ego_abort"])
        return res

    # warm-up, alone: the first ego process creates ego-system.db beside the binary; concurrent first runs of a freshly
    # built binary race on it ("table dsns already exists")
    if progs:
        one(progs[0])
    with ThreadPoolExecutor(max_workers=jobs) as ex:
        return list(ex.map(one, progs))


def first_diff(r):
    go, eg = r["go_out"].split("\n"), r["ego_out"].split("\n")
    for i in range(max(len(go), len(eg))):
        a = go[i] if i < len(go) else "<eof>"
        b = eg[i] if i < len(eg) else "<eof>"
        if a != b:
            return "line %d: go=%r ego=%r" % (i + 1, a, b)
    return "abort bit: go=%s ego=%s (%s)" % (r["go_abort"], r["ego_abort"], r["ego_err"])


KNOWN_DIVERGENCES = [{'signature': 'dynamic:literal-assign-retypes-sized-int',
  'feature': 'lit_assign',
  'what': 'Under --types dynamic (default, also -o 2) assigning an integer literal to a declared int16/uint32/... variable re-types it to int, so '
          'later arithmetic no longer wraps (strict and relaxed agree with Go).',
  'program': 'package main\n\nimport "fmt"\n\nfunc main() {\n\tvar b int16 = 1\n\tb = 30000\n\tb = b * 3\n\tfmt.Println(b)\n}\n',
  'go': "stdout='24464\\n' abort=False",
  'ego': "stdout='90000\\n' abort=False ",
  'ego_args': []},
 {'signature': 'uint64-literal-above-maxint64',
  'feature': 'uint64_big_literal',
  'what': 'An integer literal above MaxInt64 is read as a float and lands in a uint64 as 9223372036854775808 (all type modes).',
  'program': 'package main\n\nimport "fmt"\n\nfunc main() {\n\tvar e uint64 = 18446744073709551615\n\tfmt.Println(e)\n}\n',
  'go': "stdout='18446744073709551615\\n' abort=False",
  'ego': "stdout='9223372036854775808\\n' abort=False ",
  'ego_args': []},
 {'signature': 'min-int64-literal-is-float',
  'feature': 'min_int64_literal',
  'what': 'The literal -9223372036854775808 is a negated float; it is only repaired by a typed var declaration, in a struct field or an expression '
          'it stays a float.',
  'program': 'package main\n'
             '\n'
             'import "fmt"\n'
             '\n'
             'type S_kd struct {\n'
             '\tC int64\n'
             '}\n'
             '\n'
             'func main() {\n'
             '\ts := S_kd{C: -9223372036854775808}\n'
             '\tfmt.Println(s.C)\n'
             '}\n',
  'go': "stdout='-9223372036854775808\\n' abort=False",
  'ego': "stdout='' abort=True TIMEOUT",
  'ego_args': []},
 {'signature': 'map-literal-sized-int-value-rejected',
  'feature': 'map_sized_literal',
  'what': "A map literal whose value type is a sized integer rejects untyped constant values with 'wrong map value type'.",
  'program': 'package main\n\nimport "fmt"\n\nfunc main() {\n\tm := map[string]uint8{"a": 250}\n\tv, ok := m["a"]\n\tfmt.Println(v, ok)\n}\n',
  'go': "stdout='250 true\\n' abort=False",
  'ego': "stdout='' abort=True Error: wrong map value type: 250",
  'ego_args': []},
 {'signature': 'map-two-value-missing-key-yields-nil',
  'feature': 'map_missing_value',
  'what': 'v, ok := m[missing] gives v = <nil> instead of the zero value of the element type.',
  'program': 'package main\n\nimport "fmt"\n\nfunc main() {\n\tm := map[string]int{"a": 1}\n\tv, ok := m["zz"]\n\tfmt.Println(v, ok)\n}\n',
  'go': "stdout='0 false\\n' abort=False",
  'ego': "stdout='<nil> false\\n' abort=False ",
  'ego_args': []},
 {'signature': 'runtime-error-skips-pending-defers',
  'feature': 'defer_runtime_abort',
  'what': 'When a runtime error (division by zero, index out of range) aborts the program, pending deferred calls are not run; Go runs them (their '
          'output is on stdout) before aborting.',
  'program': 'package main\n'
             '\n'
             'import "fmt"\n'
             '\n'
             'func f_kd() {\n'
             '\tdefer fmt.Println("deferred in f")\n'
             '\tz := 0\n'
             '\tfmt.Println(1 / z)\n'
             '}\n'
             '\n'
             'func main() {\n'
             '\tdefer fmt.Println("deferred in main")\n'
             '\tfmt.Println("start")\n'
             '\tf_kd()\n'
             '}\n',
  'go': "stdout='start\\ndeferred in f\\ndeferred in main\\n' abort=True",
  'ego': "stdout='start\\n' abort=True Error: at f_kd5(line 8), division by zero",
  'ego_args': []},
 {'signature': 'panic-in-deferred-func-not-recoverable',
  'feature': 'repanic',
  'what': "A panic raised inside a deferred function (after recovering the first one) cannot be recovered by the caller's deferred recover(); ego "
          "aborts with 'unhandled panic'.",
  'program': 'package main\n'
             '\n'
             'import "fmt"\n'
             '\n'
             'func g_kd() {\n'
             '\tdefer func() {\n'
             '\t\tfmt.Println("got", recover())\n'
             '\t\tpanic("again")\n'
             '\t}()\n'
             '\tpanic("first")\n'
             '}\n'
             '\n'
             'func h_kd() {\n'
             '\tdefer func() {\n'
             '\t\tfmt.Println("h rec", recover())\n'
             '\t}()\n'
             '\tg_kd()\n'
             '}\n'
             '\n'
             'func main() {\n'
             '\th_kd()\n'
             '\tfmt.Println("done")\n'
             '}\n',
  'go': "stdout='got first\\nh rec again\\ndone\\n' abort=False",
  'ego': "stdout='got first\\npanic: again\\nCall frames:\\n  at: defer g_kd6:6     0  (block 4)\\n' abort=True Error: unhandled panic: again",
  'ego_args': []},
 {'signature': 'subslice-is-a-copy',
  'feature': 'slice_alias',
  'what': 's[i:j] copies: a write through the sub-slice is not visible in the parent slice (and vice versa).',
  'program': 'package main\n\nimport "fmt"\n\nfunc main() {\n\ts := []int{1, 2, 3, 4}\n\tt := s[1:3]\n\tt[0] = 99\n\tfmt.Println(s[1], t[0])\n}\n',
  'go': "stdout='99 99\\n' abort=False",
  'ego': "stdout='2 99\\n' abort=False ",
  'ego_args': []},
 {'signature': 'struct-stored-in-slice-is-aliased',
  'feature': 'struct_slice_copy',
  'what': 'A struct variable placed in a slice (literal or append) is stored by reference: mutating the element mutates the variable.',
  'program': 'package main\n'
             '\n'
             'import "fmt"\n'
             '\n'
             'type S_kd struct {\n'
             '\tC int\n'
             '}\n'
             '\n'
             'func main() {\n'
             '\tw := S_kd{C: 5}\n'
             '\tarr := []S_kd{S_kd{C: 1}, w}\n'
             '\tarr[1].C = 7\n'
             '\tfmt.Println(w.C, arr[1].C)\n'
             '}\n',
  'go': "stdout='5 7\\n' abort=False",
  'ego': "stdout='7 7\\n' abort=False ",
  'ego_args': []},
 {'signature': 'variadic-sized-int-literal-args-not-coerced',
  'feature': 'sized_literal_args',
  'what': 'Untyped constants passed to a `...uint8` variadic parameter stay int inside the callee, so arithmetic on them does not wrap (a fixed '
          'parameter `x int8` is coerced correctly).',
  'program': 'package main\n'
             '\n'
             'import "fmt"\n'
             '\n'
             'func v_kd(xs ...uint8) {\n'
             '\tvar t uint8\n'
             '\tfor _, x := range xs {\n'
             '\t\tt += x\n'
             '\t}\n'
             '\tfmt.Println(t)\n'
             '}\n'
             '\n'
             'func main() {\n'
             '\tv_kd(200, 100)\n'
             '}\n',
  'go': "stdout='44\\n' abort=False",
  'ego': "stdout='300\\n' abort=False ",
  'ego_args': []},
 {'signature': 'grouped-named-results-rejected',
  'feature': 'named_results_grouped',
  'what': "A result list that groups names under one type, `(x, y int)`, is a compile error 'invalid return type list' (`(x int, y int)` works).",
  'program': 'package main\n'
             '\n'
             'import "fmt"\n'
             '\n'
             'func sw_kd(a int, b int) (x, y int) {\n'
             '\tx = b\n'
             '\ty = a\n'
             '\treturn\n'
             '}\n'
             '\n'
             'func main() {\n'
             '\tp, q := sw_kd(1, 2)\n'
             '\tfmt.Println(p, q)\n'
             '}\n',
  'go': "stdout='2 1\\n' abort=False",
  'ego': "stdout='' abort=True Error: at line 5:29, invalid return type list",
  'ego_args': []},
 {'signature': 'cli:unhandled-panic-trace-on-stdout',
  'feature': 'panic_abort',
  'what': 'For an unrecovered panic("text") ego writes `panic: text`, `Call frames:` and the frame list to STDOUT (Go writes its trace to stderr); '
          'run_batch strips that trailing block (strip_trace=True) before comparing, raw text is kept in ego_out_raw. Abort bit and prior output '
          'agree.',
  'program': 'package main\n\nimport "fmt"\n\nfunc main() {\n\tfmt.Println("a")\n\tpanic("bad thing")\n}\n',
  'go': "stdout='a\\n' abort=True",
  'ego': "stdout='a\\npanic: bad thing\\nCall frames:\\n  at: main <file>  10  (file <file>\\n' abort=True Error: unhandled panic: bad thing",
  'ego_args': []},
 {'signature': 'strict:struct-field-op-literal-rejected',
  'feature': 'structs',
  'what': '--types strict only: arithmetic between a sized-int struct field and an untyped constant (s.A += 100, m.N * 3) is a runtime type error; '
          'the same on a plain variable works.',
  'program': 'package main\n'
             '\n'
             'import "fmt"\n'
             '\n'
             'type S_kd struct {\n'
             '\tA int8\n'
             '}\n'
             '\n'
             'func main() {\n'
             '\ts := S_kd{A: 100}\n'
             '\ts.A += 100\n'
             '\tfmt.Println(s.A)\n'
             '}\n',
  'go': "stdout='-56\\n' abort=False",
  'ego': "stdout='' abort=True Error: at main(line 11), invalid or unsupported data type for this operation: int",
  'ego_args': ['--types', 'strict']},
 {'signature': 'strict:method-field-times-literal-type-mismatch',
  'feature': 'methods',
  'what': "--types strict only: `return m.N * 3` with N uint16 fails with 'type mismatch: int, uint16'.",
  'program': 'package main\n'
             '\n'
             'import "fmt"\n'
             '\n'
             'type M_kd struct {\n'
             '\tN uint16\n'
             '}\n'
             '\n'
             'func (m M_kd) Peek() uint16 {\n'
             '\treturn m.N * 3\n'
             '}\n'
             '\n'
             'func main() {\n'
             '\tm := M_kd{N: 40000}\n'
             '\tfmt.Println(m.Peek())\n'
             '}\n',
  'go': "stdout='54464\\n' abort=False",
  'ego': "stdout='' abort=True Error: at Peek(line 10), type mismatch: int, uint16",
  'ego_args': ['--types', 'strict']},
 {'signature': 'strict:literal-above-int32-is-int64',
  'feature': 'slices',
  'what': '--types strict only: an integer literal that does not fit int32 is typed int64 and is rejected where another type is expected '
          "([]uint32{2147483648} -> 'wrong array value type: int64'; a large literal passed to `...int` then `x * int(i)` -> 'type mismatch: int64, "
          "int').",
  'program': 'package main\n\nimport "fmt"\n\nfunc main() {\n\txs := []uint32{2147483648, 1}\n\tfmt.Println(xs[0], xs[1])\n}\n',
  'go': "stdout='2147483648 1\\n' abort=False",
  'ego': "stdout='' abort=True Error: at main(line 6), wrong array value type: int",
  'ego_args': ['--types', 'strict']}]


def known_as_progs():
    """KNOWN_DIVERGENCES as batch programs (ids kd0..): [(entry, prog)]"""
    out = []
    for i, e in enumerate(KNOWN_DIVERGENCES):
        pid = "kd%d" % i
        body = e["program"].split('import "fmt"\n', 1)[1].lstrip("\n")
        body = body.replace("_kd", "_" + pid).replace("func main()", "func prog_%s()" % pid)
        out.append((e, {"id": pid, "go_funcs": body, "features": [e["feature"]]}))
    return out


def check_known(workdir, ego="/verif/.build/bin/ego"):
    """re-run every KNOWN_DIVERGENCES program; returns [(signature, still_diverges, result)]"""
    pairs = known_as_progs()
    progs = [p for _, p in pairs]
    res = run_batch(progs, workdir, ego=ego, strip_trace=False)
    gobin = os.path.join(os.path.abspath(workdir), "batch.bin")
    out = []
    for (e, p), r in zip(pairs, res):
        if e["ego_args"]:
            r = run_batch([p], workdir, ego=ego, ego_args=e["ego_args"], strip_trace=False, go_bin=gobin)[0]
        out.append((e["signature"], not r["agree"], r))
    return out


def _main(argv):
    import random
    import tempfile
    if len(argv) > 1 and argv[1] == "known":
        for sig, div, r in check_known(os.environ.get("GOSUB_WORKDIR") or tempfile.mkdtemp(prefix="gosub_wide_")):
            print("%-50s %s go=%r/%s ego=%r/%s %s" % (sig, "DIVERGES" if div else "agrees", r["go_out"], r["go_abort"],
                                                   r["ego_out"], r["ego_abort"], r["ego_err"]))
        return 0
    seed = int(argv[1]) if len(argv) > 1 else 1
    n = int(argv[2]) if len(argv) > 2 else 20
    feats = None
    ego_args = []
    rest = argv[3:]
    while rest:
        a = rest.pop(0)
        if a == "--features":
            v = rest.pop(0)
            # "all" | "+a,b" (clean set plus a,b) | "a,b" (exactly a,b)
            if v == "all":
                feats = list(FEATURES)
            else:
                feats = [x for x in v.lstrip("+").split(",") if x]
                if v.startswith("+"):
                    feats = CLEAN_FEATURES + feats
        else:
            ego_args.append(a)
    rng = random.Random(seed)
    progs = [gen_program(rng, i, feats) for i in range(n)]
    wd = os.environ.get("GOSUB_WORKDIR") or tempfile.mkdtemp(prefix="gosub_wide_")
    res = run_batch(progs, wd, ego_args=ego_args)
    bad = [r for r in res if not r["agree"]]
    print("seed=%d programs=%d agree=%d disagree=%d ids=%s go_aborts=%d ego_args=%s workdir=%s" % (
        seed, n, n - len(bad), len(bad), [r["id"] for r in bad], sum(r["go_abort"] for r in res), ego_args, wd))
    if bad:
        r = bad[0]
        p = [q for q in progs if q["id"] == r["id"]][0]
        print("---- first disagreement: program %s features=%s" % (r["id"], p["features"]))
        print(first_diff(r))
        print("ego_err:", r["ego_err"])
        print(ego_source(p))
    if os.environ.get("GOSUB_VERBOSE"):
        for r in bad[1:]:
            p = [q for q in progs if q["id"] == r["id"]][0]
            print("---- program %s features=%s\n%s\nego_err: %s" % (r["id"], p["features"], first_diff(r), r["ego_err"]))
    return 1 if bad else 0


if __name__ == "__main__":
    sys.exit(_main(sys.argv))
