From Coq Require Import ZArith NArith List Bool Lia.
Import ListNotations.
From VM Require Import Model.
From Diag Require Import Model.
Open Scope nat_scope.

Lemma run_with_project : forall ev (obs : ctx -> instr -> list ev) fuel p g c log,
  project ev (run_with ev obs fuel p g c log) = run fuel p g c.
Proof.
  intros ev obs fuel. induction fuel as [|f IH]; intros p g c log; [reflexivity|].
  cbn [run_with run]. destruct (negb (c_running c)); [reflexivity|].
  destruct (nth_error (code_of p (c_code c)) (c_pc c)) as [i|]; [|reflexivity].
  destruct (step _ p g c i) as [[[g1 c1] e] b]. destruct b; [reflexivity|]. apply IH.
Qed.

(* the log only grows: the observer can not retract what the program's run already produced either *)
Lemma run_with_log_prefix : forall ev (obs : ctx -> instr -> list ev) fuel p g c log,
  exists more, snd (run_with ev obs fuel p g c log) = log ++ more.
Proof.
  intros ev obs fuel. induction fuel as [|f IH]; intros p g c log.
  - exists []. cbn. rewrite app_nil_r. reflexivity.
  - cbn [run_with]. destruct (negb (c_running c)); [exists []; cbn; rewrite app_nil_r; reflexivity|].
    destruct (nth_error (code_of p (c_code c)) (c_pc c)) as [i|]; [|exists []; cbn; rewrite app_nil_r; reflexivity].
    destruct (step _ p g c i) as [[[g1 c1] e] b]. destruct b.
    + exists (obs c i). reflexivity.
    + destruct (IH p g1 c1 (log ++ obs c i)) as [m Hm]. exists (obs c i ++ m). rewrite Hm, app_assoc. reflexivity.
Qed.

(* the repaired catch layer never touches the debugger signal *)
Lemma signal_passes : forall c, handle_catch c (Some ESignalDebugger) = (c, Some ESignalDebugger).
Proof. intros c. reflexivity. Qed.

(* a debugger stop at a line: the only difference from the plain run of that instruction is the signal *)
Lemma atline_debug_stop : forall fuel p g c n,
  c_running c = true -> c_debug c = true -> n <> 0%Z ->
  nth_error (code_of p (c_code c)) (c_pc c) = Some (IAtLine n) ->
  run (S fuel) p g c = (g, set_pc c (S (c_pc c)), Finished (Some ESignalDebugger)).
Proof.
  intros fuel p g c n Hr Hd Hn Hi. cbn [run]. rewrite Hr. cbn [negb]. rewrite Hi.
  unfold step. cbn [exec]. cbn [set_pc c_debug]. rewrite Hd.
  apply Z.eqb_neq in Hn. rewrite Hn. cbn [negb andb]. rewrite signal_passes. reflexivity.
Qed.

Lemma atline_plain : forall fuel p g c n,
  c_running c = true -> c_debug c = false ->
  nth_error (code_of p (c_code c)) (c_pc c) = Some (IAtLine n) ->
  run (S fuel) p g c = run fuel p g (set_pc c (S (c_pc c))).
Proof.
  intros fuel p g c n Hr Hd Hi. cbn [run]. rewrite Hr. cbn [negb]. rewrite Hi.
  unfold step. cbn [exec]. cbn [set_pc c_debug]. rewrite Hd. cbn [andb]. reflexivity.
Qed.

(* resuming after the stop continues from exactly the state the plain run continues from (up to the flag) *)
Lemma debug_stop_resumes : forall stops fuel p g c n,
  c_running c = true -> c_debug c = true -> n <> 0%Z ->
  nth_error (code_of p (c_code c)) (c_pc c) = Some (IAtLine n) ->
  debug_loop (S stops) (S fuel) p g c = debug_loop stops (S fuel) p g (set_pc c (S (c_pc c))) /\
  run (S fuel) p g (set_debug c false) = run fuel p g (set_debug (set_pc c (S (c_pc c))) false).
Proof.
  intros stops fuel p g c n Hr Hd Hn Hi. split.
  - cbn [debug_loop]. rewrite (atline_debug_stop fuel p g c n Hr Hd Hn Hi).
    f_equal. destruct c; cbn in *; subst; reflexivity.
  - rewrite (atline_plain fuel p g (set_debug c false) n); auto.
Qed.

(* the code before the repair: inside an active try the signal was caught *)
Definition old_ctx : ctx :=
  {| c_code := CUnit 0; c_pc := 2; c_stack := [ItM L_try]; c_fp := 0; c_syms := 0; c_trys := [5]; c_defers := [];
     c_running := true; c_panic := None; c_result := None; c_dsyms := None; c_debug := true |}.
Definition old_prog : program :=
  [{| u_lit := false; u_nret := 0;
      u_code := [ITry 5; IPushMark L_try; IAtLine 3; IPushV (VInt 2); IPrint 1; IAtLine 4; IPushV (VInt 4); IPrint 1] |}].

Lemma old_signal_caught :
  step_old (fun g _ => (g, None)) old_prog init_glob old_ctx (IAtLine 3)
  = (init_glob, set_trys (set_stack (set_pc old_ctx 5) []) [0], None).
Proof. vm_compute. reflexivity. Qed.
