(* RateLimit/Proofs.v — lemmas for C24. *)
From RateLimit Require Import Model.
From Coq Require Import ZifyBool.
Open Scope Z_scope.

(* ------------------------------------------------------------------ strings and maps *)
Lemma str_eqb_spec a b : reflect (a = b) (str_eqb a b).
Proof. destruct (str_eqb a b) eqn:E; constructor.
  - apply str_eqb_eq; exact E.
  - intros H. apply str_eqb_eq in H. congruence. Qed.

Lemma str_eqb_refl a : str_eqb a a = true.
Proof. apply str_eqb_eq; reflexivity. Qed.

Lemma str_eqb_neq a b : a <> b -> str_eqb a b = false.
Proof. intros H. destruct (str_eqb_spec a b); congruence. Qed.

Lemma get_remove_eq u m : get u (remove u m) = None.
Proof. induction m as [|[k r] m IH]; cbn; [reflexivity|].
  destruct (str_eqb_spec k u); cbn; [exact IH|].
  rewrite str_eqb_neq by assumption. exact IH. Qed.

Lemma get_remove_ne u v m : u <> v -> get v (remove u m) = get v m.
Proof. intros Hne. induction m as [|[k r] m IH]; cbn; [reflexivity|].
  destruct (str_eqb_spec k u); cbn.
  - subst k. rewrite str_eqb_neq by assumption. exact IH.
  - destruct (str_eqb k v); [reflexivity|exact IH]. Qed.

Lemma get_set_eq u r m : get u (set u r m) = Some r.
Proof. unfold set; cbn. rewrite str_eqb_refl. reflexivity. Qed.

Lemma get_set_ne u v r m : u <> v -> get v (set u r m) = get v m.
Proof. intros Hne. unfold set; cbn. rewrite str_eqb_neq by assumption. apply get_remove_ne; assumption. Qed.

Lemma mem_map_fst v m : mem v (map fst m) = match get v m with Some _ => true | None => false end.
Proof. induction m as [|[k r] m IH]; cbn; [reflexivity|].
  destruct (str_eqb k v); cbn; [reflexivity|exact IH]. Qed.

Lemma mem_filter (P : str -> bool) v l : mem v (filter P l) = mem v l && P v.
Proof. induction l as [|k l IH]; cbn; [reflexivity|].
  destruct (str_eqb_spec k v) as [->|Hne]; cbn.
  - destruct (P v) eqn:E; cbn; [rewrite str_eqb_refl; reflexivity|].
    rewrite IH. apply andb_false_r.
  - destruct (P k); cbn; [rewrite str_eqb_neq by assumption; cbn|]; exact IH. Qed.

Lemma mem_dropped c s v :
  mem v (prune_dropped c s) = match get v (tbl s) with Some r => stale c (now s) r | None => false end.
Proof. unfold prune_dropped. rewrite mem_filter, mem_map_fst. destruct (get v (tbl s)); reflexivity. Qed.

Lemma get_fold_remove v l : forall m,
  get v (fold_left (fun m u => remove u m) l m) = if mem v l then None else get v m.
Proof. induction l as [|k l IH]; intros m; cbn [fold_left mem]; [reflexivity|].
  rewrite IH. destruct (str_eqb_spec k v) as [->|Hne]; cbn.
  - rewrite get_remove_eq. destruct (mem v l); reflexivity.
  - rewrite get_remove_ne by assumption. reflexivity. Qed.

Lemma get_prune c s v :
  get v (tbl (prune c s)) = if mem v (prune_dropped c s) then None else get v (tbl s).
Proof. unfold prune; cbn [tbl]. apply get_fold_remove. Qed.

(* ------------------------------------------------------------------ runs *)
Lemma run_with_snoc rf c h o :
  run_with rf c (h ++ [o]) =
  (fst (step_with rf c (fst (run_with rf c h)) o),
   (o, snd (step_with rf c (fst (run_with rf c h)) o)) :: snd (run_with rf c h)).
Proof. unfold run_with. rewrite fold_left_app. cbn [fold_left].
  destruct (step_with rf c _ o); reflexivity. Qed.

Lemma run_snoc c h o :
  run c (h ++ [o]) = (fst (step c (fst (run c h)) o), (o, snd (step c (fst (run c h)) o)) :: snd (run c h)).
Proof. apply run_with_snoc. Qed.

Lemma run_app_assoc c h o h2 : run c (h ++ o :: h2) = run c ((h ++ [o]) ++ h2).
Proof. rewrite <- app_assoc. reflexivity. Qed.

Lemma elapsed_ops_snoc h o :
  elapsed_ops (h ++ [o]) = elapsed_ops h + match o with Advance d => Z.max 0 d | _ => 0 end.
Proof. induction h as [|x h IH]; cbn [app elapsed_ops fold_right].
  - destruct o; lia.
  - fold (elapsed_ops (h ++ [o])). fold (elapsed_ops h). rewrite IH. destruct x; lia. Qed.

Lemma elapsed_ops_nonneg h : 0 <= elapsed_ops h.
Proof. induction h as [|x h IH]; cbn [elapsed_ops fold_right]; [lia|]. fold (elapsed_ops h). destruct x; lia. Qed.

Lemma wrong_attempts_snoc h o u :
  wrong_attempts (h ++ [o]) u = wrong_attempts h u + wrong_attempts [o] u.
Proof. induction h as [|x h IH]; cbn [app].
  - cbn. destruct o as [n [|]| |]; try lia; try (destruct (str_eqb (lower n) u); lia).
  - change (wrong_attempts (x :: h ++ [o]) u) with
      (match x with Attempt n false => if str_eqb (lower n) u then 1 + wrong_attempts (h ++ [o]) u else wrong_attempts (h ++ [o]) u | _ => wrong_attempts (h ++ [o]) u end).
    change (wrong_attempts (x :: h) u) with
      (match x with Attempt n false => if str_eqb (lower n) u then 1 + wrong_attempts h u else wrong_attempts h u | _ => wrong_attempts h u end).
    rewrite IH. destruct x as [n [|]| |]; try lia; try (destruct (str_eqb (lower n) u); lia). Qed.

(* ------------------------------------------------------------------ the check *)
Definition cfg_ok (c : cfg) : Prop := 0 < limit c /\ 0 < lock c.

Lemma check_pos_iff c s u : limit c <> 0 ->
  (0 <? check_rate_limit c s u) = match get u (tbl s) with
                                  | Some r => before (now s) (lockedUntil r)
                                  | None => false end.
Proof. intros Hl. unfold check_rate_limit. destruct (Z.eqb_spec (limit c) 0); [contradiction|].
  destruct (get u (tbl s)) as [r|]; [|reflexivity].
  destruct (lockedUntil r) as [lu|]; cbn [before]; [|reflexivity].
  destruct (Z.ltb_spec (now s) lu); [|reflexivity].
  assert (0 <= (lu - now s) / 1000000000) by (apply Z.div_pos; lia). lia. Qed.

Lemma next_outcome_refused c s n g : limit c <> 0 ->
  refused (next_outcome c s n g) = match get (lower n) (tbl s) with
                                   | Some r => before (now s) (lockedUntil r)
                                   | None => false end.
Proof. intros Hl. unfold next_outcome, step, step_with. cbn [snd].
  rewrite <- (check_pos_iff c s (lower n) Hl).
  destruct (0 <? check_rate_limit c s (lower n)) eqn:E; cbn [snd refused]; [exact E|].
  destruct g; reflexivity. Qed.

Lemma next_outcome_cases c s n g :
  (exists r, next_outcome c s n g = OLocked r /\ 0 < r) \/
  (next_outcome c s n g = if g then OAccepted else ORejected).
Proof. unfold next_outcome, step, step_with. cbn [snd].
  destruct (Z.ltb_spec 0 (check_rate_limit c s (lower n))); cbn [snd].
  - left. eexists; split; [reflexivity|assumption].
  - right. destruct g; reflexivity. Qed.

Lemma refused_not_checked x : refused x = true -> checked x = false.
Proof. destruct x; cbn; congruence. Qed.

Lemma next_outcome_checked_or_refused c s n g :
  checked (next_outcome c s n g) = negb (refused (next_outcome c s n g)).
Proof. destruct (next_outcome_cases c s n g) as [[r [E Hr]]|E]; rewrite E; cbn.
  - destruct (Z.ltb_spec 0 r); [reflexivity|lia].
  - destruct g; reflexivity. Qed.

(* ------------------------------------------------------------------ the invariant tying records to the history *)
Definition rec_inv (c : cfg) (s : state) (t : trace) (u : str) : Prop :=
  match get u (tbl s) with
  | None => consecutive_failures t u = 0 /\ since_limit_reached c t u = None
  | Some r => failures r = consecutive_failures t u /\ 1 <= failures r
              /\ lockedUntil r = option_map (fun a => now s - a + lock c) (since_limit_reached c t u)
              /\ since_last_failure t u = Some (now s - lastFailure r)
  end.

Definition inv (c : cfg) (s : state) (t : trace) : Prop := forall u, rec_inv c s t u.

Lemma inv_init c : inv c init [].
Proof. intros u. unfold rec_inv. cbn. split; reflexivity. Qed.

Lemma inv_step c s t o : cfg_ok c -> inv c s t ->
  inv c (fst (step c s o)) ((o, snd (step c s o)) :: t).
Proof.
  intros [Hlim Hlock] Hinv u. pose proof (Hinv u) as Hu. unfold rec_inv in *.
  destruct o as [n g|d|].
  - (* attempt *)
    unfold step, step_with.
    pose proof (check_pos_iff c s (lower n) ltac:(lia)) as Hchk.
    destruct (0 <? check_rate_limit c s (lower n)) eqn:Era; cbn [fst snd].
    + (* refused: nothing changes *)
      cbn [consecutive_failures since_limit_reached since_last_failure]. exact Hu.
    + destruct g; cbn [fst snd].
      * (* accepted *)
        unfold record_success; cbn [tbl now].
        cbn [consecutive_failures since_limit_reached since_last_failure].
        destruct (str_eqb_spec (lower n) u) as [->|Hne].
        -- rewrite get_remove_eq. split; reflexivity.
        -- rewrite get_remove_ne by assumption. exact Hu.
      * (* rejected *)
        unfold record_failure, record_failure_with.
        destruct (Z.eqb_spec (limit c) 0); [lia|]. cbn [tbl now].
        cbn [consecutive_failures since_limit_reached since_last_failure].
        destruct (str_eqb_spec (lower n) u) as [Heq|Hne].
        -- rewrite Heq in *. rewrite get_set_eq. cbn [failures lockedUntil lastFailure].
           destruct (get u (tbl s)) as [r|] eqn:Eg.
           ++ destruct Hu as (Hf & H1 & Hlu & Hlf).
              rewrite <- Hchk. cbn [negb]. rewrite andb_true_r.
              repeat split; try lia.
              ** rewrite Hf. replace (consecutive_failures t u + 1) with (1 + consecutive_failures t u) by lia.
                 destruct (limit c <=? 1 + consecutive_failures t u); cbn [option_map]; [f_equal; lia|exact Hlu].
              ** f_equal; lia.
           ++ destruct Hu as (Hf & Hs). cbn [failures lockedUntil before negb]. rewrite andb_true_r.
              repeat split; try lia.
              ** rewrite Hf. replace (0 + 1) with (1 + 0) by lia.
                 destruct (limit c <=? 1 + 0); cbn [option_map]; [f_equal; lia|rewrite Hs; reflexivity].
              ** f_equal; lia.
        -- rewrite get_set_ne by assumption. exact Hu.
  - (* advance *)
    unfold step, step_with; cbn [fst snd tbl now].
    cbn [consecutive_failures since_limit_reached since_last_failure].
    destruct (get u (tbl s)) as [r|].
    + destruct Hu as (Hf & H1 & Hlu & Hlf). repeat split; try assumption.
      * rewrite Hlu. destruct (since_limit_reached c t u); cbn [option_map]; [f_equal; lia|reflexivity].
      * rewrite Hlf. cbn [option_map]. f_equal; lia.
    + destruct Hu as (Hf & Hs). split; [assumption|]. rewrite Hs. reflexivity.
  - (* prune *)
    unfold step, step_with; cbn [fst snd].
    rewrite get_prune. cbn [consecutive_failures since_limit_reached since_last_failure].
    destruct (mem u (prune_dropped c s)) eqn:Em.
    + split; reflexivity.
    + exact Hu.
Qed.

Lemma inv_run c h : cfg_ok c -> inv c (fst (run c h)) (snd (run c h)).
Proof. intros Hc. induction h as [|o h IH] using rev_ind.
  - apply inv_init.
  - rewrite run_snoc. cbn [fst snd]. apply inv_step; assumption. Qed.

(* ------------------------------------------------------------------ lock status = a statement about the history *)
Lemma refused_iff_state c s t n g : cfg_ok c -> inv c s t ->
  refused (next_outcome c s n g) = true <->
  exists a, since_limit_reached c t (lower n) = Some a /\ a < lock c.
Proof.
  intros [Hlim Hlock] Hinv. rewrite next_outcome_refused by lia.
  pose proof (Hinv (lower n)) as Hu. unfold rec_inv in Hu.
  destruct (get (lower n) (tbl s)) as [r|].
  - destruct Hu as (_ & _ & Hlu & _). rewrite Hlu.
    destruct (since_limit_reached c t (lower n)) as [a|]; cbn [option_map before].
    + split.
      * intros H. exists a. split; [reflexivity|lia].
      * intros [a' [E Ha]]. injection E as <-. lia.
    + split; [discriminate|]. intros [a' [E _]]. discriminate.
  - destruct Hu as (_ & Hs). rewrite Hs. split; [discriminate|]. intros [a' [E _]]. discriminate.
Qed.

Lemma refused_iff c h n g : cfg_ok c ->
  refused (next_outcome c (fst (run c h)) n g) = true <->
  exists a, since_limit_reached c (snd (run c h)) (lower n) = Some a /\ a < lock c.
Proof. intros Hc. apply refused_iff_state; [assumption|apply inv_run; assumption]. Qed.

Lemma slr_some_cf c t u a : since_limit_reached c t u = Some a -> limit c <= consecutive_failures t u.
Proof.
  revert a. induction t as [|[o x] t IH]; intros a; cbn [since_limit_reached consecutive_failures]; [discriminate|].
  destruct o as [n g|d|].
  - destruct x; try (apply IH).
    + destruct (str_eqb (lower n) u); [discriminate|apply IH].
    + destruct (str_eqb (lower n) u); [|apply IH].
      destruct (Z.leb_spec (limit c) (1 + consecutive_failures t u)) as [Hle|Hgt]; [intros _; lia|].
      intros Hs. apply IH in Hs. lia.
  - destruct (since_limit_reached c t u) as [b|]; cbn [option_map]; [|discriminate].
    intros _. destruct x; apply (IH b); reflexivity.
  - destruct x; try (apply IH). destruct (mem u dropped); [discriminate|apply IH].
Qed.

Lemma cf_nonneg t u : 0 <= consecutive_failures t u.
Proof. induction t as [|[o x] t IH]; cbn [consecutive_failures]; [lia|].
  destruct o as [n g|d|]; destruct x; try assumption.
  - destruct (str_eqb (lower n) u); lia.
  - destruct (str_eqb (lower n) u); lia.
  - destruct (mem u dropped); lia. Qed.

(* consecutive failures cannot grow faster than wrong passwords are tried *)
Lemma cf_growth c h1 h2 u :
  consecutive_failures (snd (run c (h1 ++ h2))) u <= consecutive_failures (snd (run c h1)) u + wrong_attempts h2 u.
Proof.
  induction h2 as [|o h2 IH] using rev_ind.
  - rewrite app_nil_r. cbn. lia.
  - rewrite app_assoc, run_snoc, wrong_attempts_snoc. cbn [snd].
    set (s := fst (run c (h1 ++ h2))) in *. set (t := snd (run c (h1 ++ h2))) in *.
    pose proof (cf_nonneg t u) as Hnn.
    destruct o as [n g|d|].
    + destruct (next_outcome_cases c s n g) as [[r [E _]]|E]; unfold next_outcome in E; rewrite E.
      * cbn [consecutive_failures]. assert (0 <= wrong_attempts [Attempt n g] u); [|lia].
        cbn. destruct g; [lia|]. destruct (str_eqb (lower n) u); lia.
      * destruct g; cbn [consecutive_failures wrong_attempts fold_right].
        -- destruct (str_eqb (lower n) u); lia.
        -- destruct (str_eqb (lower n) u); lia.
    + unfold step, step_with; cbn [snd consecutive_failures wrong_attempts fold_right]. lia.
    + unfold step, step_with; cbn [snd consecutive_failures wrong_attempts fold_right].
      destruct (mem u (prune_dropped c s)); lia.
Qed.

(* ------------------------------------------------------------------ theorem bodies *)
(* refused exactly while a limit-reaching failure is younger than the lockout *)
Lemma locked_refused c h n g a : cfg_ok c ->
  since_limit_reached c (snd (run c h)) (lower n) = Some a -> a < lock c ->
  exists r, next_outcome c (fst (run c h)) n g = OLocked r /\ 0 < r
            /\ checked (next_outcome c (fst (run c h)) n g) = false.
Proof.
  intros Hc Hs Ha.
  assert (Hr : refused (next_outcome c (fst (run c h)) n g) = true)
    by (apply refused_iff; [assumption|exists a; split; assumption]).
  destruct (next_outcome_cases c (fst (run c h)) n g) as [[r [E Hr0]]|E].
  - exists r. rewrite E. repeat split; assumption.
  - rewrite E in Hr. destruct g; discriminate.
Qed.

Lemma only_locked_refused c h n g r : cfg_ok c ->
  next_outcome c (fst (run c h)) n g = OLocked r ->
  exists a, since_limit_reached c (snd (run c h)) (lower n) = Some a /\ a < lock c
            /\ limit c <= consecutive_failures (snd (run c h)) (lower n).
Proof.
  intros Hc E.
  destruct (next_outcome_cases c (fst (run c h)) n g) as [[r' [E' Hr']]|E'].
  - assert (Hr : refused (next_outcome c (fst (run c h)) n g) = true).
    { rewrite E'. cbn. lia. }
    apply refused_iff in Hr; [|assumption]. destruct Hr as [a [Hs Ha]].
    exists a. repeat split; try assumption. eapply slr_some_cf; eassumption.
  - rewrite E in E'. destruct g; discriminate.
Qed.

(* the forward, decomposition form: once a rejected attempt brings the count to the limit, every attempt of
   that user during the next [lock] nanoseconds is refused, whatever else happens in between *)
Lemma locks_at_limit c h n : cfg_ok c ->
  snd (step c (fst (run c h)) (Attempt n false)) = ORejected ->
  limit c <= consecutive_failures (snd (run c (h ++ [Attempt n false]))) (lower n) ->
  forall h2, elapsed_ops h2 < lock c ->
    since_limit_reached c (snd (run c ((h ++ [Attempt n false]) ++ h2))) (lower n) = Some (elapsed_ops h2).
Proof.
  intros Hc Hrej Hcf h2. induction h2 as [|o h2 IH] using rev_ind; intros Hel.
  - rewrite app_nil_r. rewrite run_snoc in *. cbn [snd] in *. rewrite Hrej in *.
    cbn [since_limit_reached consecutive_failures] in *. rewrite str_eqb_refl in *.
    destruct (Z.leb_spec (limit c) (1 + consecutive_failures (snd (run c h)) (lower n))); [reflexivity|lia].
  - rewrite elapsed_ops_snoc in *. pose proof (elapsed_ops_nonneg h2) as Hnn.
    assert (Hel2 : elapsed_ops h2 < lock c) by (destruct o; lia).
    specialize (IH Hel2). rewrite app_assoc, run_snoc. cbn [snd].
    set (h' := (h ++ [Attempt n false]) ++ h2) in *.
    destruct o as [m g|d|].
    + destruct (str_eqb_spec (lower m) (lower n)) as [Heq|Hne].
      * destruct (locked_refused c h' m g (elapsed_ops h2) Hc) as [r [E _]]; [rewrite Heq; exact IH|exact Hel2|].
        unfold next_outcome in E. rewrite E. cbn [since_limit_reached]. rewrite IH. f_equal; lia.
      * destruct (next_outcome_cases c (fst (run c h')) m g) as [[r [E _]]|E]; unfold next_outcome in E; rewrite E.
        -- cbn [since_limit_reached]. rewrite IH. f_equal; lia.
        -- destruct g; cbn [since_limit_reached]; rewrite (str_eqb_neq _ _ Hne), IH; f_equal; lia.
    + unfold step, step_with; cbn [snd since_limit_reached]. rewrite IH. cbn [option_map]. f_equal; lia.
    + unfold step, step_with; cbn [snd since_limit_reached].
      destruct (mem (lower n) (prune_dropped c (fst (run c h')))) eqn:Em; [|rewrite IH; f_equal; lia].
      exfalso. rewrite mem_dropped in Em.
      pose proof (inv_run c h' Hc (lower n)) as Hu. unfold rec_inv in Hu.
      destruct (get (lower n) (tbl (fst (run c h')))) as [r|]; [|discriminate].
      destruct Hu as (_ & _ & Hlu & _). rewrite IH in Hlu. cbn [option_map] in Hlu.
      unfold stale in Em. rewrite Hlu in Em. cbn [after] in Em. lia.
Qed.

(* success clears *)
Lemma success_clears c h n : cfg_ok c ->
  snd (step c (fst (run c h)) (Attempt n true)) = OAccepted ->
  get (lower n) (tbl (fst (run c (h ++ [Attempt n true])))) = None
  /\ consecutive_failures (snd (run c (h ++ [Attempt n true]))) (lower n) = 0
  /\ forall h2 m g, lower m = lower n -> wrong_attempts h2 (lower n) < limit c ->
       checked (next_outcome c (fst (run c ((h ++ [Attempt n true]) ++ h2))) m g) = true.
Proof.
  intros Hc Hacc.
  assert (Hcf0 : consecutive_failures (snd (run c (h ++ [Attempt n true]))) (lower n) = 0).
  { rewrite run_snoc. cbn [snd]. rewrite Hacc. cbn [consecutive_failures]. rewrite str_eqb_refl. reflexivity. }
  split; [|split; [exact Hcf0|]].
  - pose proof (inv_run c (h ++ [Attempt n true]) Hc (lower n)) as Hu. unfold rec_inv in Hu.
    destruct (get (lower n) (tbl (fst (run c (h ++ [Attempt n true]))))) as [r|]; [|reflexivity].
    destruct Hu as (Hf & H1 & _). lia.
  - intros h2 m g Hm Hw. rewrite next_outcome_checked_or_refused.
    destruct (refused (next_outcome c (fst (run c ((h ++ [Attempt n true]) ++ h2))) m g)) eqn:Er; [|reflexivity].
    exfalso. apply refused_iff in Er; [|assumption]. destruct Er as [a [Hs _]].
    apply slr_some_cf in Hs. rewrite Hm in Hs.
    pose proof (cf_growth c (h ++ [Attempt n true]) h2 (lower n)). lia.
Qed.

(* limit 0 *)
Lemma limit_zero_never_locks c h n g : limit c = 0 ->
  next_outcome c (fst (run c h)) n g = (if g then OAccepted else ORejected).
Proof. intros H0. unfold next_outcome, step, step_with, check_rate_limit. rewrite H0. cbn. destruct g; reflexivity. Qed.

Lemma limit_zero_no_records c h : limit c = 0 -> tbl (fst (run c h)) = [].
Proof. intros H0. induction h as [|o h IH] using rev_ind; [reflexivity|].
  rewrite run_snoc. cbn [fst]. destruct o as [n g|d|]; unfold step, step_with.
  - unfold check_rate_limit. rewrite H0. cbn [Z.eqb Z.ltb Z.compare fst]. destruct g; cbn [fst].
    + unfold record_success; cbn [tbl]. rewrite IH. reflexivity.
    + unfold record_failure, record_failure_with. rewrite H0. cbn [Z.eqb]. exact IH.
  - cbn [fst tbl]. exact IH.
  - cbn [fst]. unfold prune, prune_dropped. rewrite IH. reflexivity.
Qed.

(* isolation, one step *)
Lemma step_isolated c s n g v : lower n <> v ->
  get v (tbl (fst (step c s (Attempt n g)))) = get v (tbl s) /\ now (fst (step c s (Attempt n g))) = now s.
Proof. intros Hne. unfold step, step_with.
  destruct (0 <? check_rate_limit c s (lower n)); cbn [fst]; [split; reflexivity|].
  destruct g; cbn [fst].
  - unfold record_success; cbn [tbl now]. rewrite get_remove_ne by assumption. split; reflexivity.
  - unfold record_failure, record_failure_with. destruct (limit c =? 0); [split; reflexivity|].
    cbn [tbl now]. rewrite get_set_ne by assumption. split; reflexivity. Qed.

(* isolation, whole histories: what v observes depends only on v's own attempts, the clock and the scans *)
Definition sim (v : str) (s1 s2 : state) : Prop := now s1 = now s2 /\ get v (tbl s1) = get v (tbl s2).

Lemma check_sim c v s1 s2 : sim v s1 s2 -> check_rate_limit c s1 v = check_rate_limit c s2 v.
Proof. intros [Hn Hg]. unfold check_rate_limit. rewrite Hn, Hg. reflexivity. Qed.

Lemma step_sim c v s1 s2 o : sim v s1 s2 -> concerns v o = true ->
  sim v (fst (step c s1 o)) (fst (step c s2 o)) /\
  (forall n g, o = Attempt n g -> snd (step c s1 o) = snd (step c s2 o)).
Proof.
  intros Hs Hc. pose proof Hs as [Hn Hg]. destruct o as [n g|d|]; cbn [concerns] in Hc.
  - apply str_eqb_eq in Hc. unfold step, step_with. rewrite Hc, (check_sim c v s1 s2 Hs).
    destruct (0 <? check_rate_limit c s2 v); cbn [fst snd]; [split; [exact Hs|reflexivity]|].
    destruct g; cbn [fst snd].
    + split; [|reflexivity]. split; cbn [record_success now tbl]; [exact Hn|]. rewrite !get_remove_eq. reflexivity.
    + split; [|reflexivity]. unfold record_failure, record_failure_with.
      destruct (limit c =? 0); [exact Hs|]. split; cbn [now tbl]; [exact Hn|].
      rewrite !get_set_eq, Hn, Hg. reflexivity.
  - split; [|intros; discriminate]. unfold step, step_with; cbn [fst now tbl]. split; cbn [now tbl]; [lia|exact Hg].
  - split; [|intros; discriminate]. unfold step, step_with; cbn [fst]. split; [cbn [prune now]; exact Hn|].
    rewrite !get_prune, !mem_dropped, Hg, Hn. reflexivity.
Qed.

Lemma project_snoc v h o : project v (h ++ [o]) = project v h ++ (if concerns v o then [o] else []).
Proof. unfold project. rewrite filter_app. cbn [filter]. reflexivity. Qed.

Lemma isolation_sim c v h :
  sim v (fst (run c h)) (fst (run c (project v h))) /\
  outcomes_of v (snd (run c h)) = outcomes_of v (snd (run c (project v h))).
Proof.
  induction h as [|o h [IHs IHo]] using rev_ind; [split; [split|]; reflexivity|].
  rewrite project_snoc. destruct (concerns v o) eqn:Ec.
  - rewrite !run_snoc. cbn [fst snd].
    destruct (step_sim c v _ _ o IHs Ec) as [Hs' Ho']. split; [exact Hs'|].
    unfold outcomes_of in *. cbn [filter fst].
    destruct o as [n g|d|]; cbn [concerns] in Ec.
    + rewrite Ec. cbn [map snd]. rewrite (Ho' n g eq_refl). f_equal. exact IHo.
    + exact IHo.
    + exact IHo.
  - rewrite app_nil_r, run_snoc. cbn [fst snd]. destruct o as [n g|d|]; cbn [concerns] in Ec; try discriminate.
    assert (Hne : lower n <> v) by (intros H; apply str_eqb_eq in H; congruence).
    destruct (step_isolated c (fst (run c h)) n g v Hne) as [Hg Hn]. split.
    + destruct IHs as [In Ig]. split; [rewrite Hn; exact In|rewrite Hg; exact Ig].
    + unfold outcomes_of in *. cbn [filter fst]. rewrite Ec. exact IHo.
Qed.

(* pruning *)
Lemma prune_only_stale c h u : cfg_ok c ->
  mem u (prune_dropped c (fst (run c h))) = true ->
  check_rate_limit c (fst (run c h)) u = 0 /\
  exists a, since_last_failure (snd (run c h)) u = Some a /\ 2 * lock c < a.
Proof.
  intros Hc Hm. rewrite mem_dropped in Hm.
  pose proof (inv_run c h Hc u) as Hu. unfold rec_inv in Hu. unfold check_rate_limit.
  destruct (get u (tbl (fst (run c h)))) as [r|]; [|discriminate].
  destruct Hu as (_ & _ & _ & Hlf). unfold stale in Hm. apply andb_true_iff in Hm as [Ha Hl].
  split.
  - destruct (limit c =? 0); [reflexivity|]. destruct (lockedUntil r) as [lu|]; [|reflexivity].
    cbn [after] in Ha. destruct (Z.ltb_spec (now (fst (run c h))) lu); [lia|reflexivity].
  - eexists; split; [exact Hlf|lia].
Qed.

Lemma prune_keeps_locks c s v : check_rate_limit c (prune c s) v = check_rate_limit c s v.
Proof. unfold check_rate_limit. destruct (limit c =? 0); [reflexivity|].
  rewrite get_prune, mem_dropped. change (now (prune c s)) with (now s).
  destruct (get v (tbl s)) as [r|]; [|reflexivity].
  destruct (stale c (now s) r) eqn:Es; [|reflexivity].
  unfold stale in Es. apply andb_true_iff in Es as [Ha _].
  destruct (lockedUntil r) as [lu|]; [|reflexivity]. cbn [after] in Ha.
  destruct (Z.ltb_spec (now s) lu); [lia|reflexivity]. Qed.

(* the record is the history's summary *)
Lemma record_tracks_history c h u : cfg_ok c -> rec_inv c (fst (run c h)) (snd (run c h)) u.
Proof. intros Hc. apply inv_run; assumption. Qed.

(* ------------------------------------------------------------------ the code before the repair *)
Definition alice : str := [97;108;105;99;101]%N.
Definition old_cfg : cfg := {| limit := 2; lock := 60 * 1000000000 |}.
Definition old_history : list op :=
  [Attempt alice false; Attempt alice false; Advance (60 * 1000000000); Attempt alice false].

Lemma old_refuted :
  exists c h n a, cfg_ok c /\
    since_limit_reached c (snd (run_old c h)) (lower n) = Some a /\ a < lock c /\
    checked (snd (step_old c (fst (run_old c h)) (Attempt n false))) = true.
Proof. exists old_cfg, old_history, alice, 0. unfold cfg_ok. vm_compute. repeat split; congruence. Qed.

Lemma locks_at_limit_refused c h n h2 m g : cfg_ok c ->
  snd (step c (fst (run c h)) (Attempt n false)) = ORejected ->
  limit c <= consecutive_failures (snd (run c (h ++ [Attempt n false]))) (lower n) ->
  elapsed_ops h2 < lock c -> lower m = lower n ->
  exists r, next_outcome c (fst (run c ((h ++ [Attempt n false]) ++ h2))) m g = OLocked r /\ 0 < r
            /\ checked (next_outcome c (fst (run c ((h ++ [Attempt n false]) ++ h2))) m g) = false.
Proof.
  intros Hc Hrej Hcf Hel Hm.
  apply (locked_refused c _ m g (elapsed_ops h2) Hc); [|exact Hel].
  rewrite Hm. apply locks_at_limit; assumption.
Qed.

(* after the lockout has passed the user is let through again (until the next failure) *)
Lemma slr_nonneg c t u a : since_limit_reached c t u = Some a -> 0 <= a.
Proof.
  revert a. induction t as [|[o x] t IH]; intros a; cbn [since_limit_reached]; [discriminate|].
  destruct o as [n g|d|].
  - destruct x; try (apply IH).
    + destruct (str_eqb (lower n) u); [discriminate|apply IH].
    + destruct (str_eqb (lower n) u); [|apply IH].
      destruct (limit c <=? 1 + consecutive_failures t u); [|apply IH]. intros E; injection E as <-; lia.
  - destruct (since_limit_reached c t u) as [b|]; cbn [option_map]; [|discriminate].
    intros E; injection E as <-. specialize (IH b eq_refl). lia.
  - destruct x; try (apply IH). destruct (mem u dropped); [discriminate|apply IH].
Qed.

Lemma slr_older_than_slf c t u a : since_limit_reached c t u = Some a ->
  exists b, since_last_failure t u = Some b /\ b <= a.
Proof.
  revert a. induction t as [|[o x] t IH]; intros a; cbn [since_limit_reached since_last_failure]; [discriminate|].
  destruct o as [n g|d|].
  - destruct x; try (apply IH).
    + destruct (str_eqb (lower n) u); [discriminate|apply IH].
    + destruct (str_eqb (lower n) u); [|apply IH].
      intros Hs. exists 0. split; [reflexivity|].
      destruct (limit c <=? 1 + consecutive_failures t u); [injection Hs as <-; lia|].
      eapply slr_nonneg; eassumption.
  - destruct (since_limit_reached c t u) as [b|]; cbn [option_map]; [|discriminate].
    intros E; injection E as <-. destruct (IH b eq_refl) as [b' [E' Hb]]. rewrite E'. cbn [option_map].
    exists (Z.max 0 d + b'). split; [reflexivity|lia].
  - destruct x; try (apply IH). destruct (mem u dropped); [discriminate|apply IH].
Qed.

Lemma slf_after_failure c h n : snd (step c (fst (run c h)) (Attempt n false)) = ORejected ->
  forall h2, wrong_attempts h2 (lower n) = 0 ->
    since_last_failure (snd (run c ((h ++ [Attempt n false]) ++ h2))) (lower n) = Some (elapsed_ops h2).
Proof.
  intros Hrej h2. induction h2 as [|o h2 IH] using rev_ind; intros Hw.
  - rewrite app_nil_r, run_snoc. cbn [snd]. rewrite Hrej. cbn [since_last_failure]. rewrite str_eqb_refl. reflexivity.
  - rewrite wrong_attempts_snoc in Hw. rewrite elapsed_ops_snoc, app_assoc, run_snoc. cbn [snd].
    set (h' := (h ++ [Attempt n false]) ++ h2) in *.
    assert (Hw1 : 0 <= wrong_attempts h2 (lower n)).
    { clear. induction h2 as [|x h2 IH]; [cbn; lia|].
      change (wrong_attempts (x :: h2) (lower n)) with
        (match x with Attempt m false => if str_eqb (lower m) (lower n) then 1 + wrong_attempts h2 (lower n) else wrong_attempts h2 (lower n) | _ => wrong_attempts h2 (lower n) end).
      destruct x as [m [|]| |]; try lia. destruct (str_eqb (lower m) (lower n)); lia. }
    assert (Hw2 : 0 <= wrong_attempts [o] (lower n)).
    { cbn. destruct o as [m [|]| |]; try lia. destruct (str_eqb (lower m) (lower n)); lia. }
    assert (Hw0 : wrong_attempts h2 (lower n) = 0) by lia. specialize (IH Hw0).
    destruct o as [m g|d|].
    + destruct (next_outcome_cases c (fst (run c h')) m g) as [[r [E _]]|E]; unfold next_outcome in E; rewrite E.
      * cbn [since_last_failure]. rewrite IH. f_equal; lia.
      * destruct g; cbn [since_last_failure]; [rewrite IH; f_equal; lia|].
        destruct (str_eqb (lower m) (lower n)) eqn:Em; [|rewrite IH; f_equal; lia].
        exfalso. cbn in Hw. rewrite Em in Hw. lia.
    + unfold step, step_with; cbn [snd since_last_failure]. rewrite IH. cbn [option_map]. f_equal; lia.
    + unfold step, step_with; cbn [snd since_last_failure]. rewrite IH. f_equal; lia.
Qed.

Lemma unlocked_after_lockout c h n h2 m g : cfg_ok c ->
  snd (step c (fst (run c h)) (Attempt n false)) = ORejected ->
  lower m = lower n -> lock c <= elapsed_ops h2 -> wrong_attempts h2 (lower n) = 0 ->
  checked (next_outcome c (fst (run c ((h ++ [Attempt n false]) ++ h2))) m g) = true.
Proof.
  intros Hc Hrej Hm Hel Hw.
  rewrite next_outcome_checked_or_refused.
  destruct (refused (next_outcome c (fst (run c ((h ++ [Attempt n false]) ++ h2))) m g)) eqn:Er; [|reflexivity].
  exfalso. apply refused_iff in Er; [|assumption]. destruct Er as [a [Hs Ha]]. rewrite Hm in Hs.
  apply slr_older_than_slf in Hs. destruct Hs as [b [Hb Hba]].
  rewrite (slf_after_failure c h n Hrej h2 Hw) in Hb. injection Hb as <-. lia.
Qed.
