(* Child/Proofs.v — lemmas for C41. *)
From Child Require Import Model.
Open Scope N_scope.

Lemma json_str_fuel_valid : forall f s, (length s <= f)%nat -> utf8_valid_fuel f s = true -> json_str_fuel f s = s.
Proof.
  induction f as [|f IH]; intros s Hl Hv.
  - destruct s; [reflexivity | cbn in Hl; lia].
  - destruct s as [|b0 r]; [reflexivity|].
    cbn [json_str_fuel utf8_valid_fuel] in *.
    destruct (seq_len (b0 :: r)) as [|n] eqn:E; [discriminate|].
    rewrite IH.
    + apply firstn_skipn.
    + rewrite skipn_length. cbn [length] in *. lia.
    + exact Hv.
Qed.

Lemma json_str_valid s : utf8_valid s = true -> json_str s = s.
Proof. apply json_str_fuel_valid. lia. Qed.

Lemma map_json_valid l : strs_valid l = true -> map json_str l = l.
Proof.
  induction l as [|a l IH]; cbn [map strs_valid forallb]; [reflexivity|]. intros H. apply andb_true_iff in H as [Ha Hl].
  rewrite json_str_valid, IH by assumption. reflexivity.
Qed.

Lemma map_kv_valid (l : list (str * list str)) :
  forallb (fun kv => utf8_valid (fst kv) && strs_valid (snd kv)) l = true ->
  map (fun kv => (json_str (fst kv), map json_str (snd kv))) l = l.
Proof.
  induction l as [|[k v] l IH]; cbn [map forallb fst snd]; [reflexivity|]. intros H.
  apply andb_true_iff in H as [Hkv Hl]. apply andb_true_iff in Hkv as [Hk Hv].
  rewrite json_str_valid, map_json_valid, IH by assumption. reflexivity.
Qed.

Lemma map_parts_valid (l : list (str * uval)) :
  forallb (fun kv => utf8_valid (fst kv) && is_ustr (snd kv) && utf8_valid (ustring (snd kv))) l = true ->
  map (fun kv => (json_str (fst kv), UStr (json_str (ustring (snd kv))))) l = l.
Proof.
  induction l as [|[k v] l IH]; cbn [map forallb fst snd]; [reflexivity|]. intros H.
  apply andb_true_iff in H as [Hkv Hl]. apply andb_true_iff in Hkv as [Hkv Hs].
  apply andb_true_iff in Hkv as [Hk Hu].
  destruct v as [s| |]; cbn in Hu; try discriminate. cbn in Hs. cbn [ustring].
  rewrite !json_str_valid, IH by assumption. reflexivity.
Qed.

Lemma request_roundtrip q : req_representable q = true -> child_view q = inproc_view q.
Proof.
  unfold req_representable. intros H.
  repeat (apply andb_true_iff in H as [H ?]).
  destruct q; unfold child_view, inproc_view, authn_child, authn_inproc; simpl in *.
  rewrite !json_str_valid, map_json_valid, !map_kv_valid, map_parts_valid by assumption.
  reflexivity.
Qed.

Lemma fold_single (l : list (str * list str)) :
  forallb (fun kv => utf8_valid (fst kv) && single (snd kv) && strs_valid (snd kv)) l = true ->
  forall h,
  fold_left (fun h kv => set_vals h (fst kv) [snd kv])
            (map (fun kv => (json_str (fst kv), json_str (join_comma (snd kv)))) l) h
  = fold_left (fun h kv => set_vals h (fst kv) (snd kv)) l h.
Proof.
  induction l as [|[k vs] l IH]; intros H h; cbn [map fold_left]; [reflexivity|].
  cbn [forallb fst snd] in H. apply andb_true_iff in H as [Hkv Hl].
  apply andb_true_iff in Hkv as [Hkv Hvs]. apply andb_true_iff in Hkv as [Hk Hs].
  destruct vs as [|v [|? ?]]; cbn in Hs; try discriminate.
  cbn in Hvs. apply andb_true_iff in Hvs as [Hv _].
  cbn [fst snd join_comma]. rewrite !json_str_valid by assumption. apply IH, Hl.
Qed.

Lemma str_eqb_refl a : str_eqb a a = true.
Proof. apply str_eqb_eq. reflexivity. Qed.

Lemma set_vals_other (k k' : str) x acc vs : str_eqb k' k = false ->
  set_vals ((k, x) :: acc) k' vs = (k, x) :: set_vals acc k' vs.
Proof. intros E. unfold set_vals. destruct vs; cbn [del_key]; rewrite E; reflexivity. Qed.

Lemma set_vals_same (k : str) x acc vs : set_vals ((k, x) :: acc) k vs = set_vals acc k vs.
Proof. unfold set_vals. destruct vs; cbn [del_key]; rewrite str_eqb_refl; reflexivity. Qed.

(* a header present at the start is replaced by the handler's own value for that key *)
Lemma fold_front_key (k : str) x : forall (l : list (str * list str)) acc,
  existsb (fun kv => str_eqb (fst kv) k) l = true ->
  fold_left (fun h kv => set_vals h (fst kv) (snd kv)) l ((k, x) :: acc)
  = fold_left (fun h kv => set_vals h (fst kv) (snd kv)) l acc.
Proof.
  induction l as [|[k' vs] l IH]; intros acc H; cbn [existsb fold_left fst snd] in *; [discriminate|].
  destruct (str_eqb k' k) eqn:E.
  - apply str_eqb_eq in E. subst k'. rewrite set_vals_same. reflexivity.
  - cbn [orb] in H. rewrite set_vals_other by exact E. apply IH, H.
Qed.

Lemma child_headers_keys o :
  forallb (fun kv => utf8_valid (fst kv) && single (snd kv) && strs_valid (snd kv)) (o_headers o) = true ->
  existsb (fun kv => str_eqb (fst kv) ctype) (child_headers o) = existsb (fun kv => str_eqb (fst kv) ctype) (o_headers o).
Proof.
  unfold child_headers. induction (o_headers o) as [|[k vs] l IH]; cbn [map existsb forallb fst snd]; [reflexivity|].
  intros H. apply andb_true_iff in H as [Hkv Hl]. apply andb_true_iff in Hkv as [Hkv _]. apply andb_true_iff in Hkv as [Hk _].
  rewrite json_str_valid by assumption. rewrite IH by assumption. reflexivity.
Qed.

Lemma response_roundtrip o : resp_representable o = true -> child_wire o = inproc_wire o.
Proof.
  unfold resp_representable. intros H.
  repeat (apply andb_true_iff in H as [H ?]).
  unfold child_wire, child_wire_f, inproc_wire. cbn [andb].
  rewrite child_headers_keys by assumption. unfold child_headers.
  rewrite json_str_valid by assumption. rewrite fold_single by assumption.
  destruct (o_json o); cbn [andb negb]; [|reflexivity].
  destruct (existsb (fun kv => str_eqb (fst kv) ctype) (o_headers o)) eqn:E; cbn [negb]; [|reflexivity].
  rewrite fold_front_key by exact E. reflexivity.
Qed.

(* every kind of caller (anonymous, password, accepted token, presented-but-rejected token) is reported alike *)
Lemma authn_agree a b : authn_child a b = authn_inproc a b.
Proof. destruct a, b; reflexivity. Qed.

(* ---- where the trip is not the identity *)
Definition hx : str := [88].
Definition o_multi : outcome := {| o_status := 200; o_headers := [(hx, [[97]; [98]])]; o_body := [111;107]; o_json := false |}.
Definition o_binary : outcome := {| o_status := 200; o_headers := []; o_body := [137;80;78;71;255]; o_json := false |}.
Definition o_json_ct : outcome := {| o_status := 200; o_headers := []; o_body := [123;125]; o_json := true |}.
Definition q_intpart : view :=
  {| v_method := [71;69;84]; v_headers := []; v_params := []; v_parts := [([105;100], UInt 42)]; v_body := [];
     v_user := []; v_admin := false; v_auth := false; v_bearer := false; v_perms := []; v_authn := 0; v_accjson := false; v_acctext := false; v_wjson := false; v_wtext := false |}.

Lemma multi_header_differs : child_wire o_multi <> inproc_wire o_multi.
Proof. vm_compute. discriminate. Qed.
Lemma binary_body_differs : child_wire o_binary <> inproc_wire o_binary.
Proof. vm_compute. discriminate. Qed.
Lemma json_content_type_differs : child_wire_f false o_json_ct <> inproc_wire o_json_ct.
Proof. vm_compute. discriminate. Qed.
Lemma int_part_differs : child_view q_intpart <> inproc_view q_intpart.
Proof. vm_compute. discriminate. Qed.

(* the router's reading of Accept and the literal "application/json" test are different rules *)
Lemma accept_rules_differ :
  exists vals, fst (router_accepts vals false false) = true /\ literal_json vals = false.
Proof. exists [[65;112;112;108;105;99;97;116;105;111;110;47;74;83;79;78]]. vm_compute. auto. Qed.
