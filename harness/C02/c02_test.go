//go:build verif

package bytecode

// Overlaid into /repo/internal/language/bytecode by /verif/check C02.
// Dumps the REAL peephole rule table (the unexported `optimizations` slice) in a line format that
// props/C02.py translates into a Coq term of type Opt.Model.rule:
//   R <quoted description> <disabled 0|1>
//   P <opcode name> <operand>
//   S <opcode name> <operand>          (replacement)
// operand: nil | empty | i:<int> | s:<quoted> | b:<bool> | m:<quoted label>
//   | ph:<quoted name>:<mustString 0|1>:<excludeMarker 0|1>:<operation int>:<register>
//   | l[<operand>;...] | x:<quoted Go type>

import (
	"fmt"
	"os"
	"strconv"
	"strings"
	"testing"
)

func verifC02Operand(v any) string {
	switch x := v.(type) {
	case nil:
		return "nil"
	case empty:
		return "empty"
	case int:
		return "i:" + strconv.Itoa(x)
	case string:
		return "s:" + strconv.Quote(x)
	case bool:
		return "b:" + strconv.FormatBool(x)
	case StackMarker:
		return "m:" + strconv.Quote(x.label)
	case placeholder:
		b2i := func(b bool) string {
			if b {
				return "1"
			}

			return "0"
		}

		return "ph:" + strconv.Quote(x.Name) + ":" + b2i(x.MustBeString) + ":" + b2i(x.ExcludeStackMarker) + ":" +
			strconv.Itoa(int(x.Operation)) + ":" + strconv.Itoa(x.Register)
	case []any:
		parts := make([]string, len(x))
		for k, e := range x {
			parts[k] = verifC02Operand(e)
		}

		return "l[" + strings.Join(parts, ";") + "]"
	default:
		return "x:" + strconv.Quote(fmt.Sprintf("%T", v))
	}
}

func TestVerifC02(t *testing.T) {
	var sb strings.Builder

	for _, o := range optimizations {
		d := 0
		if o.Disable {
			d = 1
		}

		fmt.Fprintf(&sb, "R %s %d\n", strconv.Quote(o.Description), d)

		for _, i := range o.Pattern {
			fmt.Fprintf(&sb, "P %s %s\n", opcodeNames[i.Operation], verifC02Operand(i.Operand))
		}

		for _, i := range o.Replacement {
			fmt.Fprintf(&sb, "S %s %s\n", opcodeNames[i.Operation], verifC02Operand(i.Operand))
		}
	}

	// which opcodes carry an address (optimizer: Operation > BranchInstructions)
	for op, name := range opcodeNames {
		if op > BranchInstructions {
			fmt.Fprintf(&sb, "B %s\n", name)
		}
	}

	fmt.Fprintf(&sb, "C optNothing=%d optStore=%d optRead=%d OptCount=%d optRunConstantFragment=%d\n",
		optNothing, optStore, optRead, OptCount, optRunConstantFragment)

	if err := os.WriteFile(os.Getenv("VERIF_OUT"), []byte(sb.String()), 0o644); err != nil {
		t.Fatal(err)
	}
}
